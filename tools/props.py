"""Per-property case generators, search oracles and C++-only differential checks."""
import copy, itertools, json, os
from fractions import Fraction
from fp import FMTS, parse_tok, isnum
from gen import *
from sxp import dump, parse
import oracles

PROPS = {}
def prop(pid, rule, assumptions):
    def deco(f):
        PROPS[pid] = {'gen': f, 'rule': rule, 'assumptions': assumptions}
        return f
    return deco

COMMON_ASSUMPTIONS = [
    'IEEE-754 conformance of g++/x86-64 arithmetic for float, double and x87 long double (validated bit for bit by every correspondence run)',
    'the correspondence is differential testing: its strength is bounded by the generators (input classes are counted in coverage.input_classes)',
]

class Cases:
    def __init__(self):
        self.cases = []; self.metas = []
    def add(self, t, cmd, args, classes=(), nontrivial=True, **meta):
        m = {'classes': list(classes), 'nontrivial': nontrivial}; m.update(meta)
        self.cases.append((len(self.cases) + 1, t, cmd, args)); self.metas.append(m)
        return len(self.cases)

def generate(pid, rng, tier):
    c = Cases()
    corpus_dir = os.path.join(os.path.dirname(os.path.dirname(os.path.abspath(__file__))), 'corpus', pid)
    if os.path.isdir(corpus_dir):
        for f in sorted(os.listdir(corpus_dir)):
            for line in open(os.path.join(corpus_dir, f)):
                line = line.strip()
                if line.startswith('('):
                    p = parse(line)
                    c.add(p[0], p[1], p[2], classes=['corpus'], corpus=f)
    PROPS[pid]['gen'](c, rng, tier)
    return c.cases, c.metas

def scale(tier, quick, thorough):
    return thorough if tier == 'thorough' else quick

# ------------------------------------------------------------------------------------------------
# run specifications
def spec_run(kind, fmt, *, dims=1, channels=1, seed=0, raw=None, chk=None, f=None, dists=None, fills=None, tables=None,
             wants=0, mp=None, cb=None, trace=0, ops=None, acc=0, pos=0, idx=0, mapdims=None):
    s = [['kind', kind], ['dims', dims], ['channels', channels], ['seed', seed]]
    if mapdims: s.append(['mapdims', mapdims])
    if raw: s.append(['raw', list(raw)])
    if pos: s.append(['pos', pos])
    if idx: s.append(['idx', idx])
    s.append(['chk', chk if chk is not None else default_chk(kind, fmt)])
    s.append(['f', f])
    if dists: s.append(['dists', dists])
    if fills: s.append(['fills', fills])
    if tables: s.append(['tables', tables])
    if wants: s.append(['wants', 1])
    if acc: s.append(['acc', 1])
    if mp is not None: s.append(['map', mp])
    s.append(['cb', cb if cb is not None else ['script', []]])
    if trace: s.append(['trace', 1])
    s.append(['ops', ops])
    return s

def default_chk(kind, fmt, bins=4, alpha=Fraction(3, 2), minw=Fraction(0), beta=Fraction(1, 4)):
    if kind == 'plain': return ['plain']
    if kind == 'vegas': return ['default', bins, fmt.rtok(alpha)]
    return ['default', fmt.rtok(minw), fmt.rtok(beta)]

def rand_chk(rng, kind, fmt, dims, channels, force_user=False):
    if kind == 'plain':
        return ['plain'], ['chk_plain']
    if kind == 'vegas':
        bins = rng.choice([2, 3, 4, 8, 5, 7, 41, 49, 55, 128] if rng.random() < 0.3 else [2, 3, 4, 8])
        alpha = rng.choice([Fraction(0), Fraction(1, 2), Fraction(3, 2), Fraction(3), Fraction(4, 3)])
        if rng.random() < 0.5 and not force_user:
            return ['default', bins, fmt.rtok(alpha)], ['chk_default']
        xs = []
        for d in range(dims):
            xs += rand_grid(rng, fmt, bins, rng.choice(['random', 'peaked', 'uniform']))
        return ['pdf', bins, dims, toks(fmt, xs), fmt.rtok(alpha)], ['chk_user_grid']
    minw = rng.choice([Fraction(0), Fraction(1, 100), Fraction(1, 4 * channels), Fraction(1, 3000)])
    beta = rng.choice([Fraction(1, 4), Fraction(1, 2), Fraction(1), Fraction(1, 3)])
    if rng.random() < 0.5 and not force_user:
        return ['default', fmt.rtok(minw), fmt.rtok(beta)], ['chk_default']
    ws = rand_weights(rng, fmt, channels)
    cl = ['chk_user_weights'] + (['disabled_channel'] if any(w == 0 for w in ws) else [])
    return ['weights', toks(fmt, ws), fmt.rtok(minw), fmt.rtok(beta)], cl

def rand_tab(rng, fmt, n, classes=None, finite_only=False):
    vals = []; cl = set()
    for _ in range(n):
        v, c = rand_value(rng, fmt, rng.choice(classes) if classes else None)
        if finite_only and not isnum(v):
            v, c = Fraction(1), 'small_int'
        vals.append(v); cl.add('value_' + c)
    return vals, sorted(cl)

def rand_poly(rng, fmt, dims):
    return ['poly', [[fmt.rtok(Fraction(rng.randint(-3, 5), 2)), fmt.rtok(Fraction(rng.randint(-4, 8), 2))] for _ in range(dims)]]

def rand_map_tab(rng, fmt, channels, n=7, special=False, mapdims=None):
    dens = []
    for k in range(n * channels):
        r = rng.random()
        if special and k % channels == 0: zero_row = rng.random() < 0.12       # (a point outside the support of every channel: total density exactly zero)
        if special and zero_row: dens.append(Fraction(0)); continue
        if special and r < 0.08: dens.append(Fraction(0))
        elif special and r < 0.12: dens.append('inf')
        elif special and r < 0.15: dens.append('nan')
        else: dens.append(Fraction(rng.randint(1, 16), rng.choice([1, 2, 4, 8])))
    jac = []
    for _ in range(n):
        r = rng.random()
        if special and r < 0.08: jac.append('inf')
        elif special and r < 0.12: jac.append(Fraction(0))
        elif special and r < 0.15: jac.append('nan')
        else: jac.append(Fraction(rng.randint(1, 8), rng.choice([1, 2, 4])))
    ctab = [] if mapdims is None else toks(fmt, [fmt.round(Fraction(rng.getrandbits(12), 4096)) for _ in range(n * mapdims)])
    return ['tab', ctab, toks(fmt, [fmt.round(d) if isnum(d) else d for d in dens]), toks(fmt, [fmt.round(j) if isnum(j) else j for j in jac])]

def rand_map_grid(rng, fmt, channels, dims, kappa=None, dyadic=False):
    grids = []
    for ch in range(channels):
        if dyadic:
            grids.append([toks(fmt, rand_grid(rng, fmt, 4, 'dyadic')) for _ in range(dims)])
        else:
            grids.append([toks(fmt, rand_grid(rng, fmt, rng.choice([2, 4]), rng.choice(['random', 'uniform', 'peaked']))) for _ in range(dims)])
    kappa = kappa if kappa is not None else rng.choice([Fraction(1), Fraction(2), Fraction(1, 4)])
    return ['grid', fmt.rtok(kappa), grids]

def rand_name(rng):
    """distribution names: anything but a line feed - empty, blanks, digits that look like numbers, and control / white-space characters
    (carriage return, tab, vertical tab, form feed) and non-ASCII bytes at the front, inside and at the very end"""
    if rng.random() < 0.04:
        # very long names (beyond any fixed-size buffer a reader might use)
        return (b'pT of the %d-th jet [GeV] ' % rng.randint(1, 9)) * rng.choice([41, 45, 200]) + rng.choice([b'', b' ', b'x'])
    if rng.random() < 0.65:
        return rng.choice([b'', b'x', b'  lead', b'two words ', b'#hash', b'12 34', b'E5'])
    alphabet = [b' ', b'\t', b'\r', b'\v', b'\f', b'#', b'1', b'e', b'pT', b'\xe9', b'\x7f', b'-', b'.']
    body = b''.join(rng.choice(alphabet) for _ in range(rng.randint(0, 6)))
    edge = rng.choice([b'\r', b'\t', b'\v', b'\f', b' ', b'\r\r', b' \r'])
    return rng.choice([body + edge, edge + body, edge + body + edge, edge, body])

def rand_dists(rng, fmt, n=None, two_d=None):
    n = n if n is not None else rng.choice([0, 1, 1, 2])
    out = []
    for _ in range(n):
        bx = rng.choice([1, 2, 3, 5])
        by = rng.choice([2, 3]) if (two_d if two_d is not None else rng.random() < 0.3) else 1
        xmin = fmt.round(Fraction(rng.randint(-8, 8), rng.choice([1, 2, 4])))
        xmax = fmt.round(xmin + Fraction(rng.randint(1, 16), rng.choice([1, 2, 4, 3, 1000])))
        ymin = fmt.round(Fraction(rng.randint(-4, 4), 2)); ymax = fmt.round(ymin + Fraction(rng.randint(1, 6), 2))
        if by == 1 and rng.random() < 0.5: ymin, ymax = Fraction(0), Fraction(1)          # what the one-dimensional shortcut constructor uses
        name = rand_name(rng)
        out.append([bx, by, fmt.tok(xmin), fmt.tok(xmax), fmt.tok(ymin), fmt.tok(ymax), name])
    return out

def dist_edges(fmt, d, axis='x'):
    """coordinates on, just inside and just outside every edge of a binning (as the code computes bin sizes)"""
    n = d[0] if axis == 'x' else d[1]
    lo = parse_tok(d[2] if axis == 'x' else d[4]); hi = parse_tok(d[3] if axis == 'x' else d[5])
    size = fmt.round((hi - lo) / n)
    out = []
    for k in range(n + 1):
        e = fmt.round(lo + k * size)
        out += [e, fmt.pred(e), fmt.succ(e)]
    out += [fmt.round(lo - 1), fmt.round(hi + 1), fmt.round(lo + (hi - lo) / 3), 'inf', '-inf', 'nan',
            fmt.round(Fraction(2) ** min(fmt.emax - 2, 70)), -fmt.round(Fraction(2) ** 70)]
    return out

def rand_fills(rng, fmt, kind, dists, dims, ntab=24):
    """fill specs + tables hitting bin edges"""
    fills = []; tables = []
    for j, d in enumerate(dists):
        # (a two-dimensional fill of a distribution with a single y bin is an x-distribution inside a y-window)
        two = d[1] > 1 or rng.random() < 0.35
        mode = rng.choice(['edges', 'point', 'edges'])
        if mode == 'point':
            xs = ['c' if kind == 'mc' else 'p', rng.randrange(dims)]
            ys = ['c' if kind == 'mc' else 'p', rng.randrange(dims)] if two else '-'
        else:
            ex = dist_edges(fmt, d, 'x')
            tables.append(toks(fmt, [rng.choice(ex) for _ in range(ntab)])); xs = ['t', len(tables) - 1]
            if two:
                ey = dist_edges(fmt, d, 'y')
                tables.append(toks(fmt, [rng.choice(ey) for _ in range(ntab + 1)])); ys = ['t', len(tables) - 1]
            else:
                ys = '-'
        if rng.random() < 0.3:
            vt, _ = rand_tab(rng, fmt, 5)
            tables.append(toks(fmt, vt)); vs = ['t', len(tables) - 1]
        else:
            vs = ['v']
        fills.append([j, xs, ys, vs])
        if rng.random() < 0.2:
            fills.append([j, xs, ys, vs])       # the same distribution filled twice in one call
        if rng.random() < 0.25:
            # ... and filled again at another coordinate (one entry per particle: several bins of one distribution per evaluation)
            ex2 = dist_edges(fmt, d, 'x')
            tables.append(toks(fmt, [rng.choice(ex2) for _ in range(ntab - 1)])); xs2 = ['t', len(tables) - 1]
            fills.append([j, xs2, ys, vs])
            if rng.random() < 0.5: fills.append([j, xs, ys, vs])
    return fills, tables

def rand_run(rng, fmt, kind, *, calls=None, iters=None, value_classes=None, dists=None, special_map=False, trace=0, cb=None,
             poly=None, finite_only=False, ops=None, wants=None, grid_map=None, user_state=False, force_mapdims=False):
    dims = rng.choice([1, 2, 3]) if kind != 'mc' else rng.choice([1, 2])
    channels = rng.choice([1, 2, 3, 5]) if kind == 'mc' else 1
    chk, cl = rand_chk(rng, kind, fmt, dims, channels, force_user=user_state)
    classes = ['kind_' + kind, 'type_' + fmt.name] + cl
    poly = poly if poly is not None else (rng.random() < 0.4)
    if poly:
        f = rand_poly(rng, fmt, dims); classes.append('integrand_poly')
    else:
        vals, vc = rand_tab(rng, fmt, rng.choice([1, 3, 7, 11]), value_classes, finite_only)
        f = ['tab', toks(fmt, vals)]; classes += ['integrand_tab'] + vc
    dl = dists if dists is not None else rand_dists(rng, fmt)
    fills, tables = rand_fills(rng, fmt, kind, dl, dims) if dl else ([], [])
    if dl: classes.append('distributions_%d' % len(dl))
    mp = None; mapdims = None
    if kind == 'mc':
        if grid_map if grid_map is not None else (poly and rng.random() < 0.7):
            mp = rand_map_grid(rng, fmt, channels, dims); classes.append('map_grid')
        else:
            mapdims = None
            if not poly and (force_mapdims or rng.random() < 0.4):
                mapdims = rng.choice([dims + 1, dims + 2, max(1, dims - 1)]); classes.append('map_dimensions_differ')
            mp = rand_map_tab(rng, fmt, channels, special=special_map, mapdims=mapdims); classes.append('map_tab' + ('_special' if special_map else ''))
    iters = iters if iters is not None else rng.choice([1, 2, 3])
    cl_calls = [rng.choice(calls or [0, 1, 2, 3, 5, 8, 17]) for _ in range(iters)]
    classes += ['calls_%s' % ('0' if c == 0 else '1' if c == 1 else 'small' if c < 4 else 'more') for c in cl_calls]
    w = wants if wants is not None else (1 if rng.random() < 0.3 else 0)
    if w: classes.append('integrand_requests_weight')
    seed = rng.getrandbits(32)
    # a few chosen canonical numbers at the front of the stream (extremes), the rest pseudo-random
    raw = []
    if rng.random() < 0.5:
        raw = [raw_of(rng.choice(special_units(fmt, 4))) for _ in range(rng.randint(1, 6))]
        classes.append('extreme_canonical_numbers')
        if rng.random() < 0.5:
            # the largest raw outputs of the engine: x / 2^64 rounds to 1 in the numeric type and must be mapped back below 1
            tops = [min(2 ** 64 - 1, x) for x in (2 ** 64 - 1, 2 ** 64 - 2, 2 ** 64 - 2 ** max(0, 63 - fmt.prec), 2 ** 64 - 2 ** max(0, 64 - fmt.prec) + 1)]
            for _ in range(rng.randint(1, 4)): raw.insert(rng.randrange(len(raw) + 1), rng.choice(tops))
            classes.append('top_raw_engine_outputs')
    s = spec_run(kind, fmt, dims=dims, channels=channels, seed=seed, raw=raw, chk=chk, f=f, dists=dl, fills=fills, tables=tables,
                 wants=w, mp=mp, cb=cb, trace=trace, ops=ops if ops is not None else [['run', cl_calls], ['dump']],
                 acc=1 if (not dl and rng.random() < 0.2) else 0, mapdims=(mapdims if kind == 'mc' and mp is not None and mp[0] == 'tab' else None))
    if cb is not None and cb[0] == 'builtin' and rng.random() < 0.5:
        # the callback instantiated with the checkpoint's base class (without the engine), as the library's examples do
        s.insert(-1, ['cbbase', 1]); classes.append('callback_on_base_class')
    if (cb is None or cb[0] == 'script') and rng.random() < 0.4:
        # the user's callback returns int (0 = stop), not bool
        s.insert(-1, ['cbint', 1]); classes.append('callback_returns_int')
    if rng.random() < 0.3:
        # rollbacks go through a reference to the checkpoint's base class; checkpoints are read from a stream that cannot seek
        s.insert(-1, ['rbbase', 1]); classes.append('rollback_through_base_class')
    if rng.random() < 0.3:
        s.insert(-1, ['noseek', 1]); classes.append('input_stream_cannot_seek')
    if rng.random() < 0.3:
        # between operations the checkpoint is copied, moved, assigned (also to itself) and swapped
        s.insert(-1, ['churn', 1]); classes.append('checkpoint_copied_moved_assigned')
    if rng.random() < 0.3:
        # one integrand object for all the runs of the case instead of a fresh one per run
        s.insert(-1, ['reuse', 1]); classes.append('integrand_object_reused')
    if rng.random() < 0.2:
        # while a point is evaluated the integrand runs a small integration of its own (same integrator, same template instantiation)
        s.insert(-1, ['nest', 1]); classes.append('nested_integration')
    if rng.random() < 0.2:
        s.insert(-1, ['errno', 1]); classes.append('integrand_leaves_errno_EDOM')
    if kind == 'mc' and rng.random() < 0.4:
        # the map writes the densities in the coordinate call already (as the library's examples do)
        s.insert(-1, ['mapearly', 1]); classes.append('map_writes_densities_early')
    if rng.random() < 0.3:
        # the state the user's streams are in when they are handed to the library: float-field flags, precision, showpoint, alignment
        # (the library sets what it needs itself), and an input stream that reports errors by exceptions
        s.insert(-1, ['ofmt', rng.choice([1, 2, 3, 1 + 4, 8, 16 + 1, 64, 128 + 3])]); classes.append('user_stream_format')
    if rng.random() < 0.25:
        s.insert(-1, ['iexc', 1]); classes.append('input_stream_with_exceptions')
    if cb is not None and cb[0] == 'builtin' and rng.random() < 0.4:
        # std::cout as the program left it (precision max_digits10, fixed, showpoint) when the verbose callback prints
        s.insert(-1, ['coutfmt', rng.choice([256, 256 + 1, 8, 1 + 4, 16 + 256, 3, 512, 512 + 256])]); classes.append('cout_format_changed')
    if cb is not None and cb[0] == 'builtin' and rng.random() < 0.5:
        # one callback object for all the runs of the case (std::ref) instead of a fresh copy per run
        s.insert(-1, ['cbref', 1]); classes.append('callback_object_shared_between_runs')
    return s, classes, {'kind': kind, 'dims': dims, 'channels': channels, 'calls': cl_calls}

KINDS = ['plain', 'vegas', 'mc']
# structure sizes far above what ordinary cases use: around powers of two (index types, buffers) and odd ones (halving schemes)
BIG_COUNTS = [65, 100, 129, 130, 255, 256, 257, 300, 515, 700, 1001]
HUGE_COUNTS = [4096, 4097, 5000, 65537]        # only for operations that are linear in the size

def small_bins(s):
    """the executed model refines the grid once per rank: keep default grids small in MPI cases (cost ~ ranks x dims x bins^2)"""
    out = []
    for e in s:
        if e[0] == 'chk' and e[1][0] == 'default' and len(e[1]) == 3 and isinstance(e[1][1], int):
            e = ['chk', ['default', min(e[1][1], 8), e[1][2]]]
        elif e[0] == 'chk' and e[1][0] == 'pdf' and e[1][1] > 8:
            # a user grid with many bins: every (bins/8)-th boundary if that is a grid, else the default grid with 8 bins
            bins, dims, xs, alpha = e[1][1], e[1][2], e[1][3], e[1][4]
            if bins % 8 == 0:
                step = bins // 8
                e = ['chk', ['pdf', 8, dims, [xs[d * (bins + 1) + i * step] for d in range(dims) for i in range(9)], alpha]]
            else:
                e = ['chk', ['default', 8, alpha]]
        out.append(e)
    return out

def mpi_variant(rng, s, info, worlds=(2, 3, 5, 8)):
    """the same specification run by the MPI driver on the thread shim: every ['run', calls] becomes ['mpi', calls, P, perm]"""
    P = rng.choice(list(worlds)); perm = list(range(P)); rng.shuffle(perm)
    out = []
    for e in small_bins(s):
        if e[0] == 'ops':
            out.append(['ops', [(['mpi', op[1], P, perm] if op[0] == 'run' else op) for op in e[1]]])
        else:
            out.append(e)
    cl = ['mpi_shim', 'world_%d' % P]
    if rng.random() < 0.4:
        # the integration runs on a communicator that is a proper part of MPI_COMM_WORLD (its rank 0 is not world rank 0, the world is larger)
        out.insert(len(out) - 1, ['subcomm', rng.choice([1, 2, 5])]); cl.append('sub_communicator')
    return out, cl

def big_run(rng, fmt, kind, *, dims=1, bins=4, channels=2, iters=2, calls=(6,), ndists=0, dist_bins=(3, 1), ops_fn=None, trace=0):
    """a run whose structure sizes are chosen by the caller (polynomial integrand, default checkpoint, grid map)"""
    f = rand_poly(rng, fmt, dims)
    chk = {'plain': ['plain'], 'vegas': ['default', bins, fmt.rtok(Fraction(3, 2))], 'mc': ['default', fmt.rtok(Fraction(1, 1000)), fmt.rtok(Fraction(1, 4))]}[kind]
    z, o = fmt.tok(Fraction(0)), fmt.tok(Fraction(1))
    dl = [[dist_bins[0], dist_bins[1], z, o, z, o, rand_name(rng)] for _ in range(ndists)]
    src = 'c' if kind == 'mc' else 'p'
    fills = [[j, [src, j % dims], ([src, (j + 1) % dims] if dist_bins[1] > 1 else '-'), ['v']] for j in range(ndists)]
    mp = rand_map_grid(rng, fmt, channels, dims) if kind == 'mc' else None
    cl_calls = [rng.choice(list(calls)) for _ in range(iters)]
    ops = ops_fn(cl_calls) if ops_fn else [['run', cl_calls], ['dump']]
    s = spec_run(kind, fmt, dims=dims, channels=channels if kind == 'mc' else 1, seed=rng.getrandbits(32), chk=chk, f=f, dists=dl, fills=fills, tables=[], mp=mp, trace=trace, ops=ops)
    return s, {'kind': kind, 'dims': dims, 'channels': channels if kind == 'mc' else 1, 'calls': cl_calls}

def gen_wide_return(c, rng, tier):
    """a user function whose return type is wider than the numeric type (float integration of a function returning long double): the
    library converts the value to its numeric type first and works with that - the value table of the model holds the rounded values"""
    wide = FMTS['l']
    for t in ['f', 'd']:
        fmt = FMTS[t]
        for _ in range(scale(tier, 4, 30)):
            dims = rng.choice([1, 2]); bins = rng.choice([2, 3, 5])
            xs = []
            for d in range(dims): xs += rand_grid(rng, fmt, bins, rng.choice(['random', 'peaked']))
            vals = []
            for _ in range(rng.choice([3, 7])):
                r = rng.random()
                if r < 0.15: vals.append(Fraction(0))
                elif r < 0.25: vals.append(Fraction(rng.randint(1, 9), 4))
                else: vals.append(wide.round(Fraction(rng.getrandbits(62) | 1, 2 ** 61) * Fraction(2) ** rng.randint(-8, 8) * rng.choice([1, -1])))
            calls = [rng.choice([6, 12]) for _ in range(rng.choice([2, 3]))]
            s = spec_run('vegas', fmt, dims=dims, seed=rng.getrandbits(32), chk=['pdf', bins, dims, toks(fmt, xs), fmt.rtok(Fraction(3, 2))],
                         f=['tab', toks(fmt, [fmt.round(v) for v in vals])], ops=[['run', calls], ['dump']])
            s.insert(-1, ['fwide', toks(wide, vals)])
            c.add(t, 'run', s, classes=['kind_vegas', 'function_returns_wider_type', 'chk_user_grid'], nontrivial=True, info={'kind': 'vegas', 'dims': dims, 'channels': 1, 'calls': calls})

def gen_sizes(c, rng, tier, t, families, ops_fn=None, per=1):
    """structure sizes far above the ordinary cases: around powers of two (narrow index types, small buffers) and odd (halving schemes)"""
    fmt = FMTS[t]
    n = per if tier == 'quick' else 3 * per
    for fam in families:
        for _ in range(n):
            if fam == 'bins':
                b = rng.choice([129, 255, 256, 257, 300]); s, info = big_run(rng, fmt, 'vegas', dims=rng.choice([1, 2]), bins=b, iters=3, calls=(24, 60), ops_fn=ops_fn); cl = ['vegas_bins_%d' % b]
            elif fam == 'dims':
                d = rng.choice([5, 9, 17, 33]); k = rng.choice(['plain', 'vegas']); s, info = big_run(rng, fmt, k, dims=d, bins=3, iters=2, calls=(4, 7), ops_fn=ops_fn); cl = ['dims_%d' % d, 'kind_' + k]
            elif fam == 'iterations':
                m = rng.choice([33, 65, 130]); k = rng.choice(KINDS); s, info = big_run(rng, fmt, k, dims=1, bins=2, iters=m, calls=(1, 2, 3), ops_fn=ops_fn); cl = ['iterations_%d' % m, 'kind_' + k]
            elif fam == 'dists':
                nd = rng.choice([9, 17, 33]); k = rng.choice(KINDS); s, info = big_run(rng, fmt, k, dims=2, bins=2, iters=2, calls=(5, 9), ndists=nd, dist_bins=(2, 1), ops_fn=ops_fn); cl = ['distributions_%d' % nd, 'kind_' + k]
            elif fam == 'dist_bins':
                bx, by = rng.choice([(256, 1), (257, 1), (300, 1), (17, 17), (3, 100), (1000, 1)] + ([(70000, 1), (300, 300)] if tier == 'thorough' else []))
                k = rng.choice(KINDS); s, info = big_run(rng, fmt, k, dims=2, bins=2, iters=2, calls=(20, 40), ndists=1, dist_bins=(bx, by), ops_fn=ops_fn); cl = ['distribution_bins_%dx%d' % (bx, by), 'kind_' + k]
            elif fam == 'channels':
                ch = rng.choice(BIG_COUNTS[:8]); s, info = big_run(rng, fmt, 'mc', dims=1, channels=ch, iters=2, calls=(12, 20), ops_fn=ops_fn); cl = ['many_channels', 'channels_%d' % ch]
            else:
                raise ValueError(fam)
            c.add(t, 'run', s, classes=cl + ['large_structure'], info=info)

# ------------------------------------------------------------------------------------------------
@prop('C16', 'exhaustive total<=T x world<=W x rank (quick: 24x9, thorough: 64x33) plus sampled values up to 2^40; '
      'non-trivial = total not divisible by world or total < world', COMMON_ASSUMPTIONS[1:] +
      ['MPI world sizes are C ints (< 2^31); totals < 2^64'])
def gen_C16(c, rng, tier):
    T, W = scale(tier, (24, 9), (64, 33))
    for total in range(T + 1):
        for world in range(1, W + 1):
            for rank in range(world):
                sub = total // world + (1 if rank < total % world else 0)
                nt = total % world != 0 or total < world
                c.add('d', 'split', [total, sub, rank, world], classes=['exhaustive'], nontrivial=nt)
                c.add('d', 'subcalls', [total, rank, world], classes=['exhaustive_sub'], nontrivial=nt, model_only=True)
    for _ in range(scale(tier, 300, 5000)):
        total = rng.getrandbits(rng.choice([8, 20, 40])); world = rng.randint(1, rng.choice([4, 33, 1000])); rank = rng.randrange(world)
        sub = total // world + (1 if rank < total % world else 0)
        c.add('d', 'split', [total, sub, rank, world], classes=['sampled'])
    # totals around the widths of narrower integer types (2^31, 2^32, 2^63): the three per-driver share expressions are
    # evaluated on the translated definitions (the drivers themselves cannot be run with that many calls)
    for _ in range(scale(tier, 200, 2000)):
        base = rng.choice([2 ** 31, 2 ** 32, 2 ** 31 - 1, 2 ** 33, 2 ** 62, 2 ** 63, 2 ** 64 - 1 - 2 ** 20])
        total = max(0, min(2 ** 64 - 1, base + rng.randint(-2 ** 10, 2 ** 10))); world = rng.randint(1, rng.choice([4, 33, 1000])); rank = rng.randrange(world)
        nt = total % world != 0
        c.add('d', 'subcalls', [total, rank, world], classes=['wide_totals'], nontrivial=nt)
        sub = total // world + (1 if rank < total % world else 0)
        c.add('d', 'split', [total, sub, rank, world], classes=['wide_totals_split'], nontrivial=nt)
    gen_C16_mpi(c, rng, tier)

def gen_C16_mpi(c, rng, tier):
    """the split as the three MPI drivers use it: every rank must end each iteration at the common stream position (the stored
    generators of all ranks and of the serial run coincide), also when the returned checkpoint is used again"""
    for t in ['d', 'f']:
        fmt = FMTS[t]
        for kind in KINDS:
            for _ in range(scale(tier, 5, 20)):
                iters = rng.choice([1, 2, 3])
                s, cl, info = rand_run(rng, fmt, kind, iters=iters, calls=[1, 2, 5, 7, 11, 16], poly=True, finite_only=True, dists=[], trace=1, cb=['script', []], grid_map=True)
                calls = info['calls']
                P = rng.choice([2, 3, 5, 8]); perm = list(range(P)); rng.shuffle(perm)
                ops = [['mpi', calls, P, perm], ['dump']]
                if rng.random() < 0.5:
                    ops += [['mpi', calls[:1], P, perm], ['dump']]          # resume from the returned checkpoint
                sub = [['subcomm', rng.choice([1, 2, 4])]] if (kind == 'mc' or rng.random() < 0.5) else []     # the integration's communicator is a proper part of the world
                s = small_bins([e for e in s if e[0] != 'ops'] + sub + [['ops', ops]])
                c.add(t, 'run', s, classes=cl + ['mpi_driver', 'world_%d' % P] + (['sub_communicator'] if sub else []), info=info)

@prop('C09', 'weight vectors (zeros front/middle/end, normalised or not, length 1..12) x canonical numbers at 0, pred(1), every '
      'cumulative boundary and both neighbours, plus random; 3 types; non-trivial = vector has a zero weight or the number is a boundary',
      COMMON_ASSUMPTIONS + ['libstdc++ std::upper_bound / std::partial_sum / std::generate_canonical (modelled; validated by the tie)'])
def gen_C09(c, rng, tier):
    for t in TYPES:
        fmt = FMTS[t]
        for _ in range(scale(tier, 25, 200)):
            n = rng.choice([1, 2, 2, 3, 4, 6, 12] + ([64] if tier == 'thorough' else []))
            ws = rand_weights(rng, fmt, n)
            if rng.random() < 0.3: ws[0] = Fraction(0)
            if rng.random() < 0.3: ws[-1] = Fraction(0)
            if all(w == 0 for w in ws): ws[n // 2] = Fraction(1)
            cum = oracles.cumulative(fmt, ws)
            us = [Fraction(0), pred1(fmt)]
            for s in cum:
                for v in (s, fmt.pred(s), fmt.succ(s)):
                    if isnum(v) and 0 <= v < 1 and (v * 2 ** 64).denominator == 1:
                        us.append(v)
            us += [rand_unit(rng, fmt) for _ in range(3)]
            for u in us:
                cl = ['boundary' if u in cum else 'zero' if u == 0 else 'other'] + (['has_zero_weight'] if any(w == 0 for w in ws) else [])
                c.add(t, 'select', [toks(fmt, ws), fmt.tok(u)], classes=cl, nontrivial=(u in cum or any(w == 0 for w in ws)))
        # long weight vectors (sizes beyond any index type narrower than size_t, beyond small-buffer and guide-table thresholds)
        for n in rng.sample(BIG_COUNTS, scale(tier, 3, len(BIG_COUNTS))) + [rng.choice(HUGE_COUNTS[:3] if tier == 'quick' else HUGE_COUNTS)]:
            equal = rng.random() < 0.5
            ws = [Fraction(1)] * n if equal else rand_weights(rng, fmt, n)      # (equal weights: what every run starts with)
            for i in range(n):
                if not equal and rng.random() < 0.2: ws[i] = Fraction(0)
            if rng.random() < 0.5: ws[0] = Fraction(0)
            if all(w == 0 for w in ws): ws[n // 2] = Fraction(1)
            cum = oracles.cumulative(fmt, ws)
            us = [Fraction(0), pred1(fmt)]
            for s in rng.sample(cum, 10) + [cum[0], cum[-2], cum[254 if n > 255 else n // 2]]:
                for v in (s, fmt.pred(s), fmt.succ(s)):
                    if isnum(v) and 0 <= v < 1 and (v * 2 ** 64).denominator == 1:
                        us.append(v)
            us += [rand_unit(rng, fmt) for _ in range(6)]
            for u in us:
                c.add(t, 'select', [toks(fmt, ws), fmt.tok(u)], classes=['long_weight_vector', 'boundary' if u in cum else 'zero' if u == 0 else 'other', 'has_zero_weight'],
                      nontrivial=True)
        # thousands of equal weights (what every run starts with): every cumulative boundary with its two lower neighbours
        for n in [rng.choice(HUGE_COUNTS[:3])] + (HUGE_COUNTS[:3] if tier == 'thorough' else []):
            ws = [Fraction(1)] * n
            cum = oracles.cumulative(fmt, ws)
            us = []
            for s in cum[:-1]:
                p1 = fmt.pred(s); p2 = fmt.pred(p1)
                us += [v for v in (p2, p1, s) if isnum(v) and 0 <= v < 1 and (v * 2 ** 64).denominator == 1]
            c.add(t, 'selects', [toks(fmt, ws), toks(fmt, us)], classes=['long_weight_vector', 'all_boundaries', 'equal_weights'], nontrivial=True)
    gen_C09_runs(c, rng, tier)

def gen_C09_runs(c, rng, tier):
    """channel selection inside real multi-channel iterations: the number that selects the channel comes from std::generate_canonical on the
    scripted engine - smallest and largest raw outputs, disabled channels first / in the middle / last"""
    for t in TYPES:
        fmt = FMTS[t]
        for _ in range(scale(tier, 10, 80)):
            channels = rng.choice([2, 3, 5]); dims = rng.choice([1, 2])
            ws = rand_weights(rng, fmt, channels)
            if rng.random() < 0.5: ws[0] = Fraction(0)
            if rng.random() < 0.3: ws[-1] = Fraction(0)
            if all(w == 0 for w in ws): ws[channels // 2] = Fraction(1)
            n = rng.choice([6, 12])
            extremes = [0, 2 ** 64 - 1, 2 ** 64 - 2, 1, 2 ** 63, 2 ** 63 - 1, min(2 ** 64 - 1, 2 ** 64 - 2 ** max(0, 63 - fmt.prec)), 2 ** (64 - fmt.prec), 2 ** 62, 3 * 2 ** 62]
            raw = []
            for i in range(n):
                raw += [rng.getrandbits(64) for _ in range(dims)] + [rng.choice(extremes)]
            s = spec_run('mc', fmt, dims=dims, channels=channels, raw=raw, chk=['weights', toks(fmt, ws), fmt.rtok(0), fmt.rtok(Fraction(1, 4))],
                         f=['tab', toks(fmt, [Fraction(1), Fraction(0), Fraction(2)])], mp=rand_map_tab(rng, fmt, channels), trace=1, ops=[['run', [n]], ['dump']])
            c.add(t, 'run', s, classes=['selection_in_real_runs'] + (['first_channel_disabled'] if ws[0] == 0 else []) + (['last_channel_disabled'] if ws[-1] == 0 else []),
                  info={'kind': 'mc', 'dims': dims, 'channels': channels, 'calls': [n]})
        gen_big_channel_runs(c, rng, tier, t)

def gen_big_channel_runs(c, rng, tier, t):
    """multi-channel runs with 65..515 channels, many of them disabled (the first always), extreme engine outputs on the selecting draw"""
    fmt = FMTS[t]
    for channels in rng.sample(BIG_COUNTS[:9], scale(tier, 2, 9)):
        dims = 1
        ws = rand_weights(rng, fmt, channels)
        for i in range(channels):
            if rng.random() < 0.3: ws[i] = Fraction(0)
        ws[0] = Fraction(0); ws[-1] = Fraction(rng.randint(1, 4))
        n = 12
        extremes = [0, 2 ** 64 - 1, 1, 2 ** 63, min(2 ** 64 - 1, 2 ** 64 - 2 ** max(0, 63 - fmt.prec)), 2 ** (64 - fmt.prec)]
        raw = []
        for i in range(n):
            raw += [rng.getrandbits(64), rng.choice(extremes) if i % 2 else rng.getrandbits(64)]
        s = spec_run('mc', fmt, dims=dims, channels=channels, raw=raw, chk=['weights', toks(fmt, ws), fmt.rtok(0), fmt.rtok(Fraction(1, 4))],
                     f=['tab', toks(fmt, [Fraction(1), Fraction(0), Fraction(2)])], mp=rand_map_tab(rng, fmt, channels, n=3), trace=1, ops=[['run', [n, n]], ['dump']])
        c.add(t, 'run', s, classes=['selection_in_real_runs', 'many_channels', 'first_channel_disabled'], info={'kind': 'mc', 'dims': dims, 'channels': channels, 'calls': [n, n]})

@prop('C07', 'refinements of valid grids (uniform/random/peaked/tied/1-ulp bins) with data all-zero / single non-zero / exponent-spanning / random, '
      'alpha in {0,.5,1.5,3}, chains of refinements; inverse CDF at 0, pred(1), 1, every j/bins and neighbours; 3 types; '
      'non-trivial = non-uniform grid or non-constant data',
      COMMON_ASSUMPTIONS + ['libm pow/log only through the per-run value table (never modelled); theorems assume them positive/finite on the relevant domain'])
def gen_C07(c, rng, tier):
    for t in TYPES:
        fmt = FMTS[t]
        for _ in range(scale(tier, 30, 300)):
            bins = rng.choice([2, 3, 4, 8, 16]); dims = rng.choice([1, 2])
            xs = []
            styles = []
            for d in range(dims):
                st = rng.choice(['uniform', 'random', 'peaked', 'ties', 'tiny']); styles.append(st)
                xs += rand_grid(rng, fmt, bins, st)
            alpha = rng.choice([Fraction(0), Fraction(1, 2), Fraction(3, 2), Fraction(3)])
            dk = rng.choice(['zero', 'single', 'span', 'random', 'random', 'const', 'onedimzero'])
            data = []
            for d in range(dims):
                if dk == 'zero' or (dk == 'onedimzero' and d == 0): row = [Fraction(0)] * bins
                elif dk == 'single':
                    row = [Fraction(0)] * bins; row[rng.randrange(bins)] = Fraction(rng.randint(1, 100))
                elif dk == 'span': row = [fmt.round(Fraction(rng.randint(1, 9)) * Fraction(2) ** rng.randint(-min(100, fmt.emax // 2), min(100, fmt.emax // 2))) for _ in range(bins)]
                elif dk == 'const': row = [Fraction(3)] * bins
                else: row = [fmt.round(Fraction(rng.getrandbits(16), 256)) if rng.random() < 0.8 else Fraction(0) for _ in range(bins)]
                data += row
            c.add(t, 'refine_pdf', [bins, dims, toks(fmt, xs), fmt.tok(alpha), toks(fmt, data)],
                  classes=['data_' + dk, 'alpha_%s' % alpha] + ['grid_' + s for s in styles], nontrivial=(dk != 'const' or any(s != 'uniform' for s in styles)))
            # inverse CDF on the same grid
            us_all = special_units(fmt, bins) + [Fraction(1)]
            for _ in range(4):
                us = [rng.choice(us_all) if rng.random() < 0.7 else rand_unit(rng, fmt) for _ in range(dims)]
                c.add(t, 'icdf', [bins, dims, toks(fmt, xs), toks(fmt, us)],
                      classes=['icdf'] + (['u_is_1'] if Fraction(1) in us else []) + (['u_is_0'] if Fraction(0) in us else []))
        # every j/bins with both neighbours for bin counts that are not powers of two, on adapted grids (the product u x bins rounds to
        # the integer j from below for about a third of them: index and in-bin position must come from the same rounded product)
        for bins in rng.sample([5, 6, 7, 10, 12, 50, 100], scale(tier, 3, 7)):
            xs = rand_grid(rng, fmt, bins, rng.choice(['random', 'peaked']))
            for u in special_units(fmt, bins):
                c.add(t, 'icdf', [bins, 1, toks(fmt, xs), toks(fmt, [u])], classes=['icdf', 'icdf_boundary_neighbours'])
        # many dimensions / many bins / narrow bins: the weight is the product of bins x width over the dimensions
        for _ in range(scale(tier, 12, 80)):
            bins = rng.choice([3, 5, 50, 128]); dims = rng.choice([4, 9, 16, 24])
            xs = []
            for d in range(dims): xs += rand_grid(rng, fmt, bins, rng.choice(['uniform', 'tiny', 'peaked', 'random']))
            us = [rand_unit(rng, fmt) if rng.random() < 0.7 else Fraction(0) for _ in range(dims)]
            c.add(t, 'icdf', [bins, dims, toks(fmt, xs), toks(fmt, us)], classes=['icdf_many_dims'])
    gen_C07_runs(c, rng, tier)
    for t in TYPES: gen_sizes(c, rng, tier, t, ['bins'])

@prop('C08', 'weight vectors (normalised or not, with zeros) x adjustment data (all-zero, single non-zero, random, huge/tiny) x beta in (0,1] x minimum '
      'weight in [0,1/n); 3 types; non-trivial = a zero weight, a zero datum or an active floor', COMMON_ASSUMPTIONS +
      ['libm pow only through the per-run value table'])
def gen_C08(c, rng, tier):
    for t in TYPES:
        fmt = FMTS[t]
        for _ in range(scale(tier, 60, 600)):
            n = rng.choice([1, 2, 3, 5, 9])
            ws = rand_weights(rng, fmt, n)
            dk = rng.choice(['zero', 'single', 'random', 'random', 'span', 'somezero'])
            if dk == 'zero': data = [Fraction(0)] * n
            elif dk == 'single':
                data = [Fraction(0)] * n; data[rng.randrange(n)] = Fraction(rng.randint(1, 50), 4)
            elif dk == 'span': data = [fmt.round(Fraction(rng.randint(1, 9)) * Fraction(2) ** rng.randint(-60, 60)) for _ in range(n)]
            elif dk == 'somezero': data = [Fraction(0) if rng.random() < 0.4 else Fraction(rng.randint(1, 99), 8) for _ in range(n)]
            else: data = [fmt.round(Fraction(rng.getrandbits(20) + 1, 1024)) for _ in range(n)]
            beta = rng.choice([Fraction(1, 4), Fraction(1, 2), Fraction(1), Fraction(3, 4)])
            minw = rng.choice([Fraction(0), Fraction(1, 100 * n), Fraction(1, 2 * n), Fraction(9, 10 * n)])
            c.add(t, 'refine_w', [toks(fmt, ws), toks(fmt, data), fmt.rtok(minw), fmt.rtok(beta)],
                  classes=['data_' + dk, 'minw_%s' % ('zero' if minw == 0 else 'positive')] + (['has_zero_weight'] if any(w == 0 for w in ws) else []),
                  nontrivial=(dk != 'random' or minw > 0 or any(w == 0 for w in ws)))
        for n in rng.sample(BIG_COUNTS, scale(tier, 3, len(BIG_COUNTS))):
            ws = rand_weights(rng, fmt, n)
            ws[-1] = Fraction(rng.randint(50, 400))        # a heavy last channel
            data = [Fraction(0) if rng.random() < 0.2 else fmt.round(Fraction(rng.getrandbits(20) + 1, 1024)) for _ in range(n)]
            data[-1] = fmt.round(Fraction(rng.randint(1000, 5000)))
            beta = rng.choice([Fraction(1, 4), Fraction(1, 2), Fraction(1)])
            minw = rng.choice([Fraction(0), Fraction(1, 100 * n), Fraction(1, 2 * n)])
            c.add(t, 'refine_w', [toks(fmt, ws), toks(fmt, data), fmt.rtok(minw), fmt.rtok(beta)],
                  classes=['many_channels', 'data_somezero', 'minw_%s' % ('zero' if minw == 0 else 'positive')], nontrivial=True)
    gen_C08_runs(c, rng, tier)

def gen_C08_runs(c, rng, tier):
    """weights inside real multi-channel runs: asymmetric channel densities make them move; minimum weight, beta, user weights with zeros"""
    for t in TYPES:
        fmt = FMTS[t]
        for _ in range(scale(tier, 8, 60)):
            iters = rng.choice([3, 4, 6] if tier == 'quick' else [4, 8, 12])
            s, cl, info = rand_run(rng, fmt, 'mc', iters=iters, calls=[8, 16, 30], poly=(rng.random() < 0.7), grid_map=True, finite_only=True, dists=[],
                                   value_classes=['small_int', 'frac', 'zero', 'tiny', 'big'])
            s = [e for e in s if e[0] != 'ops'] + [['ops', [['run', info['calls']], ['dump'], ['maxdiff']]]]
            c.add(t, 'run', s, classes=cl + ['weights_in_real_runs'], info=info)
        for _ in range(scale(tier, 5, 40)):
            # integrands that book distributions and return non-finite values now and then (they must not reach the weights)
            iters = rng.choice([3, 4])
            s, cl, info = rand_run(rng, fmt, 'mc', iters=iters, calls=[8, 16], poly=False, dists=rand_dists(rng, fmt, n=1), user_state=(rng.random() < 0.5),
                                   value_classes=['small_int', 'frac', 'nan', 'inf', 'zero', 'small_int'])
            c.add(t, 'run', s, classes=cl + ['weights_with_distributions_and_non_finite_values'], info=info)
        for _ in range(scale(tier, 5, 40)):
            # user weights (unnormalised, with disabled channels): run, reload, resume, roll back to the start, run again
            n = rng.choice([2, 3])
            s, cl, info = rand_run(rng, fmt, 'mc', iters=n, calls=[6, 12], poly=True, grid_map=True, finite_only=True, dists=[], user_state=True)
            calls = info['calls']
            s = [e for e in s if e[0] != 'ops'] + [['ops', [['run', calls[:1]], ['reload'], ['run', calls[1:]], ['rollback', 0], ['dump'], ['run', calls], ['dump']]]]
            c.add(t, 'run', s, classes=cl + ['reload_resume_rollback_redo'], info=info)
        gen_big_channel_runs(c, rng, tier, t)

def gen_C07_runs(c, rng, tier):
    """grids inside real VEGAS runs: chains of refinements driven by peaked integrands, zero iterations in between"""
    for t in TYPES:
        fmt = FMTS[t]
        for _ in range(scale(tier, 8, 60)):
            iters = rng.choice([3, 5, 8] if tier == 'quick' else [6, 12, 30])
            kindf = rng.choice(['poly', 'peak', 'zeros'])
            vals = None
            if kindf == 'peak': vals = ['zero', 'zero', 'zero', 'big', 'zero', 'small_int']
            if kindf == 'zeros': vals = ['zero']
            s, cl, info = rand_run(rng, fmt, 'vegas', iters=iters, calls=[6, 12, 24], poly=(kindf == 'poly'), finite_only=True, dists=[], value_classes=vals)
            if kindf == 'zeros' and iters >= 3:
                # adapt first, then an iteration whose values are all zero (the table is indexed by the call counter)
                n0 = sum(info['calls'][:2])
                tab = [fmt.tok(Fraction(rng.randint(1, 9), 2)) if k < n0 and rng.random() < 0.5 else fmt.tok(Fraction(0)) for k in range(sum(info['calls']))]
                s = [e if e[0] != 'f' else ['f', ['tab', tab]] for e in s]
            s = [e for e in s if e[0] != 'ops'] + [['ops', [['run', info['calls']], ['dump']]]]
            if rng.random() < 0.4 and not any(e[0] == 'nest' for e in s):
                s.insert(-1, ['nest', 1]); cl = cl + ['nested_integration']      # (the integrand runs a VEGAS integration of its own while a point is evaluated)
            c.add(t, 'run', s, classes=cl + ['grids_in_real_runs', 'integrand_' + kindf], info=info)

def rand_results(rng, fmt, m, decades=6):
    rs = []
    for _ in range(m):
        calls = rng.choice([2, 3, 10, 1000, 10 ** 6])
        if rng.random() < 0.12:
            # counters beyond 32 bits / beyond what the numeric type holds exactly (their sums must stay exact: they are integers)
            calls = rng.choice([10 ** 9, 3 * 10 ** 9, 2 ** 32 - 1, 2 ** 32 + 5, 2 ** 31, 10 ** 12, 2 ** 53 + 1]); decades = min(decades, 2)
        e = Fraction(rng.randint(-1000, 1000), rng.choice([1, 7, 1000])) * Fraction(10) ** rng.randint(-decades, decades)
        s = Fraction(rng.randint(1, 1000), rng.choice([1, 10, 1000])) * Fraction(10) ** rng.randint(-decades, decades)
        # (value, error) -> (sum, sumsq) exactly, then rounded
        sm = fmt.round(calls * e); ss = fmt.round(calls * (e * e + (calls - 1) * s * s))
        nz = rng.choice([calls, calls, calls // 2, 0]); fin = nz - (1 if nz and rng.random() < 0.1 else 0)
        if nz and rng.random() < 0.1:
            fin = 0; sm = Fraction(0); ss = Fraction(0)       # only non-finite evaluations: carries no information
        elif rng.random() < 0.08:
            sm = Fraction(0)                                   # values that cancel exactly: estimate 0 with a positive error
            ss = fmt.round(calls * ((calls - 1) * s * s))
        rs.append([calls, nz, fin, fmt.tok(sm), fmt.tok(ss)])
    return rs

@prop('C13', 'lists of 0..6 results with estimates of either sign and positive variances over many decades, with permutations, results without non-zero calls; '
      'weighted_with_variance, weighted_equally, chi_square_dof (both accumulators), create_result, value/variance/error; 3 types; '
      'non-trivial = at least two results', COMMON_ASSUMPTIONS)
def gen_C13(c, rng, tier):
    for t in TYPES:
        fmt = FMTS[t]
        for _ in range(scale(tier, 40, 400)):
            m = rng.choice([0, 1, 2, 2, 3, 4, 6])
            rs = rand_results(rng, fmt, m, 6 if t != 'f' else 3)
            for cmd in ('wwv', 'weq'):
                c.add(t, cmd, [rs], classes=['len_%d' % min(m, 3), cmd], nontrivial=m >= 2)
            c.add(t, 'chi2', ['wwv', rs], classes=['chi2'], nontrivial=m >= 2)
            c.add(t, 'chi2', ['weq', rs], classes=['chi2'], nontrivial=m >= 2)
            if m >= 2:
                p = rs[:]; rng.shuffle(p)
                c.add(t, 'wwv', [p], classes=['permutation'])
            for r in rs[:2]:
                c.add(t, 'moments', [r], classes=['moments'])
            if rs:
                r = rs[0]
                c.add(t, 'create', [r[0], r[1], r[2], fmt.rtok(Fraction(rng.randint(-99, 99), 7)), fmt.rtok(Fraction(rng.randint(1, 99), 13))], classes=['create'])
        # results carrying 1-d and 2-d distributions, produced by real runs, combined with both rules
        for kind in KINDS:
            for _ in range(scale(tier, 5, 40)):
                dl = rand_dists(rng, fmt, n=rng.choice([1, 2]), two_d=(rng.random() < 0.6))
                iters = rng.choice([1, 2, 3, 4])
                s, cl, info = rand_run(rng, fmt, kind, dists=dl, iters=iters, calls=[4, 9, 16],
                                       value_classes=['small_int', 'frac', 'neg', 'zero', 'nan', 'tiny', 'big'])
                s = [e for e in s if e[0] != 'ops'] + [['ops', [['run', info['calls']], ['combine', 'wwv'], ['combine', 'weq']]]]
                c.add(t, 'run', s, classes=cl + ['combine_with_distributions'] + (['two_d'] if any(d[1] > 1 for d in dl) else []), nontrivial=iters >= 2, info=info)
    for t in TYPES: gen_sizes(c, rng, tier, t, ['iterations'], ops_fn=lambda cs: [['run', cs], ['combine', 'wwv'], ['combine', 'weq']])

@prop('C14', 'value sequences (one large then many small, alternating signs, geometric decay, random magnitudes, constant) of length 1..N '
      '(quick N<=2000, thorough N<=50000) through hep::accumulate; 3 types; the exact-oracle runs up to 10^7 values are C++-only; non-trivial = length >= 3',
      COMMON_ASSUMPTIONS)
def gen_C14(c, rng, tier):
    for t in TYPES:
        fmt = FMTS[t]
        for _ in range(scale(tier, 14, 60)):
            n = rng.choice([1, 2, 3, 10, 100, scale(tier, 600, 5000), scale(tier, 2000, 50000)])
            kind = rng.choice(['large_then_small', 'alternating', 'geometric', 'random', 'constant'])
            vs = oracles.kahan_sequence(rng, fmt, kind, n)
            c.add(t, 'kahan', [toks(fmt, vs)], classes=['seq_' + kind, 'len_%s' % ('small' if n < 50 else 'large')], nontrivial=n >= 3)
    gen_C14_runs(c, rng, tier)

def gen_C14_runs(c, rng, tier):
    """the same adversarial sequences through whole iterations: the integral of an integrand that books distributions, and bins that are
    filled once or twice per call (an event and its counter-term), for the three integrators' common accumulator"""
    for t in TYPES:
        fmt = FMTS[t]
        for _ in range(scale(tier, 8, 40)):
            n = rng.choice([3, 50, scale(tier, 400, 3000), scale(tier, 1500, 20000)])
            kind = rng.choice(['large_then_small', 'alternating', 'geometric', 'random', 'constant'])
            vs = oracles.kahan_sequence(rng, fmt, kind, n)
            twice = rng.random() < 0.6
            dists = [[1, 1, fmt.tok(Fraction(0)), fmt.tok(Fraction(1)), fmt.tok(Fraction(0)), fmt.tok(Fraction(1)), b'sum']]
            fills = [[0, ['p', 0], '-', ['v']]] * (2 if twice else 1)
            s = spec_run('plain', fmt, dims=1, seed=rng.getrandbits(32), chk=['plain'], f=['tab', toks(fmt, vs)], dists=dists, fills=fills, ops=[['run', [n]], ['dump']])
            c.add(t, 'run', s, classes=['seq_' + kind, 'iteration_with_distribution', 'bin_filled_twice_per_call' if twice else 'bin_filled_once_per_call'],
                  nontrivial=n >= 3, kahan={'values': vs, 'twice': twice})

# ------------------------------------------------------------------------------------------------
@prop('C02', 'whole runs of the three integrators, 1-3 iterations, N in {0,1,2,3,5,8,17}, table integrands mixing zero/sign/huge/tiny/non-finite values and '
      'polynomial integrands, with and without distributions, default and user grids/weights; every accessor of every result and the adjustment data '
      'compared; non-trivial = an iteration with N >= 2', COMMON_ASSUMPTIONS)
def gen_C02(c, rng, tier):
    PROPS['C02']['mpi'] = True
    for t in TYPES:
        fmt = FMTS[t]
        for kind in KINDS:
            for _ in range(scale(tier, 12, 120)):
                s, cl, info = rand_run(rng, fmt, kind, trace=(1 if rng.random() < 0.7 else 0), wants=(1 if kind == 'mc' and rng.random() < 0.6 else None))
                c.add(t, 'run', s, classes=cl, nontrivial=any(x >= 2 for x in info['calls']), info=info)
            for _ in range(scale(tier, 3, 20)):
                # the MPI drivers report the reduced counters and sums of the same estimator
                s, cl, info = rand_run(rng, fmt, kind, trace=1)
                s, cl2 = mpi_variant(rng, s, info)
                c.add(t, 'run', s, classes=cl + cl2, nontrivial=any(x >= 2 for x in info['calls']), info=info)
    for t in TYPES: gen_sizes(c, rng, tier, t, ['dims', 'dists', 'iterations'])
    gen_wide_return(c, rng, tier)

@prop('C06', 'paired runs (poisoned / zeroed twin) over 2-4 adaptive iterations; NaN, +inf, -inf from the integrand, from the fill value and from the weight '
      '(infinite jacobian, zero density sum); all three integrators and types; non-trivial = at least one non-finite and one finite evaluation',
      COMMON_ASSUMPTIONS + ['channel maps honour the documented contract (outputs are functions of channel, numbers and coordinates)'])
def gen_C06(c, rng, tier):
    PROPS['C06']['mpi'] = True
    for t in TYPES:
        fmt = FMTS[t]
        for kind in KINDS:
            for _ in range(scale(tier, 8, 80)):
                s, cl, info = rand_run(rng, fmt, kind, poly=False, iters=rng.choice([2, 3, 4]), calls=[3, 5, 8, 13],
                                       value_classes=['small_int', 'frac', 'neg', 'nan', 'inf', 'ninf', 'zero', 'big'], special_map=(kind == 'mc'))
                twin = oracles.zeroed_twin(s, fmt)
                a = c.add(t, 'run', s, classes=cl + ['poisoned'], info=info)
                if twin is not None:
                    c.add(t, 'run', twin, classes=['zeroed_twin'], twin_of=a, info=info)
            for _ in range(scale(tier, 2, 16)):
                # the MPI drivers: non-finite values on some ranks only; the reduced counters and sums must be those of the same estimator
                s, cl, info = rand_run(rng, fmt, kind, poly=False, iters=rng.choice([2, 3]), calls=[5, 8, 13],
                                       value_classes=['small_int', 'nan', 'inf', 'ninf', 'zero', 'frac'], special_map=(kind == 'mc'))
                s, cl2 = mpi_variant(rng, s, info, worlds=(2, 3, 5))
                c.add(t, 'run', s, classes=cl + cl2 + ['poisoned'], info=info)
    gen_wide_return(c, rng, tier)

@prop('C10', 'runs of the three integrators with every value pattern, grid and weight vector: the number of raw draws taken from the scripted 64-bit engine '
      'and the stored generator positions are compared with the model; the predictor random_number_usage is compared with the measured draws of all nine '
      'standard engines and synthetic ranges (C++-only part); non-trivial = multi-channel or non-finite values',
      COMMON_ASSUMPTIONS + ['libm floor(log2 R) agrees between hep-mc (std::log2) and libstdc++ (log(R)/log(2)) - measured, not proved'])
def gen_C10(c, rng, tier):
    PROPS['C10']['mpi'] = True
    for t in TYPES:
        fmt = FMTS[t]
        for kind in KINDS:
            for _ in range(scale(tier, 8, 60)):
                s, cl, info = rand_run(rng, fmt, kind, special_map=(kind == 'mc' and rng.random() < 0.5))
                if rng.random() < 0.25:
                    s, cl3 = mpi_variant(rng, s, info); cl = cl + cl3          # every rank ends at the serial generator position
                c.add(t, 'run', s, classes=cl, nontrivial=(kind == 'mc' or any('value_nan' == x or 'value_inf' == x for x in cl)), info=info)
    for t in TYPES: gen_sizes(c, rng, tier, t, ['dims', 'channels'])
    for t in TYPES:
        fmt = FMTS[t]
        for _ in range(scale(tier, 2, 10)):
            # multi-channel under MPI with a map whose target dimension differs from the number of random numbers per call
            s, cl, info = rand_run(rng, fmt, 'mc', poly=False, force_mapdims=True, iters=2, calls=[7, 12], value_classes=['small_int', 'frac', 'zero'])
            s, cl3 = mpi_variant(rng, s, info, worlds=(2, 3, 5))
            c.add(t, 'run', s, classes=cl + cl3 + ['map_dimensions_differ_under_mpi'], nontrivial=True, info=info)

@prop('C11', '1-d and 2-d binnings (negative, tiny, huge, non-unit ranges) with coordinates interior / on every edge / +-1 ulp / outside / +-inf / NaN / 2^70, '
      'several distributions per integrand, the same distribution filled twice, fill values from tables; three integrators and types; '
      'non-trivial = at least one distribution', COMMON_ASSUMPTIONS)
def gen_C11(c, rng, tier):
    PROPS['C11']['mpi'] = True
    for t in TYPES:
        fmt = FMTS[t]
        for kind in KINDS:
            for _ in range(scale(tier, 12, 100)):
                dl = rand_dists(rng, fmt, n=rng.choice([1, 2, 3]))
                s, cl, info = rand_run(rng, fmt, kind, dists=dl, calls=[5, 9, 24], iters=rng.choice([1, 2]), trace=1,
                                       wants=(1 if kind == 'mc' and rng.random() < 0.6 else None), value_classes=['small_int', 'frac', 'neg', 'zero', 'nan'])
                c.add(t, 'run', s, classes=cl + (['two_d'] if any(d[1] > 1 for d in dl) else []), info=info)
            for _ in range(scale(tier, 2, 16)):
                # the MPI drivers: every rank must return the distributions of the whole iteration (all ranks' fills reduced)
                dl = rand_dists(rng, fmt, n=rng.choice([1, 2]))
                s, cl, info = rand_run(rng, fmt, kind, dists=dl, calls=[9, 24], iters=rng.choice([1, 2]), value_classes=['small_int', 'frac', 'neg', 'zero'], finite_only=True)
                s, cl2 = mpi_variant(rng, s, info, worlds=(2, 3, 5))
                c.add(t, 'run', s, classes=cl + cl2 + ['distributions_on_every_rank'], info=info)
        for _ in range(scale(tier, 10, 60)):
            d = rand_dists(rng, fmt, n=1, two_d=True)[0]
            c.add(t, 'midpoints', d[:6], classes=['midpoints'])
        for kind in ['vegas', 'mc']:
            for _ in range(scale(tier, 5, 40)):
                # huge but finite values with point weights different from one (adapted / user grids, channel maps incl. non-finite
                # jacobians): the product decides whether a contribution is finite, not the value handed to the projector
                dl = rand_dists(rng, fmt, n=rng.choice([1, 2]))
                s, cl, info = rand_run(rng, fmt, kind, dists=dl, calls=[6, 12], iters=rng.choice([2, 3]), trace=1, poly=False, user_state=(kind == 'vegas'),
                                       special_map=(kind == 'mc'), wants=(1 if kind == 'mc' and rng.random() < 0.5 else None), value_classes=['small_int', 'frac', 'zero'])
                huge = [fmt.round(fmt.max / rng.choice([1, 2, 3])), fmt.round(-fmt.max / 2), fmt.round(Fraction(2) ** (fmt.emax - 3)), Fraction(1), Fraction(0)]
                s = [e if e[0] != 'f' else ['f', ['tab', toks(fmt, [rng.choice(huge) for _ in range(7)])]] for e in s]
                c.add(t, 'run', s, classes=cl + ['huge_finite_values', 'weights_not_one'], info=info)
    for t in TYPES: gen_sizes(c, rng, tier, t, ['dist_bins', 'dists'])

@prop('C12', 'scripted user callbacks returning false at every position of 1-6 iteration lists; the built-in callback on zero / constant / zero-mean / non-finite '
      'integrands with targets 0, tiny, moderate, 1; four modes; resumed checkpoints; non-trivial = at least two requested iterations',
      COMMON_ASSUMPTIONS)
def gen_C12(c, rng, tier):
    PROPS['C12']['mpi'] = True
    for t in TYPES:
        fmt = FMTS[t]
        for kind in KINDS:
            for _ in range(scale(tier, 10, 80)):
                iters = rng.choice([1, 2, 3, 4, 6])
                if rng.random() < 0.5:
                    script = [1] * iters
                    if rng.random() < 0.8: script[rng.randrange(iters)] = 0
                    cb = ['script', script]; cl = ['cb_script']
                    vc = None
                else:
                    target = rng.choice([Fraction(0), Fraction(0), Fraction(1, 10 ** 6), Fraction(1, 10), Fraction(1, 2), Fraction(1)])
                    cb = ['builtin', rng.randrange(4), fmt.rtok(target)]; cl = ['cb_builtin', 'target_%s' % ('zero' if target == 0 else 'positive')]
                    vc = rng.choice([['zero'], ['small_int'], ['small_int', 'neg'], ['nan', 'inf'], ['small_int', 'frac', 'neg', 'zero'], None])
                ops = None
                s, cl2, info = rand_run(rng, fmt, kind, iters=iters, calls=[2, 3, 5, 8], cb=cb, poly=False if vc else None, value_classes=vc)
                if vc and len(vc) == 1: cl.append('integrand_' + vc[0])
                if rng.random() < 0.3:
                    # resume: run a prefix, reload, run the rest
                    k = rng.randint(0, iters)
                    s = [e for e in s if e[0] != 'ops'] + [['ops', [['run', info['calls'][:k]], ['reload'], ['run', info['calls'][k:]], ['dump']]]]
                    cl.append('resumed')
                elif rng.random() < 0.25:
                    s, cl3 = mpi_variant(rng, s, info); cl += cl3
                c.add(t, 'run', s, classes=cl + cl2, nontrivial=iters >= 2, info=info)
    gen_C12_resumed(c, rng, tier)
    gen_C12_shared_callback(c, rng, tier)
    gen_C12_cancelling(c, rng, tier)
    gen_C12_mpi(c, rng, tier)

def gen_C12_cancelling(c, rng, tier):
    """iterations whose values cancel exactly (estimate 0 with a positive error) followed by ordinary ones: such an iteration takes part
    in the variance-weighted combination the built-in callback decides on"""
    for t in TYPES:
        fmt = FMTS[t]
        for kind in ['plain', 'plain', 'vegas']:
            for _ in range(scale(tier, 3, 20)):
                iters = rng.choice([3, 4, 5]); n = rng.choice([4, 6, 8])
                v = Fraction(rng.randint(1, 9), rng.choice([1, 2, 4]))
                k = rng.randrange(iters - 1)                 # the iteration that cancels
                tab = []
                for i in range(iters):
                    tab += [v, -v] * (n // 2) if i == k else [Fraction(rng.randint(1, 9), 2) + (Fraction(1, 8) if j % 2 else 0) for j in range(n)]
                target = rng.choice([Fraction(1, 4), Fraction(1, 10), Fraction(2, 5), Fraction(3, 5)])
                chk = ['plain'] if kind == 'plain' else ['default', 2, fmt.rtok(0)]
                s = spec_run(kind, fmt, dims=1, seed=rng.getrandbits(32), chk=chk, f=['tab', toks(fmt, [fmt.round(x) for x in tab])],
                             cb=['builtin', rng.randrange(4), fmt.rtok(target)], ops=[['run', [n] * iters], ['dump'], ['combine', 'wwv']])
                c.add(t, 'run', s, classes=['kind_' + kind, 'cancelling_iteration', 'cb_builtin', 'target_positive'], info={'kind': kind, 'dims': 1, 'channels': 1, 'calls': [n] * iters})

def gen_C12_mpi(c, rng, tier):
    """the MPI wrapper of the built-in callback: with a target precision every rank must take the decision rank 0 takes (otherwise rank 0
    leaves while the others wait in the next collective), in every mode"""
    for t in TYPES:
        fmt = FMTS[t]
        for kind in KINDS:
            for _ in range(scale(tier, 3, 20)):
                iters = rng.choice([3, 4, 6]); target = rng.choice([Fraction(1, 4), Fraction(1, 10), Fraction(2, 5), Fraction(1, 2)])
                s, cl, info = rand_run(rng, fmt, kind, iters=iters, calls=[6, 12, 20], cb=['builtin', rng.choice([1, 2, 3, 0]), fmt.rtok(target)], poly=True, finite_only=True, dists=[])
                s, cl3 = mpi_variant(rng, s, info, worlds=(2, 3, 5))
                c.add(t, 'run', s, classes=cl + cl3 + ['cb_builtin', 'target_positive'], info=info)

def gen_C12_shared_callback(c, rng, tier):
    """ONE callback object (as with std::ref) sees several checkpoints in a row: a run, the checkpoint rolled back or reloaded, and further
    runs with other calls - its decision must depend on the checkpoint it is given only, not on what it saw before"""
    for t in TYPES:
        fmt = FMTS[t]
        for kind in KINDS:
            for _ in range(scale(tier, 6, 30)):
                iters = rng.choice([3, 4, 5])
                target = rng.choice([Fraction(1, 4), Fraction(1, 10), Fraction(1, 20), Fraction(2, 5), Fraction(3, 20)])
                s, cl, info = rand_run(rng, fmt, kind, iters=iters, calls=[4, 9, 16, 30], cb=['builtin', rng.randrange(4), fmt.rtok(target)], poly=True, finite_only=True, dists=[])
                calls = info['calls']; j = rng.randint(0, 1)
                other = [rng.choice([5, 12, 40]) for _ in range(iters + 2)]
                ops = [['run', calls], ['rollback', j]] + ([['reload']] if rng.random() < 0.4 else []) + [['run', other], ['dump'], ['rollback', 0], ['run', calls[::-1] + [50, 50]], ['dump']]
                s = [e for e in s if e[0] not in ('ops', 'cbref')] + [['cbref', 1], ['ops', ops]]
                c.add(t, 'run', s, classes=cl + ['one_callback_object_for_several_checkpoints', 'cb_builtin', 'target_positive'], info=info)

def gen_C12_resumed(c, rng, tier):
    """the built-in callback with a positive target on resumed checkpoints: the stop decision must use all results, also those
    made before the interruption"""
    for t in TYPES:
        fmt = FMTS[t]
        for kind in KINDS:
            for _ in range(scale(tier, 4, 30)):
                iters = rng.choice([3, 4, 6])
                target = rng.choice([Fraction(1, 4), Fraction(1, 10), Fraction(1, 20), Fraction(2, 5)])
                s, cl, info = rand_run(rng, fmt, kind, iters=iters, calls=[4, 9, 16], cb=['builtin', rng.randrange(4), fmt.rtok(target)], poly=True, finite_only=True)
                k = rng.randint(1, iters - 1)
                s = [e for e in s if e[0] != 'ops'] + [['ops', [['run', info['calls'][:k]], ['reload'], ['run', info['calls'][k:]], ['dump']]]]
                c.add(t, 'run', s, classes=cl + ['resumed', 'cb_builtin', 'target_positive'], info=info)

@prop('C17', 'event logs (map-coordinates, integrand, map-densities events with channel, random numbers, coordinates, enabled channels, buffer identity) of '
      'runs with zero / non-zero / non-finite value patterns, with and without projector use and explicit weight requests, disabled channels, extreme canonical '
      'numbers, jacobian 0 (weight re-evaluation); non-trivial = multi-channel or extreme canonical numbers', COMMON_ASSUMPTIONS +
      ['object lifetime / aliasing of the reference members of the point classes is only visible to the sanitizer build'])
def gen_C17(c, rng, tier):
    for t in TYPES:
        fmt = FMTS[t]
        for kind in ['mc', 'mc', 'vegas', 'plain']:
            for _ in range(scale(tier, 10, 80)):
                s, cl, info = rand_run(rng, fmt, kind, trace=1, calls=[1, 3, 6, 10], special_map=(kind == 'mc' and rng.random() < 0.5),
                                       value_classes=['small_int', 'zero', 'zero', 'neg', 'nan', 'frac'])
                c.add(t, 'run', s, classes=cl, nontrivial=(kind == 'mc' or 'extreme_canonical_numbers' in cl), info=info)
    gen_C17_many_channels(c, rng, tier)

def gen_C17_many_channels(c, rng, tier):
    """channel counts whose uniform default weights 1/n do not add up exactly, with the largest engine outputs selecting the channel:
    the map must still be asked for an existing, enabled channel"""
    for t in TYPES:
        fmt = FMTS[t]
        for _ in range(scale(tier, 8, 60)):
            channels = rng.choice([9, 10, 11, 14, 15, 18, 21, 22, 23, 41, 49] + BIG_COUNTS[:8]); dims = 1
            n = rng.choice([6, 10])
            tops = [2 ** 64 - 1, 2 ** 64 - 2, min(2 ** 64 - 1, 2 ** 64 - 2 ** max(0, 63 - fmt.prec)), 2 ** 64 - 2 ** max(0, 64 - fmt.prec), 0, 2 ** 63]
            raw = []
            for i in range(n):
                raw += [rng.getrandbits(64), rng.choice(tops)]
            user = rng.random() < 0.4
            chk = ['weights', toks(fmt, [fmt.round(Fraction(1, channels))] * channels), fmt.rtok(0), fmt.rtok(Fraction(1, 4))] if user else ['default', fmt.rtok(0), fmt.rtok(Fraction(1, 4))]
            s = spec_run('mc', fmt, dims=dims, channels=channels, raw=raw, chk=chk, f=['tab', toks(fmt, [Fraction(1), Fraction(0)])],
                         mp=rand_map_tab(rng, fmt, channels), trace=1, ops=[['run', [n]], ['dump']])
            c.add(t, 'run', s, classes=['kind_mc', 'many_channels', 'top_raw_engine_outputs'], info={'kind': 'mc', 'dims': dims, 'channels': channels, 'calls': [n]})
        gen_big_channel_runs(c, rng, tier, t)

@prop('C19', 'VEGAS and multi-channel runs of 2-5 iterations whose adjustment data actually move the state (polynomial integrands, asymmetric grid maps), default and '
      'user grids / weights (unnormalised, with zeros), all alpha / beta / minimum weights, also resumed from text; results k and k+1 and the points drawn are '
      'compared with the model; non-trivial = at least two iterations', COMMON_ASSUMPTIONS)
def gen_C19(c, rng, tier):
    PROPS['C19']['mpi'] = True
    for t in TYPES:
        fmt = FMTS[t]
        for kind in ['vegas', 'mc']:
            for _ in range(scale(tier, 12, 100)):
                iters = rng.choice([2, 3, 5])
                s, cl, info = rand_run(rng, fmt, kind, iters=iters, calls=[6, 10, 16], poly=True, trace=1, finite_only=True)
                if rng.random() < 0.4:
                    k = rng.randint(1, iters - 1)
                    s = [e for e in s if e[0] != 'ops'] + [['ops', [['run', info['calls'][:k]], ['dump'], ['reload'], ['run', info['calls'][k:]], ['dump']]]]
                    cl.append('resumed')
                elif rng.random() < 0.3:
                    s, cl3 = mpi_variant(rng, s, info); cl += cl3
                c.add(t, 'run', s, classes=cl, info=info)
            for _ in range(scale(tier, 6, 30)):
                # an MPI run started from a checkpoint that already holds results (in memory or reloaded): its first iteration must
                # sample with the refinement of the last stored result - once
                iters = rng.choice([3, 4])
                s, cl, info = rand_run(rng, fmt, kind, iters=iters, calls=[6, 10, 16], poly=True, trace=1, finite_only=True, dists=[])
                k = rng.randint(1, iters - 1)
                P = rng.choice([1, 2, 3, 5]); perm = list(range(P)); rng.shuffle(perm)
                ops = [['run', info['calls'][:k]]] + ([['reload']] if rng.random() < 0.5 else []) + [['mpi', info['calls'][k:], P, perm], ['dump']]
                s = small_bins([e for e in s if e[0] != 'ops'] + [['ops', ops]])
                c.add(t, 'run', s, classes=cl + ['mpi_shim', 'mpi_from_checkpoint_with_results', 'world_%d' % P], info=info)
            if kind == 'vegas':
                for _ in range(scale(tier, 8, 40)):
                    # an iteration whose non-zero values cancel exactly (sum 0, adjustment data not 0): the grid must still be refined
                    iters = rng.choice([3, 4]); n = rng.choice([6, 10])
                    v = Fraction(rng.randint(1, 9), rng.choice([1, 2]))
                    kc = rng.randrange(iters - 1)
                    tab = []
                    for i in range(iters):
                        tab += [v, -v] * (n // 2) if i == kc else [Fraction(rng.randint(1, 9), 2) for _ in range(n)]
                    bins = rng.choice([2, 4, 8])
                    s = spec_run('vegas', fmt, dims=1, seed=rng.getrandbits(32), chk=['default', bins, fmt.rtok(Fraction(3, 2))], f=['tab', toks(fmt, [fmt.round(x) for x in tab])],
                                 trace=1, ops=[['run', [n] * iters], ['dump']])
                    c.add(t, 'run', s, classes=['kind_vegas', 'cancelling_iteration'], info={'kind': 'vegas', 'dims': 1, 'channels': 1, 'calls': [n] * iters})
            for _ in range(scale(tier, 4, 30)):
                # the text of a checkpoint that has no result yet (user grid / weights, parameters that need all digits), then run
                iters = rng.choice([2, 3])
                # (a default VEGAS checkpoint has no grid before the first run and cannot be written: a documented precondition)
                s, cl, info = rand_run(rng, fmt, kind, iters=iters, calls=[6, 10], poly=True, trace=1, finite_only=True, user_state=(kind == 'vegas' or rng.random() < 0.7), dists=[])
                s = [e for e in s if e[0] != 'ops'] + [['ops', [['text'], ['reload'], ['run', info['calls']], ['dump']]]]
                c.add(t, 'run', s, classes=cl + ['resumed_before_first_iteration'], info=info)
            for _ in range(scale(tier, 3, 20)):
                # run, reload, resume, roll back to the start, run again: the first iteration again samples with the user's state
                n = rng.choice([2, 3])
                s, cl, info = rand_run(rng, fmt, kind, iters=n, calls=[6, 10], poly=True, trace=1, finite_only=True, user_state=True, dists=[], grid_map=True)
                calls = info['calls']
                s = [e for e in s if e[0] != 'ops'] + [['ops', [['run', calls[:1]], ['reload'], ['run', calls[1:]], ['rollback', 0], ['run', calls], ['dump']]]]
                c.add(t, 'run', s, classes=cl + ['reload_resume_rollback_redo'], info=info)
    for t in TYPES: gen_sizes(c, rng, tier, t, ['bins', 'channels'])

@prop('C20', 'the same run under the four callback modes (results, generator positions, next state compared between modes and with the model); multi-channel '
      'summaries for 1-40 channels with all-equal, all-but-one-minimal and disabled-channel weight patterns: index skeleton (channel numbers, N=, ranges) '
      'parsed from the real output and compared with the model; non-trivial = multi-channel with at least 2 channels', COMMON_ASSUMPTIONS)
def gen_C20(c, rng, tier):
    PROPS['C20']['mpi'] = True
    for t in TYPES:
        fmt = FMTS[t]
        for kind in KINDS:
            for _ in range(scale(tier, 5, 40)):
                target = rng.choice([Fraction(0), Fraction(1, 4)])
                s0, cl, info = rand_run(rng, fmt, kind, iters=rng.choice([1, 2, 3]), calls=[3, 6, 12], cb=['builtin', 0, fmt.rtok(target)])
                group = len(c.cases)
                use_mpi = rng.random() < 0.3
                if use_mpi:
                    s0, cl3 = mpi_variant(rng, [e for e in s0 if e[0] != 'ops'] + [['ops', [['run', info['calls']], ['dump']]]], info); cl = cl + cl3
                for mode in range(4):
                    s = [e if e[0] != 'cb' else ['cb', ['builtin', mode, fmt.rtok(target)]] for e in s0]
                    c.add(t, 'run', s, classes=cl + ['mode_%d' % mode], mode_group=group, info=info, nontrivial=(kind == 'mc'))
            for _ in range(scale(tier, 2, 12)):
                # finite values whose squares overflow: the sums of squares become infinite - reporting and writing must cope in every mode
                s0, cl, info = rand_run(rng, fmt, kind, iters=rng.choice([1, 2]), calls=[3, 6], cb=['builtin', 0, fmt.rtok(0)], poly=False, dists=[], value_classes=['small_int'])
                huge = [fmt.round(fmt.max / 2), fmt.round(Fraction(2) ** (fmt.emax // 2 + 3)), Fraction(1), -fmt.round(Fraction(2) ** (fmt.emax // 2 + 5))]
                s0 = [e if e[0] != 'f' else ['f', ['tab', toks(fmt, [rng.choice(huge) for _ in range(5)])]] for e in s0]
                group = len(c.cases)
                for mode in range(4):
                    s = [e if e[0] != 'cb' else ['cb', ['builtin', mode, fmt.rtok(0)]] for e in s0]
                    c.add(t, 'run', s, classes=cl + ['mode_%d' % mode, 'overflowing_squares'], mode_group=group, info=info, nontrivial=True)
            for _ in range(scale(tier, 3, 20)):
                # a resumed checkpoint and a target precision: the decision must use the earlier results in every mode
                iters = rng.choice([3, 4, 6]); target = rng.choice([Fraction(1, 4), Fraction(1, 10), Fraction(2, 5)])
                s0, cl, info = rand_run(rng, fmt, kind, iters=iters, calls=[4, 9, 16], cb=['builtin', 0, fmt.rtok(target)], poly=True, finite_only=True)
                k = rng.randint(1, iters - 1)
                s0 = [e for e in s0 if e[0] != 'ops'] + [['ops', [['run', info['calls'][:k]], ['reload'], ['run', info['calls'][k:]], ['dump']]]]
                group = len(c.cases)
                for mode in range(4):
                    s = [e if e[0] != 'cb' else ['cb', ['builtin', mode, fmt.rtok(target)]] for e in s0]
                    c.add(t, 'run', s, classes=cl + ['mode_%d' % mode, 'resumed', 'target_positive'], mode_group=group, info=info, nontrivial=True)
        # summaries over weight patterns
        for _ in range(scale(tier, 10, 80)):
            n = rng.choice([1, 2, 3, 7, 12, 13, 14, 25, 40])
            pat = rng.choice(['equal', 'one_big', 'random', 'disabled', 'two_levels'])
            if pat == 'equal': ws = [Fraction(1)] * n
            elif pat == 'one_big': ws = [Fraction(1)] * n; ws[rng.randrange(n)] = Fraction(50)
            elif pat == 'random': ws = [Fraction(rng.randint(1, 1000)) for _ in range(n)]
            elif pat == 'disabled': ws = [Fraction(rng.randint(1, 9)) if rng.random() < 0.6 else Fraction(0) for _ in range(n)]
            else: ws = [Fraction(rng.choice([1, 5])) for _ in range(n)]
            if all(w == 0 for w in ws): ws[0] = Fraction(1)
            ws = [fmt.round(w) for w in ws]
            s = spec_run('mc', fmt, dims=1, channels=n, seed=rng.getrandbits(32), chk=['weights', toks(fmt, ws), fmt.rtok(0), fmt.rtok(Fraction(1, 4))],
                         f=['tab', toks(fmt, [Fraction(1), Fraction(2), Fraction(0)])], mp=rand_map_tab(rng, fmt, n),
                         cb=['builtin', rng.choice([2, 3]), fmt.rtok(0)], ops=[['run', [rng.choice([10, 100, 1000 if n < 8 else 50])] * 2], ['dump'], ['maxdiff']])
            fm = []
            if rng.random() < 0.5:
                s.insert(-1, ['coutfmt', rng.choice([256, 256 + 1, 8, 1 + 4, 16 + 256, 3, 512, 512 + 256])]); fm = ['cout_format_changed']
            c.add(t, 'run', s, classes=['summary', 'pattern_' + pat, 'channels_%s' % ('1' if n == 1 else 'few' if n < 13 else 'many')] + fm, nontrivial=n >= 2)

def history_ops(rng, calls, with_rollback):
    """operation history built from run(m), reload, rollback(k), resume"""
    ops = []; done = 0
    n = len(calls)
    while done < n:
        m = rng.randint(1, n - done)
        ops.append(['run', calls[done:done + m]]); done += m
        if rng.random() < 0.6: ops.append(['reload'])
        if with_rollback and rng.random() < 0.5:
            k = rng.randint(0, done + 1)
            ops.append(['rollback', k])
            if k <= done:
                if rng.random() < 0.5: ops.append(['reload'])
                ops.append(['text'])
                done = k
    ops += [['dump'], ['text']]
    return ops

@prop('C03', 'every subset of the iteration boundaries as interruption points (serialise, reload, continue) for n <= 4 iterations (thorough: n <= 6), three '
      'integrators and types, with/without 1-d/2-d distributions (names empty, blanks, leading blanks), user grids / weights with disabled channels, unequal '
      'calls, built-in callback with target precision and file-writing modes; final text compared with the model and with the uninterrupted run; the nine '
      'standard engines are covered by a C++-only differential; non-trivial = at least one interruption', COMMON_ASSUMPTIONS +
      ['user callbacks must themselves be functions of the checkpoint text (proved for the built-in one)'])
def gen_C03(c, rng, tier):
    for t in TYPES:
        fmt = FMTS[t]
        for kind in KINDS:
            for _ in range(scale(tier, 3, 16)):
                n = rng.choice([2, 3, 4] if tier == 'quick' else [3, 4, 5, 6])
                cb = rng.choice([None, ['builtin', rng.choice([0, 1]), fmt.rtok(rng.choice([Fraction(0), Fraction(1, 8)]))]])
                s0, cl, info = rand_run(rng, fmt, kind, iters=n, calls=[3, 5, 8], cb=cb, finite_only=True,
                                        value_classes=['small_int', 'frac', 'neg', 'zero', 'big', 'tiny'])
                group = len(c.cases)
                calls = info['calls']
                subsets = list(itertools.product([0, 1], repeat=n - 1))
                if len(subsets) > 8 and tier == 'quick':
                    subsets = [subsets[0]] + rng.sample(subsets[1:], 7)
                for cuts in subsets:
                    ops = []; start = 0
                    for i, cut in enumerate(cuts):
                        if cut:
                            ops += [['run', calls[start:i + 1]], ['reload']]; start = i + 1
                    ops += [['run', calls[start:]], ['text']]
                    s = [e for e in s0 if e[0] != 'ops'] + [['ops', ops]]
                    c.add(t, 'run', s, classes=cl + ['cuts_%d' % sum(cuts)], resume_group=group, nontrivial=sum(cuts) > 0, info=info)
    gen_C03_target(c, rng, tier)
    for t in TYPES:
        fmt = FMTS[t]
        for kind in KINDS:
            for _ in range(scale(tier, 2, 10)):
                # the MPI drivers with the callback in a writing mode: the file is written by rank 0 of the communicator of the integration
                # (which need not be rank 0 of the world) and a run resumed from the returned checkpoint continues the stream
                s, cl, info = rand_run(rng, fmt, kind, iters=3, calls=[6, 10], cb=['builtin', rng.choice([1, 3]), fmt.rtok(0)], finite_only=True, poly=True, dists=[])
                calls = info['calls']
                P = rng.choice([2, 3, 5]); perm = list(range(P)); rng.shuffle(perm)
                s = small_bins([e for e in s if e[0] not in ('ops', 'subcomm')]) + [['subcomm', rng.choice([0, 1, 3])], ['ops', [['mpi', calls[:2], P, perm], ['reload'], ['mpi', calls[2:], P, perm], ['text']]]]
                c.add(t, 'run', s, classes=cl + ['mpi_shim', 'world_%d' % P, 'callback_writes_file_under_mpi'], info=info)
    for t in TYPES: gen_sizes(c, rng, tier, t, ['iterations', 'bins'], ops_fn=lambda cs: [['run', cs[:len(cs) // 2]], ['reload'], ['run', cs[len(cs) // 2:]], ['text']])

def gen_C03_target(c, rng, tier):
    """early stop by target precision on resumed runs: the decision after the interruption must take the earlier iterations into account,
    so the resumed run stops exactly where the uninterrupted one does"""
    for t in TYPES:
        fmt = FMTS[t]
        for kind in KINDS:
            for _ in range(scale(tier, 3, 16)):
                n = rng.choice([4, 5, 6])
                target = rng.choice([Fraction(1, 4), Fraction(1, 10), Fraction(1, 20), Fraction(2, 5), Fraction(1, 50)])
                s0, cl, info = rand_run(rng, fmt, kind, iters=n, calls=[4, 9, 16], cb=['builtin', rng.choice([0, 1]), fmt.rtok(target)], poly=True, finite_only=True)
                calls = info['calls']; group = len(c.cases)
                cutsets = [tuple([0] * (n - 1))] + [tuple(1 if i == k else 0 for i in range(n - 1)) for k in range(n - 1)]
                for cuts in cutsets:
                    ops = []; start = 0
                    for i, cut in enumerate(cuts):
                        if cut:
                            ops += [['run', calls[start:i + 1]], ['reload']]; start = i + 1
                    ops += [['run', calls[start:]], ['text']]
                    c.add(t, 'run', [e for e in s0 if e[0] != 'ops'] + [['ops', ops]], classes=cl + ['cuts_%d' % sum(cuts), 'target_precision'],
                          resume_group=group, nontrivial=sum(cuts) > 0, info=info)

@prop('C05', 'checkpoints of the three kinds with extreme field values (denormal, largest finite, negative, -0, values needing all digits), any number of '
      'results / distributions / bins / channels / dimensions, names empty / blank / leading blank / digits, written to text (compared token by token with the '
      'model, every number checked to be the correctly rounded max_digits10 decimal) and read back (every accessor compared bit for bit before and after); '
      'the nine standard engines are covered by a C++-only round trip; non-trivial = at least one result', COMMON_ASSUMPTIONS +
      ['glibc printf("%.*e") / strto{f,d,ld} are correctly rounded (checked on every number of every text by the comparator)',
       'names contain no newline'])
def gen_C05(c, rng, tier):
    for t in TYPES:
        fmt = FMTS[t]
        half = min(fmt.emax // 2 - 2, 500)
        # values whose square neither overflows (all fields stay finite, as the property requires)
        full = fmt.emax // 2 - 2        # (long double: decimal exponents with four digits, also negative numbers with four-digit exponents)
        extremes = [-(Fraction(2) ** full) * 5 / 8, Fraction(2) ** (full - 3) * 7, -Fraction(2) ** (-full + 4) * 3,
                    Fraction(2) ** fmt.emin, Fraction(2) ** half - 1, -(Fraction(2) ** half) * 3 / 4, '-0', Fraction(1, 3), Fraction(2) ** (fmt.emin + 5) * 3, Fraction(1, 10),
                    -Fraction(2) ** (4 - half), Fraction(123456789, 1000), fmt.pred(Fraction(1)), fmt.succ(Fraction(1))]
        # every representable class, through fields that are stored verbatim: a user grid and the adaptation parameters of a
        # fresh checkpoint (no iteration is run, so nothing is computed from them)
        verbatim = [fmt.max, -fmt.max, Fraction(2) ** fmt.emin, -Fraction(2) ** fmt.emin, '-0', Fraction(0), fmt.pred(Fraction(1)), fmt.succ(Fraction(1)),
                    Fraction(1, 3), Fraction(1, 10), Fraction(2) ** (fmt.emin + fmt.prec - 1), fmt.pred(Fraction(2) ** (fmt.emin + fmt.prec - 1)), Fraction(10) ** 15 + 1,
                    Fraction(5, 10 ** 8), Fraction(2) ** 70 / 3]
        for _ in range(scale(tier, 12, 120)):
            vals = [fmt.round(v) if isnum(v) else v for v in (rng.sample(verbatim, 6) + [fmt.round(Fraction(rng.getrandbits(70), 3 ** rng.randint(1, 40)) * Fraction(2) ** rng.randint(-200, 200) if fmt.emax > 200 else Fraction(rng.getrandbits(30), 3 ** rng.randint(1, 20)))])]
            bins = rng.choice([1, 2, 5]); dims = rng.choice([1, 2])
            xs = [rng.choice(vals) for _ in range((bins + 1) * dims)]
            ops = [['dump'], ['text'], ['reload'], ['dump'], ['text']]
            s = spec_run('vegas', fmt, dims=dims, chk=['pdf', bins, dims, toks(fmt, xs), fmt.tok(rng.choice(vals))], f=['tab', [fmt.tok(Fraction(1))]], ops=ops)
            c.add(t, 'run', s, classes=['verbatim_grid', 'kind_vegas'])
            s = spec_run('mc', fmt, dims=1, channels=2, chk=['default', fmt.tok(rng.choice(vals)), fmt.tok(rng.choice(vals))], f=['tab', [fmt.tok(Fraction(1))]],
                         mp=['tab', [], [fmt.tok(Fraction(1))], [fmt.tok(Fraction(1))]], ops=ops)
            c.add(t, 'run', s, classes=['verbatim_parameters', 'kind_mc'])
        for kind in KINDS:
            for _ in range(scale(tier, 10, 80)):
                ext = rng.random() < 0.5
                if ext:
                    # one call per iteration: the sum IS the table value (any finite value)
                    picked = rng.sample(extremes, 4)
                    vals = [fmt.round(v) if isnum(v) else v for v in picked]
                    # (the three largest magnitudes only without distributions: a bin holds the value divided by the bin size, whose square overflows)
                    s, cl, info = rand_run(rng, fmt, kind, iters=rng.choice([1, 2, 3]), calls=[1], poly=False, dists=([] if any(v in extremes[:2] for v in picked) else None))
                    s = [e if e[0] != 'f' else ['f', ['tab', toks(fmt, vals)]] for e in s]
                    cl.append('extreme_values')
                else:
                    s, cl, info = rand_run(rng, fmt, kind, iters=rng.choice([0, 1, 2, 3]), calls=[0, 2, 5, 9], finite_only=True,
                                           value_classes=['small_int', 'frac', 'neg', 'zero', 'big', 'tiny'])
                s = [e for e in s if e[0] != 'ops'] + [['ops', [['run', info['calls']], ['dump'], ['text'], ['reload'], ['dump'], ['text']]]]
                c.add(t, 'run', s, classes=cl, nontrivial=len(info['calls']) > 0, info=info)
    for t in TYPES: gen_sizes(c, rng, tier, t, ['bins', 'dims', 'iterations', 'dists', 'dist_bins', 'channels'], ops_fn=lambda cs: [['run', cs], ['dump'], ['text'], ['reload'], ['dump'], ['text']])
    gen_long_lived_object(c, rng, tier)

def gen_long_lived_object(c, rng, tier):
    for t in TYPES:
        fmt = FMTS[t]
        for kind in KINDS:
            for _ in range(scale(tier, 3, 20)):
                # one long-lived checkpoint object: written to text, rolled back, continued DIFFERENTLY (other calls), written again -
                # the second text must describe what the object holds now (nothing remembered from the first serialisation)
                n = rng.choice([2, 3, 4])
                s0, cl, info = rand_run(rng, fmt, kind, iters=n, calls=[3, 5, 8], finite_only=True, poly=True, dists=([] if rng.random() < 0.5 else None), grid_map=True)
                calls = info['calls']; k = rng.randint(0, n - 1)
                other = [rng.choice([4, 6, 9, 12]) for _ in range(n - k + rng.choice([0, 1]))]
                ops = [['run', calls], ['text'], ['rollback', k], ['run', other], ['text'], ['dump'], ['reload'], ['text']]
                c.add(t, 'run', [e for e in s0 if e[0] != 'ops'] + [['ops', ops]], classes=cl + ['text_rollback_other_continuation_text'], nontrivial=True, info=info)

@prop('C15', 'histories built from run(m), serialise+reload, rollback(k) for all k in 0..n+1, resume(m\'), for PLAIN, VEGAS (default and user grid) and '
      'multi-channel (default and user weights with disabled channels); serialised text and generator compared with the model and with the truncated real run; '
      'non-trivial = a rollback to k < n', COMMON_ASSUMPTIONS)
def gen_C15(c, rng, tier):
    for t in TYPES:
        fmt = FMTS[t]
        for kind in KINDS:
            for _ in range(scale(tier, 5, 40)):
                n = rng.choice([1, 2, 3, 4])
                s0, cl, info = rand_run(rng, fmt, kind, iters=n, calls=[2, 4, 7], finite_only=True, value_classes=['small_int', 'frac', 'neg', 'zero'],
                                        poly=(rng.random() < 0.6), dists=([] if rng.random() < 0.5 else None), grid_map=True)
                calls = info['calls']
                group = len(c.cases)
                for k in range(n + 2):
                    reload_first = rng.random() < 0.5
                    ops = [['run', calls]] + ([['reload']] if reload_first else []) + [['rollback', k], ['text'], ['dump']]
                    if k <= n:
                        ops += [['run', calls[k:]], ['text']]
                    s = [e for e in s0 if e[0] != 'ops'] + [['ops', ops]]
                    c.add(t, 'run', s, classes=cl + ['rollback_%s' % ('0' if k == 0 else 'n' if k == n else 'gt' if k > n else 'mid'),
                                                     'reloaded_first' if reload_first else 'in_memory'],
                          rollback_group=group, k=k, n=n, nontrivial=k < n, info=info)
                # rejected rollbacks far beyond n (the largest size_t in particular: "undo the last iteration" on a checkpoint without results
                # asks for size() - 1), before any run and after one; whatever is rejected must leave the checkpoint usable and unchanged
                for big in rng.sample([n + 2, 1000, 2 ** 32, 2 ** 63, 2 ** 64 - 2, 2 ** 64 - 1], 2) + [2 ** 64 - 1]:
                    reload_first = rng.random() < 0.5
                    j = rng.randint(0, n)
                    ops = [['rollback', big], ['text'], ['run', calls]] + ([['reload']] if reload_first else []) + \
                          [['rollback', big], ['text'], ['dump'], ['rollback', j], ['text'], ['run', calls[j:]], ['text']]
                    c.add(t, 'run', [e for e in s0 if e[0] != 'ops'] + [['ops', ops]], classes=cl + ['rollback_gt', 'rollback_far_beyond_n', 'reloaded_first' if reload_first else 'in_memory'],
                          nontrivial=True, info=info)
                # the truncated runs to compare with
                for k in range(n + 1):
                    s = [e for e in s0 if e[0] != 'ops'] + [['ops', [['run', calls[:k]], ['text'], ['run', calls[k:]], ['text']]]]
                    c.add(t, 'run', s, classes=['truncated_run'], truncated_of=group, k=k, info=info)
                # random longer histories
                s = [e for e in s0 if e[0] != 'ops'] + [['ops', history_ops(rng, calls + calls, True)]]
                c.add(t, 'run', s, classes=cl + ['history'], info=info)
                # run, reload, resume, then roll back (to 0 in particular): what the resume stored must not survive the rollback
                if n >= 2:
                    a = rng.randint(1, n - 1)
                    for k in sorted(set([0, rng.randint(0, n)])):
                        ops = [['run', calls[:a]], ['reload'], ['run', calls[a:]], ['rollback', k], ['text'], ['dump'], ['run', calls[k:]], ['text']]
                        s = [e for e in s0 if e[0] != 'ops'] + [['ops', ops]]
                        c.add(t, 'run', s, classes=cl + ['reload_resume_rollback', 'rollback_%s' % ('0' if k == 0 else 'mid')], rollback_group=group, k=k, n=n, nontrivial=True, info=info)
    gen_long_lived_object(c, rng, tier)
    gen_C15_user_state(c, rng, tier)
    for t in TYPES: gen_sizes(c, rng, tier, t, ['iterations'], ops_fn=lambda cs: [['run', cs], ['reload'], ['rollback', len(cs) // 2 + 1], ['text'], ['run', cs[len(cs) // 2 + 1:]], ['text'], ['rollback', 0], ['text']])

def gen_C15_user_state(c, rng, tier):
    """user-supplied grids / weights (unnormalised, with disabled channels): run, reload, resume, roll back to 0 and to the middle"""
    for t in TYPES:
        fmt = FMTS[t]
        for kind in ['vegas', 'mc']:
            for _ in range(scale(tier, 4, 30)):
                n = rng.choice([2, 3, 4])
                s0, cl, info = rand_run(rng, fmt, kind, iters=n, calls=[3, 6], finite_only=True, poly=True, grid_map=True, dists=[], user_state=True)
                calls = info['calls']; a = rng.randint(1, n - 1)
                group = len(c.cases)
                for k in sorted(set([0, rng.randint(0, n)])):
                    ops = [['run', calls[:a]], ['reload'], ['run', calls[a:]], ['rollback', k], ['text'], ['dump'], ['run', calls[k:]], ['text']]
                    c.add(t, 'run', [e for e in s0 if e[0] != 'ops'] + [['ops', ops]], classes=cl + ['reload_resume_rollback', 'user_state'],
                          rollback_group=group, k=k, n=n, nontrivial=True, info=info)
                for k in range(n + 1):
                    c.add(t, 'run', [e for e in s0 if e[0] != 'ops'] + [['ops', [['run', calls[:k]], ['text'], ['run', calls[k:]], ['text']]]],
                          classes=['truncated_run'], truncated_of=group, k=k, info=info)

@prop('C01', 'inverse CDF (point, bin, weight) on valid grids at lattice and extreme numbers; channel weight J / sum alpha_j d_j; whole runs of the three integrators '
      'driven by a complete midpoint lattice through the scripted engine (grids: uniform, user, adapted by real refinements; channel maps: piecewise-linear grids '
      'with unequal weights and non-unit common jacobian) on multi-affine integrands, compared with the model bit for bit; the exact-integral oracle runs in the '
      'search; non-trivial = non-uniform grid or at least two channels', COMMON_ASSUMPTIONS)
def gen_C01(c, rng, tier):
    for t in TYPES:
        fmt = FMTS[t]
        for _ in range(scale(tier, 30, 200)):
            bins = rng.choice([2, 4, 8, 3, 5, 7, 50, 128]); dims = rng.choice([1, 2, 3, 6, 12, 20] if bins > 8 else [1, 2, 3, 5])
            xs = []
            for d in range(dims): xs += rand_grid(rng, fmt, bins, rng.choice(['random', 'peaked', 'uniform', 'tiny']))
            m = rng.choice([1, 2, 4])
            us = [Fraction(2 * rng.randrange(bins * m) + 1, 2 * bins * m) for _ in range(dims)]
            us = [u if (u * 2 ** 64).denominator == 1 else fmt.round(u) for u in us]
            c.add(t, 'icdf', [bins, dims, toks(fmt, xs), toks(fmt, us)],
                  classes=['icdf_lattice', 'bins_%s' % ('pow2' if bins & (bins - 1) == 0 else 'other'), 'dims_%s' % ('few' if dims <= 3 else 'many')])
            n = rng.choice([1, 2, 4])
            ws = rand_weights(rng, fmt, n, normalised=True)
            dens = [fmt.round(Fraction(rng.randint(0, 9), rng.choice([1, 2, 3]))) for _ in range(n)]
            c.add(t, 'mcweight', [fmt.rtok(Fraction(rng.randint(1, 9), 4)), toks(fmt, ws), toks(fmt, dens)], classes=['mc_weight'], nontrivial=n >= 2)
        # lattice runs
        for kind in KINDS:
            for _ in range(scale(tier, 3, 20)):
                dims = rng.choice([1, 2])
                bm = rng.choice([4, 8]) if dims == 2 else rng.choice([8, 16, 32])
                f = rand_poly(rng, fmt, dims)
                if kind == 'mc':
                    # channel grids with dyadic bins and a lattice fine enough (32 per dimension) make the lattice cells of every
                    # channel aligned with the bins of all channels: then f x weight is affine on every cell and the rule is exact
                    aligned = rng.random() < 0.6
                    if aligned: dims = 1 if (tier == 'quick' or rng.random() < 0.7) else 2; bm = 32; f = rand_poly(rng, fmt, dims)
                    channels = rng.choice([1, 2, 4])
                    # channel number drawn from a lattice as well: weights are multiples of 1/4 -> exact selection frequencies
                    ks = [rng.randint(0, 3) for _ in range(channels)]
                    if sum(ks) == 0: ks[0] = 1
                    ws = [Fraction(k) for k in ks]
                    minw = Fraction(0)
                    if channels >= 2 and rng.random() < 0.4:
                        # a weight below the minimum weight is raised before the final normalisation: (9/10, 1/10) with
                        # minimum 3/10 becomes (3/4, 1/4) - still multiples of 1/4, so the channel lattice stays exact
                        ws = [Fraction(9, 10), Fraction(1, 10)] + [Fraction(0)] * (channels - 2); minw = Fraction(3, 10)
                    cm = 4
                    raws = []
                    us = [Fraction(2 * j + 1, 2 * bm) for j in range(bm)]
                    ucs = [Fraction(2 * j + 1, 2 * cm) for j in range(cm)]
                    for pt in itertools.product(us, repeat=dims):
                        for uc in ucs:
                            raws += [raw_of(u) for u in pt] + [raw_of(uc)]
                    n = bm ** dims * cm
                    s = spec_run('mc', fmt, dims=dims, channels=channels, raw=raws, chk=['weights', [fmt.rtok(w) for w in ws], fmt.rtok(minw), fmt.rtok(Fraction(1, 4))],
                                 f=f, mp=rand_map_grid(rng, fmt, channels, dims, dyadic=aligned), ops=[['run', [n]], ['dump']])
                    if rng.random() < 0.5: s.insert(-1, ['mapearly', 1])      # the map writes its densities in the coordinate call already (as the examples do)
                    c.add(t, 'run', s, classes=['lattice_mc', 'channels_%d' % channels] + (['minimum_weight_active'] if minw else []) + (['aligned_channel_grids'] if aligned else []),
                          nontrivial=channels >= 2, lattice={'kind': 'mc', 'n': n, 'exact': (aligned or sum(1 for w in ws if w) == 1) and (bool(minw) or all((4 * w / sum(ws)).denominator == 1 for w in ws))})
                else:
                    raws, n = lattice_raw(bm, dims)
                    if kind == 'vegas':
                        bins = rng.choice([2, 4])
                        xs = []
                        for d in range(dims): xs += rand_grid(rng, fmt, bins, rng.choice(['random', 'peaked', 'uniform']))
                        chk = ['pdf', bins, dims, toks(fmt, xs), fmt.rtok(Fraction(3, 2))]
                    else:
                        chk = ['plain']
                    s = spec_run(kind, fmt, dims=dims, raw=raws, chk=chk, f=f, ops=[['run', [n]], ['dump']])
                    c.add(t, 'run', s, classes=['lattice_' + kind], nontrivial=(kind == 'vegas'), lattice={'kind': kind, 'n': n})
        # multi-channel lattice runs with disabled channels and a map that writes all densities in the coordinate call (as the library's
        # examples do) and only returns the jacobian when asked for densities
        for _ in range(scale(tier, 3, 20)):
            dims = 1; bm = 32; cm = 4; f = rand_poly(rng, fmt, dims)
            channels = rng.choice([2, 3, 4])
            ks = [rng.choice([0, 0, 1, 2]) for _ in range(channels)]
            if sum(ks) == 0: ks[rng.randrange(channels)] = 2
            if all(ks): ks[rng.randrange(channels)] = 0
            ks = [k * 4 // sum(ks) if (k * 4) % sum(ks) == 0 else k for k in ks]
            ws = [Fraction(k) for k in ks]
            raws = []
            for u in [Fraction(2 * j + 1, 2 * bm) for j in range(bm)]:
                for uc in [Fraction(2 * j + 1, 2 * cm) for j in range(cm)]:
                    raws += [raw_of(u), raw_of(uc)]
            n = bm * cm
            s = spec_run('mc', fmt, dims=dims, channels=channels, raw=raws, chk=['weights', [fmt.rtok(w) for w in ws], fmt.rtok(0), fmt.rtok(Fraction(1, 4))],
                         f=f, mp=rand_map_grid(rng, fmt, channels, dims, dyadic=True), wants=(1 if rng.random() < 0.5 else 0), ops=[['run', [n]], ['dump']])
            s.insert(-1, ['mapearly', 1])
            c.add(t, 'run', s, classes=['lattice_mc', 'channels_%d' % channels, 'disabled_channel', 'map_writes_densities_early', 'aligned_channel_grids'],
                  lattice={'kind': 'mc', 'n': n, 'exact': all((4 * w / sum(ws)).denominator == 1 for w in ws)})
        # VEGAS lattice runs on grids adapted by real refinements: two adaptive iterations on pseudo-random numbers, then the lattice
        for _ in range(scale(tier, 3, 20)):
            dims = rng.choice([1, 2]); bm = 8 if dims == 2 else 32
            f = rand_poly(rng, fmt, dims)
            raws, n = lattice_raw(bm, dims)
            bins = rng.choice([2, 4])
            pre = [40, 40]
            s = spec_run('vegas', fmt, dims=dims, seed=rng.getrandbits(32), chk=['default', bins, fmt.rtok(Fraction(3, 2))], f=f,
                         ops=[['run', pre], ['dump'], ['run', [n]], ['dump']])
            # the lattice must start where the adaptive iterations end: positions sum(pre)*dims ..
            s = [e for e in s if e[0] != 'raw']
            s.insert(4, ['raw', [rng.getrandbits(64) for _ in range(sum(pre) * dims)] + raws])
            c.add(t, 'run', s, classes=['lattice_vegas_adapted'], lattice={'kind': 'vegas', 'n': n, 'result': 2})

@prop('C04', 'the three MPI drivers on the thread shim for world sizes P in {1,2,3,4,5,7,8,16,33} (thorough: every P in 1..33), seeded permutations of the reduction '
      'order, calls lists with entries < P, not divisible by P and 0, polynomial and table integrands, distributions, scripted and built-in callbacks (target precision, '
      'four modes), started from fresh and from resumed checkpoints; every rank\'s callbacks, collectives (count, kind), evaluated points and final checkpoint are compared '
      'with the executed model run with the same permutation; the serial run of the same specification is the search oracle (point multiset, counters, generators '
      'exact; sums within the reassociation bound); non-trivial = P >= 2', COMMON_ASSUMPTIONS +
      ['MPI_Allreduce(SUM) returns to every rank the same element-wise sum taken in some order (the shim uses the order given by the case); collectives match by call order',
       'calls x random-number usage < 2^64'])
def gen_C04(c, rng, tier):
    worlds = [1, 2, 3, 4, 5, 7, 8, 16, 33] if tier == 'quick' else list(range(1, 34))
    for t in TYPES:
        fmt = FMTS[t]
        for kind in KINDS:
            for _ in range(scale(tier, 7, 40)):
                P = rng.choice(worlds)
                iters = rng.choice([1, 2, 3])
                pool = [0, 1, 2, P - 1, P, P + 1, 2 * P + 1, 3 * P, 17, 40]
                calls = [max(0, rng.choice(pool)) for _ in range(iters)]
                if rng.random() < 0.5:
                    script = [1] * iters
                    if rng.random() < 0.5: script[rng.randrange(iters)] = 0
                    cb = ['script', script]; cl = ['cb_script']
                else:
                    target = rng.choice([Fraction(0), Fraction(1, 10), Fraction(1, 2)])
                    cb = ['builtin', rng.randrange(4), fmt.rtok(target)]; cl = ['cb_builtin_mode_%d' % cb[1]]
                poly = rng.random() < 0.7
                # (every third multi-channel case: a map whose target dimension differs from the number of random numbers)
                odd_map = kind == 'mc' and rng.random() < 0.34
                if odd_map: poly = False
                s0, cl2, info = rand_run(rng, fmt, kind, iters=iters, calls=[1], cb=cb, poly=poly, trace=1, grid_map=(True if poly else None), force_mapdims=odd_map,
                                         value_classes=None if poly else ['small_int', 'frac', 'neg', 'zero', 'nan', 'big'])
                perm = list(range(P)); rng.shuffle(perm)
                ops = []
                if rng.random() < 0.25:
                    pre = [rng.choice([3, 6])]
                    ops += [['run', pre], ['reload']]; cl.append('resumed_checkpoint')
                s0 = small_bins(s0)
                sub = []
                if rng.random() < 0.35:
                    # the communicator of the integration is a proper part of the world: rank r is world rank r + k, the world is larger
                    sub = [['subcomm', rng.choice([1, 2, 3, 7])]]; cl.append('sub_communicator')
                s = [e for e in s0 if e[0] != 'ops'] + sub + [['ops', ops + [['mpi', calls, P, perm], ['text']]]]
                info = dict(info); info['calls'] = calls; info['world'] = P; info['poly'] = poly; info['pre'] = ops
                cid = c.add(t, 'run', s, classes=cl + cl2 + ['world_%s' % ('1' if P == 1 else 'small' if P < 8 else 'large'),
                                                         'calls_lt_world' if any(0 < x < P for x in calls) else 'calls_ge_world',
                                                         'identity_order' if perm == sorted(perm) else 'permuted_order'],
                            nontrivial=P >= 2, info=info, mpi=True)
                # the serial twin (search oracle)
                s2 = [e for e in s0 if e[0] != 'ops'] + [['ops', ops + [['run', calls], ['text'], ['dump']]]]
                c.add(t, 'run', s2, classes=['serial_twin'], serial_of=cid, info=info, nontrivial=False)
PROPS['C04']['mpi'] = True

@prop('C18', 'runs of the three integrators with the built-in callback in the two writing modes, checkpoint texts from ~100 bytes to far above the 8 KiB stream buffer '
      '(up to 2 x 45 x 45 bins): the bytes found in the file after every callback invocation are compared with the model\'s serialisation (correspondence); the real '
      'system calls of the callback are recorded by an LD_PRELOAD interposer and compared with the model\'s operation list; the real process is killed before every '
      'operation (quick: a spread) and inside writes at byte 1, the middle and the last but one, then the file is inspected and the run resumed from it; '
      'non-trivial = text larger than the stream buffer', COMMON_ASSUMPTIONS +
      ['POSIX: rename replaces atomically; a killed process keeps completed writes and a prefix of the write in progress; no power-loss model',
       'the interposer sees libstdc++ file streams through fopen/write/writev/fclose and plain POSIX calls through open/openat/creat/write/close/rename/unlink'])
def gen_C18(c, rng, tier):
    for t in TYPES:
        fmt = FMTS[t]
        for kind in KINDS:
            for size in ['small', 'medium', 'large']:
                for _ in range(scale(tier, 1, 4)):
                    s, info = oracles.c18_spec(rng, fmt, kind, size)
                    c.add(t, 'run', s, classes=['kind_' + kind, 'size_' + size, 'type_' + fmt.name], nontrivial=(size == 'large'), info=info)

# ------------------------------------------------------------------------------------------------
def extra_checks(pid, rng, tier, st, cov):
    f = getattr(oracles, 'extra_' + pid, None)
    if f is None:
        return []
    return f(rng, tier, st, cov)

def oracle(pid, results, metas, st):
    f = getattr(oracles, 'oracle_' + pid, None)
    if f is None:
        return []
    return f(results, metas, st)

def matches(finding, violation):
    return finding.get('match') is not None and finding['match'] in violation.get('what', '')
