"""Exact floating-point helpers for the three numeric types (binary32, binary64, x87 extended):
rounding of rationals, wire tokens, neighbours.  Values are Fractions, or the strings 'nan', 'inf',
'-inf', '-0'."""
from fractions import Fraction

class Fmt:
    def __init__(self, name, prec, emax, digits10):
        self.name, self.prec, self.emax, self.digits10 = name, prec, emax, digits10
        self.emin = 3 - emax - prec          # exponent of the least significant bit of subnormals
        self.max = (Fraction(2) ** prec - 1) * Fraction(2) ** (emax - prec)
        self.u = Fraction(1, 2 ** prec)      # unit roundoff

    def round(self, x):
        """round a Fraction to nearest even; returns Fraction, 'inf' or '-inf'"""
        if isinstance(x, str):
            return x
        x = Fraction(x)
        if x == 0:
            return Fraction(0)
        s = -1 if x < 0 else 1
        a = abs(x)
        # exponent e with 2^(e-1) <= a < 2^e
        e = a.numerator.bit_length() - a.denominator.bit_length()
        if Fraction(2) ** e <= a:
            e += 1
        if Fraction(2) ** (e - 1) > a:
            e -= 1
        q = max(e - self.prec, self.emin)       # exponent of the last place
        scaled = a / Fraction(2) ** q
        n = scaled.numerator // scaled.denominator
        rem = scaled - n
        if rem > Fraction(1, 2) or (rem == Fraction(1, 2) and n % 2 == 1):
            n += 1
        r = n * Fraction(2) ** q
        if r > self.max:
            return 'inf' if s > 0 else '-inf'
        return s * r

    def representable(self, x):
        return isinstance(x, str) or self.round(x) == Fraction(x)

    def ulp(self, x):
        a = abs(Fraction(x))
        if a == 0:
            return Fraction(2) ** self.emin
        e = a.numerator.bit_length() - a.denominator.bit_length()
        if Fraction(2) ** e <= a:
            e += 1
        if Fraction(2) ** (e - 1) > a:
            e -= 1
        return Fraction(2) ** max(e - self.prec, self.emin)

    def succ(self, x):
        x = Fraction(x)
        if x >= 0:
            return x + self.ulp(x)
        # negative: step towards zero; at a power of two the spacing below is halved
        u = self.ulp(x)
        if abs(x) == Fraction(2) ** (abs(x).numerator.bit_length() - abs(x).denominator.bit_length()) and u / 2 >= Fraction(2) ** self.emin:
            u = u / 2
        return x + u

    def pred(self, x):
        return -self.succ(-Fraction(x))

    def tok(self, x):
        """wire token of a representable value"""
        if isinstance(x, str):
            return {'nan': '%nan', 'inf': '%i+', '-inf': '%i-', '-0': '%z-'}[x]
        x = Fraction(x)
        if x == 0:
            return '%z+'
        assert self.representable(x), (self.name, x)
        s = '-' if x < 0 else '+'
        a = abs(x)
        # a = m * 2^e with m odd
        num, den = a.numerator, a.denominator
        e = 0
        while num % 2 == 0:
            num //= 2; e += 1
        e -= den.bit_length() - 1
        assert den & (den - 1) == 0
        return '%%%s%xp%d' % (s, num, e)

    def rtok(self, x):
        return self.tok(self.round(x))

def parse_tok(t):
    """wire token -> Fraction or special string"""
    assert t[0] == '%', t
    t = t[1:]
    if t == 'nan': return 'nan'
    if t == 'z+': return Fraction(0)
    if t == 'z-': return '-0'
    if t == 'i+': return 'inf'
    if t == 'i-': return '-inf'
    s = -1 if t[0] == '-' else 1
    m, e = t[1:].split('p')
    return s * int(m, 16) * Fraction(2) ** int(e)

F32 = Fmt('f', 24, 128, 9)
F64 = Fmt('d', 53, 1024, 17)
F80 = Fmt('l', 64, 16384, 21)
FMTS = {'f': F32, 'd': F64, 'l': F80}

def isnum(v):
    return not isinstance(v, str)
