#!/usr/bin/env python3
"""Development helper: how robustly are the seeded changes caught?  For every seeded/<property>-<name>/patch.diff the quick check
of the property is run against a patched scratch copy of /repo under several seeds; the result (caught or not, how many cases
differed) is written to seeded/catch_matrix.json and printed as a table.

  catch_matrix.py [seed ...]        (default seeds: 2 3)"""
import glob, json, os, re, shutil, subprocess, sys, tempfile, time

VERIF = os.path.dirname(os.path.dirname(os.path.abspath(__file__)))

def sh(cmd, cwd=None, env=None, timeout=3600):
    p = subprocess.run(cmd, shell=True, cwd=cwd, env=env, stdout=subprocess.PIPE, stderr=subprocess.STDOUT, universal_newlines=True, timeout=timeout)
    return p.returncode, p.stdout

def main():
    seeds = [int(x) for x in sys.argv[1:] if x.isdigit()] or [2, 3]
    # catch_matrix.py 1 --part 0/2   evaluates every second change (for running two workers side by side, each with its own output file)
    part = next((a for a in sys.argv[1:] if '/' in a), None)
    only = None
    flt = next((a[7:] for a in sys.argv[1:] if a.startswith('--only=')), None)      # only changes whose name contains this
    if part:
        k, n = [int(x) for x in part.split('/')]
        names = sorted(os.path.basename(d) for d in glob.glob(os.path.join(VERIF, 'seeded', 'C*-*')))
        only = set(names[k::n])
    out_path = os.path.join(VERIF, 'seeded', 'catch_matrix.json' if not (part or flt) else ('catch_matrix.part%d.json' % k if part else 'catch_matrix.%s.json' % flt.strip('_')))
    matrix = json.load(open(out_path)) if os.path.exists(out_path) else {}
    part_ = part
    for d in sorted(glob.glob(os.path.join(VERIF, 'seeded', 'C*-*'))):
        name = os.path.basename(d); pid = name.split('-')[0]
        patch = os.path.join(d, 'patch.diff')
        if not os.path.exists(patch): continue
        meta = json.load(open(os.path.join(d, 'meta.json'))) if os.path.exists(os.path.join(d, 'meta.json')) else {}
        if meta.get('obsolete'):
            matrix.setdefault(name, {})['obsolete'] = meta['obsolete']; continue
        if only and name not in only: continue
        if flt and flt not in name: continue
        scratch = tempfile.mkdtemp(prefix='hepmc_cm_')
        try:
            sh('git -C /repo archive HEAD | tar -x -C %s' % scratch)
            rc, o = sh('git init -q . && git apply --whitespace=nowarn %s' % patch, cwd=scratch)
            if rc != 0:
                matrix.setdefault(name, {})['error'] = 'patch does not apply'; continue
            for s in seeds:
                if str(s) in matrix.get(name, {}): continue
                env = dict(os.environ); env['HEPMC_REPO'] = scratch; env['VERIF_SEED'] = str(s)
                t0 = time.time()
                rc, o = sh('python3 %s/tools/check.py --property %s --tier quick --no-evidence' % (VERIF, pid), env=env)
                m = re.search(r'(\d+) of (\d+) cases differ', o)
                kind = 'no-failing-input-found' if 'no-failing-input-found' in o else ('failing input' if 'VIOLATION' in o else '')
                stage = ''
                mm = re.search(r'^BROKEN (\w+)', o, flags=re.M)
                if mm: stage = mm.group(1)
                matrix.setdefault(name, {})[str(s)] = {'caught': rc == 1 and 'VIOLATION property=%s' % pid in o, 'differing_cases': int(m.group(1)) if m else 0,
                                                         'of': int(m.group(2)) if m else 0, 'stage': stage, 'replay': kind, 'wall_s': round(time.time() - t0, 1)}
                json.dump(matrix, open(out_path, 'w'), indent=1, sort_keys=True)
                print(name, 'seed', s, matrix[name][str(s)], flush=True)
        finally:
            shutil.rmtree(scratch, ignore_errors=True)
    sh('python3 %s/translator/cxx2gallina.py %s/coq/Translated.v' % (VERIF, VERIF))
    missed = [(n, s) for n, row in matrix.items() for s, v in row.items() if isinstance(v, dict) and not v.get('caught')]
    print('%d changes x seeds evaluated; not caught: %s' % (sum(len([1 for v in r.values() if isinstance(v, dict)]) for r in matrix.values()), missed or 'none'))

if __name__ == '__main__':
    main()
