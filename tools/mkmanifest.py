#!/usr/bin/env python3
"""Writes /verif/MANIFEST.json from the table below (one entry per claimed property).
A property is claimed only if coq/Properties_<id>.v exists; the others are listed under
not_applicable with the reason given here."""
import json, os
VERIF = os.path.dirname(os.path.dirname(os.path.abspath(__file__)))

TRUST = ('Trusted: Coq 8.16.1 kernel (vm_compute for witnesses and examples, no native_compute); the axioms named per theorem in the evidence '
         '(standard real-number axioms, classic, functional_extensionality_dep, eq_rect_eq where Flocq needs them - none declared here); '
         'translator (cxx2gallina.py + clang AST); extraction (ExtrOcamlBasic only) + OCaml; the correspondence harness and its generators. '
         'Besides the comparison with the model every check runs its cases under ASan/UBSan, compares a sample with builds made by g++ -std=c++17 -O2 -DNDEBUG and by clang++, '
         'and varies the process environment, stream state and object handling on the C++ side (DESIGN.md 9.2, 5b). ')

P = {
 'C01': ('Theorems over the reals about the model\'s own icdf / mc_weight: lattice numbers map to cell midpoints with weight bins x width, the average of f*w over the '
         'complete midpoint lattice is the composite midpoint rule (any dimension, grid, refinement m, any f), exact for multi-affine f; channel weight x mixture density = 1 and '
         'finite-sample-space unbiasedness over points and channel choice incl. zero weights; supplement Properties_C01i (Coquelicot): for every Riemann-integrable f the integral of f(x(u)) w(u) over the unit interval equals the integral of f, for every valid grid incl. zero-width bins, with an iterated d-dimensional version. The model is executed bit for bit against the real templates on lattice runs.',
         'real-arithmetic theorems (induction over dimensions, finite sums) about the executed model + bit-exact lattice-run correspondence',
         'Rounding is not covered by the theorems (ideal arithmetic); the d-dimensional continuous statement is about iterated integrals.'),
 'C02': ('Law-generic theorems (every numeric type): an iteration of N calls yields exactly N integrand events, calls = N, the main cell is the translated accumulate folded over the '
         'sanitised (non-zero, finite) products in call order with nz/fin the two filter lengths; VEGAS / multi-channel adjustment data equal explicit per-bin / per-channel fold '
         'specifications; over the reals Kahan is exact and value / variance / error are the documented formulas (2 <= N < 2^64); IEEE supplement Properties_C02f: bin indices are in range, so the per-bin reading of the VEGAS data is unconditional; Properties_C02w: every evaluation counter is declared with 64 bits (table regenerated from the declarations by the translator), so no reachable count wraps - when it breaks, one iteration with more evaluations than the narrowed counter holds is run.',
         'induction over calls on the executed iteration model + bit-exact correspondence of every accessor',
         'Variance formula needs N >= 2 (the code divides by N-1); floating-point accuracy is C14\'s subject.'),
 'C03': ('Theorems on the run model and the text codec: runs compose (run (l1 ++ l2) = run l2 after run l1 when the callback did not stop), reload (deser after ser) yields an equivalent '
         'checkpoint, runs respect that equivalence, hence for every list of interruption points the final text equals the uninterrupted one (induction over the list of pieces, all '
         'compositions, all n). Real runs with every cut set (n <= 4 quick) are compared with the model and with each other; the nine standard engines, and a hostile process environment (LC_ALL naming a missing locale, global C++ locale with a decimal comma; the file written by the built-in callback is loaded and resumed), by C++-only differentials.',
         'induction over interruption lists on the run + codec model; exhaustive cut-set correspondence',
         'User callbacks must respect checkpoint-text equality (proved for the built-in one); decimal round trip of numbers is C05\'s theorem; std engines are assumed to round-trip (measured).'),
 'C04': ('Lock-step model of the three MPI drivers (all ranks side by side, explicit reduction permutation, hang = a rank waiting in a collective another never enters): theorems that '
         'equal start states and rank-independent callback decisions never hang and keep all ranks equal, that every rank ends at generator + usage x calls, and that the ranks\' '
         'stream intervals tile the serial one (from the C16 theorems on the translated split); supplement Properties_C04s: over the reals whole MPI runs of the three drivers return the serial checkpoint for every reduction order. The real drivers run on a thread-based MPI shim (P up to 33, permuted reductions) '
         'bit for bit against the model; the serial run of the same specification is the oracle.',
         'invariant over lock-step MPI semantics + translated work split theorems; shim-MPI correspondence with permuted reductions',
         'MPI_Allreduce semantics (same sum in some order on all ranks) is an assumption, validated under real OpenMPI (mpirun -np 2,3 in the quick tier, 1..8 in the thorough tier) for order-insensitive observables.'),
 'C05': ('Theorems: decimal round trip for every finite value of binary32/64/x87-80 with 9/17/21 significant digits (Flocq, any tie-breaking), and structural round trip of the three '
         'checkpoint codecs (deser (ser c) = c up to the absent first state) for any counts of results, distributions, bins, channels, generators; text determines the checkpoint. '
         'Real serialize / istream constructors are compared token by token and accessor by accessor with the model, every printed number checked to be the correctly rounded decimal.',
         'Flocq real-analysis proof of the radix conversion + structural induction over the codec model; token-exact correspondence',
         'glibc printf/strtod correct rounding and the engines\' own operator<< / >> are assumptions (checked on every number of every text / by a C++-only round trip).'),
 'C06': ('Law-generic twin theorems: one accumulator step, one iteration and a whole multi-iteration run (all three integrators) under f and under its zeroed twin agree on everything '
         'but the non-zero counter; non-finite fills change no bin; IEEE supplement Properties_C06f: reported sums and value finite under an explicit no-overflow hypothesis. Found and repaired a defect (poisoned-only iteration made the combined result NaN). Properties_C06w: the counters of non-zero / finite evaluations are 64-bit as declared (regenerated table). Paired real runs (serial and on the MPI shim) are compared with the model; a float iteration above 2^24 evaluations runs under real MPI; the floating-point exception flags of a poisoned run must equal those of its zeroed twin.',
         'simulation relation (equal up to nz counters) proved by induction over calls and iterations; paired-run correspondence',
         'Channel maps must honour their documented contract; overflow of finite sums is not excluded by proof.'),
 'C07': ('Real-arithmetic theorems about the model\'s refine_pdf / icdf: no out-of-bounds scan, endpoints 0 and 1, non-decreasing (strict stays strict), equal share of importance per new bin, '
         'any number of successive refinements, zero data leave the grid unchanged (also for the three IEEE formats), every point lies in its reported bin with weight prod(bins x width); '
         'IEEE supplements (Properties_C07f/g): for every format the bin index of every canonical number in [0,1] is below the bin count (bins < 2^prec) and the computed point lies in its reported bin; a refined boundary never lies below the old bin it was interpolated in.',
         'loop-invariant proof of the redistribution scan over the reals + bit-exact correspondence of refinement and inverse CDF',
         'Full monotonicity under rounding and overflow of the smoothing sums are not proved (named in the property file); u = 1 over the reals excluded (proved for the IEEE formats instead).'),
 'C08': ('Real-arithmetic theorems about the model\'s refine_weights for any libm with pow(0,b)=0, pow(d,b)>0: probability vector, disabled stay disabled, formula with the floor, '
         'min/(1+n min) bound, zero-information data leave the weights unchanged, chains of refinements; IEEE: a disabled channel stays exactly zero, and (Properties_C08f) the refined weights are finite, in [0,1], and sum to one within (n+1) units of roundoff.',
         'algebraic proof over the reals on the executed model + bit-exact correspondence inside real runs',
         'The float formula / floor clauses are tied (bit-exact) but not proved; libm pow only through recorded values.'),
 'C09': ('Bisection correctness of the model\'s upper_bound for every numeric type with order laws; over the reals channel i is selected iff u lies in the i-th cumulative interval of length w_i/sum; '
         'for every IEEE format (Flocq, monotone rounding) the selected index is valid and never a zero-weight channel for every u in [0,1) incl. 0 and pred(1), and (Properties_C09f) every selection interval has length w_i/sum up to (n+1) units of roundoff; the oracle is also evaluated on clang++ -mfma (contraction) and g++ -ffast-math builds.',
         'order-law-generic bisection proof + Flocq monotonicity proof; boundary-exhaustive correspondence',
         'libstdc++ upper_bound / partial_sum / generate_canonical are modelled (validated by the tie).'),
 'C10': ('Law-generic theorems: an iteration of N calls advances the generator by exactly N x d (N x (d+1) multi-channel) canonical numbers whatever the integrand returns; the stored generator is '
         'the advanced one; the usage predictor (since the repair of the defect for engine ranges 2^7, 2^14, 2^53) counts what std::generate_canonical takes and equals the cost of every number for any implementation whose consumption is value-independent; supplement Properties_C10m: the same stored positions on every rank of the lock-step MPI model. Real engines (nine standard, engine adaptors with power-of-two ranges, odd moduli, synthetic) are measured against the predictor by a C++-only check; the MPI drivers run under real mpirun with instantiations of std::linear_congruential_engine (increment != 0, odd moduli) against the serial stored generator; the *_iteration functions are called directly with the generator of the caller observed at every call and after an exception.',
         'induction over calls on the iteration model + translated predictor arithmetic + draw counting on real engines',
         'Value-independence of the consumption of std::generate_canonical is a hypothesis (true of the C++11 algorithm; measured on every engine of the harness).'),
 'C11': ('Real-arithmetic theorems about the model\'s fill1d / fill2d: a finite value goes to flat index ky*bx+kx iff the coordinate lies in that half-open bin, to no bin outside; mid-points enumerate the '
         'same order; each bin reports the full calls and scaled sums; IEEE: the float->size_t cast is only reached with a value in range (no UB), and (Properties_C11f) the selected bin k satisfies k(1-u)^2 <= exact position < (k+1)(1+u), i.e. the bin of the coordinate or an adjacent one within a rounding error of the edge, with the converse for interior coordinates.',
         'case analysis on the executed fill model over the reals + Flocq no-UB lemma; edge/neighbour correspondence',
         'Edge coordinates within one rounding error may go to either bin (as the property grants; the float theorems quantify that zone); fill2d placement under rounding is tied, not proved.'),
 'C12': ('Law-generic protocol theorems on the driver loop: iterations in order, callback once per iteration with exactly the results so far, stop iff it returns false; built-in decision: '
         'target 0 never stops (incl. NaN), positive target stops exactly at the first iteration whose combined relative error is <= target (NaN does not reach a target); supplement Properties_C12m: the same protocol for every rank of the three MPI drivers.',
         'induction over the calls list on the run model + IEEE comparison lemmas; scripted-callback correspondence',
         ''),
 'C13': ('Real-arithmetic theorems about the model\'s combiners (repaired code): formulas, between min and max, error <= each S_i, permutation invariance, skipping of results without finite non-zero calls, '
         'equal weighting = mean and standard error, chi^2 laws, bin-wise combination of distributions for every numeric type; Properties_C13w: the summed counters are 64-bit as declared (results with counters beyond 2^32 are part of the comparison).',
         'algebra over the reals on the executed helper model + bit-exact correspondence',
         'Guards N_i >= 2, S_i^2 > 0 are in the statements; floating-point order dependence is reproduced by the tie, not bounded by proof.'),
 'C14': ('Kahan error bound |sum - exact| <= (7u + 20 n u^2) sum|x| proved in the standard rounding model and instantiated for every IEEE format with prec >= 6 via Flocq (no overflow derived from a '
         'magnitude hypothesis), for the main accumulator and every bin (same translated accumulate); exactness over the reals.',
         'rounding-error invariant by list induction + Flocq bridge lemmas; accumulate translated from the header on every run',
         'n u <= 1 and no overflow of the sum are hypotheses; the sum of squares is a plain running sum and not claimed.'),
 'C15': ('Law-generic theorems: rollback(k) of a reachable checkpoint (in memory or reloaded) serialises like the checkpoint after k iterations and resumes identically; rollback(n) is the identity; k > n is rejected.',
         'induction over the run model with the codec equivalence; history-based correspondence incl. reloads',
         ''),
 'C16': ('Five kernel-checked, axiom-free theorems over Z about the clang-AST-translated discard_before / discard_after / three sub_calls copies with the unsigned 64-bit wrap explicit: '
         'balanced shares, sum = total, contiguity, common end position, for all totals < 2^64 and world sizes < 2^31; supplement Properties_C16p (five more, axiom-free): every stream position below the total lies in the block of exactly one rank, no block reaches beyond the total, blocks are ordered like the ranks, the skip after a share covers exactly the blocks of the higher ranks; the translator regenerates the definitions from /repo on every run.',
         'integer theorems (lia/nia) about definitions translated from the headers on every run + exhaustive small-domain correspondence',
         'Range hypotheses: totals < 2^64, world < 2^31.'),
 'C17': ('Law-generic trace theorems: per call exactly one integrand event (PLAIN, VEGAS); multi-channel calls are MapCoords(enabled channel, same numbers, full enabled list), Integrand, then density requests '
         'only if value non-zero / weight requested, with the same coordinates; coordinates in the unit interval (PLAIN/map numbers half-open, VEGAS inside its reported bin - over the reals and, Properties_C17f, for the IEEE formats); selected channel enabled (R and IEEE).',
         'induction over calls on event traces of the iteration model; event-log correspondence incl. buffer identity',
         'Object lifetime / aliasing of the point classes is visible only to the harness checks (buffer identity events).'),
 'C18': ('File-system model theorems: for any text, any chunking into writes and any crash point (between operations or inside a write) the final name holds the previous or the complete new text; whole runs; '
         'the in-place variant is refuted; composed with the codec and resume theorems (Properties_C18r): in every crash state the file is untouched or holds the text of a checkpoint of the run, which loads, and running the remaining calls reproduces the final text; fault sequences (Properties_C18f): any sequence of invocations that complete, whose open of the temporary fails, or whose write / close / rename fails after arbitrary pieces, killed anywhere, leaves the text of the last completed invocation, and an in-place fallback is refuted. The real system calls are recorded and compared with the model\'s operation list; the real process is killed at every operation and inside writes, system calls are made to fail (open / write / close / rename, short writes followed by a full disk) and the process killed afterwards, the file inspected and the run resumed; four runs at once in different threads, each with its own file (ordinary and ThreadSanitizer builds).',
         'crash-prefix invariant over an operation-list model with fault outcomes + LD_PRELOAD system-call correspondence + kill and fault enumeration',
         'POSIX rename atomicity and kill semantics are assumptions; no power-loss model.'),
 'C19': ('Law-generic theorems: iteration k+1 samples with refine(state_k, adjustment_k) under the checkpoint\'s parameters, result k records the state its points were drawn with, iteration 0 uses the user\'s '
         '(normalised) state or the uniform default; every event of an iteration is a point of that recorded state; supplement Properties_C19m: the same threading on every rank of the MPI drivers; supplement Properties_C19u: a checkpoint driven by any sequence of the add and rollback operations of the user refines a plain list of results, and pdf() / channel_weights() after any accepted history is the refinement of the last surviving result (nothing remembered from discarded iterations); a self-checking C++-only stage drives VEGAS through a loop written by the user (pdf, vegas_iteration, add, rollback) and through a callback that discards an iteration.',
         'induction over the run model + bit-exact correspondence of states and points (serial, resumed)',
         ''),
 'C20': ('Theorems: the drivers depend on the callback only through its answers, which are mode-free; index safety of the summary printers for every weight vector (sorted channel permutation, all printed indices in range, '
         'ranges cover exactly the minimal-weight channels, pairwise maximum defined); supplement Properties_C20m: MPI drivers and mpi_callback; real runs in all four modes are compared with each other and with the model, summary skeletons parsed from the real output; the four modes are also run under a hostile process environment (missing locale named by LC_ALL, decimal-comma global C++ locale) and four at once in different threads (ordinary and ThreadSanitizer builds).',
         'structural proofs about the callback / summary model + four-mode correspondence and summary skeleton comparison',
         'Mode independence of the decision is true by construction of the model; its substance is carried by the correspondence.'),
}

def main():
    checks = []; na = []
    order = ['C01', 'C02', 'C03', 'C04', 'C05', 'C06', 'C07', 'C08', 'C19', 'C09', 'C10', 'C11', 'C12', 'C13', 'C14', 'C15', 'C16', 'C17', 'C18', 'C20']
    for pid in order:
        text, tech, note = P[pid]
        if not os.path.exists(os.path.join(VERIF, 'coq', 'Properties_%s.v' % pid)):
            na.append({'property_id': pid, 'reason': 'theorem file for this property is still being written (model, generators and correspondence exist); not claimed until it checks'})
            continue
        checks.append({
            'property_id': pid,
            'quick_cmd': 'python3 tools/check.py --property %s --tier quick' % pid,
            'thorough_cmd': 'python3 tools/check.py --property %s --tier thorough' % pid,
            'evidence_file': 'evidence/%s.json' % pid,
            'replay_cmd_template': 'python3 tools/check.py --property %s --replay {path}' % pid,
            'engine': 'coq+tie',
            'level_claimed': {'category': 'proof', 'text': text, 'design_ref': '4 (%s)' % pid},
            'level_note': TRUST + note,
            'technique': tech,
        })
    m = {
        'version': 1,
        'setup_cmd': 'python3 tools/check.py --setup',
        'hooks': {'guard': 'HEP_MC_VERIF',
                  'enable': 'no hooks in /repo: observation uses the public API, a scripted engine, -fno-access-control in the harness TU, libm --wrap, a thread-based MPI shim and an LD_PRELOAD interposer',
                  'baseline_off_cmd': 'meson test -C /repo/_build', 'source_commits': [], 'add_only': True},
        'engines': [{'name': 'coq+tie', 'path': 'tools/check.py', 'serves_properties': [c['property_id'] for c in checks],
                     'kind_free_text': 'Coq 8.16 development (coq/) with per-property theorem files; clang-AST translator for leaf functions; extracted OCaml model compared bit for bit '
                                       'with the real templates (harness/); property oracles on the implementation\'s outputs'}],
        'checks': checks,
        'notes': 'Unguarded fix: commits in /repo repair the defects listed in known_findings.json; see DESIGN.md.',
        'not_applicable': na,
    }
    json.dump(m, open(os.path.join(VERIF, 'MANIFEST.json'), 'w'), indent=1)
    print('claimed:', ' '.join(c['property_id'] for c in checks)); print('not claimed:', ' '.join(x['property_id'] for x in na))

if __name__ == '__main__':
    main()
