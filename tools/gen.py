"""Case generators shared by the properties.  Every random choice derives from the rng passed in
(seeded from VERIF_SEED), so a disagreement replays exactly."""
from fractions import Fraction
from fp import FMTS, Fmt

TYPES = ['d', 'f', 'l']

def pick_types(rng, tier):
    return TYPES if tier == 'thorough' else TYPES

def rand_unit(rng, fmt, bits=None):
    """a canonical number in [0,1) that a 64-bit engine can produce exactly (multiple of 2^-64)"""
    bits = bits or rng.choice([3, 8, 20, min(fmt.prec, 53), fmt.prec])
    bits = min(bits, fmt.prec)
    m = rng.getrandbits(bits)
    # scale: u = m / 2^k with k >= bits, k <= 64
    k = rng.randint(bits, 64) if rng.random() < 0.3 else bits
    return Fraction(m, 2 ** k)

def raw_of(u):
    """raw 64-bit draw that yields the canonical number u (u * 2^64 must be an integer)"""
    x = Fraction(u) * 2 ** 64
    assert x.denominator == 1 and 0 <= x < 2 ** 64, u
    return int(x)

def pred1(fmt):
    return 1 - Fraction(1, 2 ** fmt.prec)

def special_units(fmt, bins=None):
    out = [Fraction(0), pred1(fmt), Fraction(1, 2), Fraction(1, 2 ** 64), Fraction(1, 2 ** fmt.prec)]
    if bins:
        for j in range(1, bins):
            b = fmt.round(Fraction(j, bins))
            for v in (b, fmt.pred(b), fmt.succ(b)):
                if 0 <= v < 1 and (v * 2 ** 64).denominator == 1:
                    out.append(v)
    return out

def rand_grid(rng, fmt, bins, style=None):
    """bins + 1 boundaries, 0 = g_0 <= ... <= g_bins = 1, all representable"""
    style = style or rng.choice(['uniform', 'random', 'peaked', 'ties', 'tiny'])
    if style == 'uniform':
        g = [fmt.round(Fraction(i, bins)) for i in range(bins + 1)]
    elif style == 'random':
        pts = sorted(fmt.round(Fraction(rng.getrandbits(20), 2 ** 20)) for _ in range(bins - 1))
        g = [Fraction(0)] + pts + [Fraction(1)]
    elif style == 'peaked':
        c = Fraction(rng.getrandbits(10), 2 ** 10)
        pts = sorted(fmt.round(c + (Fraction(rng.getrandbits(16), 2 ** 16) - Fraction(1, 2)) * Fraction(1, 2 ** rng.randint(2, 12))) for _ in range(bins - 1))
        pts = [min(max(p, Fraction(0)), Fraction(1)) for p in pts]
        g = [Fraction(0)] + pts + [Fraction(1)]
    elif style == 'dyadic':
        # boundaries at multiples of 1/8 and widths that are powers of two: every dyadic lattice fine enough is aligned
        # with the bins of every such grid (bins must be 2 or 4)
        import itertools as _it
        if bins == 2:
            g = [Fraction(0), Fraction(1, 2), Fraction(1)]
        else:
            assert bins == 4
            widths = rng.choice([[Fraction(1, 8), Fraction(1, 8), Fraction(1, 4), Fraction(1, 2)], [Fraction(1, 4)] * 4, [Fraction(1, 8), Fraction(1, 8), Fraction(1, 4), Fraction(1, 2)]])
            widths = widths[:]; rng.shuffle(widths)
            g = [Fraction(0)]
            for w in widths: g.append(g[-1] + w)
    elif style == 'ties':
        pts = sorted(fmt.round(Fraction(rng.randint(0, 4), 4)) for _ in range(bins - 1))
        g = [Fraction(0)] + pts + [Fraction(1)]
    else:  # tiny first bins (1 ulp wide)
        g = [Fraction(0)]
        x = Fraction(0)
        for i in range(bins - 1):
            x = fmt.succ(x) if i < bins // 2 else fmt.round(x + Fraction(1, 2 * bins))
            g.append(min(x, Fraction(1)))
        g.append(Fraction(1)); g = sorted(g)
    return g

def rand_value(rng, fmt, cls=None):
    """integrand-like values: returns (value, class)"""
    cls = cls or rng.choice(['small_int', 'small_int', 'frac', 'frac', 'neg', 'zero', 'big', 'tiny', 'nan', 'inf', 'ninf'])
    if cls == 'small_int':
        return Fraction(rng.randint(1, 9)), cls
    if cls == 'frac':
        return fmt.round(Fraction(rng.getrandbits(24), 2 ** rng.randint(10, 30))), cls
    if cls == 'neg':
        return -fmt.round(Fraction(rng.getrandbits(16) + 1, 2 ** rng.randint(4, 20))), cls
    if cls == 'zero':
        return Fraction(0), cls
    if cls == 'big':
        return fmt.round(Fraction(rng.getrandbits(10) + 1) * Fraction(2) ** rng.randint(20, min(fmt.emax // 4, 60))), cls
    if cls == 'tiny':
        return fmt.round(Fraction(rng.getrandbits(10) + 1) * Fraction(2) ** (-rng.randint(20, min(fmt.emax // 4, 60)))), cls
    if cls == 'nan':
        return 'nan', cls
    if cls == 'inf':
        return 'inf', cls
    return '-inf', cls

def finite_value(rng, fmt):
    return rand_value(rng, fmt, rng.choice(['small_int', 'frac', 'neg', 'zero', 'big', 'tiny']))[0]

def toks(fmt, l):
    return [fmt.tok(x) for x in l]

def rtoks(fmt, l):
    return [fmt.rtok(x) for x in l]

def rand_weights(rng, fmt, n, zeros=True, normalised=None):
    ws = []
    for _ in range(n):
        if zeros and rng.random() < 0.25:
            ws.append(Fraction(0))
        else:
            ws.append(Fraction(rng.randint(1, 64), rng.choice([1, 8, 64, 7, 100])))
    if all(w == 0 for w in ws):
        ws[rng.randrange(n)] = Fraction(1)
    if normalised or (normalised is None and rng.random() < 0.5):
        s = sum(ws); ws = [w / s for w in ws]
    return [fmt.round(w) for w in ws]

def lattice_raw(bins_m, dims):
    """all midpoint-lattice points (j + 1/2) / bins_m in every dimension; bins_m a power of two <= 2^32"""
    assert bins_m & (bins_m - 1) == 0
    import itertools
    us = [Fraction(2 * j + 1, 2 * bins_m) for j in range(bins_m)]
    raws = []
    for pt in itertools.product(us, repeat=dims):
        raws += [raw_of(u) for u in pt]
    return raws, bins_m ** dims
