#!/usr/bin/env python3
"""Development helper: confirm a seeded breaking change and run the checks against it.

  seed_eval.py <property> <dir-with-deliveries> <name> [--props C01,C02] [--np 3]

<dir>/<name>.diff, <dir>/<name>_demo.cpp, <dir>/<name>.md.  Steps (all in a scratch copy of /repo under
/tmp, removed afterwards; /repo itself is never touched):
  1. the patch applies to HEAD; the library's 19 tests still pass with it;
  2. the demonstration exits 0 on the pristine tree and non-zero on the patched tree;
  3. the quick check of the property (and of --props) is run against the patched tree.
Writes /verif/seeded/<property>-<name>/{patch.diff, demo.cpp, notes.md, meta.json}."""
import json, os, re, shutil, subprocess, sys, tempfile, time

VERIF = os.path.dirname(os.path.dirname(os.path.abspath(__file__)))

def sh(cmd, cwd=None, timeout=1800, env=None):
    p = subprocess.run(cmd, shell=True, cwd=cwd, stdout=subprocess.PIPE, stderr=subprocess.STDOUT, universal_newlines=True, timeout=timeout, env=env)
    return p.returncode, p.stdout

def main():
    pid, ddir, name = sys.argv[1:4]
    extra = []; np_ = '3'; skip_tests = False
    for i, a in enumerate(sys.argv[4:]):
        if a == '--props': extra = sys.argv[5 + i].split(',')
        if a == '--np': np_ = sys.argv[5 + i]
        if a == '--skip-tests': skip_tests = True
    patch = os.path.join(ddir, name + '.diff'); demo = os.path.join(ddir, name + '_demo.cpp'); notes = os.path.join(ddir, name + '.md')
    meta = {'property': pid, 'name': name, 'evaluated_at': time.strftime('%Y-%m-%d %H:%M:%S'), 'repo_head': sh('git -C /repo rev-parse --short HEAD')[1].strip()}
    scratch = tempfile.mkdtemp(prefix='hepmc_seed_')
    try:
        pristine = os.path.join(scratch, 'pristine'); patched = os.path.join(scratch, 'patched')
        for d in (pristine, patched):
            os.makedirs(d); sh('git -C /repo archive HEAD | tar -x -C %s' % d)
        rc, out = sh('git init -q . && git apply --whitespace=nowarn %s' % patch, cwd=patched)
        meta['patch_applies'] = rc == 0
        if rc != 0:
            meta['error'] = out[-500:]; print(json.dumps(meta, indent=1)); return 2
        meta['files_changed'] = sorted(set(re.findall(r'^\+\+\+ b/(\S+)', open(patch).read(), flags=re.M)))
        # 1. the test suite
        if not skip_tests:
            rc, out = sh('meson setup _build -Dcpp_args=-Wno-error >/dev/null 2>&1 && meson compile -C _build 2>&1 | tail -3 && meson test -C _build 2>&1 | grep -E "^(Ok|Fail|Timeout):"', cwd=patched, timeout=3000)
            ok = re.search(r'Ok:\s+(\d+)', out); fail = re.search(r'Fail:\s+(\d+)', out)
            meta['tests_with_patch'] = {'ok': int(ok.group(1)) if ok else None, 'fail': int(fail.group(1)) if fail else None}
            shutil.rmtree(os.path.join(patched, '_build'), ignore_errors=True)
        # 2. the demonstration
        src = open(demo).read()
        mpi = 'mpi' in src and ('mc-mpi' in src or '<mpi.h>' in src)
        cxx = os.environ.get('SEED_DEMO_CXX') or ('mpicxx' if mpi else 'g++')      # (demonstrations that need another compiler / flags: SEED_DEMO_CXX='clang++ -mfma')
        runp = ('mpirun --allow-run-as-root --oversubscribe -np %s ' % np_) if mpi else ''
        res = {}
        for label, root in (('pristine', pristine), ('patched', patched)):
            exe = os.path.join(scratch, 'demo_' + label)
            rc, out = sh('%s -std=c++11 -O1 -I %s/include %s -o %s -pthread' % (cxx, root, demo, exe), timeout=900)
            if rc != 0:
                res[label] = {'compile_failed': out[-400:]}; continue
            rc, out = sh('timeout 600 %s%s' % (runp, exe), cwd=scratch, timeout=700)
            res[label] = {'exit': rc, 'tail': out[-300:]}
        meta['demo'] = res; meta['demo_uses_mpi'] = mpi
        meta['demo_confirms'] = res.get('pristine', {}).get('exit') == 0 and res.get('patched', {}).get('exit') not in (0, None)
        # 3. the checks
        checks = {}
        for p in [pid] + [x for x in extra if x != pid]:
            env = dict(os.environ); env['HEPMC_REPO'] = patched
            t0 = time.time()
            rc, out = sh('python3 %s/tools/check.py --property %s --tier %s --no-evidence' % (VERIF, p, os.environ.get('VERIF_TIER', 'quick')), env=env, timeout=3600)
            lines = [l for l in out.split('\n') if re.match(r'^(C\d+ tier|BROKEN|VIOLATION|KNOWN)', l)]
            replay = None
            m = re.search(r'replay=(\S+)', out)
            if m and os.path.exists(m.group(1)):
                rp = json.load(open(m.group(1))); replay = {'kind': rp.get('kind'), 'what': (rp.get('what') or '')[:300]}
            checks[p] = {'exit': rc, 'caught': rc == 1 and 'VIOLATION property=%s' % p in out, 'wall_s': round(time.time() - t0, 1), 'lines': [l[:300] for l in lines], 'replay': replay}
        meta['checks'] = checks
        sh('python3 %s/translator/cxx2gallina.py %s/coq/Translated.v' % (VERIF, VERIF))
        out_dir = os.path.join(VERIF, 'seeded', '%s-%s' % (pid, name)); os.makedirs(out_dir, exist_ok=True)
        old_meta = os.path.join(out_dir, 'meta.json')
        if os.path.exists(old_meta):
            om = json.load(open(old_meta))
            if 'tests_with_patch' not in meta and 'tests_with_patch' in om: meta['tests_with_patch'] = om['tests_with_patch']
            meta['earlier_evaluations'] = om.get('earlier_evaluations', []) + [{'evaluated_at': om.get('evaluated_at'), 'caught': {p: c.get('caught') for p, c in om.get('checks', {}).items()}}]
        shutil.copy(patch, os.path.join(out_dir, 'patch.diff')); shutil.copy(demo, os.path.join(out_dir, 'demo.cpp'))
        if os.path.exists(notes): shutil.copy(notes, os.path.join(out_dir, 'notes.md'))
        json.dump(meta, open(os.path.join(out_dir, 'meta.json'), 'w'), indent=1)
        print('%s-%s: tests %s, demo confirms %s, caught by %s' % (pid, name, meta.get('tests_with_patch'), meta['demo_confirms'],
              {p: c['caught'] for p, c in checks.items()}))
        for p, c in checks.items():
            for l in c['lines'][1:4]: print('    ', p, l[:220])
    finally:
        shutil.rmtree(scratch, ignore_errors=True)
    return 0

if __name__ == '__main__':
    sys.exit(main())
