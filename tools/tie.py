"""Build steps and the differential run (C++ templates vs extracted Coq model) of the tie."""
import os, subprocess, sys, hashlib, shutil, time
from sxp import dump, parse

VERIF = os.path.dirname(os.path.dirname(os.path.abspath(__file__)))
REPO = os.environ.get('HEPMC_REPO', '/repo')
BUILD = os.path.join(VERIF, '_build')
COQ = os.path.join(VERIF, 'coq')

def sh(cmd, cwd=None, timeout=3600, env=None, check=False, input=None):
    p = subprocess.run(cmd, cwd=cwd, shell=isinstance(cmd, str), stdout=subprocess.PIPE, stderr=subprocess.STDOUT,
                       timeout=timeout, env=env, input=input, universal_newlines=True)
    if check and p.returncode != 0:
        raise RuntimeError('command failed: %s\n%s' % (cmd, p.stdout[-4000:]))
    return p.returncode, p.stdout

def tree_hash(paths, exts):
    h = hashlib.sha256()
    for root in paths:
        if os.path.isfile(root):
            files = [root]
        else:
            files = []
            for d, _, fs in os.walk(root):
                if '/_build' in d or '/.git' in d or '/extracted' in d:
                    continue
                files += [os.path.join(d, f) for f in fs if f.endswith(exts)]
        for f in sorted(files):
            h.update(f.encode()); h.update(open(f, 'rb').read())
    return h.hexdigest()[:16]

last_model_io = ([], [])

class Stage(Exception):
    """a stage of the tie failed (translator, Coq build, extraction, C++ build)"""
    def __init__(self, stage, detail):
        Exception.__init__(self, '%s: %s' % (stage, detail)); self.stage = stage; self.detail = detail

def translate():
    out = os.path.join(COQ, 'Translated.v')
    tmp = out + '.new'
    rc, log = sh([sys.executable, os.path.join(VERIF, 'translator', 'cxx2gallina.py'), tmp])
    if rc != 0:
        raise Stage('translator', log.strip()[-2000:])
    if not os.path.exists(out) or open(out).read() != open(tmp).read():
        os.replace(tmp, out)
    else:
        os.remove(tmp)

def coq_build(targets=None, keep_going=True):
    """full .vo build (never -vos); returns (ok, log)"""
    if not os.path.exists(os.path.join(COQ, 'Makefile')) or \
       os.path.getmtime(os.path.join(COQ, 'Makefile')) < os.path.getmtime(os.path.join(COQ, '_CoqProject')):
        sh('coq_makefile -f _CoqProject -o Makefile', cwd=COQ, check=True)
    cmd = 'timeout 3000 make %s -j16 %s' % ('-k' if keep_going else '', ' '.join(targets or []))
    rc, log = sh(cmd, cwd=COQ, timeout=3100)
    return rc == 0, log

def extract_model():
    ex = os.path.join(COQ, 'extracted')
    os.makedirs(ex, exist_ok=True)
    stamp = os.path.join(ex, '.stamp')
    key = tree_hash([COQ, os.path.join(VERIF, 'harness', 'ml')], ('.v', '.ml'))
    if os.path.exists(stamp) and open(stamp).read() == key and os.path.exists(os.path.join(ex, 'model_driver')):
        return os.path.join(ex, 'model_driver')
    rc, log = sh('timeout 600 coqc -Q .. HepMC ../Extract.v', cwd=ex)
    if rc != 0:
        raise Stage('extraction', log[-2000:])
    shutil.copy(os.path.join(VERIF, 'harness', 'ml', 'driver.ml'), ex)
    tmp_exe = 'model_driver.new.%d' % os.getpid()
    rc, log = sh('ocamlfind ocamlopt -w -a model.mli model.ml driver.ml -o %s' % tmp_exe, cwd=ex)
    if rc != 0:
        raise Stage('ocaml build', log[-2000:])
    os.replace(os.path.join(ex, tmp_exe), os.path.join(ex, 'model_driver'))      # never expose a half-written executable
    open(stamp, 'w').write(key)
    return os.path.join(ex, 'model_driver')

def evict(prefix, suffix, keep=10, max_age_s=5400):
    """disk is limited: remove build directories of one kind that have not been used for a while (checks of different trees
    may run side by side, so a directory in recent use is never removed), and never keep more than `keep`"""
    if not os.path.isdir(BUILD):
        return
    now = time.time()
    ds = [os.path.join(BUILD, d) for d in os.listdir(BUILD) if d.startswith(prefix) and d.endswith(suffix)]
    ds.sort(key=lambda d: os.path.getmtime(d), reverse=True)
    for k, d in enumerate(ds):
        if k >= keep or (k >= 1 and now - os.path.getmtime(d) > max_age_s):
            shutil.rmtree(d, ignore_errors=True)

def cxx_build(extra='', tag='plain', cxx=None):
    """always rebuilt from /repo's current working tree (cached by content hash of headers + harness)"""
    key = tree_hash([os.path.join(REPO, 'include'), os.path.join(VERIF, 'harness', 'cxx')], ('.hpp', '.cpp', '.sh', '.h'))[:12] + hashlib.sha256((extra + '|' + (cxx or '')).encode()).hexdigest()[:4] + '-' + tag
    out = os.path.join(BUILD, 'cxx-' + key)
    exe = os.path.join(out, 'cxx_driver')
    if os.path.exists(exe):
        os.utime(out)
        return exe
    evict('cxx-', '-' + tag)
    env = dict(os.environ)
    if cxx: env['VERIF_CXX'] = cxx
    rc, log = sh('%s %s %s' % (os.path.join(VERIF, 'harness', 'cxx', 'build.sh'), out, extra), timeout=900, env=env)
    if rc != 0 or not os.path.exists(exe):
        shutil.rmtree(out, ignore_errors=True)
        raise Stage('c++ build', log[-3000:])
    return exe

def engines_build():
    """the standard-engine differential driver (C++-only checks of C03, C05, C10): one executable per numeric type"""
    key = tree_hash([os.path.join(REPO, 'include'), os.path.join(VERIF, 'harness', 'cxx', 'engines.cpp')], ('.hpp', '.cpp'))
    out = os.path.join(BUILD, 'eng-' + key)
    exes = [os.path.join(out, 'engines_' + t) for t in 'fdl']
    if all(os.path.exists(e) for e in exes):
        os.utime(out)
        return exes
    evict('eng-', '')
    os.makedirs(out, exist_ok=True)
    src = os.path.join(VERIF, 'harness', 'cxx', 'engines.cpp')
    procs = []
    for t, name in zip('fdl', ['float', 'double', 'long double']):
        procs.append(subprocess.Popen(['g++', '-std=c++11', '-O1', '-ffp-contract=off', '-I%s/include' % REPO, '-DENG_TYPE=%s' % name, src, '-o', os.path.join(out, 'engines_' + t)],
                                      stdout=subprocess.PIPE, stderr=subprocess.STDOUT, universal_newlines=True))
    logs = [p.communicate()[0] for p in procs]
    if any(p.returncode != 0 for p in procs):
        shutil.rmtree(out, ignore_errors=True)
        raise Stage('c++ build (engines)', '\n'.join(logs)[-3000:])
    return exes

def mpireal_build():
    """C04: the drivers under real MPI (mpicxx / mpirun are installed and work offline)"""
    key = tree_hash([os.path.join(REPO, 'include'), os.path.join(VERIF, 'harness', 'cxx', 'mpireal.cpp')], ('.hpp', '.cpp'))
    out = os.path.join(BUILD, 'mpireal-' + key)
    exe = os.path.join(out, 'mpireal')
    if os.path.exists(exe):
        os.utime(out); return exe
    evict('mpireal-', '')
    os.makedirs(out, exist_ok=True)
    rc, log = sh(['mpicxx', '-std=c++11', '-O1', '-ffp-contract=off', '-I%s/include' % REPO, os.path.join(VERIF, 'harness', 'cxx', 'mpireal.cpp'), '-o', exe], timeout=900)
    if rc != 0:
        shutil.rmtree(out, ignore_errors=True)
        raise Stage('c++ build (real MPI)', log[-3000:])
    return exe

def run_engines(seed):
    """returns (lines starting with FAIL, summary dict)"""
    fails = []; ok = 0
    for exe in engines_build():
        p = subprocess.run([exe, str(seed)], stdout=subprocess.PIPE, stderr=subprocess.PIPE, universal_newlines=True, timeout=600)
        if p.returncode != 0:
            fails.append('FAIL C10 engine driver %s ended with status %d: %s' % (os.path.basename(exe), p.returncode, p.stderr[-200:]))
        for l in p.stdout.split('\n'):
            if l.startswith('FAIL'): fails.append(l)
            if l.startswith('SUMMARY'): ok += int(l.split('ok=')[1].split()[0])
    return fails, ok

def run_driver(exe, lines, env=None, chunk=400, timeout=1800, cpu_limit=600, mem_limit=8 * 2 ** 30, big_stack=False):
    """feed case lines, return output lines (one per case); parallel over chunks"""
    import concurrent.futures
    chunks = [lines[i:i + chunk] for i in range(0, len(lines), chunk)]
    def limits():
        # a case that never terminates (or prints without end into a captured stream) must not take the machine down:
        # CPU time and address space of every driver process are bounded; the process then dies and its cases count as crashed
        import resource
        resource.setrlimit(resource.RLIMIT_CPU, (cpu_limit, cpu_limit + 5))
        try:
            # the extracted model recurses over lists (tens of thousands of bins in the thorough tier): give it the stack
            # (not the C++ driver: the stack limit is also the default stack size of every thread it starts)
            if not big_stack: raise ValueError
            soft, hard = resource.getrlimit(resource.RLIMIT_STACK)
            want = 4 * 2 ** 30 if hard == resource.RLIM_INFINITY else hard
            resource.setrlimit(resource.RLIMIT_STACK, (want, hard))
        except (ValueError, OSError):
            pass
        if mem_limit:
            resource.setrlimit(resource.RLIMIT_AS, (mem_limit, mem_limit))
    def one(c):
        try:
            p = subprocess.run([exe], input='\n'.join(c) + '\n', stdout=subprocess.PIPE, stderr=subprocess.PIPE,
                               universal_newlines=True, timeout=timeout, env=env, preexec_fn=limits)
        except subprocess.TimeoutExpired as e:
            class P: pass
            p = P(); p.stdout = (e.stdout or b'').decode(errors='replace') if isinstance(e.stdout, bytes) else (e.stdout or ''); p.stderr = 'timeout'; p.returncode = -9
        out = [l for l in p.stdout.split('\n') if l.startswith('(')]
        if len(out) < len(c):
            # the process died while working on case number len(out): that case is reported as crashed, the cases after it
            # are innocent and are run again in a fresh process
            out.append('(crash %d %s)' % (p.returncode, dump(p.stderr[-300:].encode())))
            rest = c[len(out):]
            if rest:
                out += one(rest)
        return out[:len(c)]
    with concurrent.futures.ThreadPoolExecutor(max_workers=16) as ex:
        res = list(ex.map(one, chunks))
    return [l for r in res for l in r]

def run_pair(cases, cxx_exe, ml_exe, env=None):
    """cases: list of (id:int, type:str, cmd:str, args:list).  Returns list of dicts with keys
    case, cxx, model (parsed S-expressions, libm table stripped) and same (bool)."""
    tmpdir = os.path.join(BUILD, 'tmp'); os.makedirs(tmpdir, exist_ok=True)
    e = dict(os.environ); e['VERIF_TMP'] = tmpdir
    if env: e.update(env)
    lines = [dump([i, t, cmd, args, []]) for (i, t, cmd, args) in cases]
    cout = run_driver(cxx_exe, lines, env=e, cpu_limit=180)
    mlines = []
    parsed = []
    for (i, t, cmd, args), o in zip(cases, cout):
        po = parse(o)
        libm = po[2] if len(po) > 2 and po[0] == i else []
        parsed.append(po)
        mlines.append(dump([i, t, cmd, args, libm]))
    # the extracted model is the slow side (about 70 k floating-point operations per second): spread the cases over all cores
    mout = run_driver(ml_exe, mlines, env=e, chunk=max(1, min(100, (len(mlines) + 47) // 48)), cpu_limit=1500, big_stack=True)
    global last_model_io
    last_model_io = (mlines, mout)
    out = []
    for c, po, m in zip(cases, parsed, mout):
        pm = parse(m)
        cx = po[1] if len(po) > 1 and po[0] == c[0] else po
        mo = pm[1] if len(pm) > 1 and pm[0] == c[0] else pm
        out.append({'case': c, 'cxx': cx, 'model': mo})
    return out


# ---- cross-check of the extraction: the same cases evaluated inside Coq by vm_compute -----------------------
def coq_sx(x):
    """S-expression (as parsed by sxp) -> Coq term of type sx; None if it contains a non-empty byte string with
    characters that are awkward in a Coq string literal"""
    if isinstance(x, list):
        parts = [coq_sx(e) for e in x]
        if any(p is None for p in parts): return None
        return 'SL [' + '; '.join(parts) + ']'
    if isinstance(x, bool): return 'SN %d%%N' % int(x)
    if isinstance(x, int): return 'SN %d%%N' % x
    if isinstance(x, bytes):
        if any(c < 32 or c > 126 or c == 34 for c in x): return None
        return 'SS "%s"' % x.decode()
    if x.startswith('%'):
        t = x[1:]
        if t == 'nan': return 'SF ONan'
        if t in ('z+', 'z-'): return 'SF (OZero %s)' % ('true' if t[1] == '-' else 'false')
        if t in ('i+', 'i-'): return 'SF (OInf %s)' % ('true' if t[1] == '-' else 'false')
        m, e = t[1:].split('p')
        return 'SF (OFin %s %d%%positive (%d)%%Z)' % ('true' if t[0] == '-' else 'false', int(m, 16), int(e))
    return 'SY "%s"' % x

def vm_crosscheck(lines_in, lines_out, limit=6, max_len=2500):
    """lines_in: case lines as fed to the model driver (with the libm table); lines_out: what the extracted model printed.
    Evaluates run_line on a few small cases by vm_compute and compares.  Returns (checked, mismatches, detail)."""
    picked = []
    for i, o in zip(lines_in, lines_out):
        if len(i) > max_len or len(o) > max_len: continue
        ci, co = coq_sx(parse(i)), coq_sx(parse(o))
        if ci is None or co is None: continue
        picked.append((ci, co))
        if len(picked) >= limit: break
    if not picked:
        return 0, 0, ''
    d = os.path.join(BUILD, 'tmp'); os.makedirs(d, exist_ok=True)
    src = os.path.join(d, 'VmSample_%d.v' % os.getpid())
    with open(src, 'w') as f:
        f.write('From Coq Require Import ZArith NArith List String Bool.\nFrom HepMC Require Import Num NumB Sx Top.\nImport ListNotations.\nLocal Open Scope string_scope.\n')
        f.write('Definition cases : list (sx * sx) := [\n  ' + ';\n  '.join('(%s, %s)' % p for p in picked) + '].\n')
        f.write('Eval vm_compute in map (fun p => sx_eqb (run_line (fst p)) (snd p)) cases.\n')
    rc, out = sh('timeout 600 coqc -Q %s HepMC %s' % (COQ, src), cwd=d, timeout=700)
    for ext in ('.v', '.vo', '.glob', '.vok', '.vos'):
        try: os.remove(src[:-2] + ext)
        except OSError: pass
    try: os.remove(os.path.join(d, '.' + os.path.basename(src)[:-2] + '.aux'))
    except OSError: pass
    if rc != 0:
        return len(picked), len(picked), 'coqc failed: ' + out[-400:]
    flat = out.replace('\n', ' ')
    n_true = flat.count('true'); n_false = flat.count('false')
    return len(picked), n_false + max(0, len(picked) - n_true - n_false), '' if n_false == 0 else out[-300:]
