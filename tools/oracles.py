"""Executable oracles: exact-arithmetic emulation helpers, the per-property search for a concrete
failing input on the implementation's outputs, and the C++-only differential checks."""
import os, subprocess, json, sys
sys.set_int_max_str_digits(0)
from fractions import Fraction
from fp import FMTS, parse_tok, isnum
from sxp import dump, parse

def fstr(x):
    try:
        return '%.17g' % float(x)
    except Exception:
        return str(x)[:40]

def case_line(case):
    return dump(list(case[:4]) + [[]])

def viol(what, cases, observed=None, tie=False):
    return {'what': what, 'cases': [case_line(c) for c in cases], 'observed': observed, 'tie': tie}

# ---- exact emulation of small pieces (round-to-nearest-even per operation) ---------------------
def cumulative(fmt, ws):
    """normalised cumulative sums exactly as discrete_distribution computes them"""
    sums = []; acc = None
    for w in ws:
        acc = w if acc is None else fmt.round(acc + w)
        sums.append(acc)
    total = sums[-1]
    return [fmt.round(s / total) if total != 0 else 'nan' for s in sums]

def kahan_sequence(rng, fmt, kind, n):
    if kind == 'large_then_small':
        big = fmt.round(Fraction(2) ** 30 + rng.randint(0, 99))
        return [big] + [fmt.round(Fraction(rng.randint(1, 3), 2 ** 10)) for _ in range(n - 1)]
    if kind == 'alternating':
        return [fmt.round((-1) ** i * (Fraction(10) ** rng.randint(0, 6) + Fraction(rng.getrandbits(10), 1024))) for i in range(n)]
    if kind == 'geometric':
        x = Fraction(1 << 20); out = []
        for i in range(n):
            out.append(fmt.round(x)); x = x * Fraction(rng.choice([1, 3, 7]), 8)
            if x < Fraction(2) ** (fmt.emin + fmt.prec + 2): x = Fraction(1 << 20)
        return out
    if kind == 'constant':
        return [fmt.round(Fraction(1, 10))] * n
    return [fmt.round(Fraction(rng.randint(-2 ** 20, 2 ** 20), 2 ** rng.randint(0, 40))) for _ in range(n)]

def zeroed_twin(spec, fmt):
    """the same run with every non-finite table entry (values, fill tables) replaced by zero; maps with non-finite
    jacobian / zero density sum have no table twin (the weight is not under the integrand's control): None"""
    out = []
    for e in spec:
        if e[0] == 'f' and e[1][0] == 'tab':
            vals = [v if isnum(parse_tok(v)) or v == '%z-' else '%z+' for v in e[1][1]]
            out.append(['f', ['tab', vals]])
        elif e[0] == 'map' and e[1][0] == 'tab':
            if any(not isnum(parse_tok(v)) and v != '%z-' for v in e[1][2] + e[1][3]) or any(parse_tok(v) == 0 for v in e[1][2] + e[1][3]):
                return None
            out.append(e)
        elif e[0] == 'tables':
            return None if any(not isnum(parse_tok(v)) and v != '%z-' for t in e[1] for v in t) else out.append(e)
        else:
            out.append(e)
    return out

# ---- C16 ----------------------------------------------------------------------------------------
def oracle_C16(results, metas, st):
    out = []
    for r in results:
        c = r['case']
        if c[2] == 'subcalls' and isinstance(r['model'], list) and len(r['model']) == 3:
            # the translated share expressions of mpi_plain / mpi_vegas / mpi_multi_channel against the specification
            total, rank, world = c[3]
            want = total // world + (1 if rank < total % world else 0)
            for name, got in zip(('mpi_plain', 'mpi_vegas', 'mpi_multi_channel'), r['model']):
                if got != want:
                    out.append(viol('the share expression of %s (translated from the header) gives rank %d of %d a share of %d of %d calls; a balanced contiguous split gives %d' %
                                    (name, rank, world, got, total, want), [c], 'witness evaluated on the translated definition (the driver cannot be run with that many calls)'))
                    break
        if c[2] != 'split' or not isinstance(r['cxx'], list) or len(r['cxx']) != 2:
            continue
        total, sub, rank, world = c[3]
        before, after = r['cxx']
        eb = (total // world) * rank + min(rank, total % world)
        if before != eb or before + sub + after != total:
            out.append(viol('split of total=%d over world=%d: rank %d skips %d before and %d after its %d calls (expected %d before, ending at %d)'
                            % (total, world, rank, before, after, sub, eb, total), [c], dump(r['cxx'])))
    return out

# ---- C09 ----------------------------------------------------------------------------------------
def oracle_C09(results, metas, st):
    out = []
    for r in results:
        c = r['case']
        if c[2] == 'run' and isinstance(r['cxx'], list):
            # inside real iterations: the map is only ever asked for an enabled, existing channel
            spec = c[3]; chk = next((e[1] for e in spec if e[0] == 'chk'), None)
            nch = next((e[1] for e in spec if e[0] == 'channels'), 1)
            for it in find_items(r['cxx'], 'run'):
                for e in (find_items(it, 'events') or [['events']])[0][1:]:
                    if e[0] == 'mc' and (e[1] >= nch or e[1] not in e[3]):
                        out.append(viol('channel %d selected in a run with %d channels of which %s are enabled' % (e[1], nch, e[3]), [c])); break
            for x in r['cxx']:
                if isinstance(x, str) and x in ('exception', 'crash') or (isinstance(x, list) and x and x[0] in ('exception', 'crash')):
                    out.append(viol('the run did not terminate normally: %s' % dump(r['cxx'])[:200], [c])); break
            continue
        if c[2] == 'selects' and isinstance(r['cxx'], list) and all(isinstance(x, int) for x in r['cxx']):
            import bisect
            fmt = FMTS[c[1]]
            ws = [parse_tok(w) for w in c[3][0]]; us = [parse_tok(u) for u in c[3][1]]
            cum = cumulative(fmt, ws)
            for u, i in zip(us, r['cxx']):
                want = bisect.bisect_right(cum, u)
                if i >= len(ws) or ws[i] == 0 or i != want:
                    out.append(viol('%d weights: channel %d selected but canonical number %s lies in interval %d of the cumulative weights' % (len(ws), i, fstr(u), want), [c])); break
            continue
        if c[2] != 'select' or not isinstance(r['cxx'], list) or len(r['cxx']) != 1 or not isinstance(r['cxx'][0], int):
            continue
        fmt = FMTS[c[1]]
        ws = [parse_tok(w) for w in c[3][0]]; u = parse_tok(c[3][1])
        i = r['cxx'][0]
        cum = cumulative(fmt, ws)
        want = sum(1 for s in cum if s <= u)
        if i >= len(ws):
            out.append(viol('selected index %d is not a valid channel (%d channels) for canonical number %s' % (i, len(ws), u), [c], dump(r['cxx'])))
        elif ws[i] == 0:
            out.append(viol('channel %d with weight zero selected for canonical number %s, weights %s' % (i, u, [str(w) for w in ws]), [c], dump(r['cxx'])))
        elif i != want:
            out.append(viol('channel %d selected but canonical number %s lies in interval %d of the cumulative weights' % (i, u, want), [c], dump(r['cxx'])))
    return out

# ---- C07 ----------------------------------------------------------------------------------------
def oracle_C07(results, metas, st):
    out = []
    for r in results:
        c = r['case']; cx = r['cxx']
        if c[2] == 'run' and isinstance(cx, list):
            for d in dumps_of(cx)[-1:]:
                if d[0] != 'vegas': continue
                rs = chk_results(d)
                grids = [x['extra'][0] for x in rs]
                if isinstance(d[4], list) and d[4] and d[4][0] == 'ok': grids.append(d[4][1])
                for k, g in enumerate(grids):
                    bins, dims, xs = g[0], g[1], [parse_tok(x) for x in g[2]]
                    for dd in range(dims):
                        row = xs[dd * (bins + 1):(dd + 1) * (bins + 1)]
                        if any(not isnum(x) for x in row): continue        # overflow of the smoothing sums is not claimed
                        if row[0] != 0 or row[-1] != 1 or any(a > b for a, b in zip(row, row[1:])):
                            out.append(viol('the grid used for iteration %d is not a valid partition in dimension %d: %s' % (k, dd, [fstr(x) for x in row]), [c])); break
                for k in range(len(grids) - 1):
                    if k < len(rs) and all(parse_tok(a) == 0 for a in rs[k]['extra'][1]) and grids[k + 1] != grids[k]:
                        out.append(viol('iteration %d sampled only zeros but the grid changed' % k, [c])); break
            continue
        if not isinstance(cx, list) or not cx or cx[0] != 'ok':
            continue
        if c[2] == 'refine_pdf':
            bins, dims, xs, alpha, data = c[3]
            old = [parse_tok(x) for x in xs]; new = [parse_tok(x) for x in cx[1]]
            dat = [parse_tok(x) for x in data]
            for d in range(dims):
                o = old[d * (bins + 1):(d + 1) * (bins + 1)]; n = new[d * (bins + 1):(d + 1) * (bins + 1)]
                dd = dat[d * bins:(d + 1) * bins]
                if any(not isnum(x) for x in n):
                    # overflow of the 3-term smoothing sums is not claimed (data >= max/3)
                    continue
                if all(x == 0 for x in dd) and n != o:
                    out.append(viol('all-zero data changed the grid of dimension %d: %s -> %s' % (d, [fstr(x) for x in o], [fstr(x) for x in n]), [c]))
                elif n[0] != 0 or n[-1] != 1:
                    out.append(viol('refined grid of dimension %d does not run from 0 to 1: %s' % (d, [fstr(x) for x in n]), [c]))
                elif any(a > b for a, b in zip(n, n[1:])):
                    out.append(viol('refined grid of dimension %d is not non-decreasing: %s' % (d, [fstr(x) for x in n]), [c]))
        elif c[2] == 'icdf':
            bins, dims, xs, us = c[3]
            g = [parse_tok(x) for x in xs]
            fmt = FMTS[c[1]]
            pt = [parse_tok(x) for x in cx[1]]; bs = cx[2]; w = parse_tok(cx[3])
            exact_w = Fraction(1); smallest = Fraction(1)
            for d in range(dims):
                if bs[d] >= bins:
                    out.append(viol('bin index %d of dimension %d is not below the bin count %d (u = %s)' % (bs[d], d, bins, us[d]), [c])); break
                lo, hi = g[d * (bins + 1) + bs[d]], g[d * (bins + 1) + bs[d] + 1]
                if not (lo <= pt[d] <= hi):
                    out.append(viol('point %s of dimension %d lies outside its reported bin [%s, %s]' % (pt[d], d, lo, hi), [c])); break
                exact_w *= (hi - lo) * bins
                smallest = min(smallest, abs(exact_w), abs((hi - lo) * bins)) if (hi - lo) else smallest
            else:
                # (relative rounding-error bound; not meaningful once a factor or a partial product is subnormal)
                if isnum(w) and smallest > Fraction(2) ** (fmt.emin + fmt.prec + 8) and abs(w - exact_w) > 4 * dims * fmt.u * abs(exact_w) + Fraction(2) ** (fmt.emin + 2):
                    out.append(viol('weight %s differs from prod(bins x width) = %s' % (w, exact_w), [c]))
    return out

# ---- C08 ----------------------------------------------------------------------------------------
def oracle_C08(results, metas, st):
    out = []
    for r in results:
        c = r['case']; cx = r['cxx']
        if c[2] == 'run' and isinstance(cx, list):
            fmt = FMTS[c[1]]
            for d in dumps_of(cx)[-1:]:
                if d[0] != 'mc': continue
                rs = chk_results(d)
                ws_list = [[parse_tok(x) for x in x_['extra'][1]] for x_ in rs]
                if isinstance(d[5], list) and d[5] and d[5][0] == 'ok': ws_list.append([parse_tok(x) for x in d[5][1]])
                for k, ws in enumerate(ws_list):
                    if any(not isnum(w) for w in ws):
                        out.append(viol('the channel weights used for iteration %d are not finite: %s' % (k, [fstr(w) for w in ws]), [c])); break
                    if any(w < 0 for w in ws) or abs(sum(ws) - 1) > (2 * len(ws) + 4) * fmt.u:
                        out.append(viol('the channel weights used for iteration %d are not a probability vector (sum %s): %s' % (k, fstr(sum(ws)), [fstr(w) for w in ws]), [c])); break
                    if k and any(a == 0 and b != 0 for a, b in zip(ws_list[k - 1], ws)):
                        out.append(viol('a disabled channel was re-enabled in iteration %d' % k, [c])); break
                    if k and k - 1 < len(rs) and all(parse_tok(a) == 0 for a in rs[k - 1]['extra'][0]) and ws != ws_list[k - 1]:
                        out.append(viol('iteration %d sampled only zeros but the channel weights changed' % (k - 1), [c])); break
            continue
        if c[2] != 'refine_w' or not isinstance(cx, list) or not cx or cx[0] != 'ok':
            continue
        fmt = FMTS[c[1]]
        ws = [parse_tok(x) for x in c[3][0]]; data = [parse_tok(x) for x in c[3][1]]
        minw = parse_tok(c[3][2])
        new = [parse_tok(x) for x in cx[1]]
        n = len(ws)
        if all(d == 0 for d in data):
            if new != ws:
                out.append(viol('all-zero adjustment data changed the weights %s -> %s' % ([str(w) for w in ws], [str(w) for w in new]), [c]))
            continue
        if all(w * d == 0 for w, d in zip(ws, data)):
            continue
        if any(not isnum(x) for x in new):
            out.append(viol('refined weights are not finite: %s' % new, [c])); continue
        if any(x < 0 for x in new):
            out.append(viol('negative refined weight: %s' % [str(x) for x in new], [c])); continue
        if any(w == 0 and x != 0 for w, x in zip(ws, new)):
            out.append(viol('a disabled channel was re-enabled: %s -> %s' % ([str(w) for w in ws], [str(x) for x in new]), [c])); continue
        if abs(sum(new) - 1) > (2 * n + 4) * fmt.u:
            out.append(viol('refined weights sum to %s' % float(sum(new)), [c])); continue
        floor = minw / (1 + n * minw)
        if any(w != 0 and d > 0 and x == 0 for w, d, x in zip(ws, data, new)) and all(d == 0 or Fraction(2) ** -40 < d < Fraction(2) ** 40 for d in data):
            out.append(viol('an enabled channel with a positive adjustment datum lost its weight: %s -> %s (data %s)' %
                            ([fstr(w) for w in ws], [fstr(x) for x in new], [fstr(d) for d in data]), [c])); continue
        for w, d, x in zip(ws, data, new):
            if w != 0 and d > 0 and x < floor * (1 - 8 * fmt.u):
                out.append(viol('enabled channel with positive datum got weight %s below the floor %s' % (float(x), float(floor)), [c])); break
    return out

# ---- C14 ----------------------------------------------------------------------------------------
def kahan_bound(fmt, n):
    return 7 * fmt.u + 20 * n * fmt.u * fmt.u

def oracle_C14(results, metas, st):
    out = []
    for r, m in zip(results, metas):
        kh = m.get('kahan')
        if not kh or not isinstance(r['cxx'], list): continue
        fmt = FMTS[r['case'][1]]
        ds = dumps_of(r['cxx'])
        if not ds: continue
        res = chk_results(ds[-1])[0]
        vs = kh['values']; exact = sum(vs); mag = sum(abs(v) for v in vs); n = len(vs)
        s = parse_tok(res['main'][3])
        tol = lambda k: kahan_bound(fmt, k) * mag * (2 if kh['twice'] else 1) + Fraction(2) ** (fmt.emin + 4) * k
        if isnum(s) and abs(s - exact) > tol(n):
            out.append(viol('the integral of %d values (integrand with a distribution) is off by %.3g units of u*sum|x|' % (n, float(abs(s - exact) / (fmt.u * mag)) if mag else 0.0), [r['case']]))
        if res['dists']:
            b = res['dists'][0][1][0]
            bs = parse_tok(b[3]); mult = 2 if kh['twice'] else 1
            if isnum(bs) and abs(bs - mult * exact) > tol(mult * n):
                out.append(viol('the bin filled %s per call with %d values is off by %.3g units of u*sum|x|' % ('twice' if kh['twice'] else 'once', n, float(abs(bs - mult * exact) / (fmt.u * mag * mult)) if mag else 0.0), [r['case']]))
    for r in results:
        c = r['case']; cx = r['cxx']
        if c[2] != 'kahan' or not isinstance(cx, list) or len(cx) != 3:
            continue
        fmt = FMTS[c[1]]
        vs = [parse_tok(x) for x in c[3][0]]
        s = parse_tok(cx[0])
        if not isnum(s):
            continue
        exact = sum(vs); mag = sum(abs(v) for v in vs)
        if abs(s - exact) > kahan_bound(fmt, len(vs)) * mag + Fraction(2) ** (fmt.emin + 4) * len(vs):
            out.append(viol('sum of %d values is off by %.3g units of u*sum|x| (bound %.3g)' %
                            (len(vs), float(abs(s - exact) / (fmt.u * mag)) if mag else 0.0, float(kahan_bound(fmt, len(vs)) / fmt.u)), [c]))
    return out

# ---- helpers on dumps ----------------------------------------------------------------------------
def find_items(out, head):
    """all top-level observation items (lists) of a run case whose first element is `head`"""
    return [x for x in out if isinstance(x, list) and x and x[0] == head] if isinstance(out, list) else []

def chk_results(d):
    """dump -> list of results; each result = dict(main=[calls,nz,fin,sum,sumsq], dists=[(par, bins)], extra=[...])"""
    rs = []
    for r in d[1]:
        rs.append({'main': r[0], 'dists': r[1], 'extra': r[2:]})
    return rs

def chk_gens(d):
    return d[2][1:]

def fnum(tok):
    v = parse_tok(tok)
    return v

# ---- C04 ----------------------------------------------------------------------------------------
def oracle_C04(results, metas, st):
    out = []
    by_id = {r['case'][0]: (r, m) for r, m in zip(results, metas)}
    for r, m in zip(results, metas):
        if not m.get('mpi'):
            continue
        c = r['case']; cx = r['cxx']
        fmt = FMTS[c[1]]
        mp = find_items(cx, 'mpi')
        if not mp:
            continue
        mp = mp[0]
        info = m['info']; P = info['world']; calls = info['calls']
        ub = [x for x in mp[1:] if isinstance(x, list) and x and x[0] in ('ub', 'exception')]
        if ub:
            what = 'a rank waits in a collective that can never complete (hang)' if ub[0][:2] == ['ub', 99] else \
                   'ranks entered mismatching collectives' if ub[0][:2] == ['ub', 98] else 'a rank failed: %s' % dump(ub[0])
            out.append(viol('MPI run with %d ranks, calls %s: %s' % (P, calls, what), [c], dump(mp)[:400])); continue
        ranks = find_items(mp, 'rank')
        dumps = [find_items(rk, 'dump')[0][1] for rk in ranks]
        if any(d != dumps[0] for d in dumps[1:]):
            k = next(i for i, d in enumerate(dumps) if d != dumps[0])
            out.append(viol('rank %d returns a checkpoint different from rank 0 (world %d, calls %s)' % (k, P, calls), [c])); continue
        colls = [find_items(rk, 'coll')[0] for rk in ranks]
        if any(x != colls[0] for x in colls[1:]):
            out.append(viol('ranks executed different sequences of collectives (world %d, calls %s)' % (P, calls), [c])); continue
        # serial twin
        twin = [x for x in by_id.values() if x[1].get('serial_of') == c[0]]
        if not twin:
            continue
        sr = twin[0][0]; scx = sr['cxx']
        sd = find_items(scx, 'dump')
        if not sd:
            continue
        sd = sd[-1][1]
        if not info.get('poly'):
            # table integrands are indexed by the per-rank call counter: the values (and a target-precision stop) differ legitimately
            continue
        if chk_gens(sd) != chk_gens(dumps[0]):
            out.append(viol('generators stored by the MPI run %s differ from the serial run %s (world %d, calls %s)' %
                            (chk_gens(dumps[0]), chk_gens(sd), P, calls), [c, sr['case']])); continue
        srs = chk_results(sd); mrs = chk_results(dumps[0])
        if len(srs) != len(mrs):
            out.append(viol('MPI run performed %d iterations, serial run %d (world %d, calls %s)' % (len(mrs) - 0, len(srs), P, calls), [c, sr['case']])); continue
        if not info.get('poly'):
            # table integrands are indexed by the per-rank call counter: values differ legitimately; calls still must agree
            for k, (a, b) in enumerate(zip(srs, mrs)):
                if a['main'][0] != b['main'][0]:
                    out.append(viol('iteration %d reports calls=%d under MPI, %d serially' % (k, b['main'][0], a['main'][0]), [c, sr['case']])); break
            continue
        # points: union over ranks vs serial, iteration by iteration while the adaptive state is bit-identical
        sev = [e for e in (find_items(scx, 'run')[-1:] or [[]])[0] if isinstance(e, list) and e and e[0] == 'events']
        sev = [e for e in sev[0][1:] if e[0] == 'f'] if sev else []
        rev = []
        for rk in ranks:
            ev = find_items(rk, 'events')
            rev.append([e for e in ev[0][1:] if e[0] == 'f'] if ev else [])
        spos = 0; rpos = [0] * P
        first = 1 if info.get('pre') else 0
        bad = False
        for k in range(first, len(srs)):
            N = calls[k - first] if k - first < len(calls) else 0
            state_equal = srs[k]['extra'][-1:] == mrs[k]['extra'][-1:] if srs[k]['extra'] else True
            if srs[k]['extra'] and len(srs[k]['extra']) == 2 and isinstance(srs[k]['extra'][0], list) and len(srs[k]['extra'][0]) == 3:
                state_equal = srs[k]['extra'][0] == mrs[k]['extra'][0]          # vegas: the grid
            spts = sev[spos:spos + N]; spos += N
            mpts = []
            for rr in range(P):
                sub = N // P + (1 if rr < N % P else 0)
                mpts += rev[rr][rpos[rr]:rpos[rr] + sub]; rpos[rr] += sub
            if state_equal:
                key = lambda e: dump(e[2:])
                if sorted(map(key, spts)) != sorted(map(key, mpts)):
                    out.append(viol('iteration %d: the %d points evaluated across %d ranks are not the %d points of the serial run' %
                                    (k, len(mpts), P, len(spts)), [c, sr['case']])); bad = True; break
            a, b = srs[k]['main'], mrs[k]['main']
            if a[:3] != b[:3] and state_equal:
                out.append(viol('iteration %d: counters (calls, non-zero, finite) %s under MPI vs %s serially' % (k, b[:3], a[:3]), [c, sr['case']])); bad = True; break
            sa, sb = fnum(a[3]), fnum(b[3]); qa, qb = fnum(a[4]), fnum(b[4])
            if state_equal and all(isnum(x) for x in (sa, sb, qa, qb)) and N > 0:
                from math import isqrt
                mag2 = N * max(qa, qb)
                # |sum - sum'| <= (2P + 32) u sqrt(N sumsq)
                lhs = (sa - sb) ** 2; rhs = ((2 * P + 32) * fmt.u) ** 2 * mag2 + Fraction(2) ** (2 * fmt.emin + 8)
                if lhs > rhs:
                    out.append(viol('iteration %d: sum %s under MPI vs %s serially differs by more than reassociation allows' % (k, float(sb), float(sa)), [c, sr['case']])); bad = True; break
                if abs(qa - qb) > (2 * N + 2 * P + 8) * fmt.u * max(qa, qb) + Fraction(2) ** (fmt.emin + 4):
                    out.append(viol('iteration %d: sum of squares %s under MPI vs %s serially' % (k, float(qb), float(qa)), [c, sr['case']])); bad = True; break
            if not state_equal:
                break
    return out

# ---- C18: real system calls of the writing callback, kill enumeration ------------------------------
def build_preload():
    import tie, hashlib
    src = os.path.join(tie.VERIF, 'harness', 'preload', 'crash.c')
    key = hashlib.sha256(open(src, 'rb').read()).hexdigest()[:12]
    out = os.path.join(tie.BUILD, 'crash-%s.so' % key)
    if not os.path.exists(out):
        rc, log = tie.sh('gcc -O1 -shared -fPIC -o %s %s -ldl' % (out, src))
        if rc != 0:
            raise RuntimeError('interposer build failed: ' + log[-500:])
    return out

def parse_fslog(path):
    ops = []
    if not os.path.exists(path):
        return ops
    for line in open(path, 'rb').read().split(b'\n'):
        p = line.split(b' ')
        if p[0] == b'open' and len(p) == 3: ops.append(('open', p[1].decode(), p[2].decode()))
        elif p[0] == b'write' and len(p) == 4: ops.append(('write', p[1].decode(), bytes.fromhex(p[3].decode())))
        elif p[0] == b'close' and len(p) == 2: ops.append(('close', p[1].decode()))
        elif p[0] == b'rename' and len(p) == 3: ops.append(('rename', p[1].decode(), p[2].decode()))
        elif p[0] == b'unlink' and len(p) == 2: ops.append(('unlink', p[1].decode()))
        elif p[0] == b'openfail' and len(p) == 2: ops.append(('openfail', p[1].decode()))
        elif p[0] == b'writefail' and len(p) == 3: ops.append(('writefail', p[1].decode(), int(p[2])))
        elif p[0] == b'closefail' and len(p) == 2: ops.append(('closefail', p[1].decode()))
        elif p[0] == b'renamefail' and len(p) == 3: ops.append(('renamefail', p[1].decode(), p[2].decode()))
    return ops

def c18_spec(rng, fmt, kind, size):
    """a run whose checkpoint text is small / medium / far above the 8 KiB stream buffer"""
    import props
    nb = {'small': 1, 'medium': 12, 'large': 45}[size]
    dists = [] if size == 'small' and rng.random() < 0.5 else \
        [[nb, nb if size != 'small' else 1, fmt.tok(Fraction(0)), fmt.tok(Fraction(1)), fmt.tok(Fraction(0)), fmt.tok(Fraction(1)), rng.choice([b'', b'x y', b' lead'])]
         for _ in range(1 if size != 'large' else 2)]
    iters = rng.choice([2, 3])
    s, cl, info = props.rand_run(rng, fmt, kind, iters=iters, calls=[3, 7], dists=dists, poly=True, cb=['builtin', rng.choice([1, 3]), fmt.rtok(0)],
                                 finite_only=True, wants=0)
    return s, info

def run_one(exe, line, env=None, timeout=120):
    p = subprocess.run([exe], input=line + '\n', stdout=subprocess.PIPE, stderr=subprocess.PIPE, universal_newlines=True, timeout=timeout, env=env)
    outs = [l for l in p.stdout.split('\n') if l.startswith('(')]
    return p.returncode, (parse(outs[0]) if outs else None)

def extra_C18(rng, tier, st, cov):
    import tie, shutil, tempfile
    out = []
    exe = st['cxx_exe']; ml = st.get('model_exe')
    so = build_preload()
    work = tempfile.mkdtemp(prefix='c18_', dir=tie.BUILD)
    stats = {'configs': 0, 'kills': 0, 'partial_write_kills': 0, 'resumes': 0, 'ops_per_run': [], 'text_bytes': [], 'skeleton_checks': 0}
    try:
        configs = [(t, k, sz) for t in ('d', 'f', 'l') for k in ('plain', 'vegas', 'mc') for sz in ('small', 'medium', 'large')]
        rng.shuffle(configs)
        if tier == 'quick':
            # two of every size (small texts fit into one write, large ones need many)
            picked = []
            for sz in ('small', 'medium', 'large'):
                picked += [c for c in configs if c[2] == sz][:2]
            configs = picked
        for n, (t, kind, size) in enumerate(configs):
            fmt = FMTS[t]
            spec, info = c18_spec(rng, fmt, kind, size)
            calls = info['calls']
            final = os.path.join(work, 'chk_%d.txt' % n)
            def case(ops, keep=True, idx=0):
                s = [e for e in spec if e[0] not in ('ops', 'idx')] + ([['idx', idx]] if idx else []) + ([['keepfile', final.encode()]] if keep else []) + [['ops', ops]]
                return dump([1, t, 'run', s, []])
            base_env = dict(os.environ); base_env['VERIF_TMP'] = work
            def penv(logf, kill=None, partial=None, fail=None, short=False):
                e = dict(base_env); e.update({'LD_PRELOAD': so, 'VERIF_FS_MATCH': final, 'VERIF_FS_LOG': logf})
                if short: e['VERIF_FS_SHORT'] = '1' 
                if kill: e['VERIF_FS_KILL_AT'] = str(kill)
                if partial: e['VERIF_FS_PARTIAL'] = str(partial)
                if fail: e['VERIF_FS_FAIL_AT'] = str(fail)
                return e
            def clean():
                for f in (final, final + '.tmp'):
                    if os.path.exists(f): os.remove(f)
            # reference run: operations and texts
            clean(); logf = os.path.join(work, 'log_%d' % n)
            if os.path.exists(logf): os.remove(logf)
            rc, ref = run_one(exe, case([['run', calls], ['text']]), penv(logf))
            ops = parse_fslog(logf)
            if rc != 0 or ref is None:
                out.append(viol('C18 reference run failed (rc %s)' % rc, [])); continue
            ref_final_text = [x for x in ref[1] if isinstance(x, list) and x[0] == 'text'][0][1]
            stats['configs'] += 1; stats['ops_per_run'].append(len(ops))
            # texts per invocation: payload between an open and the next close of the same path
            texts = []; cur = None; skeleton = []
            for o in ops:
                if o[0] == 'open': cur = b''; skeleton.append(['open', o[1].encode()])
                elif o[0] == 'write' and cur is not None: cur += o[2]; skeleton.append(['write', o[1].encode(), len(o[2])])
                elif o[0] == 'close' and cur is not None: texts.append(cur); cur = None; skeleton.append(['close', o[1].encode()])
                elif o[0] == 'rename': skeleton.append(['rename', o[1].encode(), o[2].encode()])
                else: skeleton.append([o[0], o[1].encode()])
            stats['text_bytes'] += [len(x) for x in texts]
            if not texts or texts[-1] != ref_final_text:
                out.append(viol('the bytes written by the last callback invocation are not the serialised final checkpoint (%s, %s)' % (kind, size), [],
                                {'spec': case([['run', calls], ['text']])})); continue
            # the real operation sequence against the model's write_chkpt_ops, invocation by invocation
            if ml:
                per = []; curops = []
                for o in skeleton:
                    curops.append(o)
                    if o[0] == 'rename': per.append(curops); curops = []
                if curops: per.append(curops)
                for inv in per:
                    lens = [o[2] for o in inv if o[0] == 'write']
                    rcm, mo = run_one(ml, dump([1, 'd', 'fsops', [final.encode(), lens], []]))
                    stats['skeleton_checks'] += 1
                    if not isinstance(mo, list) or len(mo) < 2 or mo[1] != inv:
                        out.append(viol('system calls of one callback invocation differ from the model (create/truncate <name>.tmp, write, close, rename): %s' %
                                        [(o[0], o[1][-12:]) for o in inv][:8], [], {'spec': case([['run', calls], ['text']]), 'real': dump(inv)[:600], 'model': dump(mo[1])[:600] if isinstance(mo, list) and len(mo) > 1 else None}, tie=True))
                        break
            # kill enumeration
            nops = len(ops)
            ks = list(range(1, nops + 1))
            if tier == 'quick' and nops > 14:
                ks = sorted(set(rng.sample(ks, 10) + [1, 2, nops - 1, nops]))
            plan = [(k, None) for k in ks]
            writes = [i + 1 for i, o in enumerate(ops) if o[0] == 'write' and len(o[2]) > 2]
            for k in (writes if tier == 'thorough' else rng.sample(writes, min(4, len(writes)))):
                L = len(ops[k - 1][2])
                for m in sorted(set([1, L // 2, L - 1])):
                    plan.append((k, m))
            for k, m in plan:
                clean(); lk = os.path.join(work, 'klog')
                if os.path.exists(lk): os.remove(lk)
                rc, _ = run_one(exe, case([['run', calls], ['text']]), penv(lk, k, m))
                stats['kills'] += 1
                if m: stats['partial_write_kills'] += 1
                done = parse_fslog(lk)
                opens = sum(1 for o in done if o[0] == 'open')
                renames = sum(1 for o in done if o[0] == 'rename')
                content = open(final, 'rb').read() if os.path.exists(final) else None
                allowed = set()
                j = opens                        # invocation in progress (1-based); texts[j-1] is its text
                allowed.add(texts[j - 2] if j >= 2 else None)
                if 1 <= j <= len(texts): allowed.add(texts[j - 1])
                if j == 0: allowed = {None}
                where = 'operation %d of %d (%s)%s' % (k, nops, ops[k - 1][0], ' after %d of %d bytes' % (m, len(ops[k - 1][2])) if m else '')
                replay = {'spec': case([['run', calls], ['text']]), 'kill_at': k, 'partial': m, 'file': final}
                if rc != -9:
                    out.append(viol('process was not killed at %s (exit %s)' % (where, rc), [], replay)); continue
                if content not in allowed:
                    desc = 'absent' if content is None else 'empty' if content == b'' else '%d bytes, a strict prefix of a checkpoint' % len(content) if any(x and x.startswith(content) for x in texts) else '%d bytes' % len(content)
                    out.append(viol('killed at %s: the checkpoint file is %s - neither the previous nor the new complete checkpoint' % (where, desc), [], replay))
                    continue
                # resume from what is there
                if content is not None:
                    nres = texts.index(content) + 1
                    rc2, res = run_one(exe, case([['load', final.encode()], ['run', calls[nres:]], ['text']], keep=False, idx=sum(calls[:nres])), base_env)
                    stats['resumes'] += 1
                    t2 = [x for x in (res[1] if res else []) if isinstance(x, list) and x[0] == 'text']
                    if rc2 != 0 or not t2 or t2[0][1] != ref_final_text:
                        out.append(viol('killed at %s: resuming from the file does not reproduce the final checkpoint of the uninterrupted run' % where, [], replay))
            # fault sequences: the f-th file operation fails and the process goes on; then kills at the operations that follow
            tmpname = final + '.tmp'
            def expected_after(done):
                """the text the last successful rename put under the final name (None: no rename yet): invocation j writes texts[j-1]"""
                j = 0; exp = None
                for o in done:
                    if o[0] in ('open', 'openfail') and o[1] == tmpname: j += 1
                    elif o[0] == 'rename' and o[2] == final and 1 <= j <= len(texts): exp = texts[j - 1]
                return exp
            first_inv_end = next((i + 1 for i, o in enumerate(ops) if o[0] == 'rename'), nops)
            cand = {}
            for i, o in enumerate(ops):
                cand.setdefault(o[0], []).append(i + 1)
            fpos = []
            for kind_ in ('open', 'write', 'close', 'rename'):
                c_ = cand.get(kind_, [])
                if not c_: continue
                fpos += c_ if tier == 'thorough' else sorted(set([c_[0], rng.choice(c_)] + ([c_[-1]] if kind_ == 'write' else [])))
            wpos = [f for f in sorted(set(fpos)) if ops[f - 1][0] == 'write' and len(ops[f - 1][2]) >= 2]
            fplan = [(f, False) for f in sorted(set(fpos))] + [(f, True) for f in (wpos if tier == 'thorough' else wpos[:2])]
            for f, short in fplan:
                clean(); lf = os.path.join(work, 'flog')
                if os.path.exists(lf): os.remove(lf)
                what = ('the write that is operation %d of %d stores only half of its bytes and the disk is full from then on' % (f, nops)) if short else 'the %s that is operation %d of %d fails' % (ops[f - 1][0], f, nops)
                rc, resf = run_one(exe, case([['run', calls], ['text']]), penv(lf, fail=f, short=short))
                stats['faults'] = stats.get('faults', 0) + 1
                donef = parse_fslog(lf)
                replay = {'spec': case([['run', calls], ['text']]), 'fail_at': f, 'short_write': short, 'file': final}
                tf = [x for x in (resf[1] if resf else []) if isinstance(x, list) and x[0] == 'text']
                if rc != 0 or not tf or tf[0][1] != ref_final_text:
                    out.append(viol('%s: the run does not finish with the result of the undisturbed run (exit %s)' % (what, rc), [], replay)); continue
                content = open(final, 'rb').read() if os.path.exists(final) else None
                if content != expected_after(donef):
                    out.append(viol('%s: afterwards the checkpoint file is not the text of the last invocation that completed' % what, [], replay)); continue
                # the operations of the disturbed invocation against the model's invocation_ops
                if ml:
                    inv = []; started = False
                    idx_f = next((i for i, o in enumerate(donef) if o[0].endswith('fail')), None)
                    # the invocation containing the failure: from the preceding open (or the failing open) to the next open
                    a = idx_f
                    while a is not None and a > 0 and donef[a][0] not in ('open', 'openfail'): a -= 1
                    b = idx_f + 1 if idx_f is not None else 0
                    while idx_f is not None and b < len(donef) and donef[b][0] not in ('open', 'openfail'): b += 1
                    seg = donef[a:b] if idx_f is not None else []
                    how = 'openfails' if seg and seg[0][0] == 'openfail' else 'incomplete'
                    real = []
                    for o in seg:
                        if o[0] == 'open': real.append(['open', o[1].encode()])
                        elif o[0] == 'write': real.append(['write', o[1].encode(), len(o[2])])
                        elif o[0] in ('close', 'closefail'): real.append(['close', o[1].encode()])
                        elif o[0] == 'rename': real.append(['rename', o[1].encode(), o[2].encode()])
                        elif o[0] == 'unlink': real.append(['unlink', o[1].encode()])
                    lens = [o[2] for o in real if o[0] == 'write']
                    rcm, mo = run_one(ml, dump([1, 'd', 'fsops', [final.encode(), lens, how], []]))
                    stats['skeleton_checks'] += 1
                    if not isinstance(mo, list) or len(mo) < 2 or mo[1] != real:
                        out.append(viol('%s: the system calls of that invocation differ from the model (%s: no operation on the final name)' % (what, how), [],
                                        dict(replay, real=dump(real)[:600], model=dump(mo[1])[:600] if isinstance(mo, list) and len(mo) > 1 else None), tie=True))
                        continue
                later = list(range(f + 1, len([o for o in donef]) + 1))
                ks2 = later if (tier == 'thorough' and len(later) <= 12) else sorted(set(rng.sample(later, min(len(later), 8 if tier == 'thorough' else 4)) + later[:2]))
                for k in ks2:
                    clean(); lk = os.path.join(work, 'klog')
                    if os.path.exists(lk): os.remove(lk)
                    rc, _ = run_one(exe, case([['run', calls], ['text']]), penv(lk, k, None, fail=f, short=short))
                    stats['kills_after_fault'] = stats.get('kills_after_fault', 0) + 1
                    done = parse_fslog(lk)
                    content = open(final, 'rb').read() if os.path.exists(final) else None
                    where = '%s, then killed at operation %d' % (what, k)
                    replay = {'spec': case([['run', calls], ['text']]), 'fail_at': f, 'kill_at': k, 'file': final}
                    if rc != -9:
                        out.append(viol('process was not killed: %s (exit %s)' % (where, rc), [], replay)); continue
                    exp = expected_after(done)
                    if content != exp:
                        desc = 'absent' if content is None else 'empty' if content == b'' else '%d bytes, a strict prefix of a checkpoint' % len(content) if any(x and x.startswith(content) for x in texts) else '%d bytes' % len(content)
                        out.append(viol('%s: the checkpoint file is %s - not the complete checkpoint of the last invocation that completed' % (where, desc), [], replay))
                        continue
                    if content is not None:
                        nres = texts.index(content) + 1
                        rc2, res = run_one(exe, case([['load', final.encode()], ['run', calls[nres:]], ['text']], keep=False, idx=sum(calls[:nres])), base_env)
                        stats['resumes'] += 1
                        t2 = [x for x in (res[1] if res else []) if isinstance(x, list) and x[0] == 'text']
                        if rc2 != 0 or not t2 or t2[0][1] != ref_final_text:
                            out.append(viol('%s: resuming from the file does not reproduce the final checkpoint of the uninterrupted run' % where, [], replay))
    finally:
        shutil.rmtree(work, ignore_errors=True)
    cov.setdefault('extra', {})['c18'] = {k: (v if not isinstance(v, list) else {'min': min(v) if v else 0, 'max': max(v) if v else 0, 'n': len(v)}) for k, v in stats.items()}
    return out + _concurrent_runs(rng, tier, st, cov)


# ---- standard engines (C++-only differential): C03, C05, C10 ----------------------------------------
def _engine_extra(pid):
    def f(rng, tier, st, cov):
        import tie
        out = []; total_ok = 0; seeds = [rng.getrandbits(30) for _ in range(2 if tier == 'quick' else 12)]
        for s in seeds:
            fails, ok = tie.run_engines(s)
            total_ok += ok
            for l in fails:
                parts = l.split(' ', 2)
                if len(parts) == 3 and parts[1] == pid:
                    out.append(viol('standard engines: ' + parts[2], [], {'engine_driver_seed': s}))
        cov.setdefault('extra', {})['standard_engine_checks'] = {'seeds': len(seeds), 'checks_passed_all_properties': total_ok,
            'engines': 'minstd_rand0 minstd_rand mt19937 mt19937_64 ranlux24_base ranlux48_base ranlux24 ranlux48 knuth_b + independent_bits_engine (7, 14, 25, 28, 50, 53 bits) + lcg m=2^64-59 + synthetic ranges 3, 1000, 65537', 'types': 'float double long double'}
        return out
    return f
# ---- the process environment as an input (C++-only differential): C03, C05, C20 --------------------------
def _locale_extra(pid):
    """the same cases under the classic environment and under a hostile one: LC_ALL / LANG naming a locale that is not installed, and a
    process-global C++ locale with a decimal comma.  The library reads what it writes with streams of the same locale, so every
    observation that does not print numbers as text (dumps are bit patterns) must be identical, files written by the built-in callback
    must load and resume to the same result, and texts must be identical up to the decimal point."""
    def f(rng, tier, st, cov):
        import tie, props, tempfile, shutil
        out = []; exe = st['cxx_exe']
        work = tempfile.mkdtemp(prefix='loc_', dir=tie.BUILD)
        stats = {'cases': 0, 'environments': ['classic', 'LC_ALL=xx_XX.UTF-8 + global C++ locale with decimal comma']}
        try:
            base = dict(os.environ); base['VERIF_TMP'] = work
            hostile = dict(base); hostile.update({'LC_ALL': 'xx_XX.UTF-8', 'LANG': 'xx_XX.UTF-8', 'VERIF_LOCALE': 'comma'})
            n = 0
            for t in ('d', 'f', 'l'):
                fmt = FMTS[t]
                for kind in ('plain', 'vegas', 'mc'):
                    for rep in range(1 if tier == 'quick' else 4):
                        n += 1
                        iters = rng.choice([2, 3]); mode = rng.choice([1, 3]) if pid != 'C20' else None
                        s0, cl, info = props.rand_run(rng, fmt, kind, iters=iters, calls=[3, 5, 8], cb=['builtin', mode if mode is not None else 0, fmt.rtok(0)], finite_only=True,
                                                      value_classes=['small_int', 'frac', 'neg', 'tiny', 'big'])
                        calls = info['calls']; k = rng.randint(1, iters - 1)
                        final = os.path.join(work, 'chk_%d.txt' % n)
                        def case(ops, m, keep=True):
                            s = [(['cb', ['builtin', m, e[1][2]]] if e[0] == 'cb' else e) for e in s0 if e[0] not in ('ops', 'cbref')]
                            s = s + ([['keepfile', final.encode()]] if keep else []) + [['ops', ops]]
                            return dump([1, t, 'run', s, []])
                        def run(line, env):
                            if os.path.exists(final): os.remove(final)
                            return run_one(exe, line, env)
                        def strip(o):
                            """observations without the items that print numbers as text (compared separately)"""
                            return [x for x in (o[1] if o else []) if not (isinstance(x, list) and x and x[0] == 'text')] if o else None
                        def norm_texts(o):
                            return [x[1].replace(b',', b'.') if isinstance(x[1], bytes) else x[1] for x in (o[1] if o else []) if isinstance(x, list) and x and x[0] == 'text']
                        modes = [mode] if mode is not None else [0, 1, 2, 3]
                        ref = None
                        for m in modes:
                            whole = case([['run', calls], ['dump'], ['text'], ['reload'], ['dump'], ['text']], m)
                            rc0, a0 = run(whole, base); rc1, a1 = run(whole, hostile)
                            stats['cases'] += 1
                            replay = {'spec': whole, 'env': {'LC_ALL': 'xx_XX.UTF-8', 'VERIF_LOCALE': 'comma'}}
                            if rc0 != 0 or a0 is None: continue
                            if rc1 != 0 or a1 is None or (isinstance(a1[1], list) and a1[1] and a1[1][0] in ('exception', 'crash')):
                                out.append(viol('callback mode %d: the run that works in the classic environment does not finish when LC_ALL names a locale that is not installed and the global C++ locale '
                                                'uses a decimal comma (exit %s): %s' % (m, rc1, dump(a1)[:200] if a1 else ''), [], replay)); continue
                            if strip(a0) != strip(a1) or norm_texts(a0) != norm_texts(a1):
                                what = 'the checkpoint cannot be read back' if any(isinstance(x, list) and x[:2] == ['reload', 'stream_failed'] for x in a1[1]) else 'results differ'
                                out.append(viol('callback mode %d: under a global C++ locale with a decimal comma %s (run, text, reload) while the classic environment is fine' % (m, what), [], replay)); continue
                            d = [x for x in a1[1] if isinstance(x, list) and x and x[0] == 'dump'][:1]
                            if ref is None: ref = d
                            elif d != ref:
                                out.append(viol('callback mode %d returns a different checkpoint than mode %d under the hostile environment' % (m, modes[0]), [], replay))
                            if m in (1, 3):
                                # the file the callback wrote, read back by the user with a stream of the same process, then resumed
                                part = case([['run', calls[:k]]], m)
                                rcp, _ = run(part, hostile)
                                if rcp == 0 and os.path.exists(final):
                                    shutil.copy(final, final + '.keep')
                                    resumed = case([['load', (final + '.keep').encode()], ['run', calls[k:]], ['dump']], 0, keep=False)
                                    # (table-driven integrands are indexed by the harness' call counter: continue it)
                                    resumed = resumed.replace('(ops ', '(idx #%x) (ops ' % sum(calls[:k]), 1)
                                    rcr, ar = run_one(exe, resumed, hostile)
                                    dr = [x for x in (ar[1] if ar else []) if isinstance(x, list) and x and x[0] == 'dump'][:1]
                                    if rcr != 0 or not dr or dr != d:
                                        bad = ar and any(isinstance(x, list) and x[:1] == ['load'] and x[1] in ('stream_failed', 'no_file') for x in ar[1])
                                        out.append(viol('callback mode %d under a global C++ locale with a decimal comma: the file written by the built-in callback after %d of %d iterations %s' %
                                                        (m, k, iters, 'cannot be read back by a stream of the same process' if bad else 'does not resume to the result of the uninterrupted run'),
                                                        [], dict(replay, resumed=resumed)))
        finally:
            shutil.rmtree(work, ignore_errors=True)
        cov.setdefault('extra', {})['environment'] = stats
        return out
    return f

def _concurrent_runs(rng, tier, st, cov):
    """C++ only: the same case run alone and then by four threads at once, every thread with its own objects and its own checkpoint
    file; through the ordinary build (observations must be those of the run alone) and through a ThreadSanitizer build (state the
    library shares between the runs behind the user's back is a data race)"""
    import tie, props
    out = []; n = 0
    try:
        ts = tie.cxx_build('-g -fsanitize=thread', 'tsan')
    except tie.Stage as e:
        ts = None
    env_ts = dict(os.environ); env_ts['TSAN_OPTIONS'] = 'halt_on_error=1 exitcode=66'
    for t in ('d', 'f', 'l'):
        fmt = FMTS[t]
        for kind in ('mc', 'vegas', 'plain'):
            for _ in range(1 if tier == 'quick' else 4):
                s, cl, info = props.rand_run(rng, fmt, kind, iters=rng.choice([3, 5]), calls=[20, 60], cb=['builtin', 3, fmt.rtok(0)], poly=True, finite_only=True)
                s = [e for e in s if e[0] not in ('cbref', 'reuse', 'nest', 'coutfmt', 'keepfile')]
                s.insert(len(s) - 1, ['threads', 4])
                line = dump([1, t, 'concurrent', s, []])
                for exe, env, what in ((st['cxx_exe'], None, None), (ts, env_ts, 'ThreadSanitizer build')):
                    if exe is None: continue
                    try:
                        p = subprocess.run([exe], input=line + '\n', stdout=subprocess.PIPE, stderr=subprocess.PIPE, universal_newlines=True, timeout=300, env=env)
                    except subprocess.TimeoutExpired:
                        out.append(viol('four %s integrations at once in different threads did not finish' % kind, [], {'spec': line})); continue
                    n += 1
                    ol = [l for l in p.stdout.split('\n') if l.startswith('(')]
                    o = parse(ol[0]) if ol else None
                    if p.returncode != 0 or not o or not isinstance(o[1], list) or o[1][:1] != ['concurrent']:
                        out.append(viol('four %s integrations at once in different threads of one process (verbose callback writing checkpoints): %s' % (
                            kind, ('the %s reports: %s' % (what, p.stderr[-300:])) if what else ('the process ended with status %s %s' % (p.returncode, (dump(o[1])[:200] if o else p.stderr[-200:])))), [], {'spec': line}))
                    elif o[1][2] != 0:
                        out.append(viol('four %s integrations at once in different threads of one process: %d of them observed something else than the same run alone (callback answers, files written, final checkpoint)%s' % (
                            kind, o[1][2], ' - ' + o[1][3].decode(errors='replace')[:100] if len(o[1]) > 3 and isinstance(o[1][3], bytes) else ''), [], {'spec': line}))
    cov.setdefault('extra', {})['concurrent_runs'] = {'runs': n, 'threads': 4}
    return out

def extra_C12(rng, tier, st, cov):
    """C++ only, self-checking: one built-in callback object asked about a checkpoint with n results and then about another one, with
    another history, that holds n + 1; and the user-driven loops / checkpoint-changing callbacks of C19 (the protocol is C12's too)"""
    out = []; n = 0
    for t in ('d', 'f', 'l'):
        for _ in range(3 if tier == 'quick' else 12):
            line = dump([1, t, 'cbreuse', [rng.choice([1, 2, 3, 5]), rng.choice([40, 100]), rng.getrandbits(30)], []])
            rc, o = run_one(st['cxx_exe'], line)
            n += 1
            if rc != 0 or not o or not isinstance(o[1], list) or o[1][0] != 'ok':
                out.append(viol('one built-in callback object asked about a checkpoint with n results and then about a different one with n + 1: its answer differs from a fresh callback\'s for %s of %s targets' % (
                    (o[1][2], o[1][1]) if o and isinstance(o[1], list) and len(o[1]) > 2 else ('?', '?')), [], {'spec': line}))
    cov.setdefault('extra', {})['callback_object_reused_directly'] = {'runs': n}
    return out + extra_C19(rng, tier, st, cov)

def extra_C08(rng, tier, st, cov):
    return extra_C19(rng, tier, st, cov)

def extra_C19(rng, tier, st, cov):
    """C++ only, self-checking: VEGAS driven by the user's own loop (pdf(), vegas_iteration, add(), rollback(), an iteration repeated with
    other calls) and hep::vegas with a callback that takes the checkpoint by reference and discards an iteration"""
    out = []; n = 0
    for t in ('d', 'f', 'l'):
        for variant in ('loop', 'callback', 'mcloop', 'mccallback'):
            for _ in range(2 if tier == 'quick' else 8):
                line = dump([1, t, 'userloop', [variant, rng.choice([10, 20, 45]), rng.getrandbits(30)], []])
                rc, o = run_one(st['cxx_exe'], line)
                n += 1
                if rc != 0 or not o or not isinstance(o[1], list) or o[1][0] != 'ok':
                    msgs = [x.decode(errors='replace') for x in (o[1][2:] if o and isinstance(o[1], list) else []) if isinstance(x, bytes)]
                    out.append(viol('%s %s: %s' % ('multi-channel' if variant.startswith('mc') else 'VEGAS', 'driven by the user\'s own loop (state accessor, *_iteration, add, rollback, repeat)' if variant.endswith('loop') else 'with a callback that discards an iteration through its checkpoint reference',
                                                      '; '.join(msgs) or 'the run failed (%s)' % rc), [], {'spec': line}))
    cov.setdefault('extra', {})['user_driven_loops'] = {'runs': n}
    return out

def extra_C03(rng, tier, st, cov):
    return _engine_extra('C03')(rng, tier, st, cov) + _locale_extra('C03')(rng, tier, st, cov)
def extra_C05(rng, tier, st, cov):
    return _engine_extra('C05')(rng, tier, st, cov) + _locale_extra('C05')(rng, tier, st, cov)
def _mpi_callback_reuse(rng, tier, st, cov):
    """C++ only (shim): one mpi_callback object asked on two communicators in which the process has different ranks"""
    out = []
    for t in ('d', 'f', 'l'):
        line = dump([1, t, 'mpicbreuse', [rng.choice([1, 2, 5])], []])
        rc, o = run_one(st['cxx_exe'], line, dict(os.environ, VERIF_TMP=os.path.join(__import__('tie').BUILD, 'tmp')))
        if rc != 0 or not o or not isinstance(o[1], list) or o[1][0] != 'ok':
            out.append(viol('one mpi_callback object used on two communicators: as rank 0 of its group it wrote the checkpoint %s time(s), as a non-root rank of the world %s time(s) (expected 1 and 0)' % (
                (o[1][1], o[1][2]) if o and isinstance(o[1], list) and len(o[1]) > 2 else ('?', '?')), [], {'spec': line}))
    cov.setdefault('extra', {})['mpi_callback_object_reused'] = {'runs': 3}
    return out

def extra_C20(rng, tier, st, cov):
    return _locale_extra('C20')(rng, tier, st, cov) + _concurrent_runs(rng, tier, st, cov) + _mpi_callback_reuse(rng, tier, st, cov)
def _iteration_api(rng, tier, st, cov):
    """C++ only: plain_iteration / vegas_iteration / multi_channel_iteration called directly with the caller's generator: while call k is
    evaluated, and after an exception thrown in call k, the generator has advanced by exactly (k+1) x d (d+1) canonical numbers"""
    out = []; n = 0
    for t in ('d', 'f', 'l'):
        for kind in ('plain', 'vegas', 'mc'):
            for _ in range(2 if tier == 'quick' else 10):
                dims = rng.choice([1, 2, 3]); calls = rng.choice([1, 6, 40, 2000]); throw_at = rng.choice([0, 0, 1, min(calls, 6), calls])
                line = dump([1, t, 'iterdirect', [kind, dims, calls, throw_at], []])
                rc, o = run_one(st['cxx_exe'], line)
                n += 1
                if rc != 0 or not o or not isinstance(o[1], list) or o[1][0] != 'ok':
                    got = o[1] if o else None
                    out.append(viol('%s_iteration called directly (%d dimensions, %d calls%s): the caller\'s generator %s' % (
                        {'plain': 'plain', 'vegas': 'vegas', 'mc': 'multi_channel'}[kind], dims, calls, ', exception in call %d' % throw_at if throw_at else '',
                        ('is at position %s after %s calls, expected %s; first calls that saw it elsewhere: %s' % (got[2], got[1], got[3], got[4:])) if isinstance(got, list) and len(got) >= 4 else 'could not be observed (%s)' % (dump(got)[:100] if got else rc)),
                        [], {'spec': line}))
    cov.setdefault('extra', {})['iteration_functions_called_directly'] = {'runs': n}
    return out

def extra_C16(rng, tier, st, cov):
    # the real MPI drivers (with an iteration above 2^32 calls) when the translated share expressions no longer match the headers, and in the thorough tier
    if tier == 'thorough' or not st.get('translator', (True,))[0]:
        return extra_C04(rng, tier, st, cov, pid='C16')
    return []

def extra_C10(rng, tier, st, cov):
    # the serial library with counting engines, and the MPI drivers under real MPI (stored generator = serial one) with engines that are
    # instantiations of the standard templates themselves
    return _engine_extra('C10')(rng, tier, st, cov) + extra_C04(rng, tier, st, cov, pid='C10') + _iteration_api(rng, tier, st, cov)

# ---- counters narrower than the model's (C02, C06): directed search ------------------------------------
def _width_extra(pid):
    def f(rng, tier, st, cov):
        import tie, re as _re
        try:
            text = open(os.path.join(tie.COQ, 'Translated.v')).read()
        except OSError:
            return []
        m = _re.search(r'Definition counter_widths.*?:=\s*\[(.*?)\]\.', text, flags=_re.S)
        rows = _re.findall(r'\("([^"]*)"%string, (\d+)\)', m.group(1)) if m else []
        narrow = [(n, int(w)) for n, w in rows if int(w) < 64]
        cov.setdefault('extra', {})['counter_widths'] = {'declarations': len(rows), 'narrower_than_64_bits': ['%s: %d' % x for x in narrow]}
        if not narrow and tier != 'thorough':
            return []
        # thorough tier: one PLAIN and one VEGAS iteration with 2^31 + 1000 calls even when every counter is wide (arguments that pass
        # through a 32-bit type anywhere would be truncated)
        bits = min([w for _, w in narrow if w > 0] or [24]) if narrow else 31
        out_dir = os.path.join(tie.BUILD, 'tmp'); os.makedirs(out_dir, exist_ok=True)
        exe = os.path.join(out_dir, 'bigcount_%d' % os.getpid())
        rc, log_ = tie.sh(['g++', '-std=c++11', '-O2', '-I%s/include' % tie.REPO, os.path.join(tie.VERIF, 'harness', 'cxx', 'bigcount.cpp'), '-o', exe], timeout=600)
        if rc != 0:
            return [viol('the search for a count that a narrowed counter loses could not be built: ' + log_[-300:], [], tie=True)]
        try:
            p = subprocess.run(['timeout', '1500', exe, str(bits)] + ([] if narrow else ['args']), stdout=subprocess.PIPE, stderr=subprocess.PIPE, universal_newlines=True)
        finally:
            if os.path.exists(exe): os.remove(exe)
        out = []
        for l in p.stdout.split('\n'):
            if l.startswith('FAIL '):
                out.append(viol(('%s is declared with %d bits: %s' % (', '.join(n for n, w in narrow if w == bits), bits, l[5:])) if narrow else l[5:], [], {'bigcount_bits': bits}))
        cov['extra']['counter_widths']['search'] = p.stdout.strip()[-300:]
        return out
    return f
def extra_C02(rng, tier, st, cov):
    return _width_extra('C02')(rng, tier, st, cov) + extra_C04(rng, tier, st, cov, pid='C02')
def _fenv_twins(rng, tier, st, cov):
    """the floating-point environment as an output (C++ only): a run whose integrand returns quiet NaN / infinities must leave the
    same exception flags raised as its twin that returns zero at those points (a user who traps FE_INVALID must not be killed by
    the library looking at a non-finite value)"""
    import props
    out = []; exe = st['cxx_exe']; n = 0
    for t in ('d', 'f', 'l'):
        fmt = FMTS[t]
        for kind in ('plain', 'vegas', 'mc'):
            for _ in range(2 if tier == 'quick' else 8):
                s, cl, info = props.rand_run(rng, fmt, kind, poly=False, iters=2, calls=[5, 8], value_classes=['small_int', 'frac', 'nan', 'inf', 'ninf', 'zero'], cb=['script', []])
                twin = zeroed_twin(s, fmt)
                if twin is None: continue
                res = []
                for spec in (s, twin):
                    spec = [e for e in spec if e[0] != 'fenv']; spec.insert(len(spec) - 1, ['fenv', 1])
                    rc, o = run_one(exe, dump([1, t, 'run', spec, []]))
                    import re as _re
                    res.append(_re.findall(r'\(fenv #([0-9a-f]+) #([0-9a-f]+)\)', dump(o[1])) if o else None)
                n += 1
                if res[0] is not None and res[1] is not None and res[0] != res[1]:
                    out.append(viol('a run with non-finite integrand values leaves other floating-point exception flags raised (invalid, divide-by-zero per run: %s) than its twin with zeros at those points (%s)' % (res[0], res[1]),
                                    [[1, t, 'run', s]]))
    cov.setdefault('extra', {})['fenv_twins'] = {'pairs': n}
    return out

def extra_C06(rng, tier, st, cov):
    return _width_extra('C06')(rng, tier, st, cov) + extra_C04(rng, tier, st, cov, pid='C06') + _fenv_twins(rng, tier, st, cov)

# ---- group oracles on run observations (exact) -------------------------------------------------------
def texts_of(out):
    return [x[1] for x in find_items(out, 'text')]

def dumps_of(out):
    return [x[1] for x in find_items(out, 'dump')]

def oracle_C03(results, metas, st):
    """every way of interrupting a run yields the same final text"""
    out = []; groups = {}
    for r, m in zip(results, metas):
        if 'resume_group' in m:
            groups.setdefault(m['resume_group'], []).append(r)
    for g, rs in groups.items():
        finals = [(r, texts_of(r['cxx'])[-1:] ) for r in rs]
        base = next((t for r, t in finals if t and not any(op[0] == 'reload' for e in r['case'][3] if e[0] == 'ops' for op in e[1])), None)
        if base is None:
            continue
        for r, t in finals:
            runs = find_items(r['cxx'], 'run')
            # a segment other than the last one that was ended by the callback: the "interruption" lies after the stop of the
            # uninterrupted run, where the property says nothing (continuing would add iterations the original run never made)
            if any(run[1][1:] and run[1][-1][1] == 0 for run in runs[:-1]):
                continue
            if t != base:
                ops = [e[1] for e in r['case'][3] if e[0] == 'ops'][0]
                what = 'reading the checkpoint back failed' if any(x[:2] == ['reload', 'stream_failed'] for x in r['cxx'] if isinstance(x, list)) else 'the final checkpoint text differs from the uninterrupted run'
                out.append(viol('run interrupted and resumed from text (operations %s): %s' % (dump(ops)[:200], what), [r['case'], rs[0]['case']])); break
    return out

def oracle_C05(results, metas, st):
    """dump / text before and after a reload are identical"""
    out = []
    for r in results:
        cx = r['cxx']
        if not isinstance(cx, list):
            continue
        if any(isinstance(x, list) and x[:2] == ['reload', 'stream_failed'] for x in cx):
            texts = [x[1] for x in cx if isinstance(x, list) and x and x[0] == 'text' and isinstance(x[1], bytes)]
            # the property speaks about checkpoints whose numeric fields are finite (sums that overflowed print as inf / nan)
            if not any(b'inf' in t_ or b'nan' in t_ for t_ in texts):
                out.append(viol('a checkpoint written to text could not be read back (stream failed)', [r['case']]))
            continue
        seq = [x for x in cx if isinstance(x, list) and x and x[0] in ('dump', 'text', 'reload')]
        for i, x in enumerate(seq):
            if x[0] == 'reload' and x[1] == 'ok':
                before_d = [y for y in seq[:i] if y[0] == 'dump'][-1:]; after_d = [y for y in seq[i:] if y[0] == 'dump'][:1]
                before_t = [y for y in seq[:i] if y[0] == 'text'][-1:]; after_t = [y for y in seq[i:] if y[0] == 'text'][:1]
                if before_d and after_d and before_d[0] != after_d[0]:
                    d = textcmp_diff(before_d[0], after_d[0])
                    out.append(viol('checkpoint differs after a text round trip: %s' % d, [r['case']])); break
                if before_t and after_t and before_t[0] != after_t[0]:
                    out.append(viol('checkpoint text differs after a text round trip', [r['case']])); break
    return out

def textcmp_diff(a, b, path=''):
    if isinstance(a, list) and isinstance(b, list):
        if len(a) != len(b): return '%s: length %d vs %d' % (path, len(a), len(b))
        for k, (x, y) in enumerate(zip(a, b)):
            d = textcmp_diff(x, y, '%s/%d' % (path, k))
            if d: return d
        return ''
    return '' if a == b else '%s: %r vs %r' % (path, a, b)

def strip_nz(d):
    """a dump with the non-zero counters of the main results removed"""
    import copy
    d = copy.deepcopy(d)
    for r in d[1]:
        r[0][1] = 'nz'
        # a bin counts fills: the zeroed twin fills a zero where the poisoned run fills nothing
        for dist in r[1]:
            for b in dist[1]:
                b[1] = 'nz'; b[2] = 'fin'
    return d

def oracle_C06(results, metas, st):
    out = []
    by_id = {r['case'][0]: r for r in results}
    for r, m in zip(results, metas):
        if 'twin_of' not in m:
            continue
        p = by_id.get(m['twin_of'])
        if p is None: continue
        dz, dp = dumps_of(r['cxx']), dumps_of(p['cxx'])
        if not dz or not dp: continue
        if strip_nz(dz[-1]) != strip_nz(dp[-1]):
            out.append(viol('run with non-finite evaluations differs from its zeroed twin beyond the non-zero counters: %s' % textcmp_diff(strip_nz(dp[-1]), strip_nz(dz[-1])), [p['case'], r['case']]))
    for r, m in zip(results, metas):
        for d in dumps_of(r['cxx']) if isinstance(r['cxx'], list) else []:
            for res in chk_results(d):
                vals = [res['main'][3], res['main'][4]] + [b[k] for (par, bins) in res['dists'] for b in bins for k in (3, 4)]
                if any(v in ('%nan',) for v in vals):
                    out.append(viol('a reported sum is NaN', [r['case']])); break
    return out

def oracle_C10(results, metas, st):
    out = []
    for r, m in zip(results, metas):
        info = m.get('info')
        if not info or not isinstance(r['cxx'], list): continue
        ds = dumps_of(r['cxx'])
        if not ds: continue
        gens = chk_gens(ds[-1])
        per = info['dims'] + (1 if info['kind'] == 'mc' else 0)
        cbs = [x for run in find_items(r['cxx'], 'run') for x in run[1][1:]]
        for k in range(1, len(gens)):
            if k - 1 < len(info['calls']) and gens[k] - gens[k - 1] != info['calls'][k - 1] * per:
                out.append(viol('iteration %d with %d calls advanced the generator by %d numbers instead of %d' % (k - 1, info['calls'][k - 1], gens[k] - gens[k - 1], info['calls'][k - 1] * per), [r['case']])); break
    return out

def oracle_C12(results, metas, st):
    out = []
    for r, m in zip(results, metas):
        if not isinstance(r['cxx'], list): continue
        spec = r['case'][3]
        cb = [e[1] for e in spec if e[0] == 'cb'][0]
        ops = [e[1] for e in spec if e[0] == 'ops'][0]
        run_items = find_items(r['cxx'], 'run'); run_ops = [o for o in ops if o[0] == 'run']
        n_before = 0
        # the number of results the checkpoint holds when each run starts (a rollback that is accepted shortens it)
        starts = []; n_now = 0; ri = 0
        for op in ops:
            if op[0] == 'run':
                starts.append(n_now)
                if ri < len(run_items): n_now += len(run_items[ri][1][1:])
                ri += 1
            elif op[0] == 'rollback' and op[1] <= n_now:
                n_now = op[1]
        for item, op, n_before in zip(run_items, run_ops, starts):
            cbs = item[1][1:]
            want = len(op[1])
            ns = [c[0] for c in cbs]; gos = [c[1] for c in cbs]
            if ns != list(range(n_before + 1, n_before + 1 + len(ns))):
                out.append(viol('callback saw checkpoints with %s results; expected consecutive sizes from %d' % (ns, n_before + 1), [r['case']])); break
            if 0 in gos[:-1]:
                out.append(viol('an iteration was performed after the callback returned false', [r['case']])); break
            if len(cbs) < want and (not gos or gos[-1] != 0):
                out.append(viol('only %d of %d requested iterations were performed although the callback never returned false' % (len(cbs), want), [r['case']])); break
            if len(cbs) > want:
                out.append(viol('%d callback invocations for %d requested iterations' % (len(cbs), want), [r['case']])); break
            if cb[0] == 'script':
                exp = [cb[1][n - 1] if n - 1 < len(cb[1]) else 1 for n in ns]
                if gos != exp:
                    out.append(viol('callback answers %s were not honoured (observed %s)' % (exp, gos), [r['case']])); break
            elif parse_tok(cb[2]) == 0 and 0 in gos:
                out.append(viol('built-in callback without a target ended the run after %d iterations' % len(cbs), [r['case']])); break
            elif cb[0] == 'builtin' and isnum(parse_tok(cb[2])) and parse_tok(cb[2]) > 0 and len(run_items) == 1 and dumps_of(r['cxx']):
                # positive target: the run ends at the first iteration whose variance-weighted combination reaches it, not before
                target = parse_tok(cb[2]); fmt = FMTS[r['case'][1]]
                mains = [x['main'] for x in chk_results(dumps_of(r['cxx'])[-1])]
                bad = None
                for i, go in enumerate(gos):
                    live = [x for x in mains[:i + 1] if x[2] != 0]
                    moms = [c13_moments(fmt, x) for x in live]
                    if any(mo is None for mo in moms):
                        # a result with zero (or, in the format, unresolvable) variance: the combination is not a number the target can be compared with
                        if all(isnum(parse_tok(x[3])) and parse_tok(x[3]) == 0 and isnum(parse_tok(x[4])) and parse_tok(x[4]) == 0 for x in mains[:i + 1]) and go == 0:
                            bad = 'iteration %d: every sampled value is zero (relative error 0/0) but the run was ended as if the target %s had been reached' % (i, fstr(target))
                        break
                    if not live:
                        if go == 0: bad = 'iteration %d: no finite non-zero evaluation so far, but the run was ended as if the target had been reached' % i
                        break
                    if max(mo[2] for mo in moms) * fmt.u * 1024 > Fraction(1, 1000): break
                    sv = sum(1 / mo[1] for mo in moms); E = sum(mo[0] / mo[1] for mo in moms) / sv; V = 1 / sv
                    if E == 0: break
                    ratio2 = V / (E * E); t2 = target * target
                    if go == 0 and ratio2 > t2 * Fraction(1001, 1000) ** 2:
                        bad = 'iteration %d: the run was ended although the combined relative error %.6g is above the target %s' % (i, float(ratio2) ** 0.5, fstr(target)); break
                    if go == 1 and ratio2 < t2 * Fraction(999, 1000) ** 2:
                        bad = 'iteration %d: the combined relative error %.6g has reached the target %s but the run went on' % (i, float(ratio2) ** 0.5, fstr(target)); break
                if bad:
                    out.append(viol(bad, [r['case']])); break
    return out

def oracle_C15(results, metas, st):
    out = []
    trunc = {}
    for r, m in zip(results, metas):
        if 'truncated_of' in m:
            trunc[(m['truncated_of'], m['k'])] = r
    for r, m in zip(results, metas):
        if 'rollback_group' not in m or not isinstance(r['cxx'], list): continue
        k, n = m['k'], m['n']
        rb = [x for x in r['cxx'] if isinstance(x, list) and x and x[0] == 'rollback']
        if not rb: continue
        if k > n:
            if rb[0][1] != 'throw':
                out.append(viol('rollback(%d) of a checkpoint with %d results was not rejected' % (k, n), [r['case']]))
            continue
        if rb[0][1] != 'ok':
            out.append(viol('rollback(%d) of a checkpoint with %d results was rejected' % (k, n), [r['case']])); continue
        t = trunc.get((m['rollback_group'], k))
        if t is None: continue
        tt, rt = texts_of(t['cxx']), texts_of(r['cxx'])
        if len(tt) >= 2 and len(rt) >= 2:
            if rt[0] != tt[0]:
                out.append(viol('checkpoint rolled back to iteration %d of %d serialises differently from the run that performed only %d iterations' % (k, n, k), [r['case'], t['case']]))
            elif rt[1] != tt[1] and not any(e[0] == 'tables' or (e[0] == 'f' and e[1][0] == 'tab') or (e[0] == 'map' and e[1][0] == 'tab') for e in r['case'][3]):
                # (table-driven integrands / maps are indexed by the harness' own call counter, which a rollback does not rewind)
                out.append(viol('resuming after rollback(%d) does not reproduce the remaining iterations of the original run' % k, [r['case'], t['case']]))
    return out

def oracle_C17(results, metas, st):
    out = []
    for r, m in zip(results, metas):
        if not isinstance(r['cxx'], list): continue
        txt = dump(r['cxx'])
        if '(integrand_object_not_invoked ' in txt:
            out.append(viol('the function object stored in the integrand the user handed over was not the one invoked (its own call counter disagrees with the calls made)', [r['case']])); continue
        if '(map_object_not_invoked ' in txt:
            out.append(viol('the channel map object stored in the integrand the user handed over was not the one invoked (its own call counter disagrees with the calls made)', [r['case']])); continue
        info = m.get('info', {})
        fmt = FMTS[r['case'][1]]
        for item in find_items(r['cxx'], 'run'):
            ev = find_items(item, 'events')
            if not ev: continue
            evs = ev[0][1:]
            if any(e[0] == 'buffer_violation' for e in evs):
                out.append(viol('the coordinate / density buffers handed to the map for densities are not the untouched ones of the coordinate call', [r['case']])); break
            i = 0; bad = None
            while i < len(evs) and not bad:
                e = evs[i]
                if info.get('kind') == 'mc':
                    if e[0] != 'mc': bad = 'call does not start with the map asked for coordinates (found %s)' % e[0]; break
                    ch, us, en = e[1], e[2], e[3]
                    if ch not in en: bad = 'map asked for coordinates of channel %d which is not in the enabled list %s' % (ch, en); break
                    if i + 1 >= len(evs) or evs[i + 1][0] != 'f': bad = 'integrand not invoked after the coordinate call'; break
                    f = evs[i + 1]
                    if f[2] != us: bad = 'integrand saw random numbers different from those handed to the map'; break
                    for u in us:
                        v = parse_tok(u)
                        if not isnum(v) or not (0 <= v < 1): bad = 'random number %s handed to the map is not in [0,1)' % u
                    j = i + 2
                    while j < len(evs) and evs[j][0] == 'md':
                        if evs[j][1] != ch or evs[j][2] != us or evs[j][4] != en: bad = 'density call with different channel / numbers / enabled list than the coordinate call'
                        j += 1
                    i = j
                else:
                    if e[0] != 'f': bad = 'unexpected event %s' % e[0]; break
                    for u in e[2]:
                        v = parse_tok(u)
                        hi_ok = (v <= 1) if info.get('kind') == 'vegas' else (v < 1)
                        if not isnum(v) or v < 0 or not hi_ok: bad = 'coordinate %s outside the unit interval' % u
                    i += 1
            if bad:
                out.append(viol(bad, [r['case']])); break
            ncalls = sum(1 for e in evs if e[0] == 'f')
            performed = len(item[1]) - 1
            ops = [e[1] for e in r['case'][3] if e[0] == 'ops'][0]
    return out

def oracle_C20(results, metas, st):
    out = []; groups = {}
    for r, m in zip(results, metas):
        if 'mode_group' in m:
            groups.setdefault(m['mode_group'], []).append(r)
    for g, rs in groups.items():
        ds = [dumps_of(r['cxx'])[-1:] if isinstance(r['cxx'], list) else None for r in rs]
        for r, d in zip(rs[1:], ds[1:]):
            if d != ds[0]:
                out.append(viol('the run returns a different checkpoint under another callback mode: %s' % textcmp_diff(ds[0], d), [rs[0]['case'], r['case']])); break
    for r in results:
        cx = r['cxx']
        if isinstance(cx, list) and cx and cx[0] in ('exception', 'crash'):
            out.append(viol('the run did not terminate normally: %s' % dump(cx)[:200], [r['case']]))
    return out

def oracle_C19(results, metas, st):
    """result k+1's state = refine(result k) recomputed with the real routine"""
    import tie
    out = []
    exe = st.get('cxx_exe') if isinstance(st, dict) else None
    if not exe: return out
    jobs = []
    for r, m in zip(results, metas):
        if not isinstance(r['cxx'], list): continue
        t = r['case'][1]; fmt = FMTS[t]
        for d in dumps_of(r['cxx'])[-1:]:
            rs = chk_results(d)
            for k in range(len(rs) - 1):
                if d[0] == 'vegas':
                    pdf, adj = rs[k]['extra'][0], rs[k]['extra'][1]
                    jobs.append((r, k, ['refine_pdf', [pdf[0], pdf[1], pdf[2], d[3], adj]], rs[k + 1]['extra'][0][2]))
                elif d[0] == 'mc':
                    adj, ws = rs[k]['extra'][0], rs[k]['extra'][1]
                    jobs.append((r, k, ['refine_w', [ws, adj, d[4], d[3]]], rs[k + 1]['extra'][1]))
    if not jobs: return out
    lines = [dump([i + 1, j[0]['case'][1], j[2][0], j[2][1], []]) for i, j in enumerate(jobs)]
    outs = tie.run_driver(exe, lines)
    for j, o in zip(jobs, outs):
        po = parse(o)
        got = po[1]
        if isinstance(got, list) and got and got[0] == 'ok' and got[1] != j[3]:
            out.append(viol('iteration %d did not sample with the refinement of the state and adjustment data recorded in result %d' % (j[1] + 1, j[1]), [j[0]['case']])); 
    return out


# ---- C01: lattice-driven runs integrate multi-affine integrands exactly (to rounding) -----------------
def oracle_C01(results, metas, st):
    out = []
    for r, m in zip(results, metas):
        lat = m.get('lattice')
        if not lat or not isinstance(r['cxx'], list): continue
        if lat['kind'] == 'mc' and not lat.get('exact'): continue      # unaligned channel grids: the lattice rule is not exact
        fmt = FMTS[r['case'][1]]
        spec = r['case'][3]
        f = [e[1] for e in spec if e[0] == 'f'][0]
        if f[0] != 'poly': continue
        ds = dumps_of(r['cxx'])
        if not ds: continue
        rs = chk_results(ds[-1])
        k = lat.get('result', 0)
        if k >= len(rs): continue
        calls, nz, fin, sm, ss = rs[k]['main']
        sm = parse_tok(sm)
        if not isnum(sm) or calls != lat['n']: 
            if calls != lat['n']:
                out.append(viol('lattice iteration reports %d calls instead of %d' % (calls, lat['n']), [r['case']]))
            continue
        exact = Fraction(1); mag = Fraction(1)
        for a, b in f[1]:
            a, b = parse_tok(a), parse_tok(b)
            exact *= a + b / 2; mag *= abs(a) + abs(b)
        value = sm / calls
        tol = mag * Fraction(1, 2 ** (fmt.prec // 2 - 2))
        if abs(value - exact) > tol:
            out.append(viol('%s driven by a complete midpoint lattice integrates the multi-affine integrand to %.9g instead of %.9g' %
                            ({'plain': 'PLAIN', 'vegas': 'VEGAS', 'mc': 'multi-channel'}[lat['kind']], float(value), float(exact)), [r['case']]))
    for r in results:
        c = r['case']; cx = r['cxx']
        if c[2] == 'mcweight' and isinstance(cx, list) and cx and cx[0] == 'ok':
            fmt = FMTS[c[1]]
            j = parse_tok(c[3][0]); ws = [parse_tok(x) for x in c[3][1]]; dens = [parse_tok(x) for x in c[3][2]]
            den = sum(w * d for w, d in zip(ws, dens)); w = parse_tok(cx[1])
            if den != 0 and isnum(w) and abs(w - j / den) > (2 * len(ws) + 4) * fmt.u * abs(j / den):
                out.append(viol('channel weight %s is not jacobian / sum(alpha_j x density_j) = %s' % (fstr(w), fstr(j / den)), [c]))
    return out


# ---- C02: recompute every iteration result from the values the integrand returned ----------------------
def emu_poly(fmt, ab, xs):
    acc = Fraction(1)
    for (a, b), x in zip(ab, xs):
        t = fmt.round(b * x)
        if not isnum(t): return None
        t = fmt.round(a + t)
        if not isnum(t): return None
        acc = fmt.round(acc * t)
        if not isnum(acc): return None
    return acc

def oracle_C02(results, metas, st):
    out = []
    for r, m in zip(results, metas):
        cx = r['cxx']
        if not isinstance(cx, list) or r['case'][2] != 'run': continue
        spec = r['case'][3]; fmt = FMTS[r['case'][1]]
        get = lambda k, d=None: next((e[1] for e in spec if isinstance(e, list) and e and e[0] == k), d)
        if not get('trace'): continue
        kind = get('kind'); f = get('f'); ops = get('ops')
        if any(op[0] not in ('run', 'mpi', 'dump') for op in ops): continue
        is_mpi = any(op[0] == 'mpi' for op in ops)
        if kind == 'mc' and not get('wants'): continue            # the weight is visible to the integrand only on request
        items = find_items(cx, 'mpi' if is_mpi else 'run')
        ds = dumps_of(cx)
        if not items or not ds: continue
        rs = chk_results(ds[-1])
        # events of all ranks (MPI) or of the run, split by iteration through the call counts
        calls_list = [c for op in ops if op[0] in ('run', 'mpi') for c in op[1]]
        if is_mpi:
            P = [op for op in ops if op[0] == 'mpi'][0][2]
            ranks = find_items(items[0], 'rank')
            streams = [[e for e in (find_items(rk, 'events') or [['events']])[0][1:] if e[0] == 'f'] for rk in ranks]
        else:
            P = 1
            streams = [[e for it in items for e in (find_items(it, 'events') or [['events']])[0][1:] if e[0] == 'f']]
        pos = [0] * P
        tabs = f[1] if f[0] == 'tab' else None
        for k, res in enumerate(rs):
            if k >= len(calls_list): break
            N = calls_list[k]
            evs = []
            for rr in range(P):
                sub = N // P + (1 if rr < N % P else 0)
                evs += streams[rr][pos[rr]:pos[rr] + sub]; pos[rr] += sub
            calls, nz, fin, sm, ss = res['main']
            if calls != N:
                out.append(viol('iteration %d asked for %d calls reports calls = %d' % (k, N, calls), [r['case']])); break
            if len(evs) != N:
                out.append(viol('iteration %d asked for %d calls evaluated the integrand %d times' % (k, N, len(evs)), [r['case']])); break
            vals = []
            ok = True
            for e in evs:
                idx = e[1]; pt = [parse_tok(x) for x in (e[3] if kind == 'mc' else e[2])]
                if len(e) < 7: ok = False; break
                w = parse_tok(e[6])
                if f[0] == 'tab': v = parse_tok(tabs[idx % len(tabs)])
                else:
                    if not all(isnum(x) for x in pt): ok = False; break
                    v = emu_poly(fmt, [(parse_tok(a), parse_tok(b)) for a, b in f[1]], pt)
                    if v is None: ok = False; break
                vals.append((v, w, e))
            if not ok: break
            def prod(v, w):
                if not isnum(v) or not isnum(w):
                    if v == '-0' or w == '-0': return Fraction(0)
                    return 'nonfinite'
                p = fmt.round(v * w)
                return p if isnum(p) else 'nonfinite'
            nonzero = [(v, w) for v, w, e in vals if not (isnum(v) and v == 0) and v != '-0']
            prods = [prod(v, w) for v, w in nonzero]
            want_nz = len(nonzero); kept = [p for p in prods if p != 'nonfinite']
            if nz != want_nz or fin != len(kept):
                out.append(viol('iteration %d: non_zero_calls = %d, finite_calls = %d; the sampled values have %d non-zero and %d finite non-zero evaluations' %
                                (k, nz, fin, want_nz, len(kept)), [r['case']])); break
            sm, ss = parse_tok(sm), parse_tok(ss)
            exact = sum(kept, Fraction(0)); mag = sum((abs(p) for p in kept), Fraction(0)); exact2 = sum((p * p for p in kept), Fraction(0))
            if isnum(sm) and abs(sm - exact) > (8 + 2 * P) * fmt.u * mag + 20 * len(kept) * fmt.u ** 2 * mag + Fraction(2) ** (fmt.emin + 6) * (len(kept) + 1):
                out.append(viol('iteration %d: sum = %s but the finite non-zero values f*w add up to %s' % (k, fstr(sm), fstr(exact)), [r['case']])); break
            if isnum(ss) and isnum(fmt.round(exact2)) and abs(ss - exact2) > (2 * len(kept) + 2 * P + 4) * fmt.u * exact2 + Fraction(2) ** (fmt.emin + 6) * (len(kept) + 1):
                out.append(viol('iteration %d: sum of squares = %s but the squares (f*w)^2 add up to %s' % (k, fstr(ss), fstr(exact2)), [r['case']])); break
            # VEGAS adjustment data: per-bin sums of (f*w)^2
            if kind == 'vegas' and len(res['extra']) == 2:
                pdf, adj = res['extra']
                bins, dims = pdf[0], pdf[1]
                want = [Fraction(0)] * (bins * dims); bad = False
                for v, w, e in vals:
                    p = prod(v, w) if not (isnum(v) and v == 0) and v != '-0' else Fraction(0)
                    if p == 'nonfinite' or p == 0: continue
                    sq = fmt.round(p * p)
                    if not isnum(sq): bad = True; break
                    for j, b in enumerate(e[5]):
                        if j * bins + b < len(want): want[j * bins + b] += sq
                if not bad and len(adj) == len(want):
                    for i, (a, wv) in enumerate(zip(adj, want)):
                        a = parse_tok(a)
                        if isnum(a) and abs(a - wv) > (2 * N + 2 * P + 4) * fmt.u * wv + Fraction(2) ** (fmt.emin + 6) * (N + 1):
                            out.append(viol('iteration %d: VEGAS adjustment datum of dimension %d, bin %d is %s but the squares (f*w)^2 of the points in that bin add up to %s' %
                                            (k, i // bins, i % bins, fstr(a), fstr(wv)), [r['case']])); bad = True; break
                if bad: break
    return out

# ---- C11: every fill goes to the bin that contains its coordinate ----------------------------------------
def oracle_C11(results, metas, st):
    out = []
    for r, m in zip(results, metas):
        cx = r['cxx']
        if not isinstance(cx, list) or r['case'][2] != 'run': continue
        spec = r['case'][3]; fmt = FMTS[r['case'][1]]
        get = lambda k, d=None: next((e[1] for e in spec if isinstance(e, list) and e and e[0] == k), d)
        kind = get('kind'); fills = get('fills'); tables = get('tables', []); f = get('f'); ops = get('ops')
        ds = dumps_of(cx)
        if not ds or not fills: continue
        rs = chk_results(ds[-1])
        for k, res in enumerate(rs):
            for (par, bins) in res['dists']:
                if any(b[0] != res['main'][0] for b in bins):
                    out.append(viol('a bin of iteration %d reports %s calls, the iteration made %d' % (k, [b[0] for b in bins][:4], res['main'][0]), [r['case']])); break
        if not get('trace') or any(op[0] != 'run' and op[0] != 'dump' for op in ops): continue
        if kind == 'mc' and not get('wants'): continue
        evs = [e for it in find_items(cx, 'run') for e in (find_items(it, 'events') or [['events']])[0][1:] if e[0] == 'f']
        calls_list = [c for op in ops if op[0] == 'run' for c in op[1]]
        tabs = f[1] if f[0] == 'tab' else None
        pos = 0
        for k, res in enumerate(rs):
            if k >= len(calls_list): break
            N = calls_list[k]; mine = evs[pos:pos + N]; pos += N
            if len(mine) != N: break
            ndist = len(res['dists'])
            lo = [[0] * len(b) for (p_, b) in res['dists']]; hi = [[0] * len(b) for (p_, b) in res['dists']]
            ok = True
            for e in mine:
                idx = e[1]; w = parse_tok(e[6]) if len(e) >= 7 else None
                if w is None: ok = False; break
                pt = [parse_tok(x) for x in e[2]]; co = [parse_tok(x) for x in e[3]]
                if f[0] == 'tab': v = parse_tok(tabs[idx % len(tabs)])
                else:
                    xs = co if kind == 'mc' else pt
                    v = emu_poly(fmt, [(parse_tok(a), parse_tok(b)) for a, b in f[1]], xs) if all(isnum(x) for x in xs) else None
                    if v is None: ok = False; break
                def src(sx):
                    if sx[0] == 'p': return pt[sx[1]] if sx[1] < len(pt) else Fraction(0)
                    if sx[0] == 'c': return co[sx[1]] if sx[1] < len(co) else Fraction(0)
                    if sx[0] == 't': return parse_tok(tables[sx[1]][idx % len(tables[sx[1]])])
                    if sx[0] == 'v': return v
                    return parse_tok(sx[1])
                for fs in fills:
                    j = fs[0]
                    if j >= ndist: continue
                    par, bins = res['dists'][j]
                    bx, by = par[0], par[1]
                    xmin, ymin, bsx, bsy = (parse_tok(par[2]), parse_tok(par[3]), parse_tok(par[4]), parse_tok(par[5]))
                    val = src(fs[3]); x = src(fs[1]); y = src(fs[2]) if fs[2] != '-' else None
                    def fin(z): return isnum(z) or z == '-0'
                    if not fin(val) or not fin(w): continue
                    pv = fmt.round((Fraction(0) if val == '-0' else val) * (Fraction(0) if w == '-0' else w))
                    if not isnum(pv): continue
                    def axis(c, cmin, size, n):
                        """set of possible bin indices (None = outside)"""
                        if c == '-0': c = Fraction(0)
                        if not isnum(c) or not isnum(size) or size <= 0 or not isnum(cmin): return {None} if not isnum(c) else {'?'}
                        p = (c - cmin) / size
                        kk = p.numerator // p.denominator
                        cand = {kk if 0 <= kk < n else None}
                        near = p - kk
                        tol = 8 * fmt.u * max(1, abs(p)) + 8 * fmt.u * (abs(c) + abs(cmin)) / size
                        if near <= tol: cand.add(kk - 1 if 0 <= kk - 1 < n else None)
                        if 1 - near <= tol: cand.add(kk + 1 if 0 <= kk + 1 < n else None)
                        return cand
                    cx_ = axis(x, xmin, bsx, bx)
                    cy_ = axis(y, ymin, bsy, by) if y is not None else {0}
                    if '?' in cx_ or '?' in cy_: ok = False; break
                    cells = set()
                    for a in cx_:
                        for b in cy_:
                            cells.add(None if a is None or b is None else b * bx + a)
                    if len(cells) == 1:
                        c0 = next(iter(cells))
                        if c0 is not None and c0 < len(lo[j]): lo[j][c0] += 1; hi[j][c0] += 1
                    else:
                        for c0 in cells:
                            if c0 is not None and c0 < len(hi[j]): hi[j][c0] += 1
                if not ok: break
            if not ok: break
            for j, (par, bins) in enumerate(res['dists']):
                for b, bn in enumerate(bins):
                    if not (lo[j][b] <= bn[1] <= hi[j][b]):
                        out.append(viol('iteration %d, distribution %d, bin %d (x index %d, y index %d) received %d fills; between %d and %d fills have their coordinate in that bin' %
                                        (k, j, b, b % par[0], b // par[0], bn[1], lo[j][b], hi[j][b]), [r['case']])); ok = False; break
                if not ok: break
            if not ok: break
    return out

# ---- C13: formulas and laws of the combiners --------------------------------------------------------------
def c13_moments(fmt, r):
    """(E, V, conditioning) of a result [calls, nz, fin, sum, sumsq] in exact arithmetic; None if not usable"""
    n = r[0]; s, q = parse_tok(r[3]), parse_tok(r[4])
    if n < 2 or not isnum(s) or not isnum(q): return None
    # the intermediates of variance() and create_result() (sum^2, calls x sumsq) must stay inside the format
    if s * s > fmt.max / 4 or abs(q) * n > fmt.max / 4: return None
    e = s / n; v = (q / n - e * e) / (n - 1)
    if v <= 0: return None
    kappa = (q / n) / (v * (n - 1))
    return e, v, kappa

def oracle_C13(results, metas, st):
    out = []
    by_id = {r['case'][0]: r for r in results}
    for r, m in zip(results, metas):
        c = r['case']; cx = r['cxx']; fmt = FMTS[c[1]]
        if c[2] == 'chi2' and isinstance(cx, list) and len(cx) == 1:
            rs = c[3][1]; v = parse_tok(cx[0])
            if len(rs) == 1 and v != 'inf':
                out.append(viol('chi^2/dof of a single result is %s, not infinite' % fstr(v), [c]))
            if len(rs) == 0 and not (isnum(v) and v == 0):
                out.append(viol('chi^2/dof of no result is %s, not 0' % fstr(v), [c]))
            moms = [c13_moments(fmt, x) for x in rs]
            # (only for well-conditioned inputs: a variance that is positive in exact arithmetic can come out negative in the format)
            if isnum(v) and v < 0 and all(mo is not None and mo[2] * fmt.u * 256 < Fraction(1, 1000) for mo in moms):
                out.append(viol('chi^2/dof is negative: %s' % fstr(v), [c]))
        if c[2] in ('wwv', 'weq') and isinstance(cx, list) and len(cx) == 5:
            rs = c[3][0]
            if cx[0] != sum(x[0] for x in rs) or cx[1] != sum(x[1] for x in rs) or cx[2] != sum(x[2] for x in rs):
                out.append(viol('combined counters %s are not the sums of the counters of the results' % cx[:3], [c])); continue
            moms = [(x, c13_moments(fmt, x)) for x in rs]
            live = [(x, mo) for x, mo in moms if (x[2] != 0 if c[2] == 'wwv' else True)]
            if not live or any(mo is None for x, mo in live): continue
            if max(mo[2] for x, mo in live) * fmt.u * 256 > Fraction(1, 1000): continue
            om = c13_moments(fmt, cx)
            if om is None or om[2] * fmt.u * 256 > Fraction(1, 1000): continue
            E, V = om[0], om[1]
            es = [mo[0] for x, mo in live]; vs = [mo[1] for x, mo in live]
            tol = Fraction(1, 500)
            if c[2] == 'wwv':
                wE = sum(e / v for e, v in zip(es, vs)) / sum(1 / v for v in vs); wV = 1 / sum(1 / v for v in vs)
                scale_ = max(abs(wE), max(abs(e) for e in es))
                if abs(E - wE) > tol * (scale_ + (wV ** Fraction(1)) ** Fraction(1)) and abs(E - wE) ** 2 > tol * tol * wV:
                    out.append(viol('variance-weighted estimate %s differs from sum(E_i/S_i^2)/sum(1/S_i^2) = %s' % (fstr(E), fstr(wE)), [c])); continue
                if abs(V - wV) > tol * wV:
                    out.append(viol('variance of the combination %s differs from 1/sum(1/S_i^2) = %s' % (fstr(V), fstr(wV)), [c])); continue
                if V > min(vs) * (1 + tol):
                    out.append(viol('combined error exceeds the smallest individual error', [c])); continue
            elif len(live) >= 2:
                mE = sum(es) / len(es)
                if abs(E - mE) > tol * max(abs(e) for e in es):
                    out.append(viol('equally weighted estimate %s differs from the mean %s' % (fstr(E), fstr(mE)), [c])); continue
    for r in results:
        cx = r['cxx']
        if r['case'][2] != 'run' or not isinstance(cx, list): continue
        # combining results that carry distributions: every distribution keeps its parameters and bin count
        ds = None
        for x in cx:
            if isinstance(x, list) and x and x[0] == 'combine' and isinstance(x[1], list) and x[1] and x[1][0] == 'ok':
                dists = x[1][2]
                spec_d = next((e[1] for e in r['case'][3] if e[0] == 'dists'), [])
                iters = len([1 for it in find_items(cx, 'run') for _ in it[1][1:]])
                if iters == 0: continue
                if len(dists) != len(spec_d):
                    out.append(viol('the combination of results with %d distributions has %d' % (len(spec_d), len(dists)), [r['case']])); break
                for d, sd in zip(dists, spec_d):
                    if len(d[1]) != sd[0] * sd[1]:
                        out.append(viol('a combined %d x %d distribution has %d bins' % (sd[0], sd[1], len(d[1])), [r['case']])); break
    return out


# ---- C04 under real MPI (OpenMPI, mpirun) --------------------------------------------------------------------
def extra_C04(rng, tier, st, cov, pid='C04'):
    import tie
    out = []; stats = {'runs': 0, 'checks_passed': 0, 'world_sizes': [], 'engines': 'mt19937 minstd_rand ranlux24 knuth_b + linear_congruential_engine instantiations (c != 0; m = 2^31, 2^24-3, 2^32-5, 2^64)', 'types': 'float double long double'}
    try:
        exe = tie.mpireal_build()
    except tie.Stage as e:
        return [viol('the MPI drivers do not compile with the real MPI headers: ' + e.detail[-300:], [], tie=True)]
    worlds = [2, 3] if tier == 'quick' else [1, 2, 3, 5, 8]
    # an iteration with more than 2^32 calls: when the share expression translated from the headers no longer matches (directed search)
    # and once in the thorough tier
    huge_at = 3 if (tier == 'thorough' or not st.get('translator', (True,))[0]) else None
    for P in worlds:
        seed = rng.getrandbits(20)
        try:
            p = subprocess.run(['timeout', '600', 'mpirun', '--allow-run-as-root', '--oversubscribe', '-np', str(P), exe, str(seed)] + (['huge'] if P == huge_at else []),
                               stdout=subprocess.PIPE, stderr=subprocess.PIPE, universal_newlines=True, timeout=700)
        except subprocess.TimeoutExpired:
            out.append(viol('real MPI run with %d processes did not finish (a rank hangs in a collective)' % P, [], {'mpirun_np': P, 'seed': seed})); continue
        stats['runs'] += 1; stats['world_sizes'].append(P)
        if p.returncode == 124:
            out.append(viol('real MPI run with %d processes did not finish within 300 s (a rank hangs in a collective)' % P, [], {'mpirun_np': P, 'seed': seed})); continue
        summary = [l for l in p.stdout.split('\n') if l.startswith('SUMMARY')]
        for l in p.stdout.split('\n'):
            if l.startswith('FAIL ' + pid):
                out.append(viol('real MPI, %d processes: %s' % (P, l[9:]), [], {'mpirun_np': P, 'seed': seed}))
        if not summary:
            out.append(viol('real MPI run with %d processes ended abnormally (exit %d): %s' % (P, p.returncode, (p.stderr or p.stdout)[-300:]), [], {'mpirun_np': P, 'seed': seed}))
        else:
            stats['checks_passed'] += int(summary[0].split('ok=')[1].split()[0])
    cov.setdefault('extra', {})['real_mpirun'] = stats
    return out
