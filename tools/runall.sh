#!/bin/sh
# development helper: run the quick (or $VERIF_TIER) command of every claimed check, print one line each
cd "$(dirname "$0")/.."
for p in $(python3 -c "import json;print(' '.join(c['property_id'] for c in json.load(open('MANIFEST.json'))['checks']))"); do
  s=$(date +%s)
  out=$(python3 tools/check.py --property $p --tier ${VERIF_TIER:-quick} 2>&1); rc=$?
  e=$(date +%s)
  echo "$p rc=$rc $((e-s))s :: $(echo "$out" | grep -E "^C[0-9]+ tier" | cut -c1-160)"
  echo "$out" | grep -E "^(BROKEN|VIOLATION|KNOWN)" | cut -c1-600
done
