"""Comparison of C++ observations with model observations.  Everything is compared exactly, except
serialised checkpoint text, where the model produces tokens: integers, white space, names, header
and generators must match character for character; a floating-point token must be printed in
scientific notation with max_digits10 significant digits and be the correctly rounded decimal of
the model's value (which is also a check of the glibc printf assumption)."""
import re
from fractions import Fraction
from fp import parse_tok, FMTS

NUM = re.compile(rb'^(-?)(\d)\.(\d+)e([+-]\d{2,})$')

def check_num(text, tok, fmt):
    """text: bytes printed by the C++; tok: wire token of the model value"""
    v = parse_tok(tok)
    if isinstance(v, str):
        want = {'nan': (b'nan', b'-nan'), 'inf': (b'inf',), '-inf': (b'-inf',), '-0': None}[v]
        if want is not None:
            return None if text in want else 'non-finite %r vs %s' % (text, tok)
        v = Fraction(0); neg0 = True
    else:
        neg0 = False
    m = NUM.match(text)
    if not m:
        return 'not in scientific notation: %r' % text
    sign, d0, frac, exp = m.groups()
    if len(frac) != fmt.digits10 - 1:
        return 'expected %d fractional digits: %r' % (fmt.digits10 - 1, text)
    e = int(exp)
    dec = Fraction(int(d0 + frac)) * Fraction(10) ** (e - len(frac))
    if sign == b'-':
        dec = -dec
    if (sign == b'-') != (v < 0 or neg0):
        return 'sign: %r vs %s' % (text, tok)
    if v != 0 and d0 == b'0':
        return 'leading digit 0 for a non-zero value: %r' % text
    if abs(dec - v) * 2 > Fraction(10) ** (e - len(frac)):
        return 'not the correctly rounded decimal: %r vs %s' % (text, tok)
    # and reading it back gives the value again
    if fmt.round(dec) != v:
        return 'does not read back to the same value: %r vs %s' % (text, tok)
    return None

def compare_text(data, toks, fmt):
    """data: bytes from the C++ serialize(); toks: model token list"""
    pos = 0
    for t in toks:
        if t == 'sp' or t == 'nl':
            c = b' ' if t == 'sp' else b'\n'
            if data[pos:pos + 1] != c:
                return 'at byte %d: expected %r, found %r' % (pos, c, data[pos:pos + 12])
            pos += 1
            continue
        kind, val = t[0], t[1]
        if kind == 's':
            if data[pos:pos + len(val)] != val:
                return 'at byte %d: expected raw %r, found %r' % (pos, val, data[pos:pos + len(val) + 8])
            pos += len(val)
            continue
        # token up to the next blank / newline
        j = pos
        while j < len(data) and data[j:j + 1] not in (b' ', b'\n'):
            j += 1
        word = data[pos:j]
        if kind == 'n':
            if word != str(val).encode():
                return 'at byte %d: expected integer %d, found %r' % (pos, val, word)
        elif kind == 'g':
            if word != b'E' + str(val).encode():
                return 'at byte %d: expected generator E%d, found %r' % (pos, val, word)
        elif kind == 'x':
            err = check_num(word, val, fmt)
            if err:
                return 'at byte %d: %s' % (pos, err)
        else:
            return 'unknown token kind %r' % (kind,)
        pos = j
    if pos != len(data):
        return 'trailing bytes after the model text: %r' % data[pos:pos + 20]
    return None

def has_ub(x):
    if isinstance(x, list):
        if len(x) >= 1 and x[0] == 'ub': return True
        return any(has_ub(e) for e in x)
    return False

def has_nonfinite(x):
    if isinstance(x, list):
        return any(has_nonfinite(e) for e in x)
    return isinstance(x, str) and x in ('%nan', '%i+', '%i-')

def compare(cx, mo, fmt, path=''):
    """returns a list of human-readable differences (empty = agree)"""
    if path == '' and has_ub(mo) and has_nonfinite(cx):
        # the model reports undefined behaviour of the C++ (typically: sums of squares overflowed to infinity, the refinement then
        # reads bin -1) and the real run indeed went through non-finite numbers: whatever the real code printed is admissible
        return []
    if path == '' and isinstance(cx, list) and cx and cx[0] in ('exception', 'crash') and has_ub(mo):
        # the model says the C++ has undefined behaviour / throws on this input (e.g. adjustment data that overflowed to
        # infinity make the refinement read bin -1); an exception or a crash of the real code is one admissible outcome
        return []
    if path == '' and isinstance(cx, list) and cx and cx[0] in ('exception', 'crash') and isinstance(mo, list) and mo and mo[-1] == ['reload', 'stream_failed']:
        # a text with non-finite numbers cannot be loaded (outside the scope of the round-trip property): the real reader may fail
        # with the stream's fail bit or, after it read garbage counts, with an exception
        return []
    if isinstance(cx, list) and isinstance(mo, list) and len(cx) == 2 and len(mo) == 2 and cx[0] == mo[0] and cx[0] in ('text', 'wrote') \
       and isinstance(cx[1], bytes):
        if isinstance(mo[1], list) and mo[1] and mo[1][0] == 'ok':
            err = compare_text(cx[1], mo[1][1:], fmt)
            return ['%s/%s: %s' % (path, cx[0], err)] if err else []
        return ['%s/%s: model has no text: %r' % (path, cx[0], mo[1])]
    if isinstance(cx, list) and isinstance(mo, list):
        out = []
        if len(cx) != len(mo):
            out.append('%s: length %d (c++) vs %d (model)' % (path, len(cx), len(mo)))
        for k, (a, b) in enumerate(zip(cx, mo)):
            head = cx[0] if cx and isinstance(cx[0], str) else ''
            out += compare(a, b, fmt, '%s/%s%d' % (path, head + ':' if head else '', k))
            if len(out) > 6:
                break
        return out
    if cx != mo:
        return ['%s: c++ %r vs model %r' % (path, cx, mo)]
    return []
