#!/usr/bin/env python3
"""Single entry point of the verification machinery.

  check.py --property Cxx [--tier quick|thorough] [--replay file]
  check.py --setup

One run: (1) translate /repo's headers to coq/Translated.v, build the Coq development (full .vo),
extract the model, build the C++ driver from /repo's working tree; (2) re-check the property's
theorems (Properties_Cxx.v) and audit their assumptions; (3) correspondence: run the real
templates and the extracted model on the same generated cases and compare exactly; (4) if all of
that holds: exit 0 (printing KNOWN-FINDING lines for open entries of known_findings.json);
(5) otherwise search the implementation for a concrete failing input with the property's
executable oracle and report VIOLATION (with no-failing-input-found if none is found); exit 1.
"""
import argparse, fcntl, json, os, random, re, sys, time, traceback

HERE = os.path.dirname(os.path.abspath(__file__))
sys.path.insert(0, HERE)
import tie
from tie import VERIF, BUILD, COQ, Stage
from sxp import dump, parse
from fp import FMTS
import textcmp

ALLOWED_AXIOMS = {
    # Coq standard library: classical real numbers
    'ClassicalDedekindReals.sig_forall_dec': 'Coq.Reals (constructive-to-classical bridge of the real numbers)',
    'ClassicalDedekindReals.sig_not_dec': 'Coq.Reals',
    'FunctionalExtensionality.functional_extensionality_dep': 'Coq.Logic.FunctionalExtensionality (used by Coq.Reals)',
    'Classical_Prop.classic': 'Coq.Logic.Classical_Prop (excluded middle; Flocq, Coquelicot)',
    'Eqdep.Eq_rect_eq.eq_rect_eq': 'Coq.Logic.Eqdep (Flocq binary_float equalities)',
    'ProofIrrelevance.proof_irrelevance': 'Coq.Logic.ProofIrrelevance',
    'JMeq.JMeq_eq': 'Coq.Logic.JMeq',
    'ClassicalEpsilon.constructive_indefinite_description': 'Coq.Logic.ClassicalEpsilon (Coquelicot)',
}
FORBIDDEN = re.compile(r'\b(Admitted|admit|Axiom|Axioms|Parameter|Parameters|Conjecture|Conjectures|Abort All)\b|Unset\s+Guard|Unset\s+Positivity|Unset\s+Universe|bypass_check|type-in-type|impredicative-set|Admit\s+Obligations')

def log(msg):
    print(msg, flush=True)

# ------------------------------------------------------------------------------------------------
def prepare(mpi=False):
    """stages shared by all properties; returns dict stage -> (ok, detail)"""
    os.makedirs(BUILD, exist_ok=True)
    st = {}
    with open(os.path.join(BUILD, 'lock'), 'w') as lk:
        fcntl.flock(lk, fcntl.LOCK_EX)
        t0 = time.time()
        try:
            tie.translate(); st['translator'] = (True, '')
        except Stage as e:
            st['translator'] = (False, e.detail)
        ok, out = tie.coq_build()
        ls = out.split('\n')
        st['coq'] = (ok, '' if ok else '\n'.join(l for i, l in enumerate(ls) if 'Error' in l or 'rror:' in l or l.startswith('File')
                                                 or any(ls[j].rstrip().endswith('Error:') for j in range(max(0, i - 4), i)))[-3000:])
        st['coq_log'] = out
        try:
            st['model_exe'] = tie.extract_model(); st['extraction'] = (True, '')
        except Stage as e:
            st['extraction'] = (False, e.detail); st['model_exe'] = None
        try:
            st['cxx_exe'] = tie.cxx_build('-DVERIF_MPI', 'mpi') if mpi else tie.cxx_build(); st['cxx'] = (True, '')
        except Stage as e:
            st['cxx'] = (False, e.detail); st['cxx_exe'] = None
        st['prepare_s'] = time.time() - t0
    return st

def audit_sources():
    """no Admitted/admit/Axiom/... anywhere in the development"""
    bad = []
    for f in sorted(os.listdir(COQ)):
        if not f.endswith('.v'):
            continue
        text = open(os.path.join(COQ, f)).read()
        text = re.sub(r'\(\*.*?\*\)', lambda m: ' ' * len(m.group(0)), text, flags=re.S)
        for m in FORBIDDEN.finditer(text):
            line = text.count('\n', 0, m.start()) + 1
            bad.append('%s:%d: %s' % (f, line, m.group(0)))
    return bad

def check_proofs(pid):
    """compile Properties_<pid>.v (and its supplements Properties_<pid><letter>.v) on their own, collect theorems and assumptions"""
    import glob
    files = [os.path.join(COQ, 'Properties_%s.v' % pid)] + sorted(glob.glob(os.path.join(COQ, 'Properties_%s[a-z]*.v' % pid)))
    res = {'file': ' '.join(os.path.basename(f) for f in files), 'theorems': [], 'obligations': 0, 'discharged': 0, 'axioms': {}, 'errors': []}
    for src in files:
        one = check_proof_file(src)
        res['theorems'] += one['theorems']; res['obligations'] += one['obligations']; res['discharged'] += one['discharged']
        res['axioms'].update(one['axioms']); res['errors'] += one['errors']
    return res

def check_proof_file(src):
    res = {'file': os.path.basename(src), 'theorems': [], 'obligations': 0, 'discharged': 0, 'axioms': {}, 'errors': []}
    if not os.path.exists(src):
        res['errors'].append('missing ' + src); return res
    text = open(src).read()
    stripped = re.sub(r'\(\*.*?\*\)', '', text, flags=re.S)
    thms = re.findall(r'^\s*(?:Theorem|Corollary)\s+([A-Za-z0-9_\']+)', stripped, flags=re.M)
    res['theorems'] = thms
    res['obligations'] = len(thms)
    rc, out = tie.sh('timeout 900 coqc -Q . HepMC %s' % os.path.basename(src), cwd=COQ, timeout=1000)
    if rc != 0:
        res['errors'].append('coqc failed: ' + out.strip()[-1500:])
        return res
    # Print Assumptions output: either "Closed under the global context" or "Axioms:" + indented list
    blocks = re.split(r'\n(?=Closed under the global context|Axioms:)', '\n' + out)
    blocks = [b for b in blocks if b.startswith('Closed under') or b.startswith('Axioms:')]
    if len(blocks) != len(thms):
        res['errors'].append('%s: expected one Print Assumptions per theorem: %d theorems, %d reports' % (os.path.basename(src), len(thms), len(blocks)))
        return res
    ok = 0
    for name, b in zip(thms, blocks):
        ax = []
        if b.startswith('Axioms:'):
            ax = re.findall(r'^([A-Za-z_][A-Za-z0-9_\.\']*)\s*:', b[len('Axioms:'):], flags=re.M)
        res['axioms'][name] = ax
        unknown = [a for a in ax if a not in ALLOWED_AXIOMS]
        if unknown:
            res['errors'].append('%s depends on axioms outside the trusted base: %s' % (name, ', '.join(unknown)))
        else:
            ok += 1
    res['discharged'] = ok
    return res

# ------------------------------------------------------------------------------------------------
def known_findings(pid):
    data = json.load(open(os.path.join(VERIF, 'known_findings.json')))
    return [f for f in data['findings'] if f['property'] == pid]

def write_replay(pid, seed, payload, tier='quick'):
    d = os.path.join(VERIF, 'replays'); os.makedirs(d, exist_ok=True)
    path = os.path.join(d, '%s-%d.json' % (pid, seed))
    payload = dict(payload); payload['seed'] = seed; payload['tier'] = tier
    payload['replay_cmd'] = 'python3 tools/check.py --property %s --replay %s' % (pid, path)
    json.dump(payload, open(path, 'w'), indent=1, default=lambda o: o.hex() if isinstance(o, bytes) else str(o))
    return path

def main():
    ap = argparse.ArgumentParser()
    ap.add_argument('--property'); ap.add_argument('--tier', default=os.environ.get('VERIF_TIER', 'quick'))
    ap.add_argument('--replay'); ap.add_argument('--setup', action='store_true')
    ap.add_argument('--oracles', action='store_true', help='also run the search oracles when everything agrees (self-test)')
    ap.add_argument('--no-evidence', action='store_true', help='development: do not rewrite evidence/ (runs against a scratch copy of the repository)')
    a = ap.parse_args()
    if a.tier not in ('quick', 'thorough'):
        a.tier = 'quick'
    seed = int(os.environ.get('VERIF_SEED', '1') or 1)
    if a.replay:
        # a replay file names the seed and tier of the run that produced it: every random choice derives from them, so the
        # same cases (with their groups: twins, interruption sets, modes, ranks) and the same fault plan are regenerated
        rp = json.load(open(a.replay))
        seed = int(rp.get('seed', seed)); a.tier = rp.get('tier', a.tier)
        log('replaying %s: seed %d, tier %s; recorded: %s' % (a.replay, seed, a.tier, (rp.get('what') or rp.get('kind') or '')[:300]))
    t0 = time.time()
    if a.setup:
        st = prepare()
        for k in ('translator', 'coq', 'extraction', 'cxx'):
            log('setup %-11s %s %s' % (k, 'ok' if st[k][0] else 'FAILED', st[k][1][:1500]))
        sys.exit(0 if all(st[k][0] for k in ('translator', 'coq', 'extraction', 'cxx')) else 1)

    import props
    pid = a.property
    P = props.PROPS[pid]
    use_mpi = bool(P.get('mpi')) or pid in ('C02', 'C03', 'C04', 'C06', 'C10', 'C11', 'C12', 'C16', 'C19', 'C20')
    sanitizer_viol = []
    st = prepare(mpi=use_mpi)
    broken = []           # stages / obligations that no longer check
    for k in ('translator', 'cxx', 'extraction'):
        if not st[k][0]:
            broken.append({'stage': k, 'detail': st[k][1]})
    bad_src = audit_sources()
    if bad_src:
        broken.append({'stage': 'audit', 'detail': '; '.join(bad_src[:10])})
    proofs = check_proofs(pid)
    if proofs['errors'] or proofs['discharged'] != proofs['obligations'] or proofs['obligations'] == 0:
        detail = '; '.join(proofs['errors']) or 'no theorem'
        if not st['coq'][0] and re.search(r'inconsistent assumptions|Cannot find a physical path|Unable to locate library|Cannot load', detail):
            # the property file failed only because a file it imports no longer compiles: name that lemma
            detail = 'a lemma file the theorems import no longer checks: ' + st['coq'][1][:1500] + ' || ' + detail[:600]
        broken.append({'stage': 'proof', 'detail': detail, 'file': proofs['file']})
    if not st['coq'][0]:
        # a model or lemma file that this property does not need may be the broken one: the property's own
        # file compiled above, so only report files it depends on (coqc would have failed otherwise)
        pass

    rng = random.Random(seed * 1000003 + int(pid[1:]))
    cov = {'evaluations': 0, 'distinct_nontrivial': 0, 'samples': [], 'classes': {}}
    thorough_extra = {}
    if a.tier == 'thorough' and not proofs['errors']:
        # second opinion: the independent checker re-checks the compiled property file and everything it depends on
        t1 = time.time()
        rc, out = tie.sh('timeout 2400 coqchk -o -silent -Q . HepMC %s' % ' '.join('HepMC.' + f[:-2] for f in proofs['file'].split()), cwd=COQ, timeout=2500)
        m = re.search(r'\* Axioms:(.*?)\n\s*\n\* Constants/Inductives relying on type-in-type:(.*?)\n', out, flags=re.S)
        axioms = [x.strip() for x in (m.group(1).split('\n') if m else []) if x.strip() and x.strip() != '<none>']
        unsafe = re.findall(r'relying on (?:type-in-type|unsafe \(co\)fixpoints)|positivity is assumed: (?!<none>)', out)
        bad_ax = [x for x in axioms if not any(x.split()[0].endswith(k.split('.')[-1]) for k in ALLOWED_AXIOMS)]
        thorough_extra['coqchk'] = {'exit': rc, 'axioms_of_all_loaded_libraries': axioms, 'wall_s': round(time.time() - t1, 1)}
        if rc != 0 or 'type-in-type: <none>' not in out or 'unsafe (co)fixpoints: <none>' not in out or 'positivity is assumed: <none>' not in out:
            broken.append({'stage': 'proof', 'detail': 'coqchk: ' + out.strip()[-600:], 'file': proofs['file']})
        elif bad_ax:
            broken.append({'stage': 'proof', 'detail': 'coqchk lists axioms outside the trusted base: ' + ', '.join(bad_ax), 'file': proofs['file']})
    diffs = []
    cxx_results = None
    cases, metas = props.generate(pid, rng, a.tier)
    if st.get('cxx_exe') and st.get('model_exe') and cases:
        results = tie.run_pair(cases, st['cxx_exe'], st['model_exe'])
        cxx_results = results
        seen = set()
        for r, meta in zip(results, metas):
            fmt = FMTS.get(r['case'][1], FMTS['d'])
            d = textcmp.compare(r['cxx'], r['model'], fmt)
            cov['evaluations'] += 1
            key = dump(r['case'][2:4])
            if meta.get('nontrivial', True) and key not in seen:
                cov['distinct_nontrivial'] += 1
            seen.add(key)
            for c in meta.get('classes', []):
                cov['classes'][c] = cov['classes'].get(c, 0) + 1
            if d:
                diffs.append({'case': dump(list(r['case']) + [[]]), 'diff': d[:4], 'cxx': dump(r['cxx'])[:1500], 'model': dump(r['model'])[:1500]})
        for r in results[:2] + results[len(results) // 2: len(results) // 2 + 1]:
            cov['samples'].append({'case': dump(list(r['case'][:4]))[:600], 'observation': dump(r['cxx'])[:400]})
        if diffs:
            broken.append({'stage': 'correspondence', 'detail': '%d of %d cases differ; first: %s' % (len(diffs), len(results), diffs[0]['diff'])})
        # extraction cross-check: a few of the same cases evaluated inside Coq (vm_compute) must give what the extracted model printed
        mi, mo = tie.last_model_io
        order = list(range(len(mi))); rng2 = random.Random(seed * 7919 + int(pid[1:])); rng2.shuffle(order)
        n_vm, bad_vm, detail_vm = tie.vm_crosscheck([mi[k] for k in order], [mo[k] for k in order], limit=(5 if a.tier == 'quick' else 25))
        cov['vm_compute_crosscheck'] = {'cases': n_vm, 'mismatches': bad_vm}
        if bad_vm:
            broken.append({'stage': 'extraction', 'detail': 'vm_compute and the extracted model disagree on %d of %d sampled cases %s' % (bad_vm, n_vm, detail_vm)})
    elif cases:
        if not any(b['stage'] in ('cxx', 'extraction') for b in broken):
            broken.append({'stage': 'correspondence', 'detail': 'drivers unavailable'})

    if cases and st.get('cxx_exe') and not os.environ.get('VERIF_NO_SANITIZER'):
        # the same cases (quick tier: a seeded sample of them) through an AddressSanitizer / UndefinedBehaviorSanitizer build of the
        # driver: memory errors and undefined casts in the library abort the driver and show up as crashed cases
        try:
            t1 = time.time()
            flags = '-g -fsanitize=address,undefined,float-cast-overflow -fno-sanitize-recover=all -D_GLIBCXX_DEBUG' + (' -DVERIF_MPI' if use_mpi else '')      # (libstdc++ debug mode: operator[] / front() / back() out of range and invalidated iterators abort)
            san = tie.cxx_build(flags, 'asan-mpi' if use_mpi else 'asan')
            env = dict(os.environ); env['ASAN_OPTIONS'] = 'detect_leaks=0:allocator_may_return_null=1'; env['VERIF_TMP'] = os.path.join(BUILD, 'tmp')      # (a garbage count read from an unreadable text must throw bad_alloc as in the ordinary build, not abort)
            san_cases = list(cases)
            if a.tier != 'thorough' and len(san_cases) > 160:
                rng3 = random.Random(seed * 104729 + int(pid[1:])); san_cases = rng3.sample(san_cases, 160)
            lines = [dump([i, t, cmd, args, []]) for (i, t, cmd, args) in san_cases]
            outs = tie.run_driver(san, lines, env=env, chunk=10, timeout=3000, cpu_limit=900, mem_limit=None)      # (ASan reserves terabytes of address space)
            undefined = set(r['case'][0] for r in results if textcmp.has_ub(r['model'])) if cxx_results is not None else set()
            crashed = [(c_, o) for c_, o in zip(san_cases, outs) if o.startswith('(crash') and c_[0] not in undefined]      # (inputs on which the model already reports undefined behaviour are excluded)
            thorough_extra['sanitizer'] = {'cases': len(san_cases), 'crashed': len(crashed), 'wall_s': round(time.time() - t1, 1)}
            for c_, o in crashed[:3]:
                sanitizer_viol.append({'what': 'the sanitizer build (ASan + UBSan) aborts on this input: %s' % bytes.fromhex(o.split('"')[1]).decode(errors='replace')[-260:] if '"' in o else o[:200],
                                       'cases': [dump(list(c_[:4]) + [[]])], 'observed': o[:400]})
        except Stage as e:
            thorough_extra['sanitizer'] = {'build_failed': e.detail[-300:]}
        if use_mpi:
            # the ranks of the shim are threads that run the library's templates side by side: a ThreadSanitizer build reports state the
            # library shares between them (static or global buffers, caches) as data races
            try:
                t1 = time.time()
                ts = tie.cxx_build('-g -fsanitize=thread -DVERIF_MPI', 'tsan-mpi')
                env = dict(os.environ); env['TSAN_OPTIONS'] = 'halt_on_error=1 exitcode=66'; env['VERIF_TMP'] = os.path.join(BUILD, 'tmp')
                undefined = set(r['case'][0] for r in results if textcmp.has_ub(r['model'])) if cxx_results is not None else set()
                ts_cases = [c_ for c_ in cases if c_[2] == 'run' and any(e[0] == 'ops' and any(op[0] == 'mpi' for op in e[1]) for e in c_[3]) and c_[0] not in undefined]
                if a.tier != 'thorough' and len(ts_cases) > 40:
                    rng6 = random.Random(seed * 49979687 + int(pid[1:])); ts_cases = rng6.sample(ts_cases, 40)
                lines = [dump([i, t, cmd, args, []]) for (i, t, cmd, args) in ts_cases]
                outs = tie.run_driver(ts, lines, env=env, chunk=5, timeout=3000, cpu_limit=900, mem_limit=None)
                raced = [(c_, o) for c_, o in zip(ts_cases, outs) if o.startswith('(crash')]
                thorough_extra['thread_sanitizer'] = {'cases': len(ts_cases), 'crashed': len(raced), 'wall_s': round(time.time() - t1, 1)}
                for c_, o in raced[:2]:
                    sanitizer_viol.append({'what': 'the ThreadSanitizer build aborts on this input (ranks = threads of one process): %s' % (bytes.fromhex(o.split('"')[1]).decode(errors='replace')[-300:] if '"' in o else o[:200]),
                                           'cases': [dump(list(c_[:4]) + [[]])], 'observed': o[:400]})
            except Stage as e:
                thorough_extra['thread_sanitizer'] = {'build_failed': e.detail[-300:]}

    if cases and st.get('cxx_exe') and cxx_results is not None and not os.environ.get('VERIF_NO_NDEBUG'):
        # the build configuration as an input: the same sample of cases through drivers compiled the way users compile -
        #   "release": g++ -std=c++17 -O2 -DNDEBUG (another language standard, assertions off, more inlining and reordering),
        #   "clang":   clang++ -std=c++11 -O1 (another compiler: the order of evaluation of function arguments is unspecified and differs)
        # - both still without contraction or fast-math - must give the observations of the ordinary build, bit for bit
        ref = {r['case'][0]: r for r in cxx_results}
        nd_cases = [c_ for c_ in cases if c_[0] in ref and not textcmp.has_ub(ref[c_[0]]['model']) and not (isinstance(ref[c_[0]]['cxx'], list) and ref[c_[0]]['cxx'] and ref[c_[0]]['cxx'][0] in ('crash', 'exception'))]
        # (a text that contains inf / nan cannot be read back, and what the reader then does depends on the garbage it reads: excluded)
        def unreadable(o):
            return any(isinstance(x, list) and x and x[0] in ('text', 'wrote') and any(isinstance(y, bytes) and (b'inf' in y or b'nan' in y) for y in x[1:]) for x in (o if isinstance(o, list) else [])) \
                or b'inf' in dump(o).encode() and 'stream_failed' in dump(o)
        nd_cases = [c_ for c_ in nd_cases if not unreadable(ref[c_[0]]['cxx'])]
        if a.tier != 'thorough' and len(nd_cases) > 120:
            rng4 = random.Random(seed * 15485863 + int(pid[1:])); nd_cases = rng4.sample(nd_cases, 120)
        lines = [dump([i, t, cmd, args, []]) for (i, t, cmd, args) in nd_cases]
        for vname, vflags, vcxx, vwhat in (('release', '-std=c++17 -O2 -DNDEBUG', None, 'compiled as a release (g++ -std=c++17 -O2 -DNDEBUG)'),
                                           ('clang', '', 'clang++', 'compiled with clang++ (-std=c++11 -O1)')):
            try:
                t1 = time.time()
                nd = tie.cxx_build(vflags + (' -DVERIF_MPI' if use_mpi else ''), vname + ('-mpi' if use_mpi else ''), cxx=vcxx)
                env = dict(os.environ); env['VERIF_TMP'] = os.path.join(BUILD, 'tmp')
                outs = tie.run_driver(nd, lines, env=env, chunk=10, timeout=3000, cpu_limit=300)
                nd_bad = []
                for c_, o in zip(nd_cases, outs):
                    try: po = parse(o)
                    except Exception: po = None
                    got = po[1] if isinstance(po, list) and len(po) > 1 else o[:200]
                    if got != ref[c_[0]]['cxx']:
                        nd_bad.append((c_, got))
                thorough_extra[vname + '_build'] = {'cases': len(nd_cases), 'differing': len(nd_bad), 'wall_s': round(time.time() - t1, 1)}
                for c_, got in nd_bad[:3]:
                    d = textcmp.compare(got, ref[c_[0]]['cxx'], FMTS.get(c_[1], FMTS['d'])) if isinstance(got, list) else [str(got)[:200]]
                    sanitizer_viol.append({'what': '%s the library behaves differently on this input (that build vs the ordinary g++ -std=c++11 -O1 build): %s' % (vwhat, d[:3]),
                                           'cases': [dump(list(c_[:4]) + [[]])], 'observed': dump(got)[:400] if isinstance(got, list) else str(got)[:400]})
            except Stage as e:
                broken.append({'stage': 'cxx', 'detail': 'the library does not build %s: %s' % (vwhat, e.detail[-600:])})

    if cases and st.get('cxx_exe') and cxx_results is not None and pid in ('C01', 'C07', 'C09', 'C17') and not os.environ.get('VERIF_NO_NDEBUG'):
        # floating-point contraction as the user's compiler may apply it (clang++ -O2 -mfma -ffp-contract=on fuses a*b+c): the model does
        # not describe such a build bit for bit, so only the property's oracle is evaluated on its outputs (geometric / discrete
        # properties whose oracles do not depend on the last bit: a point lies in its reported bin, a selected channel is enabled, ...)
        try:
            t1 = time.time()
            fma = tie.cxx_build('-O2 -mfma -ffp-contract=on' + (' -DVERIF_MPI' if use_mpi else ''), 'clangfma' + ('-mpi' if use_mpi else ''), cxx='clang++')
            env = dict(os.environ); env['VERIF_TMP'] = os.path.join(BUILD, 'tmp')
            sel = [(c_, m_) for c_, m_ in zip(cases, metas) if not m_.get('model_only')]
            if a.tier != 'thorough' and len(sel) > 600:
                rng5 = random.Random(seed * 32452843 + int(pid[1:])); sel = rng5.sample(sel, 600)
            lines = [dump([i, t, cmd, args, []]) for ((i, t, cmd, args), m_) in sel]
            outs = tie.run_driver(fma, lines, env=env, chunk=50, timeout=3000, cpu_limit=300)
            res5 = []
            for (c_, m_), o in zip(sel, outs):
                try: po = parse(o)[1]
                except Exception: po = ['crash']
                res5.append({'case': c_, 'cxx': po, 'model': None})
            v5 = props.oracle(pid, res5, [m_ for c_, m_ in sel], dict(st, cxx_exe=fma))
            thorough_extra['contraction_build'] = {'cases': len(sel), 'oracle_violations': len(v5), 'wall_s': round(time.time() - t1, 1)}
            for v in v5[:3]:
                sanitizer_viol.append(dict(v, what='compiled with clang++ -O2 -mfma (floating-point contraction on): ' + v['what']))
            if pid == 'C09':
                # channel selection must stay valid (an existing, enabled channel; the interval of the canonical number) even when the user
                # compiles with -ffast-math, as production Monte Carlo codes often do: judged by the oracle alone
                t1 = time.time()
                fm = tie.cxx_build('-O2 -ffast-math' + (' -DVERIF_MPI' if use_mpi else ''), 'fastmath' + ('-mpi' if use_mpi else ''))
                outs = tie.run_driver(fm, lines, env=env, chunk=50, timeout=3000, cpu_limit=300)
                res6 = []
                for (c_, m_), o in zip(sel, outs):
                    try: po = parse(o)[1]
                    except Exception: po = ['crash']
                    res6.append({'case': c_, 'cxx': po, 'model': None})
                v6 = props.oracle(pid, res6, [m_ for c_, m_ in sel], dict(st, cxx_exe=fm))
                thorough_extra['fast_math_build'] = {'cases': len(sel), 'oracle_violations': len(v6), 'wall_s': round(time.time() - t1, 1)}
                for v in v6[:3]:
                    sanitizer_viol.append(dict(v, what='compiled with g++ -O2 -ffast-math: ' + v['what']))
        except Stage as e:
            thorough_extra['contraction_build'] = {'build_failed': e.detail[-300:]}
        except Exception:
            thorough_extra['contraction_build'] = {'oracle_failed': traceback.format_exc()[-300:]}

    # C++-only differential / oracle stage (things the model cannot execute: real engines, real MPI, system calls)
    try:
        extra = props.extra_checks(pid, rng, a.tier, st, cov) if st.get('cxx_exe') else []
    except Exception:
        # the C++-only stage itself failed on this tree (the implementation does something the stage was not prepared for): not shown to
        # violate the property, but no longer shown to hold either
        extra = []
        broken.append({'stage': 'correspondence', 'detail': 'the C++-only stage of this check failed on this tree: ' + traceback.format_exc()[-700:]})
    violations = list(sanitizer_viol)
    for v in extra:
        if v.get('tie'):
            # the implementation differs from the model without the property being shown violated
            broken.append({'stage': 'correspondence', 'detail': v['what'], 'observed': v.get('observed')})
        else:
            violations.append(v)

    # the property's executable oracle on the implementation's outputs: always evaluated, and the
    # search for a concrete failing input when a proof obligation or the correspondence broke
    if cxx_results is not None:
        try:
            violations += props.oracle(pid, cxx_results, metas, st)
        except Exception:
            log('oracle crashed:\n' + traceback.format_exc())

    wall = time.time() - t0
    kf = known_findings(pid)
    open_kf = [f for f in kf if f['status'] == 'open']
    # violations matching an open known finding are reported as such
    new_viol = []
    for v in violations:
        m = [f for f in open_kf if props.matches(f, v)]
        if not m:
            new_viol.append(v)
    evidence = {
        'property_id': pid, 'tier': a.tier, 'seed': seed, 'level': 'proof',
        'coverage': {
            'obligations': proofs['obligations'], 'discharged': proofs['discharged'],
            'checker_cmd': 'for f in %s; do coqc -Q . HepMC $f; done   (in coq/, after coq_makefile -f _CoqProject -o Makefile && make -j16; full .vo)' % proofs['file'],
            'trusted_base': sorted(set(['Coq 8.16.1 kernel (vm_compute used; native_compute not used)',
                              'translator/cxx2gallina.py + clang AST dump', 'extraction (ExtrOcamlBasic only) + OCaml 4.13',
                              'correspondence harness (harness/, tools/)'] +
                             ['axiom %s [%s]' % (a_, ALLOWED_AXIOMS.get(a_, '?')) for l in proofs['axioms'].values() for a_ in l])),
            'theorems': proofs['theorems'], 'axioms_per_theorem': proofs['axioms'],
            'evaluations': cov['evaluations'], 'distinct_nontrivial': cov['distinct_nontrivial'],
            'rule': P.get('rule', ''), 'samples': cov['samples'][:4] or [{'obligations': proofs['theorems'][:5]}],
            'input_classes': cov['classes'], 'correspondence_diffs': len(diffs),
            'extra': dict(cov.get('extra', {}), **thorough_extra), 'vm_compute_crosscheck': cov.get('vm_compute_crosscheck', {}),
            'stages': {k: st[k][0] for k in ('translator', 'coq', 'extraction', 'cxx')},
            'prepare_s': round(st.get('prepare_s', 0), 1),
        },
        'assumptions': P.get('assumptions', []),
        'wall_s': round(wall, 2),
        'violations': len(new_viol) + (1 if broken and not new_viol else 0),
    }
    if not a.no_evidence:
        os.makedirs(os.path.join(VERIF, 'evidence'), exist_ok=True)
        json.dump(evidence, open(os.path.join(VERIF, 'evidence', pid + '.json'), 'w'), indent=1)

    log('%s tier=%s seed=%d: %d/%d theorems, %d cases (%d distinct non-trivial), %d correspondence differences, %.1fs'
        % (pid, a.tier, seed, proofs['discharged'], proofs['obligations'], cov['evaluations'], cov['distinct_nontrivial'], len(diffs), wall))
    if not broken and not new_viol:
        for f in open_kf:
            log('KNOWN-FINDING: property=%s %s' % (pid, f['what']))
        sys.exit(0)
    for b in broken:
        log('BROKEN %s: %s' % (b['stage'], b['detail'][:1200]))
    if new_viol:
        v = new_viol[0]
        path = write_replay(pid, seed, {'property': pid, 'kind': 'failing-input', 'what': v['what'], 'cases': v.get('cases', []),
                                        'observed': v.get('observed'), 'broken': broken, 'all': [x['what'] for x in new_viol[:20]]}, a.tier)
        log('VIOLATION property=%s replay=%s' % (pid, path))
    else:
        path = write_replay(pid, seed, {'property': pid, 'kind': 'no-failing-input-found', 'broken': broken,
                                        'cases': [d['case'] for d in diffs[:5]], 'diffs': diffs[:5]}, a.tier)
        log('VIOLATION property=%s replay=%s no-failing-input-found' % (pid, path))
    sys.exit(1)

if __name__ == '__main__':
    main()
