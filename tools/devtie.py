#!/usr/bin/env python3
"""development helper: run the correspondence stage of some properties and print differences"""
import sys, os, random, time
sys.path.insert(0, os.path.dirname(os.path.abspath(__file__)))
import tie, props, textcmp
from fp import FMTS
from sxp import dump
ml = tie.extract_model(); cx = tie.cxx_build(); cxm = None
tier = os.environ.get('VERIF_TIER', 'quick'); seed = int(os.environ.get('VERIF_SEED', '1'))
for pid in sys.argv[1:]:
    t0 = time.time()
    rng = random.Random(seed * 1000003 + int(pid[1:]))
    cases, metas = props.generate(pid, rng, tier)
    use_mpi = props.PROPS[pid].get('mpi') or pid in ('C02', 'C04', 'C10', 'C12', 'C16', 'C19', 'C20')
    if use_mpi and cxm is None: cxm = tie.cxx_build('-DVERIF_MPI', 'mpi')
    res = tie.run_pair(cases, cxm if use_mpi else cx, ml)
    nd = 0
    for r in res:
        d = textcmp.compare(r['cxx'], r['model'], FMTS.get(r['case'][1], FMTS['d']))
        if d:
            nd += 1
            if nd <= 3:
                print('DIFF', d[:3]); print('  case', dump(list(r['case']))[:700]); print('  cxx  ', dump(r['cxx'])[:500]); print('  model', dump(r['model'])[:500])
    viol = props.oracle(pid, res, metas, {})
    cov = {}
    viol += props.extra_checks(pid, rng, tier, {'cxx_exe': cx, 'model_exe': ml}, cov)
    if cov: print('  extra', cov)
    print('%s: %d cases, %d diffs, %d oracle violations, %.1fs' % (pid, len(cases), nd, len(viol), time.time() - t0))
    for v in viol[:3]: print('  ORACLE', v['what'][:300])
