"""S-expression wire format (see harness/ml/driver.ml): Python side.
Values: list -> ( ... ); int -> #hex; bytes -> "hexbytes"; str -> verbatim token (symbol or %float)."""

def dump(x):
    if isinstance(x, (list, tuple)):
        return '(' + ' '.join(dump(e) for e in x) + ')'
    if isinstance(x, bool):
        return '#1' if x else '#0'
    if isinstance(x, int):
        return '#%x' % x
    if isinstance(x, bytes):
        return '"' + x.hex() + '"'
    return x

def parse(line):
    pos = 0
    n = len(line)
    def item():
        nonlocal pos
        while pos < n and line[pos] in ' \t\r\n':
            pos += 1
        if line[pos] == '(':
            pos += 1
            out = []
            while True:
                while pos < n and line[pos] in ' \t\r\n':
                    pos += 1
                if line[pos] == ')':
                    pos += 1
                    return out
                out.append(item())
        if line[pos] == '"':
            j = line.index('"', pos + 1)
            s = bytes.fromhex(line[pos + 1:j]); pos = j + 1
            return s
        j = pos
        while j < n and line[j] not in ' ()\t\r\n':
            j += 1
        t = line[pos:j]; pos = j
        if t[0] == '#':
            return int(t[1:], 16)
        return t
    return item()
