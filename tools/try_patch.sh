#!/bin/sh
# development helper: apply a patch to a scratch copy of /repo and run checks against it
#   try_patch.sh <patch.diff> <Cxx> [<Cxx> ...]      (VERIF_TIER / VERIF_SEED honoured)
# The scratch copy lives under /tmp and is removed afterwards; /repo itself is never touched.
set -e
patch=$(readlink -f "$1"); shift
here=$(dirname "$(readlink -f "$0")")
scratch=$(mktemp -d /tmp/hepmc_try.XXXXXX)
trap 'rm -rf "$scratch"' EXIT
git -C /repo archive HEAD | tar -x -C "$scratch"
( cd "$scratch" && git init -q . && git apply --whitespace=nowarn "$patch" ) || { echo "patch does not apply"; exit 2; }
rc=0
for p in "$@"; do
  HEPMC_REPO="$scratch" python3 "$here/check.py" --property "$p" --tier "${VERIF_TIER:-quick}" --no-evidence 2>&1 | grep -E "^(C[0-9]+ tier|BROKEN|VIOLATION|KNOWN)" | cut -c1-400 || true
done
# restore the generated translation of the real tree
python3 "$here/../translator/cxx2gallina.py" "$here/../coq/Translated.v" >/dev/null 2>&1 || true
