#!/bin/sh
# soak: every check of MANIFEST.json under several seeds on the unchanged tree; prints one line per run and
# every BROKEN / VIOLATION line.  usage: sweep.sh <first seed> <last seed> [tier]
cd "$(dirname "$0")/.."
a=${1:-2}; b=${2:-5}; tier=${3:-quick}
python3 tools/check.py --setup >/dev/null 2>&1
for seed in $(seq $a $b); do
  for p in $(python3 -c "import json;print(' '.join(c['property_id'] for c in json.load(open('MANIFEST.json'))['checks']))"); do
    out=$(VERIF_SEED=$seed python3 tools/check.py --property $p --tier $tier --no-evidence 2>&1); rc=$?
    echo "seed=$seed $p rc=$rc :: $(echo "$out" | grep -E "^C[0-9]+ tier" | cut -c1-150)"
    [ $rc -ne 0 ] && echo "$out" | grep -E "^(BROKEN|VIOLATION)" | cut -c1-500
    if [ $rc -ne 0 ]; then f=$(echo "$out" | sed -n 's/.*replay=\([^ ]*\).*/\1/p' | head -1); [ -n "$f" ] && python3 -c "import json,sys; r=json.load(open('$f')); print('   WHAT', (r.get('what') or '')[:400]); print('   CASE', (r.get('cases') or [''])[0][:600])"; fi
  done
done
echo SWEEP DONE
