#!/usr/bin/env python3
"""prints the markdown table of seeded breaking changes (from seeded/*/meta.json) used in DESIGN.md section 10"""
import json, os, glob
VERIF = os.path.dirname(os.path.dirname(os.path.abspath(__file__)))
rows = []
for f in sorted(glob.glob(os.path.join(VERIF, 'seeded', 'C*-*', 'meta.json'))):
    m = json.load(open(f))
    pid = m['property']; name = m['name']
    t = m.get('tests_with_patch') or {}
    chk = m.get('checks', {})
    caught = [p for p, c in chk.items() if c.get('caught')]
    own = chk.get(pid, {})
    how = ''
    for l in own.get('lines', []):
        if l.startswith('BROKEN'):
            how = l.split(':')[0].replace('BROKEN ', ''); break
    kind = (own.get('replay') or {}).get('kind') or ''
    if own.get('caught') and not how: how = 'oracle'
    earlier = m.get('earlier_evaluations') or []
    note = ''
    if earlier and not any(e['caught'].get(pid) for e in earlier) and own.get('caught'):
        note = 'missed at first; caught after strengthening'
    rows.append((pid, name, ', '.join(m.get('files_changed', [])).replace('include/hep/mc/', ''), '%s/19' % t.get('ok', '?'), 'yes' if m.get('demo_confirms') else 'NO',
                 'yes' if own.get('caught') else 'NO', how + (' + failing input' if kind == 'failing-input' else ' (no-failing-input-found)' if kind else ''), note))
print('| property | change | files | tests pass | demo confirms | caught | by | note |')
print('|---|---|---|---|---|---|---|---|')
for r in rows:
    print('| ' + ' | '.join(r) + ' |')
print()
print('%d changes, %d confirmed, %d caught by the check of their property' % (len(rows), sum(1 for r in rows if r[4] == 'yes'), sum(1 for r in rows if r[5] == 'yes')))
