#!/usr/bin/env python3
"""prints the markdown table of seeded breaking changes (from seeded/*/meta.json) used in DESIGN.md section 10"""
import json, os, glob
VERIF = os.path.dirname(os.path.dirname(os.path.abspath(__file__)))
# the latest evaluation of every change on the current checks: seeded/catch_matrix*.json (seed 1), else the evaluation recorded in meta.json
matrix = {}
for f in sorted(glob.glob(os.path.join(VERIF, 'seeded', 'catch_matrix*.json'))):
    for k, v in json.load(open(f)).items():
        matrix.setdefault(k, {}).update(v)
rows = []
for f in sorted(glob.glob(os.path.join(VERIF, 'seeded', 'C*-*', 'meta.json'))):
    m = json.load(open(f))
    pid = m['property']; name = m['name']
    t = m.get('tests_with_patch') or {}
    chk = m.get('checks', {})
    caught = [p for p, c in chk.items() if c.get('caught')]
    own = chk.get(pid, {})
    how = ''
    for l in own.get('lines', []):
        if l.startswith('BROKEN'):
            how = l.split(':')[0].replace('BROKEN ', ''); break
    kind = (own.get('replay') or {}).get('kind') or ''
    if own.get('caught') and not how: how = 'oracle'
    mx = matrix.get('%s-%s' % (pid, name), {}).get('1')
    if isinstance(mx, dict):
        own = {'caught': mx['caught']}; how = mx.get('stage') or ('oracle' if mx['caught'] else ''); kind = 'failing-input' if mx.get('replay') == 'failing input' else mx.get('replay', '')
    first = (m.get('earlier_evaluations') or [{}])[0].get('caught', {}).get(pid) if m.get('earlier_evaluations') else m.get('checks', {}).get(pid, {}).get('caught')
    earlier = m.get('earlier_evaluations') or []
    note = ''
    if m.get('after_strengthening', {}).get('caught'): own = {'caught': True}; how = how or 'engine harness'
    if first is False and own.get('caught'):
        note = 'missed at first; caught after strengthening'
    if m.get('obsolete'):
        note = (note + '; ' if note else '') + 'obsolete since the repair a4097d4 (edits the removed formula); last evaluated on b03b0a6'
        if m.get('after_strengthening', {}).get('caught'): own = {'caught': True}; how = how or 'engine harness'
    if m.get('rebased'):
        note = (note + '; ' if note else '') + 'patch re-created on top of a4097d4'
    rows.append((pid, name, ', '.join(m.get('files_changed', [])).replace('include/hep/mc/', ''), '%s/19' % t.get('ok', '?'), 'yes' if m.get('demo_confirms') else 'NO',
                 'yes' if own.get('caught') else 'NO', how + (' + failing input' if kind == 'failing-input' else ' (no-failing-input-found)' if kind else ''), note))
print('| property | change | files | tests pass | demo confirms | caught | by | note |')
print('|---|---|---|---|---|---|---|---|')
for r in rows:
    print('| ' + ' | '.join(r) + ' |')
print()
print('%d changes, %d confirmed, %d caught by the check of their property' % (len(rows), sum(1 for r in rows if r[4] == 'yes'), sum(1 for r in rows if r[5] == 'yes')))
