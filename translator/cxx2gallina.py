#!/usr/bin/env python3
"""clang AST (JSON) -> Gallina for the straight-line arithmetic leaf functions of hep-mc.

Run on every check: the output (coq/Translated.v) is what the hand-written model imports, so the
theorems about the work split, the Kahan update and the estimator formulas are re-checked against
what /repo's headers say now.

The accepted language is deliberately tiny: parameters, const locals, assignments (also compound
`+=`) to by-reference parameters, + - * / %, <, ?:, integer literals, static_cast / implicit
integral conversions, T(expr) conversions, std::max, calls to other translated functions, member
reads through `this`.  Anything else aborts with "unsupported construct", which the check reports
as a broken tie.

Sorts: 'u' = std::size_t (emitted over Z with an explicit wrap64 around every operation),
'i' = int (Z, no wrap: the theorems carry the range hypotheses), 'T' = the numeric type (emitted
over an arbitrary Num record K), 'b' = bool.
"""
import json, subprocess, sys, os, re

REPO = os.environ.get("HEPMC_REPO", "/repo")

class Unsupported(Exception):
    pass

def run_clang(header, flt, extra=()):
    src = '#include "%s"\n' % header
    cmd = ["clang++", "-std=c++11", "-I%s/include" % REPO, *extra, "-fsyntax-only", "-x", "c++",
           "-Xclang", "-ast-dump=json", "-Xclang", "-ast-dump-filter=%s" % flt, "-"]
    p = subprocess.run(cmd, input=src.encode(), stdout=subprocess.PIPE, stderr=subprocess.PIPE)
    if p.returncode != 0:
        raise Unsupported("clang failed on %s: %s" % (header, p.stderr.decode()[:400]))
    s = p.stdout.decode()
    dec = json.JSONDecoder(); i = 0; docs = []
    while i < len(s):
        while i < len(s) and s[i].isspace():
            i += 1
        if i >= len(s):
            break
        d, j = dec.raw_decode(s, i); docs.append(d); i = j
    return docs

def mpi_flags():
    try:
        out = subprocess.run(["mpicxx", "--showme:compile"], stdout=subprocess.PIPE, check=True).stdout.decode().split()
        return out
    except Exception:
        return []

def sort_of_type(q):
    q = q.replace("const ", "").replace(" const", "").replace("&", "").strip()
    if q in ("std::size_t", "unsigned long", "size_t"):
        return 'u'
    if q == "int":
        return 'i'
    if q == "bool":
        return 'b'
    if q == "T":
        return 'T'
    return None

def where(n):
    r = n.get("range", {}).get("begin", {})
    return "line %s col %s" % (r.get("line", r.get("spellingLoc", {}).get("line", "?")), r.get("col", "?"))

class Tr:
    """translate one function body / initialiser; env maps C++ names to (gallina name, sort)"""
    def __init__(self, env, members=None, known_funs=None):
        self.env = dict(env)
        self.members = members or {}
        self.known = known_funs or {}

    def expr(self, n):
        k = n["kind"]
        if k in ("ParenExpr", "ExprWithCleanups", "MaterializeTemporaryExpr"):
            return self.expr(n["inner"][0])
        if k == "ImplicitCastExpr" or k == "CXXStaticCastExpr" or k == "CXXFunctionalCastExpr":
            ck = n.get("castKind")
            g, s = self.expr(n["inner"][0])
            if ck in ("LValueToRValue", "NoOp", "FunctionToPointerDecay"):
                t = sort_of_type(n["type"]["qualType"])
                if ck == "NoOp" and t and t != s:
                    raise Unsupported("NoOp cast changing sort at " + where(n))
                return g, s
            if ck == "IntegralCast":
                t = sort_of_type(n["type"]["qualType"])
                if t == 'u':
                    return ("(wrap64 %s)" % g if s != 'u' else g), 'u'
                if t == 'i' and s == 'i':
                    return g, 'i'
                if t == 'i' and s == 'u':
                    # narrowing to a 32-bit int (implementation-defined before C++20, modular on every supported target)
                    return "(wrap_i32 %s)" % g, 'i'
                raise Unsupported("integral cast to %s at %s" % (n["type"]["qualType"], where(n)))
            raise Unsupported("cast kind %s at %s" % (ck, where(n)))
        if k == "CXXUnresolvedConstructExpr":
            t = sort_of_type(n["type"]["qualType"])
            if t == 'T' and not n.get("inner"):
                return "(zero K)", 'T'
            if t == 'T' and len(n["inner"]) == 1:
                g, s = self.expr(n["inner"][0])
                if s == 'u':
                    return "(ofN K (Z.to_N %s))" % g, 'T'
                if s == 'T':
                    return g, 'T'
                raise Unsupported("T(<%s>) at %s" % (s, where(n)))
            if n["type"]["qualType"].startswith("mc_result<T>"):
                parts = [self.expr(c)[0] for c in n["inner"]]
                return "(" + ", ".join(parts) + ")", 'tuple'
            raise Unsupported("construct %s at %s" % (n["type"]["qualType"], where(n)))
        if k == "IntegerLiteral":
            t = sort_of_type(n["type"]["qualType"])
            if t in ('u', 'i'):
                return "%s" % n["value"], t
            raise Unsupported("literal type at " + where(n))
        if k == "DeclRefExpr":
            name = n["referencedDecl"]["name"]
            if name in self.env:
                return self.env[name]
            raise Unsupported("reference to unknown name %s at %s" % (name, where(n)))
        if k == "MemberExpr":
            if n["inner"][0]["kind"] != "CXXThisExpr":
                raise Unsupported("member of non-this at " + where(n))
            name = n["name"]
            if name in self.members:
                return self.members[name]
            raise Unsupported("unknown member %s at %s" % (name, where(n)))
        if k == "ConditionalOperator":
            c, cs = self.expr(n["inner"][0])
            a, sa = self.expr(n["inner"][1])
            b, sb = self.expr(n["inner"][2])
            if cs != 'b' or sa != sb:
                raise Unsupported("conditional sorts at " + where(n))
            return "(if %s then %s else %s)" % (c, a, b), sa
        if k == "UnaryOperator" and n.get("opcode") == "!":
            a, sa = self.expr(n["inner"][0])
            if sa != 'b':
                raise Unsupported("operand of ! at " + where(n))
            return "(negb %s)" % a, 'b'
        if k == "BinaryOperator":
            op = n["opcode"]
            a, sa = self.expr(n["inner"][0])
            b, sb = self.expr(n["inner"][1])
            if sa != sb:
                raise Unsupported("operand sorts %s %s for %s at %s" % (sa, sb, op, where(n)))
            if sa == 'b':
                f = {'&&': 'andb', '||': 'orb'}.get(op)
                if not f:
                    raise Unsupported("boolean operator %s at %s" % (op, where(n)))
                return "(%s %s %s)" % (f, a, b), 'b'
            if sa == 'T' and op in ('<', '<=', '>', '>=', '==', '!='):
                # IEEE comparisons of the numeric type (false on NaN, except != which is true)
                g = {'<': "(ltb K %s %s)" % (a, b), '<=': "(leb K %s %s)" % (a, b), '>': "(ltb K %s %s)" % (b, a), '>=': "(leb K %s %s)" % (b, a),
                     '==': "(eqb K %s %s)" % (a, b), '!=': "(negb (eqb K %s %s))" % (a, b)}[op]
                return g, 'b'
            if sa == 'T':
                f = {'+': 'add', '-': 'sub', '*': 'mul', '/': 'div'}.get(op)
                if not f:
                    raise Unsupported("T operator %s at %s" % (op, where(n)))
                return "(%s K %s %s)" % (f, a, b), 'T'
            if sa in ('u', 'i'):
                if op in ('<', '>', '<=', '>=', '==', '!='):
                    # the operands are already wrapped values, so the comparison is that of the integers
                    g = {'<': "(%s <? %s)" % (a, b), '>': "(%s <? %s)" % (b, a), '<=': "(%s <=? %s)" % (a, b), '>=': "(%s <=? %s)" % (b, a),
                         '==': "(%s =? %s)" % (a, b), '!=': "(negb (%s =? %s))" % (a, b)}[op]
                    return g, 'b'
                f = {'+': '+', '-': '-', '*': '*', '/': '/', '%': 'mod'}.get(op)
                if not f:
                    raise Unsupported("integer operator %s at %s" % (op, where(n)))
                if sa == 'i' and op in ('/', '%'):
                    # signed division truncates towards zero
                    return "(%s %s %s)" % ('Z.quot' if op == '/' else 'Z.rem', a, b), 'i'
                e = "(%s %s %s)" % (a, f, b)
                return ("(wrap64 %s)" % e if sa == 'u' else e), sa
            raise Unsupported("operator %s on %s at %s" % (op, sa, where(n)))
        if k == "CallExpr":
            callee = n["inner"][0]
            while callee["kind"] in ("ImplicitCastExpr", "ParenExpr"):
                callee = callee["inner"][0]
            name = callee.get("referencedDecl", {}).get("name") or callee.get("name")
            args = [self.expr(c) for c in n["inner"][1:]]
            if name in ("fabs", "sqrt") and len(args) == 1 and args[0][1] == 'T':
                return "(%s K %s)" % ({'fabs': 'fabs', 'sqrt': 'fsqrt'}[name], args[0][0]), 'T'

            if name == "max" and len(args) == 2 and all(s in ('u',) for _, s in args):
                return "(Z.max %s %s)" % (args[0][0], args[1][0]), 'u'
            if name in self.known:
                sorts, rs = self.known[name]
                if [s for _, s in args] != sorts:
                    raise Unsupported("argument sorts of %s at %s" % (name, where(n)))
                return "(%s %s)" % (name, " ".join(a for a, _ in args)), rs
            raise Unsupported("call to %s at %s" % (name, where(n)))
        raise Unsupported("expression kind %s at %s" % (k, where(n)))

    def body(self, stmts, byref, ret_sort):
        """returns Gallina text of the function body"""
        lets = []
        ret = None
        for idx, s in enumerate(stmts):
            k = s["kind"]
            if ret is not None:
                raise Unsupported("statement after return at " + where(s))
            if k == "IfStmt" and not byref:
                # early return: `if (c) return e;` (or `{ return e; }`) without else becomes if c then e else <rest>
                parts = [c for c in s.get("inner", []) if c.get("kind") != "FullComment"]
                if s.get("hasElse") or s.get("hasInit") or s.get("hasVar") or len(parts) != 2:
                    raise Unsupported("if statement with else / init at " + where(s))
                c, sc = self.expr(parts[0])
                if sc != 'b':
                    raise Unsupported("condition sort at " + where(s))
                th = parts[1]
                if th["kind"] == "CompoundStmt":
                    items = [c2 for c2 in th.get("inner", []) if c2.get("kind") != "FullComment"]
                    if len(items) != 1:
                        raise Unsupported("if body at " + where(s))
                    th = items[0]
                if th["kind"] != "ReturnStmt":
                    raise Unsupported("if body at " + where(s))
                g, so = self.expr(th["inner"][0])
                if ret_sort and so != ret_sort:
                    raise Unsupported("return sort at " + where(s))
                rest = self.body(stmts[idx + 1:], byref, ret_sort)
                ret = "if %s then %s else (\n%s)" % (c, g, rest)
                break
            if k == "DeclStmt":
                for v in s["inner"]:
                    if v["kind"] != "VarDecl" or "inner" not in v:
                        raise Unsupported("declaration at " + where(v))
                    init = [c for c in v["inner"] if c["kind"] not in ("FullComment",)][0]
                    g, so = self.expr(init)
                    t = sort_of_type(v["type"]["qualType"])
                    if t is None or t != so:
                        raise Unsupported("local %s of type %s at %s" % (v["name"], v["type"]["qualType"], where(v)))
                    lets.append((v["name"], g))
                    self.env[v["name"]] = (v["name"], t)
            elif k == "BinaryOperator" and s["opcode"] == "=":
                lhs = s["inner"][0]
                if lhs["kind"] != "DeclRefExpr" or lhs["referencedDecl"]["name"] not in byref:
                    raise Unsupported("assignment target at " + where(s))
                name = lhs["referencedDecl"]["name"]
                g, so = self.expr(s["inner"][1])
                if so != self.env[name][1]:
                    raise Unsupported("assignment sort at " + where(s))
                lets.append((name, g))
            elif k == "CompoundAssignOperator":
                lhs = s["inner"][0]
                if lhs["kind"] != "DeclRefExpr" or lhs["referencedDecl"]["name"] not in byref:
                    raise Unsupported("assignment target at " + where(s))
                name = lhs["referencedDecl"]["name"]
                g, so = self.expr(s["inner"][1])
                if so != 'T' or self.env[name][1] != 'T':
                    raise Unsupported("compound assignment sort at " + where(s))
                f = {'+=': 'add', '-=': 'sub', '*=': 'mul', '/=': 'div'}.get(s["opcode"])
                if not f:
                    raise Unsupported("compound operator at " + where(s))
                lets.append((name, "(%s K %s %s)" % (f, name, g)))
            elif k == "ReturnStmt":
                g, so = self.expr(s["inner"][0])
                if ret_sort and so != ret_sort:
                    raise Unsupported("return sort at " + where(s))
                ret = g
            else:
                raise Unsupported("statement kind %s at %s" % (k, where(s)))
        if ret is None:
            if not byref:
                raise Unsupported("no return value")
            ret = "(" + ", ".join(byref) + ")"
        elif byref:
            raise Unsupported("both return value and by-reference results")
        return "".join("  let %s := %s in\n" % (n, g) for n, g in lets) + "  " + ret

GT = {'u': 'Z', 'i': 'Z', 'T': 'K', 'b': 'bool'}

def find(node, pred):
    if pred(node):
        yield node
    for c in node.get("inner", []):
        yield from find(c, pred)

def function_decl(docs, name, cls=None):
    cands = []
    for d in docs:
        for f in find(d, lambda n: n.get("kind") in ("FunctionDecl", "CXXMethodDecl") and n.get("name") == name
                      and any(c.get("kind") == "CompoundStmt" for c in n.get("inner", []))):
            cands.append(f)
    if len(cands) != 1:
        raise Unsupported("expected exactly one definition of %s, found %d" % (name, len(cands)))
    return cands[0]

def translate_function(docs, name, gname, known, uses_K, members=None, ret_sort=None):
    f = function_decl(docs, name)
    params = [c for c in f["inner"] if c["kind"] == "ParmVarDecl"]
    env = {}; byref = []; sig = []
    if members:
        for m, s in members:
            sig.append("(%s : %s)" % (m, GT[s]))
    for i, p in enumerate(params):
        q = p["type"]["qualType"]
        s = sort_of_type(q)
        if "name" not in p:
            # unnamed (unused) parameter: keep its position in the signature under a fresh binder
            p = dict(p, name="unnamed_arg%d" % i)
        if s is None:
            raise Unsupported("parameter %s of type %s" % (p["name"], q))
        env[p["name"]] = (p["name"], s)
        sig.append("(%s : %s)" % (p["name"], GT[s]))
        if "&" in q:
            byref.append(p["name"])
    tr = Tr(env, members={m: (m, s) for m, s in (members or [])}, known_funs=known)
    body = [c for c in f["inner"] if c["kind"] == "CompoundStmt"][0].get("inner", [])
    text = tr.body(body, byref, ret_sort)
    kp = "(K : Num) " if uses_K else ""
    return "Definition %s %s%s :=\n%s.\n" % (gname, kp, " ".join(sig), text)

def translate_vardecl(docs, var, gname, params, known, expect=1, members=None, uses_K=False):
    """initialiser of local variable `var`; its free names must be exactly `params` [(name, sort)] (and the members given)"""
    cands = []
    for d in docs:
        cands += list(find(d, lambda n: n.get("kind") == "VarDecl" and n.get("name") == var and "inner" in n))
    if len(cands) != expect:
        raise Unsupported("expected %d declaration(s) of %s, found %d" % (expect, var, len(cands)))
    outs = []
    for v in cands:
        tr = Tr({n: (n, s) for n, s in params}, members={m: (m, s) for m, s in (members or [])}, known_funs=known)
        init = [c for c in v["inner"] if c["kind"] != "FullComment"][0]
        g, so = tr.expr(init)
        t = sort_of_type(v["type"]["qualType"])
        if t != so:
            raise Unsupported("sort of %s" % var)
        sig = list(members or []) + list(params)
        outs.append("Definition %s %s%s : %s :=\n  %s.\n" % (gname, "(K : Num) " if uses_K else "", " ".join("(%s : %s)" % (n, GT[s]) for n, s in sig), GT[t], g))
    return outs

INT_WIDTH = {"std::size_t": 64, "size_t": 64, "unsigned long": 64, "std::uint64_t": 64, "uint64_t": 64, "unsigned long long": 64, "std::uintmax_t": 64,
             "std::uint_fast64_t": 64, "std::uint_least64_t": 64,
             "long": 63, "long long": 63, "std::int64_t": 63, "std::ptrdiff_t": 63, "std::ssize_t": 63,
             "unsigned int": 32, "unsigned": 32, "std::uint32_t": 32, "uint32_t": 32, "std::uint_least32_t": 32, "std::uint_fast32_t": 64,
             "int": 31, "std::int32_t": 31, "std::uint16_t": 16, "uint16_t": 16, "unsigned short": 16, "short": 15, "std::int16_t": 15,
             "std::uint8_t": 8, "uint8_t": 8, "unsigned char": 8, "char": 7, "signed char": 7, "std::int8_t": 7, "bool": 1,
             "float": 24, "double": 53, "long double": 64}

def width_of_type(q):
    """bits in which a declared type counts exactly (None: not a counter type we know, e.g. the numeric type T or a class)"""
    q = q.replace("const ", "").replace(" const", "").replace("&", "").replace("volatile ", "").strip()
    m = re.match(r"^std::(?:vector|array|deque|valarray)<(.*?)(?:,\s*\d+)?>$", q)
    if m:
        q = m.group(1).strip()
    return INT_WIDTH.get(q)

def counter_widths():
    """the declared types of everything that counts evaluations: members of mc_result and of both accumulators, and every member, local
    variable and parameter named *calls* in the headers the integrators are made of"""
    seen = {}
    def note(key, q):
        w = width_of_type(q)
        if w is None:
            if q.strip() in ("T", "const T", "T const", "auto", "const auto", "auto const") or "T" == q.replace("const", "").replace("&", "").strip():
                # a counter held in the numeric type (or deduced): exact only up to the mantissa - recorded as width 0 = unknown
                if q.replace("const", "").replace("&", "").strip() == "T": w = 0
                else: return
            else:
                return
        seen[key] = min(seen.get(key, 999), w)
    for hdr, flt, classes in (("hep/mc/accumulator.hpp", "hep::accumulator", ("accumulator",)), ("hep/mc/mc_result.hpp", "hep::mc_result", ("mc_result",))):
        docs = run_clang(hdr, flt)
        for d in docs:
            for rec in find(d, lambda n: n.get("kind") in ("CXXRecordDecl", "ClassTemplateSpecializationDecl", "ClassTemplatePartialSpecializationDecl") and "inner" in n and n.get("name") in classes):
                for f in rec["inner"]:
                    if f.get("kind") == "FieldDecl" and "calls" in f.get("name", ""):
                        note("%s::%s" % (rec["name"], f["name"]), f["type"]["qualType"])
    for hdr in ("accumulator", "mc_helper", "mc_result", "plain", "vegas", "multi_channel", "distribution_result", "plain_result", "vegas_result", "multi_channel_result",
                "chkpt", "callback", "multi_channel_summary"):
        docs = run_clang("hep/mc/%s.hpp" % hdr, "hep::")
        for d in docs:
            for v in find(d, lambda n: n.get("kind") in ("VarDecl", "ParmVarDecl", "FieldDecl") and "calls" in n.get("name", "") and "type" in n):
                note("%s" % v["name"], v["type"]["qualType"])
    for hdr in ("mpi_plain", "mpi_vegas", "mpi_multi_channel", "mpi_helper"):
        docs = run_clang("hep/mc/%s.hpp" % hdr, "hep::", mpi_flags())
        for d in docs:
            for v in find(d, lambda n: n.get("kind") in ("VarDecl", "ParmVarDecl", "FieldDecl") and "calls" in n.get("name", "") and "type" in n):
                note("%s" % v["name"], v["type"]["qualType"])
    if not any(k.startswith("mc_result::") for k in seen) or not any(k.startswith("accumulator::") for k in seen):
        raise Unsupported("counter members of mc_result / accumulator not found")
    rows = "; ".join('("%s"%%string, %d)' % (k, w) for k, w in sorted(seen.items()))
    return ("(* declared width (bits counted exactly) of every member, local and parameter that counts evaluations; 0 = held in the numeric type *)\n"
            "Definition counter_widths : list (string * Z) :=\n  [%s].\n" % rows)

HEADER = """(* GENERATED by translator/cxx2gallina.py from %s/include -- do not edit.
   Regenerated on every check run; the hand-written model imports these definitions. *)
From Coq Require Import ZArith String List.
From HepMC Require Import Num.
Import ListNotations.
Local Open Scope Z_scope.

Definition wrap64 (z : Z) : Z := z mod 2 ^ 64.
Definition wrap_i32 (z : Z) : Z := (z + 2 ^ 31) mod 2 ^ 32 - 2 ^ 31.

"""

def main(out):
    mpi = mpi_flags()
    parts = [HEADER % REPO]
    gh = run_clang("hep/mc/generator_helper.hpp", "hep::")
    known = {}
    parts.append("(* generator_helper.hpp *)\n")
    parts.append(translate_function(gh, "discard_before", "discard_before", known, False, ret_sort='u'))
    known["discard_before"] = (['u', 'u', 'u'], 'u')
    parts.append(translate_function(gh, "discard_after", "discard_after", known, False, ret_sort='u'))
    for hdr, gname in (("mpi_plain", "sub_calls_plain"), ("mpi_vegas", "sub_calls_vegas"),
                       ("mpi_multi_channel", "sub_calls_multi_channel")):
        docs = run_clang("hep/mc/%s.hpp" % hdr, "sub_calls", mpi)
        parts.append("(* %s.hpp *)\n" % hdr)
        parts += translate_vardecl(docs, "sub_calls", gname, [("calls", 'u'), ("rank", 'i'), ("world", 'i')], known)
    acc = run_clang("hep/mc/accumulator.hpp", "hep::accumulate")
    parts.append("(* accumulator.hpp: returns the final (sum, sum_of_squares, compensation) *)\n")
    parts.append(translate_function(acc, "accumulate", "accumulate", known, True))
    mr = run_clang("hep/mc/mc_result.hpp", "hep::")
    parts.append("(* mc_result.hpp *)\n")
    mem = [("calls_", 'u'), ("sum_", 'T'), ("sum_of_squares_", 'T')]
    parts.append(translate_function(mr, "value", "mc_value", known, True, members=mem, ret_sort='T'))
    parts.append(translate_function(mr, "variance", "mc_variance", known, True, members=mem, ret_sort='T'))
    parts.append("(* returns (calls, non_zero_calls, finite_calls, sum, sum_of_squares) *)\n")
    parts.append(translate_function(mr, "create_result", "create_result", known, True, ret_sort='tuple'))
    cb = run_clang("hep/mc/callback.hpp", "callback")
    parts.append("(* callback.hpp: the decision of the built-in callback from its target and the combined relative error *)\n")
    parts += translate_vardecl(cb, "rel_err_all", "rel_err_all_of", [("err_all", 'T'), ("val_all", 'T')], known, uses_K=True)
    parts += translate_vardecl(cb, "perform_more_iterations", "perform_more_iterations", [("rel_err_all", 'T')], known,
                               members=[("target_rel_err_", 'T')], uses_K=True)
    parts.append(counter_widths())
    text = "\n".join(parts)
    with open(out, "w") as fh:
        fh.write(text)

if __name__ == "__main__":
    try:
        main(sys.argv[1] if len(sys.argv) > 1 else "/dev/stdout")
    except Unsupported as e:
        print("TRANSLATOR: unsupported construct: %s" % e, file=sys.stderr)
        sys.exit(2)
