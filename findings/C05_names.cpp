// C05: distribution names (empty, leading blanks) must survive the text round trip.
#include "hep/mc.hpp"
#include <cstdio>
#include <sstream>
int main() {
  int bad = 0;
  for (std::string name : {std::string(""), std::string("  lead"), std::string("a b ")}) {
    auto f = [](hep::mc_point<double> const& p, hep::projector<double>& pr) { pr.add(0, p.point()[0], 1.0); return 1.0; };
    auto integrand = hep::make_integrand<double>(f, 1, hep::make_dist_params<double>(2, 0.0, 1.0, name));
    auto c = hep::plain(integrand, std::vector<std::size_t>(1, 10), hep::make_plain_chkpt<double>(),
      hep::callback<hep::default_plain_chkpt<double>>(hep::callback_mode::silent));
    std::ostringstream o; c.serialize(o);
    std::istringstream in(o.str());
    auto r = hep::make_plain_chkpt<double, std::mt19937>(in);
    bool ok = !in.fail() && r.results().size() == 1 && r.results()[0].distributions().size() == 1 &&
      r.results()[0].distributions()[0].parameters().name() == name && r.generator() == c.generator();
    std::printf("name '%s': %s\n", name.c_str(), ok ? "round trip ok" : "LOST");
    if (!ok) bad = 1;
  }
  if (bad) std::puts("DEFECT: distribution name breaks the round trip"); else std::puts("OK");
  return bad; }
