// C07: refinement with all-zero adjustment data must leave an adapted grid unchanged.
#include "hep/mc/vegas_pdf.hpp"
#include <cstdio>
#include <vector>
int main() {
  hep::vegas_pdf<double> pdf(1, 4);
  pdf.set_bin_left(0, 1, 0.1); pdf.set_bin_left(0, 2, 0.3); pdf.set_bin_left(0, 3, 0.7);
  auto r = hep::vegas_refine_pdf(pdf, 1.5, std::vector<double>(4, 0.0));
  bool same = true;
  for (std::size_t b = 0; b <= 4; ++b) { std::printf("%g -> %g\n", pdf.bin_left(0, b), r.bin_left(0, b)); same = same && pdf.bin_left(0, b) == r.bin_left(0, b); }
  if (!same) { std::puts("DEFECT: grid changed by an iteration without information"); return 1; }
  std::puts("OK"); return 0; }
