// C11: a coordinate outside the range (huge or +inf) must go to no bin.
#include "hep/mc.hpp"
#include <cstdio>
#include <limits>
int main() {
  int bad = 0;
  for (double x : {1e300, std::numeric_limits<double>::infinity(), 1e19}) {
    auto f = [x](hep::mc_point<double> const&, hep::projector<double>& pr) { pr.add(0, x, 1.0); return 1.0; };
    auto integrand = hep::make_integrand<double>(f, 1, hep::make_dist_params<double>(4, 0.0, 1.0, "d"));
    auto c = hep::plain(integrand, std::vector<std::size_t>(1, 4), hep::make_plain_chkpt<double>(),
      hep::callback<hep::default_plain_chkpt<double>>(hep::callback_mode::silent));
    for (auto const& b : c.results()[0].distributions()[0].results())
      if (b.non_zero_calls() != 0) { std::printf("x = %g landed in a bin\n", x); bad = 1; }
  }
  if (bad) std::puts("DEFECT: out-of-range coordinate binned (undefined float->size_t cast)"); else std::puts("OK");
  return bad; }
