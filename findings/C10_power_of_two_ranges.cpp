// C10 (and, through the MPI discards, C04): for engines whose range is 2^7, 2^14 or 2^53 the library's usage predictor disagreed with
// what std::generate_canonical of libstdc++ consumes (hep-mc rounded log2 R with std::log2, libstdc++ computes log(R)/log(2.0L), which
// is one smaller for these ranges).  Exit 0: predictor = measured cost for every engine below.  Before a4097d4: exit 1.
//   g++ -std=c++11 -O1 -I /repo/include C10_power_of_two_ranges.cpp && ./a.out
#include "hep/mc.hpp"
#include <cstdint>
#include <cstdio>
#include <random>
template <typename E> struct counting
{
    using result_type = typename E::result_type;
    static constexpr result_type min() { return E::min(); }
    static constexpr result_type max() { return E::max(); }
    E e; unsigned long n = 0;
    result_type operator()() { ++n; return e(); }
};
static int bad = 0;
template <typename T, typename E> void probe(char const* name)
{
    counting<E> c; (void) std::generate_canonical<T, std::numeric_limits<T>::digits>(c);
    std::size_t const u = hep::random_number_usage<T, E>();
    std::printf("%-46s predicted %zu, std::generate_canonical took %lu%s\n", name, u, c.n, u == c.n ? "" : "   <-- differs");
    if (u != c.n) ++bad;
}
int main()
{
    probe<double, std::independent_bits_engine<std::mt19937_64, 53, std::uint64_t>>("double, independent_bits_engine<.., 53>");
    probe<double, std::independent_bits_engine<std::mt19937, 7, std::uint32_t>>("double, independent_bits_engine<.., 7>");
    probe<double, std::independent_bits_engine<std::mt19937, 14, std::uint32_t>>("double, independent_bits_engine<.., 14>");
    probe<long double, std::independent_bits_engine<std::mt19937, 7, std::uint32_t>>("long double, independent_bits_engine<.., 7>");
    probe<float, std::independent_bits_engine<std::mt19937, 25, std::uint32_t>>("float, independent_bits_engine<.., 25>");
    probe<double, std::mt19937>("double, mt19937");
    probe<long double, std::ranlux48>("long double, ranlux48");
    return bad ? 1 : 0;
}
