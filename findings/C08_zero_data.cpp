// C08: refinement with all-zero adjustment data must leave the weights unchanged (and finite).
#include "hep/mc/multi_channel_refine_weights.hpp"
#include <cmath>
#include <cstdio>
#include <vector>
int main() {
  std::vector<double> w{0.25, 0.0, 0.75}, d{0.0, 0.0, 0.0};
  auto r = hep::multi_channel_refine_weights(w, d, 0.0, 0.25);
  bool ok = true;
  for (std::size_t i = 0; i != 3; ++i) { std::printf("%g -> %g\n", w[i], r[i]); ok = ok && r[i] == w[i]; }
  if (!ok) { std::puts("DEFECT: weights changed / not finite after an iteration without information"); return 1; }
  std::puts("OK"); return 0; }
