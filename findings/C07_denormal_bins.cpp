// C07: refinement of a valid grid must give non-decreasing boundaries - also for a grid whose bins are
// as narrow as the numeric type allows (here: one and two units of the smallest positive value).
#include "hep/mc.hpp"
#include <cstdio>
#include <limits>
#include <vector>
template <typename T> int check(char const* name) {
  T const d = std::numeric_limits<T>::denorm_min();
  hep::vegas_pdf<T> pdf(1, 4);
  T const x[5] = {T(), d, T(2) * d, T(0.125), T(1)};
  for (std::size_t b = 0; b != 5; ++b) pdf.set_bin_left(0, b, x[b]);
  int bad = 0;
  for (T scale : {T(1), T(0.37), T(3)}) {
    std::vector<T> data = {T(89.625) * scale, T(13.3671875), T(), T()};
    auto r = hep::vegas_refine_pdf(pdf, T(1.5), data);
    for (std::size_t b = 0; b != 4; ++b)
      if (!(r.bin_left(0, b) <= r.bin_left(0, b + 1))) {
        std::printf("%s: boundary %zu = %Lg units > boundary %zu = %Lg units\n", name, b, (long double) (r.bin_left(0, b) / d), b + 1, (long double) (r.bin_left(0, b + 1) / d));
        bad = 1; }
  }
  return bad; }
int main() {
  int bad = check<float>("float") | check<double>("double") | check<long double>("long double");
  if (bad) std::puts("DEFECT: refined grid is not non-decreasing"); else std::puts("OK");
  return bad; }
