// C05: every stored generator must survive the text round trip for every standard engine.
#include "hep/mc.hpp"
#include <cstdio>
#include <sstream>
template <typename R> int one(char const* n) {
  auto f = [](hep::mc_point<double> const& p) { return p.point()[0]; };
  auto c = hep::plain(hep::make_integrand<double>(f, 1), std::vector<std::size_t>(2, 10), hep::make_plain_chkpt<double, R>(),
    hep::callback<hep::plain_chkpt_with_rng<R, double>>(hep::callback_mode::silent));
  std::ostringstream o; c.serialize(o);
  std::istringstream in(o.str());
  auto r = hep::make_plain_chkpt<double, R>(in);
  bool ok = !in.fail() && r.generator() == c.generator();
  std::printf("%s: %s\n", n, ok ? "ok" : "LOST");
  return ok ? 0 : 1; }
int main() {
  int bad = one<std::minstd_rand0>("minstd_rand0") | one<std::minstd_rand>("minstd_rand") | one<std::mt19937>("mt19937") |
    one<std::mt19937_64>("mt19937_64") | one<std::ranlux24_base>("ranlux24_base") | one<std::ranlux48_base>("ranlux48_base") |
    one<std::ranlux24>("ranlux24") | one<std::ranlux48>("ranlux48") | one<std::knuth_b>("knuth_b");
  if (bad) std::puts("DEFECT: generator lost in the round trip"); else std::puts("OK");
  return bad; }
