// C12: the built-in callback with target 0 must never end a run early (constant / zero integrand).
#include "hep/mc.hpp"
#include <cstdio>
int main() {
  int bad = 0;
  for (double cst : {1.0, 0.0}) {
    auto f = [cst](hep::mc_point<double> const&) { return cst; };
    auto r = hep::plain(hep::make_integrand<double>(f, 1), std::vector<std::size_t>(5, 10),
      hep::make_plain_chkpt<double>(), hep::callback<hep::default_plain_chkpt<double>>(hep::callback_mode::silent));
    std::printf("integrand == %g: %zu of 5 iterations\n", cst, r.results().size());
    if (r.results().size() != 5) bad = 1;
  }
  if (bad) std::puts("DEFECT: run ended early without a target precision"); else std::puts("OK");
  return bad; }
