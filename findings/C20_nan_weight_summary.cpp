// C20: finite integrand values whose squares overflow make the adjustment data infinite and the refined channel weights NaN; the two
// verbose callback modes then converted calls x NaN to std::size_t in multi_channel_weight_info (undefined behaviour; reported by
// -fsanitize=float-cast-overflow).  Exit 0 when all four modes finish and return the same checkpoint.  Before 3691bf1 the sanitizer
// build aborts in the verbose modes.
//   g++ -std=c++11 -O1 -fsanitize=undefined,float-cast-overflow -fno-sanitize-recover=all -I /repo/include C20_nan_weight_summary.cpp && ./a.out > /dev/null
#include "hep/mc.hpp"
#include <cstdio>
#include <limits>
#include <sstream>
int main()
{
    typedef double T;
    auto f = [](hep::multi_channel_point<T> const&) { return std::numeric_limits<T>::max() / 4; };
    auto map = [](std::size_t, std::vector<T> const& us, std::vector<T>& c, std::vector<std::size_t> const&, std::vector<T>& d, hep::multi_channel_map a) {
        if (a == hep::multi_channel_map::calculate_coordinates) { c[0] = us[0]; return T(1); } d[0] = T(1.5); return T(4); };
    hep::callback_mode const modes[4] = {hep::callback_mode::silent, hep::callback_mode::silent_and_write_chkpt, hep::callback_mode::verbose, hep::callback_mode::verbose_and_write_chkpt};
    std::string first;
    for (int m = 0; m != 4; ++m)
    {
        auto chk0 = hep::make_multi_channel_chkpt<T>(std::vector<T>{T(1)}, T(), T(1) / 3);
        auto chk = hep::multi_channel(hep::make_multi_channel_integrand<T>(f, 1, map, 1, 1), std::vector<std::size_t>{6, 6, 6}, chk0,
            hep::callback<decltype(chk0)>(modes[m], "/tmp/C20_nan_weight_summary.chk"));
        std::ostringstream t; chk.serialize(t);
        if (m == 0) first = t.str();
        else if (t.str() != first) { std::fprintf(stderr, "mode %d returns a different checkpoint\n", m); return 1; }
    }
    return 0;
}
