// C06: an iteration in which every non-zero evaluation is non-finite must behave like an iteration
// that returned zero at those points: the combined result stays finite and a run with a target
// precision performs the same iterations as its zeroed twin.
#include "hep/mc.hpp"
#include <cmath>
#include <cstdio>
#include <limits>
int main() {
  int bad = 0;
  std::size_t const n = 50;
  double combined[2]; std::size_t iterations[2];
  for (int poisoned = 0; poisoned != 2; ++poisoned) {
    std::size_t call = 0;
    auto f = [&](hep::mc_point<double> const& p) {
      std::size_t const iteration = call++ / n;
      if (iteration == 1) return poisoned ? std::numeric_limits<double>::quiet_NaN() : 0.0;
      return 1.0 + p.point()[0];
    };
    auto r = hep::plain(hep::make_integrand<double>(f, 1), std::vector<std::size_t>(6, n),
      hep::make_plain_chkpt<double>(), hep::callback<hep::default_plain_chkpt<double>>(hep::callback_mode::silent, "", 0.012));
    auto const all = hep::accumulate<hep::weighted_with_variance>(r.results().begin(), r.results().end());
    combined[poisoned] = all.value(); iterations[poisoned] = r.results().size();
    std::printf("%s twin: %zu iterations, combined value %g +- %g\n", poisoned ? "poisoned" : "zeroed  ", r.results().size(), all.value(), all.error());
  }
  if (!std::isfinite(combined[1]) || combined[1] != combined[0] || iterations[0] != iterations[1]) bad = 1;
  if (bad) std::puts("DEFECT: an iteration with only non-finite evaluations contaminates the combined result / the stopping rule"); else std::puts("OK");
  return bad; }
