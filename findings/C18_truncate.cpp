// C18: the writing callback must never expose a truncated checkpoint at the final path.
// The check (an LD_PRELOAD-free variant): serialisation into the final path must not begin with an
// open(O_TRUNC) of that path.  We observe it with a filename that is a FIFO-free regular file and
// inotify-free: write a first checkpoint, then make the directory entry read-only-detectable by
// comparing inode numbers: an in-place rewrite keeps the inode, write-to-temp + rename changes it.
#include "hep/mc.hpp"
#include <cstdio>
#include <sys/stat.h>
#include <unistd.h>
int main() {
  char const* path = "c18_demo.chkpt"; ::unlink(path);
  auto f = [](hep::mc_point<double> const& p) { return p.point()[0]; };
  using C = hep::default_plain_chkpt<double>;
  hep::callback<C> cb(hep::callback_mode::silent_and_write_chkpt, path);
  auto c1 = hep::plain(hep::make_integrand<double>(f, 1), std::vector<std::size_t>(1, 10), hep::make_plain_chkpt<double>(), cb);
  struct stat a, b; if (::stat(path, &a) != 0) { std::puts("no file written"); return 2; }
  auto c2 = hep::plain(hep::make_integrand<double>(f, 1), std::vector<std::size_t>(1, 10), c1, cb);
  ::stat(path, &b); ::unlink(path);
  if (a.st_ino == b.st_ino) { std::puts("DEFECT: checkpoint rewritten in place (truncate + write): a kill in between leaves a partial file"); return 1; }
  std::puts("OK"); return 0; }
