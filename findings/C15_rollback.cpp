// C15: rollback(k) must give the checkpoint of a run that stopped after k iterations; also after a reload.
#include "hep/mc.hpp"
#include <cstdio>
#include <sstream>
#include <string>
template <typename C> std::string text(C const& c) { std::ostringstream o; c.serialize(o); return o.str(); }
int main(int argc, char** argv) {
  int part = argc > 1 ? std::atoi(argv[1]) : 0;
  auto f = [](hep::mc_point<double> const& p) { return p.point()[0] * p.point()[0] + 0.5; };
  auto integrand = hep::make_integrand<double>(f, 1);
  hep::callback<hep::default_vegas_chkpt<double>> cb(hep::callback_mode::silent);
  std::vector<std::size_t> three(3, 100), two(2, 100), none;
  auto c3 = hep::vegas(integrand, three, hep::make_vegas_chkpt<double>(8, 1.5), cb);
  auto c2 = hep::vegas(integrand, two, hep::make_vegas_chkpt<double>(8, 1.5), cb);
  auto c0 = hep::vegas(integrand, none, hep::make_vegas_chkpt<double>(8, 1.5), cb);
  int bad = 0;
  if (part == 0 || part == 1) {
    auto r = c3; r.rollback(3);
    if (text(r) != text(c3)) { std::puts("DEFECT: rollback(n) changes the checkpoint"); bad = 1; }
    auto r2 = c3; r2.rollback(2);
    if (text(r2) != text(c2)) { std::puts("DEFECT: rollback(2) differs from the 2-iteration run"); bad = 1; }
  }
  if (part == 0 || part == 2) {
    std::istringstream in(text(c3));
    auto r = hep::make_vegas_chkpt<double, std::mt19937>(in);
    r.rollback(0);
    r.dimensions(1);
    if (text(r) != text(c0)) { std::puts("DEFECT: rollback(0) after reload differs from the fresh checkpoint"); bad = 1; }
  }
  if (!bad) std::puts("OK");
  return bad; }
