// C09: weights {0,1}; a generator output that yields the canonical number 0 must not select the disabled channel 0.
#include "hep/mc/discrete_distribution.hpp"
#include <cstdint>
#include <cstdio>
#include <vector>
struct zero_engine { using result_type = std::uint64_t; static constexpr result_type min() { return 0; }
  static constexpr result_type max() { return ~result_type(0); } result_type operator()() { return 0; } };
int main() {
  std::vector<double> w{0.0, 1.0};
  hep::discrete_distribution<std::size_t, double> d(w.begin(), w.end());
  zero_engine e; std::size_t c = d(e);
  std::printf("selected channel %zu (weight %g)\n", c, w[c]);
  if (w[c] == 0.0) { std::puts("DEFECT: disabled channel selected"); return 1; }
  std::puts("OK"); return 0; }
