(* Driver of the extracted model: reads one S-expression case per line on stdin, hands it to the
   extracted [Model.run_line], prints the resulting S-expression on one line.  All semantics live in
   the Coq development; this file only converts between text and the extracted datatypes.

   Wire format:  #<hex> integer | %+<hexmant>p<exp> %z+ %z- %i+ %i- %nan float | "<hexbytes>" string
                 | bare symbol | ( ... ) list *)
open Model

module S = Stdlib.String

let hexval c = match c with
  | '0'..'9' -> Char.code c - 48 | 'a'..'f' -> Char.code c - 87 | 'A'..'F' -> Char.code c - 55
  | _ -> failwith "hex digit"

(* bits, most significant first *)
let bits_of_hex (s : S.t) : bool list =
  let l = ref [] in
  S.iter (fun c -> let v = hexval c in
    l := ((v land 1) <> 0) :: ((v land 2) <> 0) :: ((v land 4) <> 0) :: ((v land 8) <> 0) :: !l) s;
  List.rev !l

let n_of_bits (bits : bool list) : n =
  let rec go acc = function
    | [] -> acc
    | b :: r -> (match acc with
        | None -> go (if b then Some XH else None) r
        | Some p -> go (Some (if b then XI p else XO p)) r) in
  match go None bits with None -> N0 | Some p -> Npos p

let n_of_hex s = n_of_bits (bits_of_hex s)

let rec pos_bits_lsb = function XH -> [true] | XO p -> false :: pos_bits_lsb p | XI p -> true :: pos_bits_lsb p

let hex_of_pos (p : positive) : S.t =
  let bits = pos_bits_lsb p in
  let buf = Buffer.create 16 in
  let rec go bits acc = match bits with
    | [] -> acc
    | _ ->
      let take n l = let rec t n l a = if n = 0 then (List.rev a, l) else match l with [] -> (List.rev a, []) | x :: r -> t (n-1) r (x :: a) in t n l [] in
      let (nib, rest) = take 4 bits in
      let v = List.fold_left (fun (a, w) b -> ((if b then a lor w else a), w * 2)) (0, 1) nib |> fst in
      go rest ("0123456789abcdef".[v] :: acc) in
  List.iter (Buffer.add_char buf) (go bits []);
  Buffer.contents buf

let hex_of_n = function N0 -> "0" | Npos p -> hex_of_pos p

let pos_of_int (i : int) : positive =
  let rec go i = if i = 1 then XH else if i land 1 = 1 then XI (go (i lsr 1)) else XO (go (i lsr 1)) in
  go i
let z_of_int i = if i = 0 then Z0 else if i > 0 then Zpos (pos_of_int i) else Zneg (pos_of_int (- i))
let rec int_of_pos = function XH -> 1 | XO p -> 2 * int_of_pos p | XI p -> 2 * int_of_pos p + 1
let int_of_z = function Z0 -> 0 | Zpos p -> int_of_pos p | Zneg p -> - (int_of_pos p)

let coq_string (s : S.t) : Model.string =
  let r = ref EmptyString in
  for i = S.length s - 1 downto 0 do
    let c = Char.code s.[i] in
    let b k = (c lsr k) land 1 = 1 in
    r := String (Ascii (b 0, b 1, b 2, b 3, b 4, b 5, b 6, b 7), !r)
  done; !r

let ocaml_string (s : Model.string) : S.t =
  let buf = Buffer.create 16 in
  let rec go = function
    | EmptyString -> ()
    | String (Ascii (b0, b1, b2, b3, b4, b5, b6, b7), r) ->
      let v = List.fold_left (fun (a, w) b -> ((if b then a lor w else a), w * 2)) (0, 1) [b0; b1; b2; b3; b4; b5; b6; b7] |> fst in
      Buffer.add_char buf (Char.chr v); go r in
  go s; Buffer.contents buf

let float_of_token (t : S.t) : outrep =
  (* t without the leading '%' *)
  if t = "nan" then ONan
  else if t = "z+" then OZero false else if t = "z-" then OZero true
  else if t = "i+" then OInf false else if t = "i-" then OInf true
  else begin
    let s = (t.[0] = '-') in
    let p = S.index t 'p' in
    let mant = S.sub t 1 (p - 1) in
    let e = int_of_string (let x = S.sub t (p + 1) (S.length t - p - 1) in if x.[0] = '+' then S.sub x 1 (S.length x - 1) else x) in
    match n_of_hex mant with
    | N0 -> OZero s
    | Npos m -> OFin (s, m, z_of_int e)
  end

let token_of_float (f : outrep) : S.t =
  match f with
  | ONan -> "%nan"
  | OZero s -> if s then "%z-" else "%z+"
  | OInf s -> if s then "%i-" else "%i+"
  | OFin (s, m, e) ->
    let rec strip m e = match m with XO p -> strip p (e + 1) | _ -> (m, e) in
    let (m, e) = strip m (int_of_z e) in
    Printf.sprintf "%%%c%sp%d" (if s then '-' else '+') (hex_of_pos m) e

let hexbytes (s : S.t) : S.t =
  let buf = Buffer.create (S.length s / 2) in
  let i = ref 0 in
  while !i + 1 < S.length s do
    Buffer.add_char buf (Char.chr (hexval s.[!i] * 16 + hexval s.[!i + 1])); i := !i + 2
  done; Buffer.contents buf

let to_hexbytes (s : S.t) : S.t =
  let buf = Buffer.create (2 * S.length s) in
  S.iter (fun c -> Buffer.add_string buf (Printf.sprintf "%02x" (Char.code c))) s; Buffer.contents buf

(* parser *)
let parse (line : S.t) : sx =
  let n = S.length line in
  let pos = ref 0 in
  let rec skip () = if !pos < n && (line.[!pos] = ' ' || line.[!pos] = '\t' || line.[!pos] = '\r') then (incr pos; skip ()) in
  let rec item () : sx =
    skip ();
    if !pos >= n then failwith "unexpected end";
    match line.[!pos] with
    | '(' -> incr pos; let l = ref [] in
      let rec loop () = skip (); if !pos >= n then failwith "unclosed" else if line.[!pos] = ')' then incr pos else (l := item () :: !l; loop ()) in
      loop (); SL (List.rev !l)
    | '"' -> let j = S.index_from line (!pos + 1) '"' in
      let s = S.sub line (!pos + 1) (j - !pos - 1) in pos := j + 1; SS (coq_string (hexbytes s))
    | _ ->
      let j = ref !pos in
      while !j < n && not (List.mem line.[!j] [' '; '('; ')'; '\t'; '\r']) do incr j done;
      let t = S.sub line !pos (!j - !pos) in pos := !j;
      if t.[0] = '#' then SN (n_of_hex (S.sub t 1 (S.length t - 1)))
      else if t.[0] = '%' then SF (float_of_token (S.sub t 1 (S.length t - 1)))
      else SY (coq_string t) in
  item ()

let rec print buf (x : sx) =
  match x with
  | SN k -> Buffer.add_char buf '#'; Buffer.add_string buf (hex_of_n k)
  | SF f -> Buffer.add_string buf (token_of_float f)
  | SS s -> Buffer.add_char buf '"'; Buffer.add_string buf (to_hexbytes (ocaml_string s)); Buffer.add_char buf '"'
  | SY s -> Buffer.add_string buf (ocaml_string s)
  | SL l -> Buffer.add_char buf '(';
    List.iteri (fun i y -> if i > 0 then Buffer.add_char buf ' '; print buf y) l;
    Buffer.add_char buf ')'

let () =
  try
    while true do
      let line = input_line stdin in
      if S.length line > 0 && line.[0] = '(' then begin
        let out = (try run_line (parse line) with Failure m -> SL [SY (coq_string "driver_error"); SS (coq_string m)]
                                               | Stack_overflow -> SL [SY (coq_string "stack_overflow")]) in
        let buf = Buffer.create 256 in
        print buf out; print_endline (Buffer.contents buf)
      end
    done
  with End_of_file -> ()
