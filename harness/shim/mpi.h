// Minimal MPI shim for the correspondence check: the ranks of one "world" are threads of the driver
// process.  Only what hep-mc's MPI headers (and plausible edits of them) use is provided.  Collectives
// are matched by call order; the reduction is performed in an order chosen by the test case
// (a permutation of the ranks), so that the executed model can reproduce the sums bit for bit.
// A collective that can never complete (a rank has returned, or nothing happens for VERIF_SHIM_TIMEOUT
// seconds) makes every waiting rank throw shim_hang.
#ifndef VERIF_SHIM_MPI_H
#define VERIF_SHIM_MPI_H
#include <cstddef>
#include <functional>
#include <stdexcept>
#include <string>
#include <vector>

typedef int MPI_Comm;
typedef int MPI_Datatype;
typedef int MPI_Op;
#define MPI_COMM_WORLD 0
// a communicator that is a proper part of the world (as MPI_Comm_split makes them): the ranks that take part in the integration when
// shim_run is given outsiders > 0.  Its rank r is world rank r + outsiders; the world has size + outsiders processes; the outsiders are
// busy elsewhere, so a collective on MPI_COMM_WORLD can never complete.
#define SHIM_COMM_GROUP 1
#define MPI_IN_PLACE (reinterpret_cast<void*>(-1))
#define MPI_SUCCESS 0
enum { MPI_UNSIGNED = 1, MPI_UNSIGNED_LONG, MPI_UNSIGNED_LONG_LONG, MPI_FLOAT, MPI_DOUBLE, MPI_LONG_DOUBLE, MPI_INT, MPI_CHAR, MPI_BYTE, MPI_C_BOOL };
enum { MPI_SUM = 1, MPI_MAX, MPI_MIN, MPI_LAND, MPI_LOR, MPI_PROD };

int MPI_Comm_rank(MPI_Comm, int* rank);
int MPI_Comm_size(MPI_Comm, int* size);
int MPI_Allreduce(void const* sendbuf, void* recvbuf, int count, MPI_Datatype type, MPI_Op op, MPI_Comm comm);
int MPI_Reduce(void const* sendbuf, void* recvbuf, int count, MPI_Datatype type, MPI_Op op, int root, MPI_Comm comm);
int MPI_Bcast(void* buffer, int count, MPI_Datatype type, int root, MPI_Comm comm);
int MPI_Barrier(MPI_Comm comm);

struct shim_hang : std::runtime_error { shim_hang() : std::runtime_error("collective can never complete") {} };

// log entry of one collective as seen by one rank: kind (0 allreduce, 1 reduce, 2 bcast, 3 barrier), count, datatype
struct shim_coll { int kind; int count; int type; };

struct shim_report
{
    bool hang = false;                 // some rank waited in a collective that could not complete
    bool mismatch = false;             // ranks entered the same collective with different kind / count / type
    std::vector<std::vector<shim_coll>> collectives;   // per rank
    std::vector<std::string> errors;   // per rank: what() of an escaped exception, "" otherwise
};

// run body(rank) on `world` threads; `perm` is the order in which contributions are summed
shim_report shim_run(int world, std::vector<int> const& perm, std::function<void(int)> const& body, int outsiders = 0);
// the communicator the integration should be given in the current shim_run
MPI_Comm shim_comm();
#endif
