// libm interposition (link with -Wl,--wrap=pow,--wrap=powf,--wrap=powl,--wrap=log,--wrap=logf,--wrap=logl):
// every call the library makes is logged as an exact (arguments -> result) entry; the executed model
// looks the values up instead of modelling functions that are not correctly rounded.
#include "sx.hpp"
#include <vector>
#include <mutex>
std::vector<Sx> g_libm_log;
bool g_libm_logging = false;
static std::mutex g_libm_mutex;     // the MPI shim runs ranks as threads
extern "C" {
double __real_pow(double, double); float __real_powf(float, float); long double __real_powl(long double, long double);
double __real_log(double); float __real_logf(float); long double __real_logl(long double);
static void logpow(long double x, long double y, long double r)
{ std::lock_guard<std::mutex> lock(g_libm_mutex); if (g_libm_logging) g_libm_log.push_back(Sx::list({Sx::sym("pow"), Sx::flt(x), Sx::flt(y), Sx::flt(r)})); }
static void loglog(long double x, long double r)
{ std::lock_guard<std::mutex> lock(g_libm_mutex); if (g_libm_logging) g_libm_log.push_back(Sx::list({Sx::sym("log"), Sx::flt(x), Sx::flt(r)})); }
double __wrap_pow(double x, double y) { double r = __real_pow(x, y); logpow(x, y, r); return r; }
float __wrap_powf(float x, float y) { float r = __real_powf(x, y); logpow(x, y, r); return r; }
long double __wrap_powl(long double x, long double y) { long double r = __real_powl(x, y); logpow(x, y, r); return r; }
double __wrap_log(double x) { double r = __real_log(x); loglog(x, r); return r; }
float __wrap_logf(float x) { float r = __real_logf(x); loglog(x, r); return r; }
long double __wrap_logl(long double x) { long double r = __real_logl(x); loglog(x, r); return r; }
}
