// Directed search used when a declared evaluation counter is narrower than 64 bits (Properties_C02w / C06w no longer check):
// one PLAIN iteration with more evaluations than the narrowest counter holds, with and without a distribution, every evaluation
// non-zero and every third one non-finite; the reported counters must be the numbers of such evaluations.
// Usage: bigcount <bits>      prints  OK ... / FAIL <what>
#include "hep/mc.hpp"
#include <cstdint>
#include <cstdio>
#include <cstdlib>
#include <limits>
#include <string>
#include <vector>

struct fast_engine
{
    using result_type = std::uint64_t;
    static constexpr result_type min() { return 0; }
    static constexpr result_type max() { return ~std::uint64_t(0); }
    std::uint64_t s = 88172645463325252ULL;
    result_type operator()() { s ^= s << 13; s ^= s >> 7; s ^= s << 17; return s; }
    void discard(unsigned long long n) { while (n--) (*this)(); }
    friend bool operator==(fast_engine const& a, fast_engine const& b) { return a.s == b.s; }
    friend std::ostream& operator<<(std::ostream& o, fast_engine const& e) { return o << e.s; }
    friend std::istream& operator>>(std::istream& i, fast_engine& e) { return i >> e.s; }
};

int main(int argc, char** argv)
{
    int const bits = argc > 1 ? std::atoi(argv[1]) : 32;
    if (bits < 1 || bits > 34) { std::printf("SKIP counters of %d bits need more evaluations than this search runs\n", bits); return 0; }
    std::size_t const n = (std::size_t(1) << bits) + 1000;
    int fail = 0;
    typedef float T;
    {
        std::size_t evals = 0, nonfinite = 0;
        auto f = [&](hep::mc_point<T> const&, hep::projector<T>& p) {
            ++evals; bool const bad = evals % 3 == 0; if (bad) ++nonfinite;
            T const v = bad ? std::numeric_limits<T>::infinity() : T(1);
            p.add(0, T(0.5), v); return v; };
        auto chk = hep::plain(hep::make_integrand<T>(f, 1, hep::make_dist_params<T>(1, T(), T(1), "d")), std::vector<std::size_t>{n},
            hep::make_plain_chkpt<T, fast_engine>(fast_engine()), hep::callback<hep::plain_chkpt_with_rng<fast_engine, T>>(hep::callback_mode::silent));
        auto const& r = chk.results().back();
        auto const& b = r.distributions().at(0).results().at(0);
        bool ok = r.calls() == n && r.non_zero_calls() == evals && r.finite_calls() == evals - nonfinite && b.finite_calls() == evals - nonfinite && b.non_zero_calls() >= b.finite_calls() && b.non_zero_calls() <= evals;
        if (!ok) { ++fail; std::printf("FAIL one PLAIN iteration of %zu evaluations with a distribution (all non-zero, %zu non-finite): reported calls=%zu non_zero_calls=%zu finite_calls=%zu; "
            "the bin reports non_zero_calls=%zu finite_calls=%zu\n", evals, nonfinite, r.calls(), r.non_zero_calls(), r.finite_calls(), b.non_zero_calls(), b.finite_calls()); }
    }
    {
        std::size_t evals = 0, nonfinite = 0;
        auto f = [&](hep::mc_point<T> const&) { ++evals; bool const bad = evals % 3 == 0; if (bad) ++nonfinite; return bad ? std::numeric_limits<T>::quiet_NaN() : T(1); };
        auto chk = hep::plain(hep::make_integrand<T>(f, 1), std::vector<std::size_t>{n}, hep::make_plain_chkpt<T, fast_engine>(fast_engine()),
            hep::callback<hep::plain_chkpt_with_rng<fast_engine, T>>(hep::callback_mode::silent));
        auto const& r = chk.results().back();
        bool ok = r.calls() == n && r.non_zero_calls() == evals && r.finite_calls() == evals - nonfinite;
        if (!ok) { ++fail; std::printf("FAIL one PLAIN iteration of %zu evaluations without distributions (all non-zero, %zu non-finite): reported calls=%zu non_zero_calls=%zu finite_calls=%zu\n",
            evals, nonfinite, r.calls(), r.non_zero_calls(), r.finite_calls()); }
    }
    if (argc > 2)
    {
        // arguments beyond 32-bit ranges: calls = 2^bits + 7 through hep::vegas as well (call counts that pass through an int anywhere
        // in the library would be truncated)
        std::size_t evals = 0;
        auto f = [&](hep::vegas_point<T> const&) { ++evals; return T(1); };
        auto chk = hep::vegas(hep::make_integrand<T>(f, 1), std::vector<std::size_t>{n}, hep::make_vegas_chkpt<T, fast_engine>(2, T(1.5), fast_engine()),
            hep::callback<hep::vegas_chkpt_with_rng<fast_engine, T>>(hep::callback_mode::silent));
        auto const& r = chk.results().back();
        if (!(r.calls() == n && evals == n && r.non_zero_calls() == n && r.finite_calls() == n))
        { ++fail; std::printf("FAIL one VEGAS iteration asked for %zu calls: %zu evaluations, reported calls=%zu non_zero_calls=%zu finite_calls=%zu\n", n, evals, r.calls(), r.non_zero_calls(), r.finite_calls()); }
    }
    if (!fail) std::printf("OK counters exact for %zu evaluations\n", n);
    return 0;
}
