// whole-run commands of the C++ driver: scripted engine, table / polynomial integrands, table / grid
// channel maps, callbacks, operation histories.  Compiled with -fno-access-control so that the
// private generator list of a checkpoint can be printed.
#ifndef VERIF_RUN_HPP
#define VERIF_RUN_HPP
#include <cstdint>
#include <cstdio>
#include <cstdlib>
#include <fstream>
#include <limits>
#include <thread>
#include <fcntl.h>
#include <cerrno>
#include <cfenv>
#include <memory>
#include <unistd.h>

// engine that yields one chosen canonical number through std::generate_canonical (64-bit range, one
// draw per number): raw = u * 2^64, which is exact for the u the generators choose
template <typename T> struct canonical_engine
{
    using result_type = std::uint64_t;
    static constexpr result_type min() { return 0; }
    static constexpr result_type max() { return ~result_type(0); }
    explicit canonical_engine(T u) : u_(u), raw_(static_cast<result_type>(std::ldexp(static_cast<long double>(u), 64))) {}
    result_type operator()() { return raw_; }
    bool exact() const { return std::ldexp(static_cast<long double>(raw_), -64) == static_cast<long double>(u_); }
    T u_; result_type raw_;
};

inline std::uint64_t splitmix64(std::uint64_t x)
{
    std::uint64_t z = x + 0x9e3779b97f4a7c15ULL;
    z = (z ^ (z >> 30)) * 0xbf58476d1ce4e5b9ULL;
    z = (z ^ (z >> 27)) * 0x94d049bb133111ebULL;
    return z ^ (z >> 31);
}

// state shared by the scripted engine, the integrand, the map and the callbacks of one case
struct Ctx
{
    std::vector<std::uint64_t> raw;
    std::uint64_t seed = 0;
    std::uint64_t idx = 0;          // calls the integrand has received
    std::uint64_t draws = 0;        // raw draws taken from any scripted engine
    std::uint64_t map_calls = 0;    // invocations of any channel map
    bool trace = false;
    std::vector<Sx> events;
    std::vector<Sx> cbs;
    std::uint64_t raw_at(std::uint64_t pos) const { return pos < raw.size() ? raw[pos] : splitmix64(seed + pos); }
};
static thread_local Ctx* g_ctx = nullptr;
// several integrations at once in different threads of the process ("concurrent"): the callbacks print to the real std::cout (file
// descriptor 1 points to /dev/null meanwhile) instead of a captured buffer, and every thread writes its own checkpoint file
static bool g_nocapture = false;
static thread_local int g_tid = 0;

// random engine = position in the scripted stream of raw 64-bit draws
struct script_engine
{
    using result_type = std::uint64_t;
    static constexpr result_type min() { return 0; }
    static constexpr result_type max() { return ~result_type(0); }
    std::uint64_t pos = 0;
    script_engine() = default;
    explicit script_engine(std::uint64_t p) : pos(p) {}
    result_type operator()() { ++g_ctx->draws; return g_ctx->raw_at(pos++); }
    void discard(unsigned long long n) { pos += n; }
    friend bool operator==(script_engine const& a, script_engine const& b) { return a.pos == b.pos; }
    friend bool operator!=(script_engine const& a, script_engine const& b) { return a.pos != b.pos; }
    friend std::ostream& operator<<(std::ostream& o, script_engine const& e) { return o << 'E' << e.pos; }
    // like libstdc++'s linear congruential engines this extractor does not skip leading white space
    friend std::istream& operator>>(std::istream& i, script_engine& e)
    {
        char c = 0;
        if (!i.get(c) || c != 'E') { i.setstate(std::ios::failbit); return i; }
        if (!std::isdigit(i.peek())) { i.setstate(std::ios::failbit); return i; }
        i >> e.pos;
        return i;
    }
};

template <typename T> struct Src { char kind; std::size_t k; T c; };
template <typename T> Src<T> d_src(Sx const& x)
{
    Src<T> s{x.at(0).Y_()[0], 0, T()};
    if (s.kind == 'p' || s.kind == 'c' || s.kind == 't') s.k = x.at(1).N_();
    if (s.kind == 'k') s.c = static_cast<T>(x.at(1).F_());
    return s;
}
template <typename T> struct FillSpec { std::size_t idx; Src<T> x; bool has_y; Src<T> y; Src<T> v; };

template <typename T> T cyc(std::vector<T> const& l, std::uint64_t i) { return l.empty() ? T() : l[i % l.size()]; }

template <typename T> struct PointView { std::vector<T> point, coords; std::size_t channel = 0; std::vector<std::size_t> bins; bool is_mc = false; };
template <typename T> PointView<T> view(hep::mc_point<T> const& p) { PointView<T> v; v.point = p.point(); return v; }
template <typename T> PointView<T> view(hep::vegas_point<T> const& p) { PointView<T> v; v.point = p.point(); v.bins = p.bin(); return v; }
template <typename T> PointView<T> view(hep::multi_channel_point<T> const& p)
{ PointView<T> v; v.point = p.point(); v.coords = p.coordinates(); v.channel = p.channel(); v.is_mc = true; return v; }

template <typename T> struct Integrand
{
    bool poly = false;
    std::vector<T> tab;
    std::vector<std::pair<T, T>> ab;
    bool wants = false;
    std::vector<FillSpec<T>> fills;
    std::vector<std::vector<T>> tables;
    // state kept in the function object itself (what a user reads back through integrand.function() after the run)
    std::uint64_t own_calls = 0;
    // nest: 1 = while a point is being evaluated the integrand runs a small integration of its own with the same integrator and the same
    // template instantiation (function objects of one type share it); errno_edom: the integrand leaves errno == EDOM behind, as a
    // libm call with an argument outside the domain does
    int nest = 0; bool errno_edom = false; std::string nest_kind;
    void nested_run() const;

    T src(Src<T> const& s, PointView<T> const& pv, std::uint64_t idx, T v) const
    {
        switch (s.kind)
        {
        case 'p': return s.k < pv.point.size() ? pv.point[s.k] : T();
        case 'c': return s.k < pv.coords.size() ? pv.coords[s.k] : T();
        case 't': return s.k < tables.size() ? cyc(tables[s.k], idx) : T();
        case 'v': return v;
        default: return s.c;
        }
    }
    template <typename P> T eval(P const& p, hep::projector<T>* pr)
    {
        ++own_calls;
        if (errno_edom) errno = EDOM;
        if (nest) nested_run();
        std::uint64_t const idx = g_ctx->idx++;
        PointView<T> pv = view(p);
        std::size_t slot = 0;
        if (g_ctx->trace) { slot = g_ctx->events.size(); g_ctx->events.push_back(Sx::list()); }
        T v;
        if (poly)
        {
            std::vector<T> const& xs = pv.is_mc ? pv.coords : pv.point;
            T acc = T(1.0);
            for (std::size_t k = 0; k != ab.size() && k != xs.size(); ++k) acc = acc * (ab[k].first + ab[k].second * xs[k]);
            v = acc;
        }
        else v = cyc(tab, idx);
        bool const weight_visible = wants || !pv.is_mc;
        T w = T();
        if (weight_visible) w = p.weight();        // for multi-channel points this is the explicit request
        if (g_ctx->trace)
        {
            Sx e = Sx::list({Sx::sym("f"), Sx::num(idx), efloats(pv.point), efloats(pv.coords), Sx::num(pv.channel), enums(pv.bins)});
            if (weight_visible) e.add(Sx::flt(w));
            g_ctx->events[slot] = e;
        }
        if (pr)
            for (auto const& f : fills)
            {
                if (f.has_y) pr->add(f.idx, src(f.x, pv, idx, v), src(f.y, pv, idx, v), src(f.v, pv, idx, v));
                else pr->add(f.idx, src(f.x, pv, idx, v), src(f.v, pv, idx, v));
            }
        return v;
    }
    template <typename P> T operator()(P const& p) { return eval(p, nullptr); }
    template <typename P> T operator()(P const& p, hep::projector<T>& pr) { return eval(p, &pr); }
};

template <typename T> struct Map
{
    bool grid = false;
    // early: the densities are written during the coordinate call already and the density call only returns the jacobian
    // (the documentation of multi_channel_map allows it and the library's examples are written that way)
    bool early = false;
    std::uint64_t own_calls = 0;      // state kept in the map object itself (read back through integrand.map() after the run)
    std::vector<T> ctab, dtab, jtab;
    std::size_t mapdims = 0, channels = 0;
    T kappa = T(1.0);
    std::vector<std::vector<std::vector<T>>> grids;   // channel -> dimension -> boundaries
    // buffer identity between the two phases of one call
    std::vector<T>* saved_coords = nullptr; std::vector<T>* saved_dens = nullptr; std::vector<T> saved_content;
    std::uint64_t cur = 0;

    static T grid_coord(std::vector<T> const& g, T u)
    {
        std::size_t const bins = g.size() - 1;
        T const position = u * bins;
        std::size_t const i = position;
        T const left = i < g.size() ? g[i] : T();
        T const right = i + 1 < g.size() ? g[i + 1] : T(1.0);
        return left + (position - i) * (right - left);
    }
    static T grid_width(std::vector<T> const& g, T y)
    {
        for (std::size_t b = 0; b + 1 < g.size(); ++b) if (b + 2 == g.size() || y < g[b + 1]) return g[b + 1] - g[b];
        return T(1.0);
    }
    T operator()(std::size_t channel, std::vector<T> const& us, std::vector<T>& coords, std::vector<std::size_t> const& enabled,
        std::vector<T>& dens, hep::multi_channel_map action)
    {
        ++own_calls; ++g_ctx->map_calls;
        if (action == hep::multi_channel_map::calculate_coordinates)
        {
            cur = g_ctx->idx;
            if (grid)
            {
                auto const& gs = grids.at(channel);
                for (std::size_t k = 0; k != coords.size() && k != gs.size() && k != us.size(); ++k) coords[k] = grid_coord(gs[k], us[k]);
            }
            else if (ctab.empty()) { for (std::size_t k = 0; k != coords.size() && k != us.size(); ++k) coords[k] = us[k]; }
            else { for (std::size_t k = 0; k != coords.size(); ++k) coords[k] = cyc(ctab, cur * mapdims + k); }
            saved_coords = &coords; saved_dens = &dens; saved_content = coords;
            if (g_ctx->trace) g_ctx->events.push_back(Sx::list({Sx::sym("mc"), Sx::num(channel), efloats(us), enums(enabled)}));
            if (early) write_densities(coords, dens);
            return T(1.0);
        }
        if (&coords != saved_coords || &dens != saved_dens || coords != saved_content)
            g_ctx->events.push_back(Sx::list({Sx::sym("buffer_violation"), Sx::num(cur)}));
        if (g_ctx->trace) g_ctx->events.push_back(Sx::list({Sx::sym("md"), Sx::num(channel), efloats(us), efloats(coords), enums(enabled)}));
        if (!early) write_densities(coords, dens);
        return grid ? kappa : cyc(jtab, cur);
    }
    void write_densities(std::vector<T> const& coords, std::vector<T>& dens) const
    {
        if (grid)
        {
            for (std::size_t j = 0; j != dens.size() && j != grids.size(); ++j)
            {
                T acc = kappa;
                for (std::size_t k = 0; k != grids[j].size() && k != coords.size(); ++k)
                    acc = acc / (T(grids[j][k].size() - 1) * grid_width(grids[j][k], coords[k]));
                dens[j] = acc;
            }
            return;
        }
        for (std::size_t j = 0; j != dens.size(); ++j) dens[j] = cyc(dtab, cur * channels + j);
    }
};

// ---- printing of results and checkpoints through the public accessors
template <typename T> Sx e_plain_items(hep::plain_result<T> const& r)
{
    Sx x = Sx::list();
    x.add(e_mcres<T>(r));
    Sx ds = Sx::list();
    for (auto const& d : r.distributions())
    {
        auto const& p = d.parameters();
        Sx par = Sx::list({Sx::num(p.bins_x()), Sx::num(p.bins_y()), Sx::flt(p.x_min()), Sx::flt(p.y_min()), Sx::flt(p.bin_size_x()),
            Sx::flt(p.bin_size_y()), Sx::str(p.name())});
        Sx bins = Sx::list();
        for (auto const& b : d.results()) bins.add(e_mcres<T>(b));
        ds.add(Sx::list({par, bins}));
    }
    x.add(ds);
    return x;
}
template <typename T> Sx e_pdf(hep::vegas_pdf<T> const& p) { return Sx::list({Sx::num(p.bins()), Sx::num(p.dimensions()), e_pdf_x(p)}); }
template <typename C> Sx e_gens(C const& c) { Sx g = Sx::list({Sx::sym("gens")}); for (auto const& e : c.generators_) g.add(Sx::num(e.pos)); return g; }

template <typename T> using PChk = hep::plain_chkpt_with_rng<script_engine, T>;
template <typename T> using VChk = hep::vegas_chkpt_with_rng<script_engine, T>;
template <typename T> using MChk = hep::multi_channel_chkpt_with_rng<script_engine, T>;

template <typename T> Sx e_chk(PChk<T> const& c)
{
    Sx rs = Sx::list();
    for (auto const& r : c.results()) rs.add(e_plain_items<T>(r));
    return Sx::list({Sx::sym("plain"), rs, e_gens(c)});
}
template <typename T> Sx e_chk(VChk<T> const& c)
{
    Sx rs = Sx::list();
    for (auto const& r : c.results()) { Sx x = e_plain_items<T>(r); x.add(e_pdf(r.pdf())); x.add(efloats(r.adjustment_data())); rs.add(x); }
    Sx next = (c.results().empty() && c.pdf_.empty()) ? Sx::list({Sx::sym("ub"), Sx::num(42)}) : Sx::list({Sx::sym("ok"), e_pdf(c.pdf())});
    return Sx::list({Sx::sym("vegas"), rs, e_gens(c), Sx::flt(c.alpha()), next});
}
template <typename T> Sx e_chk(MChk<T> const& c)
{
    Sx rs = Sx::list();
    for (auto const& r : c.results()) { Sx x = e_plain_items<T>(r); x.add(efloats(r.adjustment_data())); x.add(efloats(r.channel_weights())); rs.add(x); }
    return Sx::list({Sx::sym("mc"), rs, e_gens(c), Sx::flt(c.beta()), Sx::flt(c.min_weight()), Sx::list({Sx::sym("ok"), efloats(c.channel_weights())})});
}

// multi_channel_max_difference of every result (multi-channel checkpoints only)
template <typename T, typename C> Sx e_maxdiff(C const&) { return Sx::list({Sx::sym("maxdiff")}); }
template <typename T> Sx e_maxdiff(MChk<T> const& c)
{
    Sx x = Sx::list({Sx::sym("maxdiff")});
    for (auto const& r : c.results())
        x.add(r.adjustment_data().empty() ? Sx::list({Sx::sym("ub"), Sx::num(71)}) : Sx::list({Sx::sym("ok"), Sx::flt(hep::multi_channel_max_difference(r))}));
    return x;
}

template <typename T> PChk<T> reload(PChk<T> const&, std::istream& in) { return hep::make_plain_chkpt<T, script_engine>(in); }
template <typename T> VChk<T> reload(VChk<T> const&, std::istream& in) { return hep::make_vegas_chkpt<T, script_engine>(in); }
template <typename T> MChk<T> reload(MChk<T> const&, std::istream& in) { return hep::make_multi_channel_chkpt<T, script_engine>(in); }

// ---- callbacks
inline Sx parse_summary(std::string const& text)
{
    // skeleton of multi_channel_summary: channel count, minimal-weight count, ranges, printed entries
    std::istringstream in(text);
    std::string line;
    Sx out = Sx::list();
    bool have = false;
    std::uint64_t channels = 0, minc = 0;
    Sx ranges = Sx::list(), entries = Sx::list();
    while (std::getline(in, line))
    {
        unsigned long long a = 0, b = 0;
        if (line.compare(0, 28, "summary of a-priori weights:") == 0)
        {
            std::size_t p = line.find(" for ");
            channels = std::stoull(line.substr(p + 5));
            have = true;
        }
        else if (line.compare(0, 5, "wmin=") == 0)
        {
            std::size_t p = line.find(") in ");
            minc = std::stoull(line.substr(p + 5));
            std::size_t h = line.find('#');
            std::string r = line.substr(h + 1);
            std::size_t pos = 0;
            while (pos < r.size())
            {
                std::size_t comma = r.find(',', pos);
                std::string item = r.substr(pos, comma == std::string::npos ? std::string::npos : comma - pos);
                std::size_t dash = item.find('-');
                if (dash == std::string::npos) { a = std::stoull(item); b = a; }
                else { a = std::stoull(item.substr(0, dash)); b = std::stoull(item.substr(dash + 1)); }
                ranges.add(Sx::list({Sx::num(a), Sx::num(b)}));
                if (comma == std::string::npos) break;
                pos = comma + 1;
            }
        }
        else if (line.compare(0, 5, "   w=") == 0 || line.compare(0, 5, "wmax=") == 0)
        {
            std::size_t p = line.find("(N=");
            a = std::stoull(line.substr(p + 3));
            std::size_t h = line.find('#');
            b = std::stoull(line.substr(h + 1));
            entries.add(Sx::list({Sx::num(b), Sx::list({Sx::sym("ok"), Sx::num(a)})}));
        }
    }
    if (have) out = Sx::list({Sx::sym("summary"), Sx::num(channels), Sx::num(minc), ranges, entries});
    return out;
}

// CbC: the checkpoint type the callback is instantiated with - the full type or (as the library's own
// examples do) the base class without the random engine
template <typename C, typename CbC = C> struct BuiltinCb
{
    // shared: the integrators get a copy of this wrapper that refers to ONE library callback object for all the runs of a case (what
    // passing std::ref(callback) does); otherwise every run starts from a copy of the freshly constructed callback
    std::shared_ptr<hep::callback<CbC>> inner_; int mode; std::string filename; bool keep; bool shared;
    BuiltinCb(hep::callback<CbC> const& cb, int mode, std::string const& filename, bool keep, bool shared = false)
        : inner_(std::make_shared<hep::callback<CbC>>(cb)), mode(mode), filename(filename), keep(keep), shared(shared) {}
    BuiltinCb(BuiltinCb const& o)
        : inner_(o.shared ? o.inner_ : std::make_shared<hep::callback<CbC>>(*o.inner_)), mode(o.mode), filename(o.filename), keep(o.keep), shared(o.shared) {}
    bool operator()(C const& c)
    {
        hep::callback<CbC>& inner = *inner_;
        if (g_nocapture)
        {
            if (!keep) ::unlink(filename.c_str());
            bool const go = inner(c);
            Sx e = Sx::list({Sx::num(c.results().size()), Sx::num(go ? 1 : 0)});
            if ((mode == 1 || mode == 3) && !keep)
            {
                std::ifstream in(filename, std::ios::binary);
                std::ostringstream content; content << in.rdbuf();
                e.add(Sx::list({Sx::sym("wrote"), in ? Sx::str(content.str()) : Sx::sym("no_file")}));
            }
            g_ctx->cbs.push_back(e);
            return go;
        }
        std::ostringstream capture;
        std::streambuf* old = std::cout.rdbuf(capture.rdbuf());
        if (!keep) ::unlink(filename.c_str());
        bool r;
        try { r = inner(c); } catch (...) { std::cout.rdbuf(old); throw; }
        std::cout.rdbuf(old);
        Sx e = Sx::list({Sx::num(c.results().size()), Sx::num(r ? 1 : 0)});
        if (mode == 2 || mode == 3) { Sx s = parse_summary(capture.str()); if (!s.l.empty()) e.add(s); }
        if ((mode == 1 || mode == 3) && !keep)
        {
            std::ifstream in(filename, std::ios::binary);
            std::ostringstream content; content << in.rdbuf();
            e.add(Sx::list({Sx::sym("wrote"), in ? Sx::str(content.str()) : Sx::sym("no_file")}));
        }
        g_ctx->cbs.push_back(e);
        return r;
    }
};
template <typename C> struct ScriptCb
{
    std::vector<bool> script;
    bool operator()(C const& c)
    {
        std::size_t n = c.results().size();
        bool r = (n >= 1 && n - 1 < script.size()) ? script[n - 1] : true;
        g_ctx->cbs.push_back(Sx::list({Sx::num(n), Sx::num(r ? 1 : 0)}));
        return r;
    }
};

// the same scripted decision from a callback whose result type is not bool (a C-style callback returning int: 0 stops, anything else goes on)
template <typename C> struct ScriptCbInt
{
    std::vector<bool> script;
    int operator()(C const& c)
    {
        std::size_t n = c.results().size();
        bool r = (n >= 1 && n - 1 < script.size()) ? script[n - 1] : true;
        g_ctx->cbs.push_back(Sx::list({Sx::num(n), Sx::num(r ? 1 : 0)}));
        return r ? 2 + static_cast<int>(n) : 0;
    }
};

#ifdef VERIF_MPI
// the MPI drivers' default callback type around the built-in callback, or a scripted decision
template <typename C> struct MpiBuiltinCb
{
    hep::mpi_callback<C> inner;
    bool operator()(MPI_Comm comm, C const& c)
    {
        bool const r = inner(comm, c);
        g_ctx->cbs.push_back(Sx::list({Sx::num(c.results().size()), Sx::num(r ? 1 : 0)}));
        return r;
    }
};
template <typename C> struct MpiScriptCb
{
    std::vector<bool> script;
    bool operator()(MPI_Comm, C const& c)
    {
        std::size_t n = c.results().size();
        bool r = (n >= 1 && n - 1 < script.size()) ? script[n - 1] : true;
        g_ctx->cbs.push_back(Sx::list({Sx::num(n), Sx::num(r ? 1 : 0)}));
        return r;
    }
};
#endif

// the integration an integrand with nest != 0 runs while one of its points is being evaluated: same integrator, same function object
// type, same engine and checkpoint types (hence the same instantiation of the *_iteration templates), its own checkpoint and context
template <typename T> void Integrand<T>::nested_run() const
{
    Ctx inner; inner.seed = 77; Ctx* const saved = g_ctx; g_ctx = &inner;
    struct Restore { Ctx* s; ~Restore() { g_ctx = s; } } restore{saved};
    Integrand<T> g; g.poly = true; g.ab = {{T(0.5), T(1.0)}, {T(1.0), T(0.5)}};
    std::vector<std::size_t> const calls{3, 2};
    if (nest_kind == "plain")
        hep::plain(hep::make_integrand<T>(g, 2), calls, hep::make_plain_chkpt<T, script_engine>(script_engine(5)), ScriptCb<PChk<T>>{{}});
    else if (nest_kind == "vegas")
        hep::vegas(hep::make_integrand<T>(g, 2), calls, hep::make_vegas_chkpt<T, script_engine>(3, T(1.5), script_engine(5)), ScriptCb<VChk<T>>{{}});
    else
    {
        Map<T> m; m.mapdims = 2; m.channels = 2; m.dtab = {T(1.0), T(2.0)}; m.jtab = {T(1.0)};
        hep::multi_channel(hep::make_multi_channel_integrand<T>(g, 2, m, 2, 2), calls, hep::make_multi_channel_chkpt<T, script_engine>(T(), T(0.25), script_engine(5)), ScriptCb<MChk<T>>{{}});
    }
}

// a function object that returns a type wider than T (values taken from a table by call number)
template <typename T> struct WideIntegrand
{
    std::vector<long double> wide;
    template <typename P> long double operator()(P const&) { std::uint64_t const idx = g_ctx->idx++; return wide.empty() ? 0.0L : wide[idx % wide.size()]; }
};

template <typename T> struct Spec
{
    std::vector<long double> fwide;
    std::string kind; std::size_t dims = 1, channels = 1, mapdims = 1;
    std::vector<hep::distribution_parameters<T>> dists;
    bool force_acc = false;
    Integrand<T> f; Map<T> map;
    bool builtin = true; int mode = 0; T target = T(); std::vector<bool> script;
    std::string filename; bool keepfile = false; bool cbbase = false; bool cbref = false; int subcomm = 0; int ofmt = 0; bool iexc = false; int coutfmt = 0; bool churn = false; bool reuse = false; bool rbbase = false; bool noseek = false; bool cbint = false; bool fenv = false;
};

#ifdef VERIF_MPI
// one "mpi" operation: every rank (a thread) runs the MPI driver from the same checkpoint
template <typename T, typename C, typename MkMpi> Sx run_mpi_op(Spec<T> const& sp, Sx const& op, C& chk, MkMpi run_mpi_one)
{
    std::vector<std::size_t> calls;
    for (auto const& e : op.at(1).L_()) calls.push_back(e.N_());
    int const world = static_cast<int>(op.at(2).N_());
    std::vector<int> perm;
    for (auto const& e : op.at(3).L_()) perm.push_back(static_cast<int>(e.N_()));
    Ctx const base = *g_ctx;
    std::vector<Ctx> ctxs(world, base);
    std::vector<C> out(world, chk);
    std::vector<char> done(world, 0);
    std::ostringstream capture;
    std::streambuf* old = std::cout.rdbuf(capture.rdbuf());
    ::unlink(sp.filename.c_str());
    shim_report rep;
    try
    {
        rep = shim_run(world, perm, [&](int r) {
            g_ctx = &ctxs[r];
            g_ctx->cbs.clear(); g_ctx->events.clear();
            Spec<T> mine = sp;                      // integrand and map objects are per rank
            out[r] = run_mpi_one(mine, calls, chk);
            done[r] = 1;
            g_ctx = nullptr;
        }, sp.subcomm);
    }
    catch (...) { std::cout.rdbuf(old); throw; }
    std::cout.rdbuf(old);
    Sx res = Sx::list({Sx::sym("mpi")});
    if (rep.hang) { res.add(Sx::list({Sx::sym("ub"), Sx::num(99)})); return res; }
    if (rep.mismatch) { res.add(Sx::list({Sx::sym("ub"), Sx::num(98)})); return res; }
    for (int r = 0; r != world; ++r)
        if (!rep.errors[r].empty()) { res.add(Sx::list({Sx::sym("exception"), Sx::num(r), Sx::str(rep.errors[r])})); return res; }
    // what reached standard output: lines "iteration k finished." (rank 0 only, verbose modes)
    std::size_t printed = 0;
    { std::istringstream in(capture.str()); std::string line; while (std::getline(in, line)) if (line.compare(0, 10, "iteration ") == 0) ++printed; }
    std::ifstream file(sp.filename, std::ios::binary);
    res.add(Sx::list({Sx::sym("printed"), Sx::num(printed)}));
    res.add(Sx::list({Sx::sym("file"), Sx::num(file ? 1 : 0)}));
    for (int r = 0; r != world; ++r)
    {
        Sx rk = Sx::list({Sx::sym("rank")});
        Sx cbs = Sx::list({Sx::sym("cbs")}); for (auto const& e : ctxs[r].cbs) cbs.add(e);
        rk.add(cbs);
        if (base.trace) { Sx ev = Sx::list({Sx::sym("events")}); for (auto const& e : ctxs[r].events) ev.add(e); rk.add(ev); }
        Sx co = Sx::list({Sx::sym("coll")});
        for (auto const& c : rep.collectives[r]) co.add(Sx::list({Sx::num(static_cast<std::uint64_t>(c.count)), Sx::num(c.type == MPI_FLOAT || c.type == MPI_DOUBLE || c.type == MPI_LONG_DOUBLE ? 0 : (c.type == MPI_UNSIGNED_LONG || c.type == MPI_UNSIGNED_LONG_LONG) ? 1 : 100 + c.type)}));
        rk.add(co);
        rk.add(Sx::list({Sx::sym("dump"), e_chk<T>(out[r])}));
        res.add(rk);
    }
    g_ctx->idx = ctxs[0].idx;
    chk = out[0];
    return res;
}
#endif

// a stream buffer that can only be read forward (a pipe, a socket, a decompressor): no seekoff / seekpos, one character of put-back
struct pipe_buf : std::streambuf
{
    std::string data; std::size_t pos = 0; char cur = 0;
    explicit pipe_buf(std::string const& s) : data(s) {}
    int_type underflow() override
    {
        if (pos >= data.size()) return traits_type::eof();
        cur = data[pos++]; setg(&cur, &cur, &cur + 1);
        return traits_type::to_int_type(cur);
    }
};
template <typename C> struct base_of;
template <typename T> struct base_of<hep::plain_chkpt_with_rng<script_engine, T>> { typedef hep::plain_chkpt<T> type; };
template <typename T> struct base_of<hep::vegas_chkpt_with_rng<script_engine, T>> { typedef hep::vegas_chkpt<T> type; };
template <typename T> struct base_of<hep::multi_channel_chkpt_with_rng<script_engine, T>> { typedef hep::multi_channel_chkpt<T> type; };

// the state a user's stream may be in when it is handed to the library (bit set): 1 fixed, 2 scientific (3 = both: hexfloat),
// 4 precision 3, 8 precision 30, 16 showpoint, 32 width 14 with fill '*' (applies to the first item only), 64 left, 128 boolalpha
inline void user_format(std::ios_base& s, int f)
{
    if (f & 1) s.setf(std::ios_base::fixed);
    if (f & 2) s.setf(std::ios_base::scientific);
    if (f & 4) s.precision(3);
    if (f & 8) s.precision(30);
    if (f & 16) s.setf(std::ios_base::showpoint);
    if (f & 64) s.setf(std::ios_base::left, std::ios_base::adjustfield);
    if (f & 128) s.setf(std::ios_base::boolalpha);
}

template <typename T, typename C, typename Mk, typename MkMpi> Sx run_ops(Spec<T>& sp, Sx const& ops, C chk, Mk run_one, MkMpi run_mpi_one)
{
    Sx out = Sx::list();
    C older(chk);
    for (auto const& op : ops.L_())
    {
        std::string const& o = op.at(0).Y_();
        if (sp.churn)
        {
            // what users do with checkpoints between operations: copy construction, move construction, copy and move assignment,
            // self-assignment through a reference, swap - none of it may change what the checkpoint holds
            C a(chk); C b(std::move(a)); C c = chk; c = b; C& self = c; c = self; C d(chk); std::swap(c, d); chk = std::move(d);
            // assignment onto an object that holds something else (the checkpoint as it was one operation ago, or the initial one)
            C x(older); x = chk; older = chk; chk = x;
        }
        if (o == "run")
        {
            std::vector<std::size_t> calls;
            for (auto const& e : op.at(1).L_()) calls.push_back(e.N_());
            g_ctx->cbs.clear(); g_ctx->events.clear();
            if (sp.fenv) std::feclearexcept(FE_ALL_EXCEPT);
            chk = run_one(calls, chk);
            // (fenv: which floating-point exception flags the run left raised - only on request, the model has no such notion)
            if (sp.fenv) g_ctx->cbs.push_back(Sx::list({Sx::sym("fenv"), Sx::num(std::fetestexcept(FE_INVALID) ? 1 : 0), Sx::num(std::fetestexcept(FE_DIVBYZERO) ? 1 : 0)}));
            Sx r = Sx::list({Sx::sym("run")});
            Sx cbs = Sx::list({Sx::sym("cbs")}); for (auto const& e : g_ctx->cbs) cbs.add(e);
            r.add(cbs);
            bool violation = false;
            for (auto const& e : g_ctx->events) if (e.kind == Sx::L && !e.l.empty() && e.l[0].is_sym("buffer_violation")) violation = true;
            if (g_ctx->trace || violation) { Sx ev = Sx::list({Sx::sym("events")}); for (auto const& e : g_ctx->events) ev.add(e); r.add(ev); }
            out.add(r);
        }
#ifdef VERIF_MPI
        else if (o == "mpi") out.add(run_mpi_op<T>(sp, op, chk, run_mpi_one));
#endif
        else if (o == "rollback")
        {
            try
            {
                // (rbbase: through a reference to the checkpoint's base class without the engine, as a helper that is not a template would)
                if (sp.rbbase) static_cast<typename base_of<C>::type&>(chk).rollback(op.at(1).N_()); else chk.rollback(op.at(1).N_());
                out.add(Sx::list({Sx::sym("rollback"), Sx::sym("ok")}));
            }
            catch (std::out_of_range const&) { out.add(Sx::list({Sx::sym("rollback"), Sx::sym("throw")})); }
        }
        else if (o == "dump") out.add(Sx::list({Sx::sym("dump"), e_chk<T>(chk)}));
        else if (o == "text") { std::ostringstream t; user_format(t, sp.ofmt); chk.serialize(t); out.add(Sx::list({Sx::sym("text"), Sx::str(t.str())})); }
        else if (o == "reload")
        {
            std::ostringstream t; user_format(t, sp.ofmt); chk.serialize(t);
            std::istringstream seekable(t.str());
            pipe_buf pipe(t.str());
            std::istream piped(&pipe);
            std::istream& in = sp.noseek ? piped : static_cast<std::istream&>(seekable);     // (noseek: a stream that cannot seek, like a pipe)
            if (sp.iexc) in.exceptions(std::ios::failbit | std::ios::badbit);     // a user who wants read errors reported by exceptions
            C n(chk);
            // (with exceptions enabled a read error arrives as std::ios_base::failure instead of a failed stream: the same observation)
            // (a text that holds inf / nan cannot be read back; what the reader then does - fail, or throw from a garbage count - is not
            // defined by any property: one observation)
            bool const unreadable = t.str().find("inf") != std::string::npos || t.str().find("nan") != std::string::npos;
            try { n = reload<T>(chk, in); }
            catch (std::ios_base::failure const&) { in.exceptions(std::ios::goodbit); in.setstate(std::ios::failbit); }
            catch (std::exception const&) { if (!unreadable) throw; in.exceptions(std::ios::goodbit); in.setstate(std::ios::failbit); }
            if (in.fail()) { out.add(Sx::list({Sx::sym("reload"), Sx::sym("stream_failed")})); break; }
            chk = n;
            out.add(Sx::list({Sx::sym("reload"), Sx::sym("ok")}));
        }
        else if (o == "maxdiff") out.add(e_maxdiff<T>(chk));
        else if (o == "combine")
        {
            // hep::accumulate / chi_square_dof over the checkpoint's results (with their distributions)
            bool const wwv = op.at(1).is_sym("wwv");
            auto const& rs = chk.results();
            try
            {
                hep::plain_result<T> const r = wwv ? hep::accumulate<hep::weighted_with_variance>(rs.begin(), rs.end())
                                                   : hep::accumulate<hep::weighted_equally>(rs.begin(), rs.end());
                T const chi = wwv ? hep::chi_square_dof<hep::weighted_with_variance>(rs.begin(), rs.end())
                                  : hep::chi_square_dof<hep::weighted_equally>(rs.begin(), rs.end());
                Sx x = Sx::list({Sx::sym("ok")});
                Sx items = e_plain_items<T>(r);
                for (auto const& e : items.l) x.add(e);
                x.add(Sx::flt(chi));
                out.add(Sx::list({Sx::sym("combine"), x}));
            }
            catch (std::out_of_range const&) { out.add(Sx::list({Sx::sym("combine"), Sx::list({Sx::sym("ub")})})); }
        }
        else if (o == "load")
        {
            // read a checkpoint from a file (C18: resume from what a killed process left behind)
            std::ifstream in(op.at(1).S_(), std::ios::binary);
            if (!in) { out.add(Sx::list({Sx::sym("load"), Sx::sym("no_file")})); continue; }
            if (sp.iexc) in.exceptions(std::ios::failbit | std::ios::badbit);
            C n(chk);
            try { n = reload<T>(chk, in); } catch (std::ios_base::failure const&) { in.exceptions(std::ios::goodbit); in.setstate(std::ios::failbit); }
            if (in.fail()) { out.add(Sx::list({Sx::sym("load"), Sx::sym("stream_failed")})); break; }
            chk = n;
            out.add(Sx::list({Sx::sym("load"), Sx::num(chk.results().size())}));
        }
        else throw std::runtime_error("unknown op " + o);
    }
    return out;
}

// integrands are built the way users build them: through the make_* factories, from named (lvalue) distribution
// parameters, anew for every run operation (up to three distributions; more go through the class constructor)
template <typename T> hep::integrand<T, Integrand<T>, true> mk_int1(Spec<T>& sp)
{
    auto& d = sp.dists;
    switch (d.size())
    {
    case 1: return hep::make_integrand<T>(sp.f, sp.dims, d[0]);
    case 2: return hep::make_integrand<T>(sp.f, sp.dims, d[0], d[1]);
    case 3: return hep::make_integrand<T>(sp.f, sp.dims, d[0], d[1], d[2]);
    default: return hep::integrand<T, Integrand<T>, true>(sp.f, sp.dims, d);
    }
}
template <typename T> hep::integrand<T, Integrand<T>, false> mk_int0(Spec<T>& sp) { return hep::make_integrand<T>(sp.f, sp.dims); }
template <typename T> hep::multi_channel_integrand<T, Integrand<T>, Map<T>, true> mk_mc1(Spec<T>& sp)
{
    auto& d = sp.dists;
    switch (d.size())
    {
    case 1: return hep::make_multi_channel_integrand<T>(sp.f, sp.dims, sp.map, sp.mapdims, sp.channels, d[0]);
    case 2: return hep::make_multi_channel_integrand<T>(sp.f, sp.dims, sp.map, sp.mapdims, sp.channels, d[0], d[1]);
    case 3: return hep::make_multi_channel_integrand<T>(sp.f, sp.dims, sp.map, sp.mapdims, sp.channels, d[0], d[1], d[2]);
    default: return hep::multi_channel_integrand<T, Integrand<T>, Map<T>, true>(sp.f, sp.dims, sp.map, sp.mapdims, sp.channels, d);
    }
}
template <typename T> hep::multi_channel_integrand<T, Integrand<T>, Map<T>, false> mk_mc0(Spec<T>& sp)
{ return hep::make_multi_channel_integrand<T>(sp.f, sp.dims, sp.map, sp.mapdims, sp.channels); }

// the function object stored in the integrand the user handed over is the one that must have been invoked (a user reads its state back
// through integrand.function() after the run): its own call counter against the calls the harness saw
inline void check_function_state(std::uint64_t own, std::uint64_t seen)
{
    if (own != seen) g_ctx->cbs.push_back(Sx::list({Sx::sym("integrand_object_not_invoked"), Sx::num(own), Sx::num(seen)}));
}

template <typename T> Sx run_case(std::string const& cmd, Sx const& a);

// the same case run alone and then by several threads at once (each with its own context, engine stream, integrand, checkpoint and
// checkpoint file - the user shares nothing): every thread must observe what the run alone observed.  C++ only.
template <typename T> Sx run_concurrent(Sx const& a)
{
    int const n = static_cast<int>(a.find("threads") ? a.find("threads")->at(1).N_() : 4);
    std::cout.flush(); std::fflush(stdout);
    int const saved = ::dup(1); int const null = ::open("/dev/null", O_WRONLY); ::dup2(null, 1); ::close(null);
    g_nocapture = true;
    std::string ref; std::vector<std::string> outs(n);
    std::vector<std::string> errs(n);
    try
    {
        g_tid = 0; { Sx r = run_case<T>("run", a); print_sx(ref, r); }
        std::vector<std::thread> th;
        for (int k = 0; k != n; ++k)
            th.emplace_back([&, k]() {
                g_tid = k + 1;
                try { Sx r = run_case<T>("run", a); print_sx(outs[k], r); }
                catch (std::exception const& e) { errs[k] = e.what(); }
                catch (...) { errs[k] = "unknown exception"; }
            });
        for (auto& t : th) t.join();
    }
    catch (...) { g_nocapture = false; std::cout.flush(); ::dup2(saved, 1); ::close(saved); throw; }
    g_nocapture = false; g_tid = 0;
    std::cout.flush(); std::fflush(stdout); ::dup2(saved, 1); ::close(saved);
    std::size_t differ = 0; std::string first_err;
    for (int k = 0; k != n; ++k) { if (!errs[k].empty() || outs[k] != ref) ++differ; if (first_err.empty()) first_err = errs[k]; }
    Sx out = Sx::list({Sx::sym("concurrent"), Sx::num(static_cast<std::uint64_t>(n)), Sx::num(differ)});
    if (!first_err.empty()) out.add(Sx::str(first_err));
    return out;
}

template <typename T> Sx run_case(std::string const& cmd, Sx const& a)
{
    if (cmd == "concurrent") return run_concurrent<T>(a);
    if (cmd != "run") return Sx::list({Sx::sym("unknown_command"), Sx::sym(cmd)});
    Ctx ctx; g_ctx = &ctx;
    Spec<T> sp;
    auto num = [&](char const* k, std::uint64_t d) { Sx const* e = a.find(k); return e ? e->at(1).N_() : d; };
    sp.kind = a.find("kind")->at(1).Y_();
    sp.dims = num("dims", 1); sp.channels = num("channels", 1); sp.mapdims = num("mapdims", sp.dims);
    if (Sx const* e = a.find("raw")) for (auto const& x : e->at(1).L_()) ctx.raw.push_back(x.N_());
    ctx.seed = num("seed", 0); ctx.idx = num("idx", 0); ctx.trace = num("trace", 0) != 0;
    std::uint64_t const pos0 = num("pos", 0);
    if (Sx const* e = a.find("dists"))
        for (auto const& d : e->at(1).L_())
        {
            T const ymin = static_cast<T>(d.at(4).F_()), ymax = static_cast<T>(d.at(5).F_());
            // a one-dimensional binning written the way users write it (the shortcut delegates with y in [0, 1))
            if (d.at(1).N_() == 1 && ymin == T() && !std::signbit(ymin) && ymax == T(1.0))
                sp.dists.push_back(hep::make_dist_params<T>(d.at(0).N_(), static_cast<T>(d.at(2).F_()), static_cast<T>(d.at(3).F_()), d.at(6).S_()));
            else
                sp.dists.emplace_back(d.at(0).N_(), d.at(1).N_(), static_cast<T>(d.at(2).F_()), static_cast<T>(d.at(3).F_()), ymin, ymax, d.at(6).S_());
        }
    sp.force_acc = num("acc", 0) != 0;
    Sx const& fs = a.find("f")->at(1);
    if (fs.at(0).is_sym("poly")) { sp.f.poly = true; for (auto const& p : fs.at(1).L_()) sp.f.ab.emplace_back(static_cast<T>(p.at(0).F_()), static_cast<T>(p.at(1).F_())); }
    else sp.f.tab = floats<T>(fs.at(1));
    sp.f.wants = num("wants", 0) != 0;
    if (Sx const* e = a.find("fwide")) for (auto const& x : e->at(1).L_()) sp.fwide.push_back(x.F_());
    sp.f.nest = static_cast<int>(num("nest", 0)); sp.f.nest_kind = sp.kind;
    sp.f.errno_edom = num("errno", 0) != 0;
    sp.map.early = num("mapearly", 0) != 0;
    if (Sx const* e = a.find("tables")) for (auto const& t : e->at(1).L_()) sp.f.tables.push_back(floats<T>(t));
    if (Sx const* e = a.find("fills"))
        for (auto const& f : e->at(1).L_())
        {
            FillSpec<T> s; s.idx = f.at(0).N_(); s.x = d_src<T>(f.at(1)); s.has_y = f.at(2).kind == Sx::L;
            if (s.has_y) s.y = d_src<T>(f.at(2)); else s.y = Src<T>{'k', 0, T()};
            s.v = d_src<T>(f.at(3)); sp.f.fills.push_back(s);
        }
    sp.map.mapdims = sp.mapdims; sp.map.channels = sp.channels;
    if (Sx const* e = a.find("map"))
    {
        Sx const& m = e->at(1);
        if (m.at(0).is_sym("grid"))
        {
            sp.map.grid = true; sp.map.kappa = static_cast<T>(m.at(1).F_());
            for (auto const& ch : m.at(2).L_()) { std::vector<std::vector<T>> g; for (auto const& d : ch.L_()) g.push_back(floats<T>(d)); sp.map.grids.push_back(g); }
        }
        else { sp.map.ctab = floats<T>(m.at(1)); sp.map.dtab = floats<T>(m.at(2)); sp.map.jtab = floats<T>(m.at(3)); }
    }
    Sx const& cb = a.find("cb")->at(1);
    if (cb.at(0).is_sym("builtin")) { sp.builtin = true; sp.mode = static_cast<int>(cb.at(1).N_()); sp.target = static_cast<T>(cb.at(2).F_()); }
    else { sp.builtin = false; for (auto const& b : cb.at(1).L_()) sp.script.push_back(b.N_() != 0); }
    char const* tmpdir = std::getenv("VERIF_TMP");
    sp.filename = std::string(tmpdir ? tmpdir : ".") + "/verif_chk_" + std::to_string(::getpid()) + (g_tid ? "_t" + std::to_string(g_tid) : std::string()) + ".txt";
    if (Sx const* e = a.find("keepfile")) { sp.filename = e->at(1).S_(); sp.keepfile = true; }
    sp.cbbase = num("cbbase", 0) != 0;
    sp.cbref = num("cbref", 0) != 0;
    sp.subcomm = static_cast<int>(num("subcomm", 0));
    sp.ofmt = static_cast<int>(num("ofmt", 0));
    sp.iexc = num("iexc", 0) != 0;
    sp.coutfmt = static_cast<int>(num("coutfmt", 0));
    sp.churn = num("churn", 0) != 0;
    sp.reuse = num("reuse", 0) != 0;
    sp.rbbase = num("rbbase", 0) != 0;
    sp.noseek = num("noseek", 0) != 0;
    sp.cbint = num("cbint", 0) != 0;
    sp.fenv = num("fenv", 0) != 0;
    // the state the program left std::cout in before it handed control to the library (restored when the case ends)
    struct CoutGuard
    {
        std::ios_base::fmtflags flags; std::streamsize prec;
        CoutGuard() : flags(std::cout.flags()), prec(std::cout.precision()) {}
        ~CoutGuard() { std::cout.exceptions(std::ios::goodbit); std::cout.clear(); std::cout.flags(flags); std::cout.precision(prec); }
    };
    // (not while several threads run cases at once: the format state of std::cout is the program's, not the library's)
    std::unique_ptr<CoutGuard> cout_guard(g_nocapture ? nullptr : new CoutGuard());
    if (!g_nocapture)
    {
        user_format(std::cout, sp.coutfmt);
        if (sp.coutfmt & 256) std::cout.precision(std::numeric_limits<T>::max_digits10);
        if (sp.coutfmt & 512) std::cout.exceptions(std::ios::badbit | std::ios::failbit);        // a user who wants to notice a full disk behind a redirected stdout
    }
    Sx const& ops = a.find("ops")->at(1);
    Sx const& ck = a.find("chk")->at(1);
    bool const with_dists = !sp.dists.empty() || sp.force_acc;
    hep::callback_mode const modes[4] = {hep::callback_mode::silent, hep::callback_mode::silent_and_write_chkpt, hep::callback_mode::verbose,
        hep::callback_mode::verbose_and_write_chkpt};
    Sx result;
    if (sp.kind == "plain")
    {
        using C = PChk<T>;
        C chk = hep::make_plain_chkpt<T, script_engine>(script_engine(pos0));
        BuiltinCb<C> bcb{hep::callback<C>(modes[sp.mode & 3], sp.filename, sp.target), sp.mode, sp.filename, sp.keepfile, sp.cbref}; ScriptCb<C> scb{sp.script}; ScriptCbInt<C> scbi{sp.script};
        BuiltinCb<C, hep::plain_chkpt<T>> bbb{hep::callback<hep::plain_chkpt<T>>(modes[sp.mode & 3], sp.filename, sp.target), sp.mode, sp.filename, sp.keepfile, sp.cbref};
        auto kept1 = mk_int1<T>(sp); auto kept0 = mk_int0<T>(sp);
        result = run_ops<T>(sp, ops, chk, [&](std::vector<std::size_t> const& calls, C const& c) -> C {
            // (reuse: ONE integrand object for all the runs of the case, as a user who keeps the integrand in a variable has)
            auto fresh1 = mk_int1<T>(sp); auto fresh0 = mk_int0<T>(sp);
            auto& i1 = sp.reuse ? kept1 : fresh1; auto& i0 = sp.reuse ? kept0 : fresh0;
            std::uint64_t const own_before = i1.function().own_calls + i0.function().own_calls;
            std::uint64_t const before = g_ctx->idx;
            C r = (sp.builtin && sp.cbbase) ? (with_dists ? hep::plain(i1, calls, c, bbb) : hep::plain(i0, calls, c, bbb))
                : with_dists ? (sp.builtin ? hep::plain(i1, calls, c, bcb) : sp.cbint ? hep::plain(i1, calls, c, scbi) : hep::plain(i1, calls, c, scb))
                : (sp.builtin ? hep::plain(i0, calls, c, bcb) : sp.cbint ? hep::plain(i0, calls, c, scbi) : hep::plain(i0, calls, c, scb));
            check_function_state(i1.function().own_calls + i0.function().own_calls - own_before, g_ctx->idx - before);
            return r; },
            [&](Spec<T>& my, std::vector<std::size_t> const& calls, C const& c) {
#ifdef VERIF_MPI
            MpiBuiltinCb<C> mb{hep::mpi_callback<C>(modes[my.mode & 3], my.filename, my.target)}; MpiScriptCb<C> ms{my.script};
            auto j1 = mk_int1<T>(my); auto j0 = mk_int0<T>(my);
            if (with_dists) return my.builtin ? hep::mpi_plain(shim_comm(), j1, calls, c, mb) : hep::mpi_plain(shim_comm(), j1, calls, c, ms);
            return my.builtin ? hep::mpi_plain(shim_comm(), j0, calls, c, mb) : hep::mpi_plain(shim_comm(), j0, calls, c, ms);
#else
            (void) my; (void) calls; return c;
#endif
            });
    }
    else if (sp.kind == "vegas")
    {
        using C = VChk<T>;
        C chk = ck.at(0).is_sym("pdf")
            ? hep::make_vegas_chkpt<T, script_engine>(make_pdf<T>(ck.at(1).N_(), ck.at(2).N_(), floats<T>(ck.at(3))), static_cast<T>(ck.at(4).F_()), script_engine(pos0))
            : hep::make_vegas_chkpt<T, script_engine>(static_cast<std::size_t>(ck.at(1).N_()), static_cast<T>(ck.at(2).F_()), script_engine(pos0));
        BuiltinCb<C> bcb{hep::callback<C>(modes[sp.mode & 3], sp.filename, sp.target), sp.mode, sp.filename, sp.keepfile, sp.cbref}; ScriptCb<C> scb{sp.script}; ScriptCbInt<C> scbi{sp.script};
        BuiltinCb<C, hep::vegas_chkpt<T>> bbb{hep::callback<hep::vegas_chkpt<T>>(modes[sp.mode & 3], sp.filename, sp.target), sp.mode, sp.filename, sp.keepfile, sp.cbref};
        auto kept1 = mk_int1<T>(sp); auto kept0 = mk_int0<T>(sp);
        result = run_ops<T>(sp, ops, chk, [&](std::vector<std::size_t> const& calls, C const& c) -> C {
            if (!sp.fwide.empty())
            {
                // a user function whose return type is wider than the numeric type of the integration
                auto iw = hep::make_integrand<T>(WideIntegrand<T>{sp.fwide}, sp.dims);
                return hep::vegas(iw, calls, c, scb);
            }
            // (reuse: ONE integrand object for all the runs of the case, as a user who keeps the integrand in a variable has)
            auto fresh1 = mk_int1<T>(sp); auto fresh0 = mk_int0<T>(sp);
            auto& i1 = sp.reuse ? kept1 : fresh1; auto& i0 = sp.reuse ? kept0 : fresh0;
            std::uint64_t const own_before = i1.function().own_calls + i0.function().own_calls;
            std::uint64_t const before = g_ctx->idx;
            C r = (sp.builtin && sp.cbbase) ? (with_dists ? hep::vegas(i1, calls, c, bbb) : hep::vegas(i0, calls, c, bbb))
                : with_dists ? (sp.builtin ? hep::vegas(i1, calls, c, bcb) : sp.cbint ? hep::vegas(i1, calls, c, scbi) : hep::vegas(i1, calls, c, scb))
                : (sp.builtin ? hep::vegas(i0, calls, c, bcb) : sp.cbint ? hep::vegas(i0, calls, c, scbi) : hep::vegas(i0, calls, c, scb));
            check_function_state(i1.function().own_calls + i0.function().own_calls - own_before, g_ctx->idx - before);
            return r; },
            [&](Spec<T>& my, std::vector<std::size_t> const& calls, C const& c) {
#ifdef VERIF_MPI
            MpiBuiltinCb<C> mb{hep::mpi_callback<C>(modes[my.mode & 3], my.filename, my.target)}; MpiScriptCb<C> ms{my.script};
            auto j1 = mk_int1<T>(my); auto j0 = mk_int0<T>(my);
            if (with_dists) return my.builtin ? hep::mpi_vegas(shim_comm(), j1, calls, c, mb) : hep::mpi_vegas(shim_comm(), j1, calls, c, ms);
            return my.builtin ? hep::mpi_vegas(shim_comm(), j0, calls, c, mb) : hep::mpi_vegas(shim_comm(), j0, calls, c, ms);
#else
            (void) my; (void) calls; return c;
#endif
            });
    }
    else
    {
        using C = MChk<T>;
        C chk = ck.at(0).is_sym("weights")
            ? hep::make_multi_channel_chkpt<T, script_engine>(floats<T>(ck.at(1)), static_cast<T>(ck.at(2).F_()), static_cast<T>(ck.at(3).F_()), script_engine(pos0))
            : hep::make_multi_channel_chkpt<T, script_engine>(static_cast<T>(ck.at(1).F_()), static_cast<T>(ck.at(2).F_()), script_engine(pos0));
        BuiltinCb<C> bcb{hep::callback<C>(modes[sp.mode & 3], sp.filename, sp.target), sp.mode, sp.filename, sp.keepfile, sp.cbref}; ScriptCb<C> scb{sp.script}; ScriptCbInt<C> scbi{sp.script};
        BuiltinCb<C, hep::multi_channel_chkpt<T>> bbb{hep::callback<hep::multi_channel_chkpt<T>>(modes[sp.mode & 3], sp.filename, sp.target), sp.mode, sp.filename, sp.keepfile, sp.cbref};
        auto kept1 = mk_mc1<T>(sp); auto kept0 = mk_mc0<T>(sp);
        result = run_ops<T>(sp, ops, chk, [&](std::vector<std::size_t> const& calls, C const& c) -> C {
            // (reuse: ONE integrand object for all the runs of the case, as a user who keeps the integrand in a variable has)
            auto fresh1 = mk_mc1<T>(sp); auto fresh0 = mk_mc0<T>(sp);
            auto& i1 = sp.reuse ? kept1 : fresh1; auto& i0 = sp.reuse ? kept0 : fresh0;
            std::uint64_t const own_before = i1.function().own_calls + i0.function().own_calls;
            std::uint64_t const before = g_ctx->idx;
            std::uint64_t const map_before = g_ctx->map_calls, own_map_before = i1.map().own_calls + i0.map().own_calls;
            C r = (sp.builtin && sp.cbbase) ? (with_dists ? hep::multi_channel(i1, calls, c, bbb) : hep::multi_channel(i0, calls, c, bbb))
                : with_dists ? (sp.builtin ? hep::multi_channel(i1, calls, c, bcb) : sp.cbint ? hep::multi_channel(i1, calls, c, scbi) : hep::multi_channel(i1, calls, c, scb))
                : (sp.builtin ? hep::multi_channel(i0, calls, c, bcb) : sp.cbint ? hep::multi_channel(i0, calls, c, scbi) : hep::multi_channel(i0, calls, c, scb));
            check_function_state(i1.function().own_calls + i0.function().own_calls - own_before, g_ctx->idx - before);
            if (i1.map().own_calls + i0.map().own_calls - own_map_before != g_ctx->map_calls - map_before)
                g_ctx->cbs.push_back(Sx::list({Sx::sym("map_object_not_invoked"), Sx::num(i1.map().own_calls + i0.map().own_calls - own_map_before), Sx::num(g_ctx->map_calls - map_before)}));
            return r; },
            [&](Spec<T>& my, std::vector<std::size_t> const& calls, C const& c) {
#ifdef VERIF_MPI
            MpiBuiltinCb<C> mb{hep::mpi_callback<C>(modes[my.mode & 3], my.filename, my.target)}; MpiScriptCb<C> ms{my.script};
            auto j1 = mk_mc1<T>(my); auto j0 = mk_mc0<T>(my);
            if (with_dists) return my.builtin ? hep::mpi_multi_channel(shim_comm(), j1, calls, c, mb) : hep::mpi_multi_channel(shim_comm(), j1, calls, c, ms);
            return my.builtin ? hep::mpi_multi_channel(shim_comm(), j0, calls, c, mb) : hep::mpi_multi_channel(shim_comm(), j0, calls, c, ms);
#else
            (void) my; (void) calls; return c;
#endif
            });
    }
    if (!sp.keepfile) { ::unlink(sp.filename.c_str()); ::unlink((sp.filename + ".tmp").c_str()); }
    g_ctx = nullptr;
    return result;
}
#endif
