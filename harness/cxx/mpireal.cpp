// C04, thorough tier: the three MPI drivers under REAL MPI (mpirun -np P): order-insensitive observables are
// compared exactly with the serial run (points of the first iteration of adaptive integrators / of every iteration
// of PLAIN, call counters, stored generators), sums within the reassociation bound, every rank's checkpoint text
// with rank 0's.  Usage: mpirun -np P mpireal <seed>.   Prints  OK ... / FAIL C04 ...  on rank 0.
#include "hep/mc-mpi.hpp"
#include <algorithm>
#include <cmath>
#include <cstdio>
#include <cstdlib>
#include <random>
#include <sstream>
#include <string>
#include <vector>

static int g_rank = 0, g_world = 1, g_fail = 0, g_ok = 0;
static void report(bool ok, std::string const& what, bool also_c10 = false)
{
    if (g_rank != 0) return;
    if (ok) { ++g_ok; return; }
    ++g_fail; std::printf("FAIL C04 %s\n", what.c_str());
    if (also_c10) std::printf("FAIL C10 real MPI: %s\n", what.c_str());
}
static std::uint64_t mix(std::uint64_t x) { x += 0x9e3779b97f4a7c15ULL; x = (x ^ (x >> 30)) * 0xbf58476d1ce4e5b9ULL; x = (x ^ (x >> 27)) * 0x94d049bb133111ebULL; return x ^ (x >> 31); }

static std::vector<double> g_points;     // coordinates of every point this process evaluated, in call order
template <typename T, typename P> T poly(P const& p) { T acc = T(1); for (auto x : p.point()) { acc *= T(0.5) + T(1.5) * x; g_points.push_back(static_cast<double>(x)); } return acc; }

template <typename T> struct IdMap
{
    T operator()(std::size_t ch, std::vector<T> const& us, std::vector<T>& coords, std::vector<std::size_t> const&, std::vector<T>& dens, hep::multi_channel_map action)
    {
        if (action == hep::multi_channel_map::calculate_coordinates) { for (std::size_t k = 0; k != coords.size() && k != us.size(); ++k) coords[k] = ch == 0 ? us[k] : us[k] * us[k]; return T(1); }
        for (std::size_t j = 0; j != dens.size(); ++j) dens[j] = j == 0 ? T(1) : T(1) / (T(2) * std::sqrt(coords[0] > T() ? coords[0] : T(1e-30)));
        return T(1);
    }
};

static std::vector<double> gather_points()
{
    int n = static_cast<int>(g_points.size());
    std::vector<int> counts(g_world), displs(g_world);
    MPI_Gather(&n, 1, MPI_INT, counts.data(), 1, MPI_INT, 0, MPI_COMM_WORLD);
    int total = 0; for (int r = 0; r != g_world; ++r) { displs[r] = total; total += counts[r]; }
    std::vector<double> all(g_rank == 0 ? total : 0);
    MPI_Gatherv(g_points.data(), n, MPI_DOUBLE, all.data(), counts.data(), displs.data(), MPI_DOUBLE, 0, MPI_COMM_WORLD);
    return all;
}
static bool same_text_everywhere(std::string const& text)
{
    unsigned long h = 1469598103934665603UL; for (unsigned char c : text) { h ^= c; h *= 1099511628211UL; }
    unsigned long h0 = h; MPI_Bcast(&h0, 1, MPI_UNSIGNED_LONG, 0, MPI_COMM_WORLD);
    int same = h == h0, all = 0; MPI_Allreduce(&same, &all, 1, MPI_INT, MPI_MIN, MPI_COMM_WORLD);
    return all != 0;
}

template <typename T, typename Run, typename Serial> void compare(char const* what, std::vector<std::size_t> const& calls, std::size_t dims, bool all_iterations, Run run, Serial serial)
{
    g_points.clear();
    auto chk = run();
    std::vector<double> all = gather_points();
    std::ostringstream text; chk.serialize(text);
    report(same_text_everywhere(text.str()), std::string(what) + ": ranks return different checkpoints");
    if (g_rank != 0) return;
    g_points.clear();
    auto ser = serial();
    std::vector<double> sp = g_points;
    report(ser.results().size() == chk.results().size(), std::string(what) + ": number of iterations differs from the serial run");
    if (all_iterations)
    {
        // the MPI points arrive rank by rank: compare as multisets
        std::vector<double> a = all, b = sp;
        std::sort(a.begin(), a.end()); std::sort(b.begin(), b.end());
        report(a == b, std::string(what) + ": the points evaluated across all ranks are not the points of the serial run (" + std::to_string(a.size() / (dims ? dims : 1)) + " vs " + std::to_string(b.size() / (dims ? dims : 1)) + ")");
    }
    for (std::size_t k = 0; k != std::min(ser.results().size(), chk.results().size()); ++k)
    {
        auto const& x = chk.results()[k]; auto const& y = ser.results()[k];
        if (!all_iterations && k > 0) break;
        report(x.calls() == y.calls() && x.non_zero_calls() == y.non_zero_calls() && x.finite_calls() == y.finite_calls(), std::string(what) + ": counters of iteration " + std::to_string(k) + " differ from the serial run");
        double const tol = (2.0 * g_world + 32.0) * static_cast<double>(std::numeric_limits<T>::epsilon()) * std::sqrt(static_cast<double>(y.calls()) * static_cast<double>(y.sum_of_squares()));
        report(std::fabs(static_cast<double>(x.sum() - y.sum())) <= tol, std::string(what) + ": sum of iteration " + std::to_string(k) + " differs from the serial run by more than reassociation allows");
    }
    if (all_iterations || chk.results().size() <= 1)
    {
        std::ostringstream g1, g2; g1 << chk.generator(); g2 << ser.generator();
        report(g1.str() == g2.str(), std::string(what) + ": stored generator differs from the serial run", true);
    }
}

// engines: the library must treat every engine through the standard interface only - standard ones, and instantiations of the
// standard templates that are not among the nine typedefs (increment != 0, moduli that are not powers of two)
typedef std::linear_congruential_engine<std::uint32_t, 1103515245u, 12345u, 2147483648u> lcg_ansi_c;          // c != 0, m = 2^31
typedef std::linear_congruential_engine<std::uint64_t, 1588635695ull, 0ull, 4294967291ull> lcg_lecuyer;        // m = 2^32 - 5
typedef std::linear_congruential_engine<std::uint32_t, 69069u, 7u, 16777213u> lcg_m24;                          // c != 0, m = 2^24 - 3
typedef std::linear_congruential_engine<std::uint64_t, 6364136223846793005ull, 1442695040888963407ull, 0ull> lcg_knuth64;   // c != 0, m = 2^64

template <typename T, typename E = std::mt19937> void all_for(char const* tname0, std::uint64_t seed, char const* ename = "mt19937")
{
    std::string const tname_s = std::string(tname0) + ", " + ename; char const* tname = tname_s.c_str();
    std::size_t const d = 1 + mix(seed + 1) % 3;
    std::vector<std::size_t> const pool = {0, 1, 2, static_cast<std::size_t>(g_world - 1), static_cast<std::size_t>(g_world), static_cast<std::size_t>(g_world + 1), 37, 100};
    std::vector<std::size_t> calls; for (int i = 0; i != 3; ++i) calls.push_back(pool[mix(seed + 10 + i) % pool.size()]);
    std::string const tn = std::string(tname) + " d=" + std::to_string(d) + " calls={" + std::to_string(calls[0]) + "," + std::to_string(calls[1]) + "," + std::to_string(calls[2]) + "}";
    unsigned const s = static_cast<unsigned>(mix(seed + 5));
    {
        auto f = [](hep::mc_point<T> const& p) { return poly<T>(p); };
        auto c0 = hep::make_plain_chkpt<T>(E(static_cast<typename E::result_type>(s % 100000u + 1u)));
        compare<T>(("mpi_plain " + tn).c_str(), calls, d, true,
            [&]() { return hep::mpi_plain(MPI_COMM_WORLD, hep::make_integrand<T>(f, d), calls, c0, hep::mpi_callback<decltype(c0)>(hep::callback_mode::silent)); },
            [&]() { return hep::plain(hep::make_integrand<T>(f, d), calls, c0, hep::callback<decltype(c0)>(hep::callback_mode::silent)); });
    }
    std::vector<std::size_t> const one = {calls[0] ? calls[0] : 5};
    {
        auto f = [](hep::vegas_point<T> const& p) { return poly<T>(p); };
        auto c0 = hep::make_vegas_chkpt<T>(8, T(1.5), E(static_cast<typename E::result_type>(s % 100000u + 1u)));
        compare<T>(("mpi_vegas " + tn).c_str(), one, d, true,
            [&]() { return hep::mpi_vegas(MPI_COMM_WORLD, hep::make_integrand<T>(f, d), one, c0, hep::mpi_callback<decltype(c0)>(hep::callback_mode::silent)); },
            [&]() { return hep::vegas(hep::make_integrand<T>(f, d), one, c0, hep::callback<decltype(c0)>(hep::callback_mode::silent)); });
        // several iterations: every rank must still return the same checkpoint and as many results as the serial run
        compare<T>(("mpi_vegas (3 iterations) " + tn).c_str(), calls, d, false,
            [&]() { g_points.clear(); auto r = hep::mpi_vegas(MPI_COMM_WORLD, hep::make_integrand<T>(f, d), calls, c0, hep::mpi_callback<decltype(c0)>(hep::callback_mode::silent)); g_points.clear(); return r; },
            [&]() { auto r = hep::vegas(hep::make_integrand<T>(f, d), calls, c0, hep::callback<decltype(c0)>(hep::callback_mode::silent)); g_points.clear(); return r; });
    }
    {
        auto f = [](hep::multi_channel_point<T> const& p) { return poly<T>(p); };
        auto c0 = hep::make_multi_channel_chkpt<T>(T(), T(0.25), E(static_cast<typename E::result_type>(s % 100000u + 1u)));
        compare<T>(("mpi_multi_channel " + tn).c_str(), one, d, true,
            [&]() { return hep::mpi_multi_channel(MPI_COMM_WORLD, hep::make_multi_channel_integrand<T>(f, d, IdMap<T>(), d, 2), one, c0, hep::mpi_callback<decltype(c0)>(hep::callback_mode::silent)); },
            [&]() { return hep::multi_channel(hep::make_multi_channel_integrand<T>(f, d, IdMap<T>(), d, 2), one, c0, hep::callback<decltype(c0)>(hep::callback_mode::silent)); });
    }
}

// counters beyond the integers the numeric type holds exactly: one float iteration with 2^24 + 5 evaluations per rank, all non-zero, every
// seventh non-finite; the reduced counters must be the numbers of such evaluations (they are integers, not sums in the numeric type)
static void big_counts()
{
    typedef float T;
    std::size_t const n = (std::size_t(1) << 24) * g_world + 5 * g_world + 3;
    unsigned long evals = 0, bad = 0;
    auto f = [&](hep::mc_point<T> const&, hep::projector<T>& p) { ++evals; bool const b = evals % 7 == 0; if (b) ++bad;
        T const v = b ? std::numeric_limits<T>::quiet_NaN() : T(1); p.add(0, T(0.5), T(1)); return v; };
    auto c0 = hep::make_plain_chkpt<T>(std::mt19937_64(7));
    auto chk = hep::mpi_plain(MPI_COMM_WORLD, hep::make_integrand<T>(f, 1, hep::make_dist_params<T>(1, T(), T(1), "d")), std::vector<std::size_t>{n}, c0,
        hep::mpi_callback<decltype(c0)>(hep::callback_mode::silent));
    unsigned long mine[2] = {evals, bad}, all[2] = {0, 0};
    MPI_Allreduce(mine, all, 2, MPI_UNSIGNED_LONG, MPI_SUM, MPI_COMM_WORLD);
    auto const& r = chk.results().back(); auto const& b = r.distributions().at(0).results().at(0);
    bool const ok = r.calls() == n && all[0] == n && r.non_zero_calls() == all[0] && r.finite_calls() == all[0] - all[1] && b.non_zero_calls() == all[0] && b.finite_calls() == all[0];
    if (g_rank == 0 && !ok)
    {
        char buf[400];
        std::snprintf(buf, sizeof buf, "mpi_plain<float>, one iteration of %zu calls: %lu evaluations were non-zero and %lu of them non-finite, the result reports calls=%zu non_zero_calls=%zu finite_calls=%zu, "
            "the bin non_zero_calls=%zu finite_calls=%zu", n, all[0], all[1], r.calls(), r.non_zero_calls(), r.finite_calls(), b.non_zero_calls(), b.finite_calls());
        ++g_fail; std::printf("FAIL C04 %s\nFAIL C02 real MPI: %s\nFAIL C06 real MPI: %s\n", buf, buf, buf);
    }
    else if (g_rank == 0) ++g_ok;
}

// a fast 64-bit engine for the run below (discard is linear)
struct huge_engine
{
    using result_type = std::uint64_t;
    static constexpr result_type min() { return 0; }
    static constexpr result_type max() { return ~std::uint64_t(0); }
    std::uint64_t s = 88172645463325252ULL;
    result_type operator()() { s ^= s << 13; s ^= s >> 7; s ^= s << 17; return s; }
    void discard(unsigned long long k) { while (k--) (*this)(); }
    friend bool operator==(huge_engine const& a, huge_engine const& b) { return a.s == b.s; }
    friend std::ostream& operator<<(std::ostream& o, huge_engine const& e) { return o << e.s; }
    friend std::istream& operator>>(std::istream& i, huge_engine& e) { return i >> e.s; }
};

// a call count above 2^32 (directed search when the translated share expression no longer matches the headers, and thorough tier):
// all ranks together must evaluate exactly N points and every rank's share must be N / P or N / P + 1
static void huge_calls()
{
    typedef float T;
    std::size_t const n = (std::size_t(1) << 32) + 100003;
    unsigned long evals = 0;
    auto f = [&](hep::mc_point<T> const&) { ++evals; return T(1); };
    // (the discards of the other ranks' numbers are linear in N for this engine: a few seconds per rank)
    auto c0 = hep::make_plain_chkpt<T, huge_engine>(huge_engine());
    auto chk = hep::mpi_plain(MPI_COMM_WORLD, hep::make_integrand<T>(f, 1), std::vector<std::size_t>{n}, c0, hep::mpi_callback<decltype(c0)>(hep::callback_mode::silent));
    unsigned long all = 0, lo = 0, hi = 0;
    MPI_Allreduce(&evals, &all, 1, MPI_UNSIGNED_LONG, MPI_SUM, MPI_COMM_WORLD);
    MPI_Allreduce(&evals, &lo, 1, MPI_UNSIGNED_LONG, MPI_MIN, MPI_COMM_WORLD);
    MPI_Allreduce(&evals, &hi, 1, MPI_UNSIGNED_LONG, MPI_MAX, MPI_COMM_WORLD);
    auto const& r = chk.results().back();
    bool const ok = all == n && r.calls() == n && r.non_zero_calls() == n && lo >= n / g_world && hi <= n / g_world + 1;
    if (g_rank == 0 && !ok)
    {
        char buf[400];
        std::snprintf(buf, sizeof buf, "mpi_plain<float>, one iteration asked for %zu calls on %d ranks: the ranks evaluated %lu points (shares between %lu and %lu), the result reports calls=%zu non_zero_calls=%zu",
            n, g_world, all, lo, hi, r.calls(), r.non_zero_calls());
        ++g_fail; std::printf("FAIL C04 %s\nFAIL C02 real MPI: %s\nFAIL C16 real MPI: %s\n", buf, buf, buf);
    }
    else if (g_rank == 0) ++g_ok;
}

int main(int argc, char** argv)
{
    MPI_Init(&argc, &argv);
    MPI_Comm_rank(MPI_COMM_WORLD, &g_rank); MPI_Comm_size(MPI_COMM_WORLD, &g_world);
    std::uint64_t const seed = argc > 1 ? std::strtoull(argv[1], nullptr, 10) : 1;
    for (int k = 0; k != 3; ++k) { all_for<double>("double", seed * 100 + k); all_for<float>("float", seed * 100 + 50 + k); }
    all_for<double, lcg_ansi_c>("double", seed * 100 + 60, "lcg a=1103515245 c=12345 m=2^31");
    all_for<float, lcg_m24>("float", seed * 100 + 61, "lcg a=69069 c=7 m=2^24-3");
    all_for<long double, lcg_lecuyer>("long double", seed * 100 + 62, "lcg a=1588635695 c=0 m=2^32-5");
    all_for<float, lcg_ansi_c>("float", seed * 100 + 63, "lcg a=1103515245 c=12345 m=2^31");
    all_for<double, lcg_knuth64>("double", seed * 100 + 64, "lcg 64 bit c!=0");
    all_for<double, std::minstd_rand>("double", seed * 100 + 65, "minstd_rand");
    all_for<long double, std::ranlux24>("long double", seed * 100 + 66, "ranlux24");
    all_for<float, std::knuth_b>("float", seed * 100 + 67, "knuth_b");
    all_for<long double, lcg_m24>("long double", seed * 100 + 68, "lcg a=69069 c=7 m=2^24-3");
    all_for<double, std::independent_bits_engine<std::mt19937_64, 53, std::uint64_t>>("double", seed * 100 + 69, "independent_bits_engine<mt19937_64, 53>");
    all_for<double, std::independent_bits_engine<std::mt19937, 14, std::uint32_t>>("double", seed * 100 + 70, "independent_bits_engine<mt19937, 14>");
    all_for<long double, std::linear_congruential_engine<unsigned long long, 6364136223846793005ULL, 1ULL, 18446744073709551557ULL>>("long double", seed * 100 + 71, "lcg m=2^64-59");
    big_counts();
    if (argc > 2 && std::string(argv[2]) == "huge") huge_calls();
    if (g_rank == 0) std::printf("SUMMARY ok=%d fail=%d world=%d\n", g_ok, g_fail, g_world);
    MPI_Finalize();
    return 0;
}
