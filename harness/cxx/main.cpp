// entry point of the C++ driver: dispatches each case to the translation unit of its numeric type
#include "sx.hpp"
#include <cstdlib>
#include <iostream>
#include <locale>
#include <string>
#include <vector>
extern std::vector<Sx> g_libm_log;
extern bool g_libm_logging;
Sx case_float(std::string const&, Sx const&);
Sx case_double(std::string const&, Sx const&);
Sx case_long_double(std::string const&, Sx const&);
// VERIF_LOCALE=comma: the process-global C++ locale writes and reads numbers with a decimal comma (every stream the library or its
// user constructs afterwards is imbued with it; the driver's own input and output do not go through locale-dependent formatting)
struct comma_punct : std::numpunct<char> { char do_decimal_point() const override { return ','; } };

int main()
{
    if (char const* l = std::getenv("VERIF_LOCALE"))
        if (std::string(l) == "comma") std::locale::global(std::locale(std::locale::classic(), new comma_punct));
    std::string line;
    while (std::getline(std::cin, line))
    {
        if (line.empty() || line[0] != '(') continue;
        std::size_t pos = 0;
        Sx out = Sx::list();
        try
        {
            Sx c = parse_sx(line, pos);
            out.add(c.at(0));
            std::string const& t = c.at(1).Y_();
            std::string const& cmd = c.at(2).Y_();
            g_libm_log.clear();
            g_libm_logging = true;
            Sx r = t == "f" ? case_float(cmd, c.at(3)) : t == "d" ? case_double(cmd, c.at(3)) : case_long_double(cmd, c.at(3));
            g_libm_logging = false;
            out.add(r);
            out.add(Sx::list(g_libm_log));
        }
        catch (std::exception const& e)
        {
            g_libm_logging = false;
            out.add(Sx::list({Sx::sym("exception"), Sx::str(e.what())}));
            out.add(Sx::list());
        }
        std::string text;
        print_sx(text, out);
        std::cout << text << '\n';
    }
    return 0;
}
