// C++-only differential checks with the nine standard random engines (the executed model knows only the
// scripted 64-bit engine): C10 (raw draws per call, usage predictor, stored generator), C05 (text round trip
// of every stored generator), C03 (resumed = uninterrupted, textually).  Built once per numeric type (-DENG_TYPE=float|double|long double).  Usage: engines_<t> <seed>
// Prints one line per check:  OK <what>   or   FAIL <property> <what>
#include "hep/mc.hpp"
#include <cstdint>
#include <cstdio>
#include <iostream>
#include <random>
#include <sstream>
#include <string>
#include <vector>

static int g_fail = 0, g_ok = 0;
static void report(bool ok, char const* prop, std::string const& what)
{
    if (ok) { ++g_ok; } else { ++g_fail; std::printf("FAIL %s %s\n", prop, what.c_str()); }
}

// engine wrapper that counts raw draws; discard(n) counts n (it is defined as n draws)
static unsigned long long g_draws = 0;
template <typename E> struct counting
{
    using result_type = typename E::result_type;
    static constexpr result_type min() { return E::min(); }
    static constexpr result_type max() { return E::max(); }
    E e;
    counting() = default;
    explicit counting(result_type s) : e(s) {}
    result_type operator()() { ++g_draws; return e(); }
    void discard(unsigned long long n) { g_draws += n; e.discard(n); }
    friend bool operator==(counting const& a, counting const& b) { return a.e == b.e; }
    friend bool operator!=(counting const& a, counting const& b) { return !(a.e == b.e); }
    friend std::ostream& operator<<(std::ostream& o, counting const& c) { return o << c.e; }
    friend std::istream& operator>>(std::istream& i, counting& c) { return i >> c.e; }
};

// synthetic engine with an odd range [0, R)
template <std::uint64_t R> struct synth
{
    using result_type = std::uint64_t;
    static constexpr result_type min() { return 0; }
    static constexpr result_type max() { return R - 1; }
    std::uint64_t s = 12345;
    synth() = default;
    explicit synth(std::uint64_t x) : s(x) {}
    result_type operator()() { s = s * 6364136223846793005ULL + 1442695040888963407ULL; return (s >> 20) % R; }
    void discard(unsigned long long n) { while (n--) (*this)(); }
    friend bool operator==(synth const& a, synth const& b) { return a.s == b.s; }
    friend std::ostream& operator<<(std::ostream& o, synth const& c) { return o << c.s; }
    friend std::istream& operator>>(std::istream& i, synth& c) { return i >> c.s; }
};

// synthetic engine with the range [LO, HI], LO != 0 (the range, not the maximum, decides how many outputs a canonical number takes)
template <std::uint64_t LO, std::uint64_t HI> struct synth_off
{
    using result_type = std::uint64_t;
    static constexpr result_type min() { return LO; }
    static constexpr result_type max() { return HI; }
    std::uint64_t s = 12345;
    synth_off() = default;
    explicit synth_off(std::uint64_t x) : s(x) {}
    result_type operator()() { s = s * 6364136223846793005ULL + 1442695040888963407ULL; return LO + (s >> 20) % (HI - LO + 1); }
    void discard(unsigned long long n) { while (n--) (*this)(); }
    friend bool operator==(synth_off const& a, synth_off const& b) { return a.s == b.s; }
    friend std::ostream& operator<<(std::ostream& o, synth_off const& c) { return o << c.s; }
    friend std::istream& operator>>(std::istream& i, synth_off& c) { return i >> c.s; }
};

static std::uint64_t g_seed = 1;
static std::uint64_t mix(std::uint64_t x) { x += 0x9e3779b97f4a7c15ULL; x = (x ^ (x >> 30)) * 0xbf58476d1ce4e5b9ULL; x = (x ^ (x >> 27)) * 0x94d049bb133111ebULL; return x ^ (x >> 31); }

template <typename T> struct Values
{
    // integrand values: zero, finite, non-finite - consumption must not depend on them
    T operator()(std::uint64_t i) const
    {
        switch (mix(g_seed + i) % 7) { case 0: return T(); case 1: return std::numeric_limits<T>::quiet_NaN(); case 2: return std::numeric_limits<T>::infinity();
        case 3: return T(-2.5); default: return T(1.0) + T(i % 5); }
    }
};

template <typename T, typename E> void draws_plain(char const* tname, char const* ename)
{
    using C = counting<E>;
    std::size_t const d = 1 + mix(g_seed + 11) % 3, n1 = 1 + mix(g_seed + 12) % 9, n2 = mix(g_seed + 13) % 5;
    std::size_t const usage = hep::random_number_usage<T, C>();
    // measured cost of one canonical number
    { C probe(7); g_draws = 0; (void) std::generate_canonical<T, std::numeric_limits<T>::digits>(probe);
      report(g_draws == usage, "C10", std::string("usage predictor ") + std::to_string(usage) + " vs measured " + std::to_string(g_draws) + " raw draws per number (" + tname + ", " + ename + ")"); }
    std::uint64_t call = 0; Values<T> vals;
    auto f = [&](hep::mc_point<T> const&) { return vals(call++); };
    auto chk0 = hep::make_plain_chkpt<T, C>(C(static_cast<typename E::result_type>(1 + g_seed % 1000)));
    g_draws = 0;
    auto chk = hep::plain(hep::make_integrand<T>(f, d), std::vector<std::size_t>{n1, n2}, chk0,
        hep::callback<hep::plain_chkpt_with_rng<C, T>>(hep::callback_mode::silent));
    report(g_draws == (n1 + n2) * d * usage, "C10", std::string("PLAIN consumed ") + std::to_string(g_draws) + " raw draws for " + std::to_string(n1 + n2) + " calls in " +
        std::to_string(d) + " dimensions, expected " + std::to_string((n1 + n2) * d * usage) + " (" + tname + ", " + ename + ")");
    C expect = chk0.generator(); expect.e.discard((n1 + n2) * d * usage);
    report(chk.generator() == expect, "C10", std::string("PLAIN stored generator is not the start generator advanced by calls x d x usage (") + tname + ", " + ename + ")");
    // text round trip of every stored generator, and resumed = uninterrupted
    std::ostringstream t1; chk.serialize(t1);
    std::istringstream in(t1.str());
    auto back = hep::make_plain_chkpt<T, C>(in);
    bool same = !in.fail() && back.results().size() == chk.results().size();
    std::ostringstream t2; if (same) back.serialize(t2);
    report(same && t1.str() == t2.str() && back.generator() == chk.generator(), "C05", std::string("PLAIN checkpoint text round trip with stored generators (") + tname + ", " + ename + ")");
    // interrupted after iteration 1, reloaded, continued
    call = 0;
    auto part = hep::plain(hep::make_integrand<T>(f, d), std::vector<std::size_t>{n1}, chk0, hep::callback<hep::plain_chkpt_with_rng<C, T>>(hep::callback_mode::silent));
    std::ostringstream tp; part.serialize(tp); std::istringstream ip(tp.str());
    auto resumed0 = hep::make_plain_chkpt<T, C>(ip);
    if (ip.fail()) { report(false, "C03", std::string("PLAIN checkpoint could not be read back (") + tname + ", " + ename + ")"); return; }
    auto resumed = hep::plain(hep::make_integrand<T>(f, d), std::vector<std::size_t>{n2}, resumed0, hep::callback<hep::plain_chkpt_with_rng<C, T>>(hep::callback_mode::silent));
    std::ostringstream t3; resumed.serialize(t3);
    report(t3.str() == t1.str(), "C03", std::string("PLAIN run resumed from text differs from the uninterrupted run (") + tname + ", " + ename + ")");
}

template <typename T> struct IdMap
{
    std::size_t channels;
    T operator()(std::size_t, std::vector<T> const& us, std::vector<T>& coords, std::vector<std::size_t> const&, std::vector<T>& dens, hep::multi_channel_map action)
    {
        if (action == hep::multi_channel_map::calculate_coordinates) { for (std::size_t k = 0; k != coords.size() && k != us.size(); ++k) coords[k] = us[k]; return T(1.0); }
        for (std::size_t j = 0; j != dens.size(); ++j) dens[j] = T(1.0) + T(j);
        return T(1.0);
    }
};

template <typename T, typename E> void draws_adaptive(char const* tname, char const* ename)
{
    using C = counting<E>;
    std::size_t const d = 1 + mix(g_seed + 21) % 2, n1 = 2 + mix(g_seed + 22) % 9, n2 = 1 + mix(g_seed + 23) % 5;
    std::size_t const usage = hep::random_number_usage<T, C>();
    Values<T> vals;
    {
        std::uint64_t call = 0;
        auto f = [&](hep::vegas_point<T> const&) { return vals(call++); };
        auto chk0 = hep::make_vegas_chkpt<T, C>(4, T(1.5), C(static_cast<typename E::result_type>(3 + g_seed % 1000)));
        g_draws = 0;
        auto chk = hep::vegas(hep::make_integrand<T>(f, d), std::vector<std::size_t>{n1, n2}, chk0, hep::callback<hep::vegas_chkpt_with_rng<C, T>>(hep::callback_mode::silent));
        report(g_draws == (n1 + n2) * d * usage, "C10", std::string("VEGAS consumed ") + std::to_string(g_draws) + " raw draws, expected " + std::to_string((n1 + n2) * d * usage) + " (" + tname + ", " + ename + ")");
        C expect = chk0.generator(); expect.e.discard((n1 + n2) * d * usage);
        report(chk.generator() == expect, "C10", std::string("VEGAS stored generator is not the start generator advanced by calls x d x usage (") + tname + ", " + ename + ")");
        std::ostringstream t1; chk.serialize(t1); std::istringstream in(t1.str());
        auto back = hep::make_vegas_chkpt<T, C>(in);
        std::ostringstream t2; if (!in.fail()) back.serialize(t2);
        report(!in.fail() && t1.str() == t2.str() && back.generator() == chk.generator(), "C05", std::string("VEGAS checkpoint text round trip (") + tname + ", " + ename + ")");
        call = 0;
        auto part = hep::vegas(hep::make_integrand<T>(f, d), std::vector<std::size_t>{n1}, chk0, hep::callback<hep::vegas_chkpt_with_rng<C, T>>(hep::callback_mode::silent));
        std::ostringstream tp; part.serialize(tp); std::istringstream ip(tp.str());
        auto r0 = hep::make_vegas_chkpt<T, C>(ip);
        if (!ip.fail())
        {
            auto r = hep::vegas(hep::make_integrand<T>(f, d), std::vector<std::size_t>{n2}, r0, hep::callback<hep::vegas_chkpt_with_rng<C, T>>(hep::callback_mode::silent));
            std::ostringstream t3; r.serialize(t3);
            report(t3.str() == t1.str(), "C03", std::string("VEGAS run resumed from text differs from the uninterrupted run (") + tname + ", " + ename + ")");
        }
        else report(false, "C03", std::string("VEGAS checkpoint could not be read back (") + tname + ", " + ename + ")");
    }
    {
        std::uint64_t call = 0;
        std::size_t const channels = 1 + mix(g_seed + 24) % 3;
        auto f = [&](hep::multi_channel_point<T> const&) { return vals(call++); };
        auto chk0 = hep::make_multi_channel_chkpt<T, C>(T(), T(0.25), C(static_cast<typename E::result_type>(5 + g_seed % 1000)));
        g_draws = 0;
        auto chk = hep::multi_channel(hep::make_multi_channel_integrand<T>(f, d, IdMap<T>{channels}, d, channels), std::vector<std::size_t>{n1, n2}, chk0,
            hep::callback<hep::multi_channel_chkpt_with_rng<C, T>>(hep::callback_mode::silent));
        report(g_draws == (n1 + n2) * (d + 1) * usage, "C10", std::string("multi-channel consumed ") + std::to_string(g_draws) + " raw draws, expected " + std::to_string((n1 + n2) * (d + 1) * usage) +
            " with " + std::to_string(channels) + " channels (" + tname + ", " + ename + ")");
        C expect = chk0.generator(); expect.e.discard((n1 + n2) * (d + 1) * usage);
        report(chk.generator() == expect, "C10", std::string("multi-channel stored generator is not the start generator advanced by calls x (d+1) x usage (") + tname + ", " + ename + ")");
        std::ostringstream t1; chk.serialize(t1); std::istringstream in(t1.str());
        auto back = hep::make_multi_channel_chkpt<T, C>(in);
        std::ostringstream t2; if (!in.fail()) back.serialize(t2);
        report(!in.fail() && t1.str() == t2.str() && back.generator() == chk.generator(), "C05", std::string("multi-channel checkpoint text round trip (") + tname + ", " + ename + ")");
        call = 0;
        auto part = hep::multi_channel(hep::make_multi_channel_integrand<T>(f, d, IdMap<T>{channels}, d, channels), std::vector<std::size_t>{n1}, chk0,
            hep::callback<hep::multi_channel_chkpt_with_rng<C, T>>(hep::callback_mode::silent));
        std::ostringstream tp; part.serialize(tp); std::istringstream ip(tp.str());
        auto r0 = hep::make_multi_channel_chkpt<T, C>(ip);
        if (!ip.fail())
        {
            auto r = hep::multi_channel(hep::make_multi_channel_integrand<T>(f, d, IdMap<T>{channels}, d, channels), std::vector<std::size_t>{n2}, r0,
                hep::callback<hep::multi_channel_chkpt_with_rng<C, T>>(hep::callback_mode::silent));
            std::ostringstream t3; r.serialize(t3);
            report(t3.str() == t1.str(), "C03", std::string("multi-channel run resumed from text differs from the uninterrupted run (") + tname + ", " + ename + ")");
        }
        else report(false, "C03", std::string("multi-channel checkpoint could not be read back (") + tname + ", " + ename + ")");
    }
}

template <typename T> void all_engines(char const* tname)
{
    draws_plain<T, std::minstd_rand0>(tname, "minstd_rand0");
    draws_plain<T, std::minstd_rand>(tname, "minstd_rand");
    draws_plain<T, std::mt19937>(tname, "mt19937");
    draws_plain<T, std::mt19937_64>(tname, "mt19937_64");
    draws_plain<T, std::ranlux24_base>(tname, "ranlux24_base");
    draws_plain<T, std::ranlux48_base>(tname, "ranlux48_base");
    draws_plain<T, std::ranlux24>(tname, "ranlux24");
    draws_plain<T, std::ranlux48>(tname, "ranlux48");
    draws_plain<T, std::knuth_b>(tname, "knuth_b");
    // ranges that are exact powers of two other than 2^32 / 2^64 (engine adaptors): the logarithm of the range is where implementations of
    // std::generate_canonical round differently
    draws_plain<T, std::independent_bits_engine<std::mt19937_64, 53, std::uint64_t>>(tname, "independent_bits_engine<mt19937_64, 53>");
    draws_plain<T, std::independent_bits_engine<std::mt19937, 7, std::uint32_t>>(tname, "independent_bits_engine<mt19937, 7>");
    draws_plain<T, std::independent_bits_engine<std::mt19937, 14, std::uint32_t>>(tname, "independent_bits_engine<mt19937, 14>");
    draws_plain<T, std::independent_bits_engine<std::mt19937, 25, std::uint32_t>>(tname, "independent_bits_engine<mt19937, 25>");
    draws_plain<T, std::independent_bits_engine<std::mt19937_64, 50, std::uint64_t>>(tname, "independent_bits_engine<mt19937_64, 50>");
    draws_plain<T, std::linear_congruential_engine<unsigned long long, 6364136223846793005ULL, 1ULL, 18446744073709551557ULL>>(tname, "lcg m=2^64-59");
    draws_plain<T, std::shuffle_order_engine<std::independent_bits_engine<std::mt19937, 28, std::uint32_t>, 16>>(tname, "shuffle_order_engine<independent_bits_engine<mt19937, 28>, 16>");
    draws_adaptive<T, std::independent_bits_engine<std::mt19937_64, 53, std::uint64_t>>(tname, "independent_bits_engine<mt19937_64, 53>");
    // ranges that do not start at zero and whose maximum + 1 is a power of two although the range is not
    draws_plain<T, std::linear_congruential_engine<std::uint32_t, 69069u, 0u, 0u>>(tname, "lcg a=69069 c=0 m=2^32 (range [1, 2^32-1])");
    draws_plain<T, synth_off<1, 16777215>>(tname, "synthetic range [1, 2^24-1]");
    draws_plain<T, synth_off<2147483648ULL, 4294967295ULL>>(tname, "synthetic range [2^31, 2^32-1]");
    draws_plain<T, synth_off<32768, 65535>>(tname, "synthetic range [2^15, 2^16-1]");
    draws_plain<T, synth<3>>(tname, "synthetic range 3");
    draws_plain<T, synth<1000>>(tname, "synthetic range 1000");
    draws_plain<T, synth<65537>>(tname, "synthetic range 65537");
    draws_adaptive<T, std::minstd_rand0>(tname, "minstd_rand0");
    draws_adaptive<T, std::mt19937>(tname, "mt19937");
    draws_adaptive<T, std::ranlux48>(tname, "ranlux48");
    draws_adaptive<T, std::knuth_b>(tname, "knuth_b");
}

int main(int argc, char** argv)
{
    g_seed = argc > 1 ? std::strtoull(argv[1], nullptr, 10) : 1;
#define VERIF_STR2(x) #x
#define VERIF_STR(x) VERIF_STR2(x)
    all_engines<ENG_TYPE>(VERIF_STR(ENG_TYPE));
    std::printf("SUMMARY ok=%d fail=%d\n", g_ok, g_fail);
    return 0;
}
