// S-expression wire format shared by the C++ driver and the extracted model driver.
//   #<hex> integer | %+<hexmant>p<exp> %z+ %z- %i+ %i- %nan float | "<hexbytes>" string | symbol | ( ... )
#ifndef VERIF_SX_HPP
#define VERIF_SX_HPP
#include <cmath>
#include <cstdint>
#include <cstdio>
#include <stdexcept>
#include <string>
#include <vector>

struct Sx
{
    enum Kind { N, F, S, Y, L } kind;
    std::uint64_t n = 0;
    long double f = 0.0L;
    std::string s;
    std::vector<Sx> l;

    static Sx num(std::uint64_t v) { Sx x; x.kind = N; x.n = v; return x; }
    static Sx flt(long double v) { Sx x; x.kind = F; x.f = v; return x; }
    static Sx str(std::string const& v) { Sx x; x.kind = S; x.s = v; return x; }
    static Sx sym(std::string const& v) { Sx x; x.kind = Y; x.s = v; return x; }
    static Sx list() { Sx x; x.kind = L; return x; }
    static Sx list(std::vector<Sx> const& v) { Sx x; x.kind = L; x.l = v; return x; }
    Sx& add(Sx const& x) { l.push_back(x); return *this; }
    bool is_sym(char const* t) const { return kind == Y && s == t; }
    Sx const& at(std::size_t i) const { if (kind != L || i >= l.size()) throw std::runtime_error("sx: index"); return l[i]; }
    std::uint64_t N_() const { if (kind != N) throw std::runtime_error("sx: expected integer"); return n; }
    long double F_() const { if (kind != F) throw std::runtime_error("sx: expected float"); return f; }
    std::string const& S_() const { if (kind != S) throw std::runtime_error("sx: expected string"); return s; }
    std::string const& Y_() const { if (kind != Y) throw std::runtime_error("sx: expected symbol"); return s; }
    std::vector<Sx> const& L_() const { if (kind != L) throw std::runtime_error("sx: expected list"); return l; }
    // association list lookup: (key v1 v2 ...)
    Sx const* find(char const* key) const
    {
        for (auto const& e : l) { if (e.kind == L && !e.l.empty() && e.l[0].is_sym(key)) return &e; }
        return nullptr;
    }
};

inline int hexval(char c)
{
    if (c >= '0' && c <= '9') return c - '0';
    if (c >= 'a' && c <= 'f') return c - 'a' + 10;
    if (c >= 'A' && c <= 'F') return c - 'A' + 10;
    throw std::runtime_error("sx: hex digit");
}

inline long double parse_float(std::string const& t)  // without the leading '%'
{
    if (t == "nan") return std::nanl("");
    if (t == "z+") return 0.0L;
    if (t == "z-") return -0.0L;
    if (t == "i+") return HUGE_VALL;
    if (t == "i-") return -HUGE_VALL;
    bool neg = t[0] == '-';
    std::size_t p = t.find('p');
    std::uint64_t m = 0;
    for (std::size_t i = 1; i < p; ++i) m = (m << 4) | hexval(t[i]);
    int e = std::stoi(t.substr(p + 1));
    long double v = std::ldexp(static_cast<long double>(m), e);
    return neg ? -v : v;
}

inline std::string print_float(long double x)
{
    if (std::isnan(x)) return "%nan";
    if (std::isinf(x)) return x > 0 ? "%i+" : "%i-";
    if (x == 0.0L) return std::signbit(x) ? "%z-" : "%z+";
    int e = 0;
    long double m = std::frexp(std::fabs(x), &e);
    std::uint64_t mi = static_cast<std::uint64_t>(std::ldexp(m, 64));
    e -= 64;
    while ((mi & 1) == 0) { mi >>= 1; ++e; }
    char buf[64];
    std::snprintf(buf, sizeof buf, "%%%c%llxp%d", std::signbit(x) ? '-' : '+', static_cast<unsigned long long>(mi), e);
    return buf;
}

inline Sx parse_sx(std::string const& line, std::size_t& pos)
{
    auto skip = [&]() { while (pos < line.size() && (line[pos] == ' ' || line[pos] == '\t' || line[pos] == '\r')) ++pos; };
    skip();
    if (pos >= line.size()) throw std::runtime_error("sx: unexpected end");
    if (line[pos] == '(')
    {
        ++pos;
        Sx x = Sx::list();
        for (;;)
        {
            skip();
            if (pos >= line.size()) throw std::runtime_error("sx: unclosed list");
            if (line[pos] == ')') { ++pos; break; }
            x.l.push_back(parse_sx(line, pos));
        }
        return x;
    }
    if (line[pos] == '"')
    {
        std::size_t j = line.find('"', pos + 1);
        std::string s;
        for (std::size_t i = pos + 1; i + 1 < j; i += 2) s.push_back(static_cast<char>(hexval(line[i]) * 16 + hexval(line[i + 1])));
        pos = j + 1;
        return Sx::str(s);
    }
    std::size_t j = pos;
    while (j < line.size() && line[j] != ' ' && line[j] != '(' && line[j] != ')' && line[j] != '\t' && line[j] != '\r') ++j;
    std::string t = line.substr(pos, j - pos);
    pos = j;
    if (t[0] == '#')
    {
        std::uint64_t v = 0;
        for (std::size_t i = 1; i < t.size(); ++i) v = (v << 4) | hexval(t[i]);
        return Sx::num(v);
    }
    if (t[0] == '%') return Sx::flt(parse_float(t.substr(1)));
    return Sx::sym(t);
}

inline void print_sx(std::string& out, Sx const& x)
{
    char buf[32];
    switch (x.kind)
    {
    case Sx::N: std::snprintf(buf, sizeof buf, "#%llx", static_cast<unsigned long long>(x.n)); out += buf; break;
    case Sx::F: out += print_float(x.f); break;
    case Sx::S: out += '"'; for (unsigned char c : x.s) { std::snprintf(buf, sizeof buf, "%02x", c); out += buf; } out += '"'; break;
    case Sx::Y: out += x.s; break;
    case Sx::L:
        out += '(';
        for (std::size_t i = 0; i != x.l.size(); ++i) { if (i) out += ' '; print_sx(out, x.l[i]); }
        out += ')';
        break;
    }
}
#endif
