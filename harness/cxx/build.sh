#!/bin/sh
# build the C++ driver from /repo's working tree: build.sh <outdir> [extra flags...]
set -e
out=$1; shift
here=$(dirname "$0")
repo=${HEPMC_REPO:-/repo}
cxx=${VERIF_CXX:-g++}
flags="-std=c++11 -O1 -ffp-contract=off -fno-builtin -fno-access-control -pthread -I$repo/include -I$here -I$here/../shim $*"
mkdir -p "$out"
$cxx $flags -DVERIF_T=float -DVERIF_ENTRY=case_float -c "$here/driver_t.cpp" -o "$out/driver_f.o" &
p1=$!
$cxx $flags -DVERIF_T=double -DVERIF_ENTRY=case_double -c "$here/driver_t.cpp" -o "$out/driver_d.o" &
p2=$!
$cxx $flags "-DVERIF_T=long double" -DVERIF_ENTRY=case_long_double -c "$here/driver_t.cpp" -o "$out/driver_l.o" &
p3=$!
$cxx $flags -c "$here/main.cpp" -o "$out/main.o" &
p4=$!
$cxx $flags -c "$here/libmwrap.cpp" -o "$out/libmwrap.o" &
p5=$!
$cxx $flags -c "$here/mpishim.cpp" -o "$out/mpishim.o" &
p6=$!
wait $p1; wait $p2; wait $p3; wait $p4; wait $p5; wait $p6
$cxx $flags "$out/main.o" "$out/driver_f.o" "$out/driver_d.o" "$out/driver_l.o" "$out/libmwrap.o" "$out/mpishim.o" \
  -Wl,--wrap=pow,--wrap=powf,--wrap=powl,--wrap=log,--wrap=logf,--wrap=logl -o "$out/cxx_driver"
