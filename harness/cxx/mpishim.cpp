// implementation of the thread-based MPI shim (see ../shim/mpi.h)
#include <mpi.h>
#include <chrono>
#include <condition_variable>
#include <cstdlib>
#include <cstring>
#include <mutex>
#include <thread>

namespace
{
struct World
{
    int size = 1;
    int outsiders = 0;
    std::vector<int> perm;
    std::mutex m;
    std::condition_variable cv;
    int arrived = 0;
    int finished = 0;
    unsigned long generation = 0;
    bool hung = false;
    bool mismatch = false;
    struct Contribution { int kind, count, type, op, root; std::vector<unsigned char> data; void* recv; bool present = false; };
    std::vector<Contribution> contrib;
    std::vector<std::vector<shim_coll>> log;
    double timeout = 5.0;
};
World* g_world = nullptr;
thread_local int t_rank = 0;

std::size_t type_size(int t)
{
    switch (t)
    {
    case MPI_UNSIGNED: return sizeof(unsigned);
    case MPI_UNSIGNED_LONG: return sizeof(unsigned long);
    case MPI_UNSIGNED_LONG_LONG: return sizeof(unsigned long long);
    case MPI_FLOAT: return sizeof(float);
    case MPI_DOUBLE: return sizeof(double);
    case MPI_LONG_DOUBLE: return sizeof(long double);
    case MPI_INT: return sizeof(int);
    case MPI_C_BOOL: return sizeof(bool);
    default: return 1;
    }
}

template <typename T> void combine(void* acc, void const* x, int count, int op)
{
    T* a = static_cast<T*>(acc); T const* b = static_cast<T const*>(x);
    for (int i = 0; i != count; ++i)
    {
        volatile T l = a[i], r = b[i];
        switch (op)
        {
        case MPI_SUM: a[i] = l + r; break;
        case MPI_PROD: a[i] = l * r; break;
        case MPI_MAX: a[i] = l < r ? r : l; break;
        case MPI_MIN: a[i] = r < l ? r : l; break;
        case MPI_LAND: a[i] = static_cast<T>(l && r); break;
        case MPI_LOR: a[i] = static_cast<T>(l || r); break;
        default: break;
        }
    }
}
void combine_any(void* acc, void const* x, int count, int type, int op)
{
    switch (type)
    {
    case MPI_UNSIGNED: combine<unsigned>(acc, x, count, op); break;
    case MPI_UNSIGNED_LONG: combine<unsigned long>(acc, x, count, op); break;
    case MPI_UNSIGNED_LONG_LONG: combine<unsigned long long>(acc, x, count, op); break;
    case MPI_FLOAT: combine<float>(acc, x, count, op); break;
    case MPI_DOUBLE: combine<double>(acc, x, count, op); break;
    case MPI_LONG_DOUBLE: combine<long double>(acc, x, count, op); break;
    case MPI_INT: combine<int>(acc, x, count, op); break;
    case MPI_C_BOOL: combine<bool>(acc, x, count, op); break;
    default: combine<unsigned char>(acc, x, count, op); break;
    }
}

// the last rank to arrive completes the collective for everybody
void complete(World& w)
{
    auto const& first = w.contrib[0];
    for (auto const& c : w.contrib)
        if (c.kind != first.kind || c.count != first.count || c.type != first.type || c.op != first.op || c.root != first.root) w.mismatch = true;
    if (!w.mismatch)
    {
        std::size_t const bytes = static_cast<std::size_t>(first.count) * type_size(first.type);
        if (first.kind == 0 || first.kind == 1)
        {
            std::vector<unsigned char> acc = w.contrib[w.perm[0]].data;
            for (std::size_t k = 1; k < w.perm.size(); ++k) combine_any(acc.data(), w.contrib[w.perm[k]].data.data(), first.count, first.type, first.op);
            for (int r = 0; r != w.size; ++r)
                if ((first.kind == 0 || r == first.root) && w.contrib[r].recv && bytes) std::memcpy(w.contrib[r].recv, acc.data(), bytes);
        }
        else if (first.kind == 2)
        {
            for (int r = 0; r != w.size; ++r)
                if (r != first.root && bytes) std::memcpy(w.contrib[r].recv, w.contrib[first.root].data.data(), bytes);
        }
    }
    for (auto& c : w.contrib) c.present = false;
    w.arrived = 0;
    ++w.generation;
    w.cv.notify_all();
}

int collective(MPI_Comm comm, int kind, void const* send, void* recv, int count, int type, int op, int root)
{
    World& w = *g_world;
    std::unique_lock<std::mutex> lock(w.m);
    if (w.hung) throw shim_hang();
    if (comm == MPI_COMM_WORLD && w.outsiders > 0)
    {
        // the integration runs on a part of the world; the other processes never enter this collective
        w.hung = true; w.cv.notify_all(); throw shim_hang();
    }
    w.log[t_rank].push_back(shim_coll{kind, count, type});
    auto& c = w.contrib[t_rank];
    c.kind = kind; c.count = count; c.type = type; c.op = op; c.root = root; c.recv = recv; c.present = true;
    std::size_t const bytes = static_cast<std::size_t>(count < 0 ? 0 : count) * type_size(type);
    void const* src = (send == MPI_IN_PLACE || send == nullptr) ? recv : send;
    c.data.assign(bytes, 0);
    if (bytes && src) std::memcpy(c.data.data(), src, bytes);
    ++w.arrived;
    if (w.arrived == w.size) { complete(w); return MPI_SUCCESS; }
    unsigned long const gen = w.generation;
    auto const deadline = std::chrono::steady_clock::now() + std::chrono::milliseconds(static_cast<long>(w.timeout * 1000));
    while (w.generation == gen && !w.hung)
    {
        if (w.finished > 0) { w.hung = true; break; }       // a rank has returned: it will never arrive
        if (w.cv.wait_until(lock, deadline) == std::cv_status::timeout && w.generation == gen) { w.hung = true; break; }
    }
    if (w.hung) { w.cv.notify_all(); throw shim_hang(); }
    return MPI_SUCCESS;
}
}

int MPI_Comm_rank(MPI_Comm c, int* rank) { *rank = t_rank + ((c == MPI_COMM_WORLD && g_world) ? g_world->outsiders : 0); return MPI_SUCCESS; }
int MPI_Comm_size(MPI_Comm c, int* size) { *size = g_world ? g_world->size + (c == MPI_COMM_WORLD ? g_world->outsiders : 0) : 1; return MPI_SUCCESS; }
int MPI_Allreduce(void const* s, void* r, int count, MPI_Datatype t, MPI_Op op, MPI_Comm c) { return collective(c, 0, s, r, count, t, op, 0); }
int MPI_Reduce(void const* s, void* r, int count, MPI_Datatype t, MPI_Op op, int root, MPI_Comm c) { return collective(c, 1, s, r, count, t, op, root); }
int MPI_Bcast(void* b, int count, MPI_Datatype t, int root, MPI_Comm c) { return collective(c, 2, b, b, count, t, 0, root); }
int MPI_Barrier(MPI_Comm c) { return collective(c, 3, nullptr, nullptr, 0, MPI_BYTE, 0, 0); }
MPI_Comm shim_comm() { return (g_world && g_world->outsiders > 0) ? SHIM_COMM_GROUP : MPI_COMM_WORLD; }

shim_report shim_run(int world, std::vector<int> const& perm, std::function<void(int)> const& body, int outsiders)
{
    World w;
    w.size = world; w.perm = perm; w.outsiders = outsiders;
    if (static_cast<int>(w.perm.size()) != world) { w.perm.clear(); for (int i = 0; i != world; ++i) w.perm.push_back(i); }
    w.contrib.resize(world); w.log.resize(world);
    if (char const* t = std::getenv("VERIF_SHIM_TIMEOUT")) w.timeout = std::atof(t);
    g_world = &w;
    shim_report rep;
    rep.errors.resize(world);
    std::vector<std::thread> threads;
    for (int r = 0; r != world; ++r)
        threads.emplace_back([&, r]() {
            t_rank = r;
            try { body(r); }
            catch (shim_hang const&) {}
            catch (std::exception const& e) { rep.errors[r] = e.what(); }
            catch (...) { rep.errors[r] = "unknown exception"; }
            std::lock_guard<std::mutex> lock(w.m);
            ++w.finished;
            w.cv.notify_all();
        });
    for (auto& t : threads) t.join();
    rep.hang = w.hung; rep.mismatch = w.mismatch; rep.collectives = w.log;
    g_world = nullptr;
    return rep;
}
