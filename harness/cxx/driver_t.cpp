// C++ side of the correspondence check: runs the real hep-mc templates (from /repo's working tree)
// on the cases read from stdin and prints one observation per case, in the same S-expression
// format the extracted model prints.  Output line: (id result (libm ...)).
#include "sx.hpp"
#include "hep/mc.hpp"
#ifdef VERIF_MPI
#include "hep/mc-mpi.hpp"
#endif
#include "hep/mc/generator_helper.hpp"
#include <iostream>
#include <sstream>
#include <string>
#include <vector>

extern std::vector<Sx> g_libm_log;
extern bool g_libm_logging;

template <typename T> std::vector<T> floats(Sx const& x)
{ std::vector<T> v; for (auto const& e : x.L_()) v.push_back(static_cast<T>(e.F_())); return v; }
template <typename T> Sx efloats(std::vector<T> const& v)
{ Sx x = Sx::list(); for (auto e : v) x.add(Sx::flt(e)); return x; }
inline Sx enums(std::vector<std::size_t> const& v)
{ Sx x = Sx::list(); for (auto e : v) x.add(Sx::num(e)); return x; }

template <typename T> hep::mc_result<T> d_mcres(Sx const& x)
{ return hep::mc_result<T>(x.at(0).N_(), x.at(1).N_(), x.at(2).N_(), static_cast<T>(x.at(3).F_()), static_cast<T>(x.at(4).F_())); }
template <typename T> Sx e_mcres(hep::mc_result<T> const& r)
{ return Sx::list({Sx::num(r.calls()), Sx::num(r.non_zero_calls()), Sx::num(r.finite_calls()), Sx::flt(r.sum()), Sx::flt(r.sum_of_squares())}); }

template <typename T> hep::vegas_pdf<T> make_pdf(std::size_t bins, std::size_t dims, std::vector<T> const& x)
{
    hep::vegas_pdf<T> pdf(dims, bins);
    for (std::size_t d = 0; d != dims; ++d) for (std::size_t b = 0; b != bins + 1; ++b) pdf.set_bin_left(d, b, x.at(d * (bins + 1) + b));
    return pdf;
}
template <typename T> Sx e_pdf_x(hep::vegas_pdf<T> const& pdf)
{
    Sx x = Sx::list();
    for (std::size_t d = 0; d != pdf.dimensions(); ++d) for (std::size_t b = 0; b != pdf.bins() + 1; ++b) x.add(Sx::flt(pdf.bin_left(d, b)));
    return x;
}

template <typename T> struct const_map
{
    T jac; std::vector<T> dens;
    T operator()(std::size_t, std::vector<T> const&, std::vector<T>&, std::vector<std::size_t> const&, std::vector<T>& densities, hep::multi_channel_map)
    { for (std::size_t i = 0; i != dens.size(); ++i) densities.at(i) = dens[i]; return jac; }
};

#include "run.hpp"

// synthetic engines with range 2^L, to evaluate hep::random_number_usage for chosen (digits, log2 R)
template <int L> struct synth_engine
{
    using result_type = std::uint64_t;
    static constexpr result_type min() { return 0; }
    static constexpr result_type max() { return L >= 64 ? ~result_type(0) : ((result_type(1) << (L & 63)) - 1); }
    result_type operator()() { return 0; }
};
template <typename T, int L> std::size_t usage_l() { return hep::random_number_usage<T, synth_engine<L>>(); }
template <typename T> std::size_t usage_bits(std::uint64_t l)
{
    switch (l)
    {
    case 1: return usage_l<T, 1>(); case 2: return usage_l<T, 2>(); case 8: return usage_l<T, 8>(); case 16: return usage_l<T, 16>();
    case 24: return usage_l<T, 24>(); case 30: return usage_l<T, 30>(); case 31: return usage_l<T, 31>(); case 32: return usage_l<T, 32>();
    case 48: return usage_l<T, 48>(); case 63: return usage_l<T, 63>(); case 64: return usage_l<T, 64>();
    default: throw std::runtime_error("usage: unsupported log2 R");
    }
}
template <typename T> std::size_t usage_for(std::uint64_t b, std::uint64_t l)
{
    if (b == 24) return usage_bits<float>(l);
    if (b == 53) return usage_bits<double>(l);
    if (b == 64) return usage_bits<long double>(l);
    throw std::runtime_error("usage: unsupported digits");
}

template <typename T> Sx pure_case(std::string const& cmd, Sx const& a)
{
    if (cmd == "split")
    {
        std::size_t total = a.at(0).N_(), calls = a.at(1).N_(), rank = a.at(2).N_(), world = a.at(3).N_();
        return Sx::list({Sx::num(hep::discard_before(total, rank, world)), Sx::num(hep::discard_after(total, calls, rank, world))});
    }
    if (cmd == "icdf")
    {
        auto pdf = make_pdf<T>(a.at(0).N_(), a.at(1).N_(), floats<T>(a.at(2)));
        auto us = floats<T>(a.at(3));
        std::vector<std::size_t> bin(us.size());
        T w = hep::vegas_icdf(pdf, us, bin);
        return Sx::list({Sx::sym("ok"), efloats(us), enums(bin), Sx::flt(w)});
    }
    if (cmd == "refine_pdf")
    {
        auto pdf = make_pdf<T>(a.at(0).N_(), a.at(1).N_(), floats<T>(a.at(2)));
        auto r = hep::vegas_refine_pdf(pdf, static_cast<T>(a.at(3).F_()), floats<T>(a.at(4)));
        return Sx::list({Sx::sym("ok"), e_pdf_x(r)});
    }
    if (cmd == "refine_w")
    {
        auto r = hep::multi_channel_refine_weights(floats<T>(a.at(0)), floats<T>(a.at(1)), static_cast<T>(a.at(2).F_()), static_cast<T>(a.at(3).F_()));
        return Sx::list({Sx::sym("ok"), efloats(r)});
    }
    if (cmd == "select")
    {
        auto ws = floats<T>(a.at(0));
        T const u = static_cast<T>(a.at(1).F_());
        hep::discrete_distribution<std::size_t, T> d(ws.begin(), ws.end());
        canonical_engine<T> e(u);
        std::size_t r = d(e);
        if (!e.exact()) throw std::runtime_error("select: canonical number not reproduced by the engine");
        return Sx::list({Sx::num(r)});
    }
#ifdef VERIF_MPI
    if (cmd == "mpicbreuse")
    {
        // ONE hep::mpi_callback object asked on two communicators in which the process has different ranks (root of the group, not root
        // of the world): it prints and writes exactly where the process is rank 0 of the communicator it is given.  C++ only, shim.
        std::size_t const outsiders = a.at(0).N_();
        Ctx ctx; g_ctx = &ctx; ctx.seed = 3;
        typedef PChk<T> C;
        auto f = [](hep::mc_point<T> const& p) { return p.point()[0]; };
        C chk = hep::plain(hep::make_integrand<T>(f, 1), std::vector<std::size_t>{10, 10}, hep::make_plain_chkpt<T, script_engine>(script_engine(0)), ScriptCb<C>{{}});
        char const* tmpdir = std::getenv("VERIF_TMP");
        std::string const file = std::string(tmpdir ? tmpdir : ".") + "/verif_mpicb_" + std::to_string(::getpid()) + ".txt";
        int wrote_as_root = 0, wrote_as_other = 0;
        std::ostringstream sink; std::streambuf* old = std::cout.rdbuf(sink.rdbuf());
        shim_report rep;
        try
        {
            rep = shim_run(1, std::vector<int>{0}, [&](int) {
                Ctx mine; g_ctx = &mine;
                hep::mpi_callback<C> cb(hep::callback_mode::silent_and_write_chkpt, file);
                ::unlink(file.c_str()); (void) cb(shim_comm(), chk);            // rank 0 of the group: writes
                { std::ifstream in(file); wrote_as_root = in ? 1 : 0; }
                ::unlink(file.c_str()); (void) cb(MPI_COMM_WORLD, chk);          // rank `outsiders` of the world: must stay silent
                { std::ifstream in(file); wrote_as_other = in ? 1 : 0; }
                ::unlink(file.c_str());
                g_ctx = nullptr;
            }, static_cast<int>(outsiders));
        }
        catch (...) { std::cout.rdbuf(old); throw; }
        std::cout.rdbuf(old);
        g_ctx = &ctx;
        return Sx::list({Sx::sym(wrote_as_root == 1 && wrote_as_other == 0 ? "ok" : "violation"), Sx::num(wrote_as_root), Sx::num(wrote_as_other)});
    }
#endif
    if (cmd == "cbreuse")
    {
        // ONE built-in callback object invoked directly on a checkpoint with n results and then on another checkpoint, with another history,
        // that holds n + 1 (what a user who keeps the callback in a variable and drives several runs does): its answer for the second must be
        // the answer a fresh callback gives.  Self-checking, C++ only (args: n calls seed)
        std::size_t const n = a.at(0).N_(), calls = a.at(1).N_();
        Ctx ctx; g_ctx = &ctx; ctx.seed = a.at(2).N_();
        auto f1 = [](hep::mc_point<T> const& p) { return p.point()[0] < T(0.1) ? T(40.0) : T(0.5); };          // noisy
        auto f2 = [](hep::mc_point<T> const& p) { return T(1.0) + T(0.01) * p.point()[0]; };                    // quiet
        typedef PChk<T> C;
        C a1 = hep::plain(hep::make_integrand<T>(f1, 1), std::vector<std::size_t>(n, calls), hep::make_plain_chkpt<T, script_engine>(script_engine(0)), ScriptCb<C>{{}});
        C b1 = hep::plain(hep::make_integrand<T>(f2, 1), std::vector<std::size_t>(n + 1, calls), hep::make_plain_chkpt<T, script_engine>(script_engine(5000)), ScriptCb<C>{{}});
        auto const all = hep::accumulate<hep::weighted_with_variance>(b1.results().begin(), b1.results().end());
        T const rel = all.error() / fabs(all.value());
        std::size_t differ = 0, tried = 0;
        for (T factor : {T(0.5), T(0.9), T(1.1), T(2.0), T(30.0)})
        {
            hep::callback<C> shared(hep::callback_mode::silent, "", rel * factor), fresh(hep::callback_mode::silent, "", rel * factor);
            (void) shared(a1);
            bool const r1 = shared(b1), r2 = fresh(b1);
            ++tried; if (r1 != r2) ++differ;
        }
        return Sx::list({Sx::sym(differ == 0 ? "ok" : "violation"), Sx::num(tried), Sx::num(differ)});
    }
    if (cmd == "userloop")
    {
        // VEGAS driven by the user's own loop (chkpt.pdf(), vegas_iteration, chkpt.add(), chkpt.rollback()) and hep::vegas with a callback
        // that takes the checkpoint by non-const reference and discards an iteration: whatever the history, the state the next iteration
        // samples with is the refinement of the LAST result the checkpoint holds now.  Self-checking, C++ only (args: variant calls)
        std::string const variant = a.at(0).Y_(); std::size_t const calls = a.at(1).N_();
        Ctx ctx; g_ctx = &ctx; ctx.seed = a.at(2).N_();
        if (variant == "mcloop" || variant == "mccallback")
        {
            // the multi-channel analogue: channel_weights(), multi_channel_iteration, add(), rollback()
            auto fm = [](hep::multi_channel_point<T> const& p) { T x = p.coordinates()[0]; return T(3.0) * x * x; };
            auto map = [](std::size_t ch, std::vector<T> const& us, std::vector<T>& c, std::vector<std::size_t> const&, std::vector<T>& d, hep::multi_channel_map act) {
                if (act == hep::multi_channel_map::calculate_coordinates) { c[0] = ch == 0 ? us[0] : ch == 1 ? us[0] * us[0] : T(1.0) - (T(1.0) - us[0]) * (T(1.0) - us[0]); return T(1.0); }
                T const x = c[0];
                d[0] = T(1.0); d[1] = T(0.5) / sqrt(x > T() ? x : T(1e-30)); d[2] = T(0.5) / sqrt(x < T(1.0) ? T(1.0) - x : T(1e-30));
                return T(1.0); };
            auto mi = hep::make_multi_channel_integrand<T>(fm, 1, map, 1, 3);
            auto mchk = hep::make_multi_channel_chkpt<T, script_engine>(std::vector<T>{T(1.0), T(2.0), T(1.0)}, T(0.01), T(0.25), script_engine(0));
            std::vector<std::string> badm;
            if (variant == "mcloop")
            {
                script_engine gen(0);
                mchk.channels(3);
                std::vector<T> last_used = mchk.channel_weights();
                for (int it = 0; it != 3; ++it) { auto w = mchk.channel_weights(); last_used = w; auto r = hep::multi_channel_iteration(mi, calls, w, gen); mchk.add(r, gen); }
                auto next = mchk.channel_weights(); (void) next;
                mchk.rollback(mchk.results().size() - 1);
                auto again = (ctx.seed & 1) ? last_used : mchk.channel_weights();
                auto r = hep::multi_channel_iteration(mi, 2 * calls + 1, again, gen); mchk.add(r, gen);
            }
            else
            {
                struct Discard { bool done = false; bool operator()(MChk<T>& c) { if (!done && c.results().size() == 2) { done = true; c.rollback(1); } return true; } } cb;
                mchk = hep::multi_channel(mi, std::vector<std::size_t>{calls, calls + 3, calls, calls + 1}, mchk, cb);
            }
            auto const& rs = mchk.results();
            for (std::size_t k = 0; k + 1 < rs.size(); ++k)
                if (rs[k + 1].channel_weights() != hep::multi_channel_refine_weights(rs[k].channel_weights(), rs[k].adjustment_data(), mchk.min_weight(), mchk.beta()))
                    badm.push_back("result " + std::to_string(k + 1) + " was not sampled with the refinement of the weights of result " + std::to_string(k));
            if (!rs.empty() && mchk.channel_weights() != hep::multi_channel_refine_weights(rs.back().channel_weights(), rs.back().adjustment_data(), mchk.min_weight(), mchk.beta()))
                badm.push_back("chkpt.channel_weights() is not the refinement of the last result");
            Sx outm = Sx::list({Sx::sym(badm.empty() ? "ok" : "violation"), Sx::num(rs.size())});
            for (auto const& b : badm) outm.add(Sx::str(b));
            return outm;
        }
        auto f = [](hep::vegas_point<T> const& p) { T x = p.point()[0]; return x * x * x * T(4.0) + p.point()[1]; };
        auto integrand = hep::make_integrand<T>(f, 2);
        auto chk = hep::make_vegas_chkpt<T, script_engine>(5, T(1.5), script_engine(0));
        std::vector<std::string> bad;
        auto same = [](hep::vegas_pdf<T> const& x, hep::vegas_pdf<T> const& y) {
            if (x.bins() != y.bins() || x.dimensions() != y.dimensions()) return false;
            for (std::size_t d = 0; d != x.dimensions(); ++d) for (std::size_t b = 0; b <= x.bins(); ++b) if (!(x.bin_left(d, b) == y.bin_left(d, b))) return false;
            return true; };
        if (variant == "loop")
        {
            script_engine gen(0);
            chk.dimensions(2);
            hep::vegas_pdf<T> last_used = chk.pdf();
            for (int it = 0; it != 3; ++it) { auto pdf = chk.pdf(); last_used = pdf; auto r = hep::vegas_iteration(integrand, calls, pdf, gen); chk.add(r, gen); }
            auto next = chk.pdf();                          // the user looks at the grid of the next iteration ...
            chk.rollback(chk.results().size() - 1);         // ... discards the last iteration ...
            // ... and repeats it with other calls on the grid still held from before (half of the time; otherwise asks the checkpoint again)
            auto again = (ctx.seed & 1) ? last_used : chk.pdf();
            auto r = hep::vegas_iteration(integrand, 2 * calls + 1, again, gen); chk.add(r, gen);
            (void) next;
        }
        else
        {
            // a callback that discards iteration 2 once (the documentation only asks that it accepts the checkpoint)
            struct Discard { bool done = false; bool operator()(VChk<T>& c) { if (!done && c.results().size() == 2) { done = true; c.rollback(1); } return true; } } cb;
            chk = hep::vegas(integrand, std::vector<std::size_t>{calls, calls + 3, calls, calls + 1}, chk, cb);
        }
        auto const& rs = chk.results();
        for (std::size_t k = 0; k + 1 < rs.size(); ++k)
            if (!same(rs[k + 1].pdf(), hep::vegas_refine_pdf(rs[k].pdf(), chk.alpha(), rs[k].adjustment_data()))) bad.push_back("result " + std::to_string(k + 1) + " was not sampled with the refinement of result " + std::to_string(k));
        if (!rs.empty() && !same(chk.pdf(), hep::vegas_refine_pdf(rs.back().pdf(), chk.alpha(), rs.back().adjustment_data()))) bad.push_back("chkpt.pdf() is not the refinement of the last result");
        Sx out = Sx::list({Sx::sym(bad.empty() ? "ok" : "violation"), Sx::num(rs.size())});
        for (auto const& b : bad) out.add(Sx::str(b));
        return out;
    }
    if (cmd == "iterdirect")
    {
        // the *_iteration functions called directly, as users who drive the iterations themselves do: the generator is the caller's
        // object, so its state is observable while a point is evaluated and after an exception - every call must have taken exactly
        // d (multi-channel: d + 1) canonical numbers from it when the integrand sees the point.  C++ only (args: kind dims calls throw_at)
        std::string const kind = a.at(0).Y_(); std::size_t const dims = a.at(1).N_(), calls = a.at(2).N_(), throw_at = a.at(3).N_();
        Ctx ctx; g_ctx = &ctx; ctx.seed = 99;
        script_engine gen(7);
        std::size_t const per = dims + (kind == "mc" ? 1 : 0);
        std::size_t seen = 0; std::vector<std::uint64_t> wrong;
        struct stop {};
        auto look = [&]() { std::uint64_t const want = 7 + (seen + 1) * per; if (gen.pos != want) wrong.push_back(seen); ++seen; if (throw_at && seen == throw_at) throw stop(); };
        try
        {
            if (kind == "plain") { auto f = [&](hep::mc_point<T> const&) { look(); return T(1.0); }; hep::plain_iteration(hep::make_integrand<T>(f, dims), calls, gen); }
            else if (kind == "vegas") { auto f = [&](hep::vegas_point<T> const&) { look(); return T(1.0); }; hep::vegas_pdf<T> pdf(dims, 4); hep::vegas_iteration(hep::make_integrand<T>(f, dims), calls, pdf, gen); }
            else
            {
                auto f = [&](hep::multi_channel_point<T> const&) { look(); return T(1.0); };
                auto m = [](std::size_t, std::vector<T> const& us, std::vector<T>& c, std::vector<std::size_t> const&, std::vector<T>& d, hep::multi_channel_map act) {
                    if (act == hep::multi_channel_map::calculate_coordinates) { for (std::size_t k = 0; k != c.size(); ++k) c[k] = us[k]; return T(1.0); }
                    for (auto& x : d) x = T(1.0); return T(1.0); };
                std::vector<T> w{T(0.25), T(0.75)};
                hep::multi_channel_iteration(hep::make_multi_channel_integrand<T>(f, dims, m, dims, 2), calls, w, gen);
            }
        }
        catch (stop const&) {}
        std::size_t const done = throw_at ? throw_at : calls;
        Sx out = Sx::list({Sx::sym(wrong.empty() && seen == done && gen.pos == 7 + done * per ? "ok" : "violation"), Sx::num(seen), Sx::num(gen.pos), Sx::num(7 + done * per)});
        for (std::size_t k = 0; k != wrong.size() && k != 3; ++k) out.add(Sx::num(wrong[k]));
        return out;
    }
    if (cmd == "selects")
    {
        auto ws = floats<T>(a.at(0));
        hep::discrete_distribution<std::size_t, T> d(ws.begin(), ws.end());
        Sx out = Sx::list();
        for (auto u : floats<T>(a.at(1)))
        {
            canonical_engine<T> e(u);
            out.add(Sx::num(d(e)));
            if (!e.exact()) throw std::runtime_error("selects: canonical number not reproduced by the engine");
        }
        return out;
    }
    if (cmd == "kahan")
    {
        T s = T(), ss = T(), c = T();
        for (auto v : floats<T>(a.at(0))) hep::accumulate(s, ss, c, v);
        return Sx::list({Sx::flt(s), Sx::flt(ss), Sx::flt(c)});
    }
    if (cmd == "moments")
    {
        auto r = d_mcres<T>(a.at(0));
        return Sx::list({Sx::flt(r.value()), Sx::flt(r.variance()), Sx::flt(r.error())});
    }
    if (cmd == "create")
        return e_mcres(hep::create_result<T>(a.at(0).N_(), a.at(1).N_(), a.at(2).N_(), static_cast<T>(a.at(3).F_()), static_cast<T>(a.at(4).F_())));
    if (cmd == "wwv" || cmd == "weq" || cmd == "chi2")
    {
        Sx const& rs = cmd == "chi2" ? a.at(1) : a.at(0);
        std::vector<hep::mc_result<T>> v;
        for (auto const& e : rs.L_()) v.push_back(d_mcres<T>(e));
        if (cmd == "wwv") return e_mcres(hep::accumulate<hep::weighted_with_variance>(v.begin(), v.end()));
        if (cmd == "weq") return e_mcres(hep::accumulate<hep::weighted_equally>(v.begin(), v.end()));
        if (a.at(0).is_sym("wwv")) return Sx::list({Sx::flt(hep::chi_square_dof<hep::weighted_with_variance>(v.begin(), v.end()))});
        return Sx::list({Sx::flt(hep::chi_square_dof<hep::weighted_equally>(v.begin(), v.end()))});
    }
    if (cmd == "mcweight")
    {
        auto ws = floats<T>(a.at(1));
        const_map<T> map{static_cast<T>(a.at(0).F_()), floats<T>(a.at(2))};
        std::vector<T> point, coords, dens(map.dens.size());
        std::vector<std::size_t> enabled;
        hep::multi_channel_point2<T, const_map<T>> p(point, coords, 0, dens, ws, enabled, map);
        return Sx::list({Sx::sym("ok"), Sx::flt(p.weight())});
    }
    if (cmd == "midpoints")
    {
        hep::distribution_parameters<T> par(a.at(0).N_(), a.at(1).N_(), static_cast<T>(a.at(2).F_()), static_cast<T>(a.at(3).F_()),
            static_cast<T>(a.at(4).F_()), static_cast<T>(a.at(5).F_()), "");
        hep::distribution_result<T> d(par, std::vector<hep::mc_result<T>>());
        return Sx::list({efloats(hep::mid_points_x(d)), efloats(hep::mid_points_y(d))});
    }
    if (cmd == "subcalls")
    {
        // per-rank share as implied by the positions of consecutive ranks (the drivers' own expression is
        // translated; the MPI runs observe it directly)
        std::size_t calls = a.at(0).N_(), rank = a.at(1).N_(), world = a.at(2).N_();
        std::size_t const before = hep::discard_before(calls, rank, world);
        std::size_t const next = rank + 1 < world ? hep::discard_before(calls, rank + 1, world) : calls;
        return Sx::list({Sx::num(next - before), Sx::num(next - before), Sx::num(next - before)});
    }
    if (cmd == "usage")
        return Sx::list({Sx::num(usage_for<T>(a.at(0).N_(), a.at(1).N_()))});
    return run_case<T>(cmd, a);
}


// one translation unit per numeric type (compiled in parallel): -DVERIF_T=<type> -DVERIF_ENTRY=<name>
Sx VERIF_ENTRY(std::string const& cmd, Sx const& args) { return pure_case<VERIF_T>(cmd, args); }
