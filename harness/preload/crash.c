/* LD_PRELOAD interposer for the C18 check: logs the file operations a process performs on paths
 * that start with $VERIF_FS_MATCH and can kill the process (SIGKILL, as an external kill would)
 * immediately before its k-th such operation, or in the middle of it when it is a write.
 *
 *   VERIF_FS_MATCH    path prefix of the files to watch
 *   VERIF_FS_LOG      file receiving one line per operation (appended with raw system calls):
 *                       open <path> <mode> | write <path> <n> <hex> | close <path> | rename <src> <dst>
 *                       | unlink <path>
 *   VERIF_FS_KILL_AT  k >= 1: kill before the k-th operation is performed
 *   VERIF_FS_PARTIAL  m >= 1 (with KILL_AT = k, when operation k is a write of more than m bytes):
 *                     write the first m bytes, then kill
 *   VERIF_FS_SHORT    1 (with FAIL_AT = f, when operation f is a write): the write stores the first half of its bytes and reports
 *                     that count (a short write, how a full disk or a file-size limit first shows); every later write to the
 *                     same file fails with ENOSPC
 *   VERIF_FS_FAIL_AT  f >= 1: the f-th operation fails and has no effect (open: EACCES, write: ENOSPC,
 *                     rename: EXDEV; a close is performed and reports EIO); logged as
 *                       openfail <path> | writefail <path> <n> | closefail <path> | renamefail <src> <dst>
 * libstdc++'s basic_filebuf goes through fopen / write / writev / fclose; plain POSIX and stdio
 * entry points are covered as well so that edits of the callback stay observable. */
#define _GNU_SOURCE
#include <dlfcn.h>
#include <fcntl.h>
#include <signal.h>
#include <stdarg.h>
#include <stdio.h>
#include <stdlib.h>
#include <string.h>
#include <sys/syscall.h>
#include <sys/uio.h>
#include <unistd.h>

#define MAXFD 1024
static char* fd_path[MAXFD];
static long op_count = 0;
static int log_fd = -2;

static const char* match(void) { return getenv("VERIF_FS_MATCH"); }
static int watched(const char* p) { const char* m = match(); return m && p && strncmp(p, m, strlen(m)) == 0; }

static void log_raw(const char* s, size_t n)
{
    if (log_fd == -2)
    {
        const char* l = getenv("VERIF_FS_LOG");
        log_fd = l ? (int) syscall(SYS_openat, AT_FDCWD, l, O_WRONLY | O_CREAT | O_APPEND, 0644) : -1;
    }
    if (log_fd >= 0) { while (n) { long k = syscall(SYS_write, log_fd, s, n); if (k <= 0) break; s += k; n -= (size_t) k; } }
}
static void log_str(const char* s) { log_raw(s, strlen(s)); }

#include <errno.h>
static int full_fd = -1;      /* descriptor of the file whose disk is "full" after a short write */
static int fails_now(void)
{
    const char* f = getenv("VERIF_FS_FAIL_AT");
    return f && op_count == atol(f);
}

static void die(void) { syscall(SYS_kill, getpid(), SIGKILL); for (;;) {} }

/* returns the number of bytes the caller may still write (for writes), or -1 for "go ahead" */
static long before_op(int is_write, size_t len)
{
    const char* k = getenv("VERIF_FS_KILL_AT");
    ++op_count;
    if (!k) return -1;
    if (op_count != atol(k)) return -1;
    const char* p = getenv("VERIF_FS_PARTIAL");
    if (is_write && p && atol(p) > 0 && (size_t) atol(p) < len) return atol(p);
    die();
    return -1;
}

static void log_write(const char* path, const void* buf, size_t n)
{
    char head[64];
    log_str("write "); log_str(path); snprintf(head, sizeof head, " %zu ", n); log_str(head);
    static const char hex[] = "0123456789abcdef";
    const unsigned char* b = buf;
    char chunk[512]; size_t c = 0;
    for (size_t i = 0; i < n; ++i)
    {
        chunk[c++] = hex[b[i] >> 4]; chunk[c++] = hex[b[i] & 15];
        if (c == sizeof chunk) { log_raw(chunk, c); c = 0; }
    }
    log_raw(chunk, c); log_str("\n");
}

static void track(int fd, const char* path) { if (fd >= 0 && fd < MAXFD) { free(fd_path[fd]); fd_path[fd] = strdup(path); } }
static const char* tracked(int fd) { return fd >= 0 && fd < MAXFD ? fd_path[fd] : NULL; }

static int note_open(const char* path, const char* mode)
{
    before_op(0, 0);
    if (fails_now()) { log_str("openfail "); log_str(path); log_str("\n"); errno = EACCES; return 1; }
    log_str("open "); log_str(path); log_str(" "); log_str(mode); log_str("\n");
    return 0;
}

static const char* flags_mode(int flags)
{
    if ((flags & O_ACCMODE) == O_RDONLY) return "r";
    if (flags & O_APPEND) return "a";
    if (flags & O_TRUNC) return "w";
    return "r+";
}

FILE* fopen(const char* path, const char* mode)
{
    static FILE* (*real)(const char*, const char*);
    if (!real) real = dlsym(RTLD_NEXT, "fopen");
    int w = watched(path) && mode && mode[0] != 'r';
    if (w && note_open(path, mode)) return NULL;
    FILE* f = real(path, mode);
    if (w && f) track(fileno(f), path);
    return f;
}
FILE* fopen64(const char* path, const char* mode)
{
    static FILE* (*real)(const char*, const char*);
    if (!real) real = dlsym(RTLD_NEXT, "fopen64");
    int w = watched(path) && mode && mode[0] != 'r';
    if (w && note_open(path, mode)) return NULL;
    FILE* f = real(path, mode);
    if (w && f) track(fileno(f), path);
    return f;
}
static int open_common(const char* name, int dirfd, const char* path, int flags, mode_t m)
{
    int w = watched(path) && (flags & O_ACCMODE) != O_RDONLY;
    if (w && note_open(path, flags_mode(flags))) return -1;
    int fd = (int) syscall(SYS_openat, dirfd, path, flags, m);
    if (w && fd >= 0) track(fd, path);
    (void) name;
    return fd;
}
int open(const char* path, int flags, ...) { va_list a; va_start(a, flags); mode_t m = (flags & O_CREAT) ? va_arg(a, mode_t) : 0; va_end(a); return open_common("open", AT_FDCWD, path, flags, m); }
int open64(const char* path, int flags, ...) { va_list a; va_start(a, flags); mode_t m = (flags & O_CREAT) ? va_arg(a, mode_t) : 0; va_end(a); return open_common("open64", AT_FDCWD, path, flags | O_LARGEFILE, m); }
int openat(int dirfd, const char* path, int flags, ...) { va_list a; va_start(a, flags); mode_t m = (flags & O_CREAT) ? va_arg(a, mode_t) : 0; va_end(a); return open_common("openat", dirfd, path, flags, m); }
int creat(const char* path, mode_t m) { return open_common("creat", AT_FDCWD, path, O_WRONLY | O_CREAT | O_TRUNC, m); }

ssize_t write(int fd, const void* buf, size_t n)
{
    const char* p = tracked(fd);
    if (p)
    {
        long part = before_op(1, n);
        if (part >= 0) { long k = syscall(SYS_write, fd, buf, (size_t) part); log_write(p, buf, k > 0 ? (size_t) k : 0); die(); }
        if (full_fd == fd) { char head[64]; log_str("writefail "); log_str(p); snprintf(head, sizeof head, " %zu\n", n); log_str(head); errno = ENOSPC; return -1; }
        if (fails_now() && getenv("VERIF_FS_SHORT") && n >= 2)
        {
            size_t half = n / 2; long k = syscall(SYS_write, fd, buf, half);
            log_write(p, buf, k > 0 ? (size_t) k : 0); full_fd = fd;
            return k;
        }
        if (fails_now()) { char head[64]; log_str("writefail "); log_str(p); snprintf(head, sizeof head, " %zu\n", n); log_str(head); errno = ENOSPC; return -1; }
        log_write(p, buf, n);
        /* complete the whole write so that the log is exact */
        size_t done = 0;
        while (done < n) { long k = syscall(SYS_write, fd, (const char*) buf + done, n - done); if (k <= 0) return done ? (ssize_t) done : k; done += (size_t) k; }
        return (ssize_t) n;
    }
    return syscall(SYS_write, fd, buf, n);
}
ssize_t writev(int fd, const struct iovec* iov, int cnt)
{
    const char* p = tracked(fd);
    if (p)
    {
        size_t total = 0;
        for (int i = 0; i < cnt; ++i) total += iov[i].iov_len;
        char* flat = malloc(total ? total : 1);
        size_t o = 0;
        for (int i = 0; i < cnt; ++i) { memcpy(flat + o, iov[i].iov_base, iov[i].iov_len); o += iov[i].iov_len; }
        ssize_t r = write(fd, flat, total);
        free(flat);
        return r;
    }
    return syscall(SYS_writev, fd, iov, cnt);
}
int fclose(FILE* f)
{
    static int (*real)(FILE*);
    if (!real) real = dlsym(RTLD_NEXT, "fclose");
    int fd = f ? fileno(f) : -1;
    const char* p = tracked(fd);
    if (p)
    {
        fflush(f);                       /* buffered bytes are written (and logged) before the close is counted */
        before_op(0, 0);
        int bad = fails_now();
        log_str(bad ? "closefail " : "close "); log_str(p); log_str("\n");
        free(fd_path[fd]); fd_path[fd] = NULL;
        if (full_fd == fd) full_fd = -1;
        if (bad) { real(f); errno = EIO; return EOF; }
    }
    return real(f);
}
int close(int fd)
{
    const char* p = tracked(fd);
    if (p)
    {
        before_op(0, 0);
        int bad = fails_now();
        log_str(bad ? "closefail " : "close "); log_str(p); log_str("\n");
        free(fd_path[fd]); fd_path[fd] = NULL;
        if (full_fd == fd) full_fd = -1;
        if (bad) { syscall(SYS_close, fd); errno = EIO; return -1; }
    }
    return (int) syscall(SYS_close, fd);
}
int rename(const char* a, const char* b)
{
    if (watched(a) || watched(b))
    {
        before_op(0, 0);
        if (fails_now()) { log_str("renamefail "); log_str(a); log_str(" "); log_str(b); log_str("\n"); errno = EXDEV; return -1; }
        log_str("rename "); log_str(a); log_str(" "); log_str(b); log_str("\n");
    }
    return (int) syscall(SYS_renameat2, AT_FDCWD, a, AT_FDCWD, b, 0);
}
int unlink(const char* p)
{
    if (watched(p) && !getenv("VERIF_FS_IGNORE_UNLINK"))
    {
        before_op(0, 0);
        log_str("unlink "); log_str(p); log_str("\n");
    }
    return (int) syscall(SYS_unlinkat, AT_FDCWD, p, 0);
}
int remove(const char* p) { return unlink(p); }
