(** C01i - continuous form of C01 for VEGAS: the point transformation together with the weight
    reported for the point preserves measure.  Statements only (proofs in Lemmas_C01i.v).
    Everything is about the model's own [icdf1] / [icdf] (VegasPdf.v) with ideal arithmetic
    ([K := NumR], Coq's reals); integrals are Coquelicot's Riemann integrals ([is_RInt], [RInt]).

    Notation.  [nbins p] = number of bins (a nat); [gridn p d b] = boundary b of dimension d, i.e.
    entry d*(bins+1)+b of the flat boundary vector (Lemmas_C01.v: [bin_left p d b = Ok (gridn p d b)]
    for a well-formed vector); [cell_w p d b] = gridn p d (S b) - gridn p d b.
    [xof p d u] and [wof p d u] (Lemmas_C01i.v) are the point and the weight components of
    [icdf1 p d u]; they are totalised to 0 where [icdf1] is undefined behaviour, but
    [C01i_never_undefined] shows that for a valid grid and 0 <= u < 1 the result is
    [Ok (xof p d u, b, wof p d u)], so the default never enters.
    Hypotheses throughout: [valid_grid p] (Lemmas_C07.v: (bins+1) boundaries per dimension, each
    dimension starts at 0, ends at 1 and is NON-DECREASING - zero-width bins are allowed),
    d < dims, 1 <= bins < 2^64 (range of std::size_t, needed for float -> size_t to be defined).

    What is proved.
    * [C01i_point_weight_on_bin]: for b < bins and b/bins <= u < (b+1)/bins, [icdf1 p d u] is Ok,
      the bin is b, the point is the affine image g_b + (u*bins - b)(g_{b+1} - g_b) and the weight is
      the constant (g_{b+1} - g_b) * bins.  [C01i_weight_is_derivative]: strictly inside a bin the
      weight is the derivative of the point map, w = dx/du ([is_derive]).
    * [C01i_change_of_variables_bin]: for every bin b and every f continuous on [g_b, g_{b+1}],
      int_{b/bins}^{(b+1)/bins} f(x(u)) w(u) du = int_{g_b}^{g_{b+1}} f(x) dx.  Zero-width bins are
      included (both sides 0).  [C01i_change_of_variables_bin_integrable]: the same for every f that
      is merely Riemann integrable over the bin, with any value [If] of its integral.
    * [C01i_change_of_variables]: for f continuous on [0,1], int_0^1 f(x(u)) w(u) du = int_0^1 f,
      i.e. the expectation of f * w under a uniform random number equals the integral of f.
      [C01i_change_of_variables_integrable]: the same for every Riemann-integrable f.
      [C01i_weight_total_mass]: int_0^1 w(u) du = 1.
    * d dimensions.  [iter_int dom n G l] (Lemmas_C01i.v) says that the n-fold ITERATED Riemann
      integral over the unit cube of G : list R -> R (first list element = outermost variable)
      exists and equals l, the inner integrals being required for every outer value t with [dom t];
      [C01i_iter_int_unique]: l is determined by G.  [C01i_iterated_change_of_variables]: for EVERY
      f : list R -> R whose iterated integral over the closed cube exists and equals I, the iterated
      integral over the random numbers u in [0,1)^dims of f(x(u)) * w(u) - point list and weight taken
      from the model's [icdf p us], weight = product of the per-dimension factors - exists and equals
      I.  No Fubini theorem is needed for this.  [C01i_product], [C01i_product_continuous]: the
      instance for product integrands f(x) = prod_i f_i(x_i) with integrable (continuous) factors,
      where the iterated integral is prod_i int_0^1 f_i ([C01i_iter_int_product]).

    What is NOT proved / caveats.
    * u = 1 exactly: the C++ replaces it by nexttoward(1, 0), which has no real counterpart
      ([pred_one NumR = 1]); the model then reads boundary bins+1 of the row (next dimension's
      first entry, or undefined behaviour in the last dimension).  This is a single point of the
      integration interval and does not influence any Riemann integral; all theorems are therefore
      insensitive to it (the proofs only use the integrand on the open bin interiors), and the
      u-side domain of [iter_int] is the half-open interval.
    * The d-dimensional statement is about ITERATED integrals.  It is not connected to a
      d-dimensional (product-measure) integral, and the existence of the iterated integral of a
      general continuous f of several variables (a hypothesis of
      [C01i_iterated_change_of_variables]) is only established for product integrands; Coquelicot
      has neither Fubini nor multi-dimensional Riemann integrals.
    * Only VEGAS ([icdf]); only ideal arithmetic - floating-point rounding is not considered.
    * Nothing is weakened relative to the requested statements; no [_partial] theorem. *)
From Coq Require Import ZArith NArith List Reals.
From Coquelicot Require Import Coquelicot.
From HepMC Require Import Num NumR Result VegasPdf Lemmas_C01 Lemmas_C07 Lemmas_C01i.
Import ListNotations.
Local Open Scope R_scope.

(* explicit point and weight on the u-interval of bin b; no undefined behaviour *)
Theorem C01i_point_weight_on_bin : forall (p : pdf NumR) (d : N) (b : nat) (u : R),
  valid_grid p -> (d < pdf_dims p)%N -> (1 <= pdf_bins p < 2 ^ 64)%N -> (b < nbins p)%nat ->
  INR b / INR (nbins p) <= u < INR (S b) / INR (nbins p) ->
  icdf1 p d u = Ok (gridn p d b + (u * INR (nbins p) - INR b) * cell_w p d b, N.of_nat b,
                    cell_w p d b * INR (nbins p)).
Proof. exact icdf1_on_bin. Qed.
Print Assumptions C01i_point_weight_on_bin.

(* xof / wof are the components of an Ok result on [0,1); the point is in [0,1], the weight >= 0 *)
Theorem C01i_never_undefined : forall (p : pdf NumR) (d : N) (u : R),
  valid_grid p -> (d < pdf_dims p)%N -> (1 <= pdf_bins p < 2 ^ 64)%N -> 0 <= u < 1 ->
  exists b, icdf1 p d u = Ok (xof p d u, b, wof p d u) /\ 0 <= xof p d u <= 1 /\ 0 <= wof p d u.
Proof. exact xw_ok. Qed.
Print Assumptions C01i_never_undefined.

(* w = dx/du strictly inside a bin *)
Theorem C01i_weight_is_derivative : forall (p : pdf NumR) (d : N) (b : nat) (u : R),
  valid_grid p -> (d < pdf_dims p)%N -> (1 <= pdf_bins p < 2 ^ 64)%N -> (b < nbins p)%nat ->
  INR b / INR (nbins p) < u < INR (S b) / INR (nbins p) ->
  is_derive (xof p d) u (wof p d u).
Proof. exact weight_is_derivative. Qed.
Print Assumptions C01i_weight_is_derivative.

(* change of variables on one bin, continuous integrand *)
Theorem C01i_change_of_variables_bin : forall (p : pdf NumR) (d : N) (b : nat) (f : R -> R),
  valid_grid p -> (d < pdf_dims p)%N -> (1 <= pdf_bins p < 2 ^ 64)%N -> (b < nbins p)%nat ->
  (forall x, gridn p d b <= x <= gridn p d (S b) -> continuous f x) ->
  is_RInt (fun u => f (xof p d u) * wof p d u) (INR b / INR (nbins p)) (INR (S b) / INR (nbins p))
          (RInt f (gridn p d b) (gridn p d (S b))).
Proof. exact change_of_variables_bin. Qed.
Print Assumptions C01i_change_of_variables_bin.

(* ... every integrand that is Riemann integrable over the bin *)
Theorem C01i_change_of_variables_bin_integrable : forall (p : pdf NumR) (d : N) (b : nat) (f : R -> R) (If : R),
  valid_grid p -> (d < pdf_dims p)%N -> (1 <= pdf_bins p < 2 ^ 64)%N -> (b < nbins p)%nat ->
  is_RInt f (gridn p d b) (gridn p d (S b)) If ->
  is_RInt (fun u => f (xof p d u) * wof p d u) (INR b / INR (nbins p)) (INR (S b) / INR (nbins p)) If.
Proof. exact change_of_variables_bin_gen. Qed.
Print Assumptions C01i_change_of_variables_bin_integrable.

(* the whole unit interval: E_u[f(x(u)) w(u)] = int_0^1 f *)
Theorem C01i_change_of_variables : forall (p : pdf NumR) (d : N) (f : R -> R),
  valid_grid p -> (d < pdf_dims p)%N -> (1 <= pdf_bins p < 2 ^ 64)%N ->
  (forall x, 0 <= x <= 1 -> continuous f x) ->
  is_RInt (fun u => f (xof p d u) * wof p d u) 0 1 (RInt f 0 1).
Proof. exact change_of_variables. Qed.
Print Assumptions C01i_change_of_variables.

Theorem C01i_change_of_variables_integrable : forall (p : pdf NumR) (d : N) (f : R -> R) (If : R),
  valid_grid p -> (d < pdf_dims p)%N -> (1 <= pdf_bins p < 2 ^ 64)%N ->
  is_RInt f 0 1 If -> is_RInt (fun u => f (xof p d u) * wof p d u) 0 1 If.
Proof. exact change_of_variables_gen. Qed.
Print Assumptions C01i_change_of_variables_integrable.

Theorem C01i_weight_total_mass : forall (p : pdf NumR) (d : N),
  valid_grid p -> (d < pdf_dims p)%N -> (1 <= pdf_bins p < 2 ^ 64)%N ->
  is_RInt (wof p d) 0 1 1.
Proof. exact weight_total_mass. Qed.
Print Assumptions C01i_weight_total_mass.

(* the iterated integral is a function of the integrand *)
Theorem C01i_iter_int_unique : forall (dom : R -> Prop) (n : nat),
  (forall t, 0 < t < 1 -> dom t) ->
  forall G l l', iter_int dom n G l -> iter_int dom n G l' -> l = l'.
Proof. exact iter_int_unique. Qed.
Print Assumptions C01i_iter_int_unique.

(* d dimensions, every integrand that has an iterated integral *)
Theorem C01i_iterated_change_of_variables : forall (p : pdf NumR) (f : list R -> R) (I : R),
  valid_grid p -> (1 <= pdf_bins p < 2 ^ 64)%N ->
  iter_int unit_closed (N.to_nat (pdf_dims p)) f I ->
  iter_int unit_halfopen (N.to_nat (pdf_dims p)) (fun us => vegas_term_res f (icdf p us)) I.
Proof. exact iterated_change_of_variables. Qed.
Print Assumptions C01i_iterated_change_of_variables.

(* iterated integral of a product integrand (either domain) *)
Theorem C01i_iter_int_product : forall (dom : R -> Prop) (fs : list (R -> R)) (Is : list R),
  Forall2 (fun f I => is_RInt f 0 1 I) fs Is ->
  forall C, iter_int dom (length fs) (fun xs => C * prodf fs xs) (C * prodR Is).
Proof. exact iter_int_prod. Qed.
Print Assumptions C01i_iter_int_product.

(* product integrands f(x) = prod_i f_i(x_i) *)
Theorem C01i_product : forall (p : pdf NumR) (fs : list (R -> R)) (Is : list R),
  valid_grid p -> (1 <= pdf_bins p < 2 ^ 64)%N -> length fs = N.to_nat (pdf_dims p) ->
  Forall2 (fun f I => is_RInt f 0 1 I) fs Is ->
  iter_int unit_halfopen (N.to_nat (pdf_dims p)) (fun us => vegas_term_res (prodf fs) (icdf p us)) (prodR Is).
Proof. exact product_change_of_variables. Qed.
Print Assumptions C01i_product.

Theorem C01i_product_continuous : forall (p : pdf NumR) (fs : list (R -> R)),
  valid_grid p -> (1 <= pdf_bins p < 2 ^ 64)%N -> length fs = N.to_nat (pdf_dims p) ->
  List.Forall (fun f => forall x, 0 <= x <= 1 -> continuous f x) fs ->
  iter_int unit_halfopen (N.to_nat (pdf_dims p)) (fun us => vegas_term_res (prodf fs) (icdf p us))
           (prodR (map (fun f => RInt f 0 1) fs)).
Proof. exact product_change_of_variables_continuous. Qed.
Print Assumptions C01i_product_continuous.

(* dimension 1 of the 2-bin grid ex_p (boundaries 0, 1/4, 1), f(x) = x * x: concrete points and
   weights, bin 0 alone (1/192 on both sides), and the whole interval: both sides equal 1/3 *)
Example C01i_example_1d :
  valid_grid ex_p /\ (1 < pdf_dims ex_p)%N /\ (1 <= pdf_bins ex_p < 2 ^ 64)%N /\
  (forall x, 0 <= x <= 1 -> continuous (fun x => x * x) x) /\
  icdf1 ex_p 1 (1 / 8) = Ok (1 / 16, 0%N, 1 / 2) /\
  icdf1 ex_p 1 (3 / 4) = Ok (5 / 8, 1%N, 3 / 2) /\
  xof ex_p 1 (3 / 4) = 5 / 8 /\ wof ex_p 1 (3 / 4) = 3 / 2 /\
  is_RInt (fun u => (xof ex_p 1 u * xof ex_p 1 u) * wof ex_p 1 u) (INR 0 / INR 2) (INR 1 / INR 2) (1 / 192) /\
  is_RInt (fun x => x * x) (gridn ex_p 1 0) (gridn ex_p 1 1) (1 / 192) /\
  is_RInt (fun u => (xof ex_p 1 u * xof ex_p 1 u) * wof ex_p 1 u) 0 1 (1 / 3) /\
  is_RInt (fun x => x * x) 0 1 (1 / 3) /\
  RInt (fun x => x * x) 0 1 = 1 / 3.
Proof. exact c01i_example_1d. Qed.

(* a valid grid with a zero-width bin (boundaries 0, 1/4, 1/4, 1): the empty bin contributes 0 *)
Example C01i_example_degenerate :
  valid_grid ex_deg /\ gridn ex_deg 0 1 = gridn ex_deg 0 2 /\
  is_RInt (fun u => (xof ex_deg 0 u * xof ex_deg 0 u) * wof ex_deg 0 u) (INR 1 / INR 3) (INR 2 / INR 3) 0 /\
  is_RInt (fun u => (xof ex_deg 0 u * xof ex_deg 0 u) * wof ex_deg 0 u) 0 1 (1 / 3).
Proof. exact c01i_example_degenerate. Qed.

(* both dimensions of ex_p, f(x0, x1) = x0^2 * x1: both iterated integrals equal 1/6 *)
Example C01i_example_product :
  iter_int unit_halfopen 2
    (fun us => vegas_term_res (prodf [(fun x => x * x); (fun x => x)]) (icdf ex_p us)) (1 / 6) /\
  iter_int unit_closed 2 (prodf [(fun x => x * x); (fun x => x)]) (1 / 6) /\
  vegas_term_res (prodf [(fun x => x * x); (fun x => x)]) (icdf ex_p [1 / 8; 3 / 4]) =
    (1 / 8 * (1 / 8) * (5 / 8 * 1)) * (1 * 1 * (3 / 2)).
Proof. exact c01i_example_product. Qed.
