(** Lemmas for C01i: the continuous form of C01 for VEGAS over the reals.
    The point transformation u |-> x(u) of the model's [icdf1] together with the weight w(u) it
    reports preserves measure: the integral over the unit interval of f(x(u)) * w(u) du equals the
    integral of f over [0,1] (change of variables, one bin at a time, then Chasles), and the
    d-dimensional iterated-integral form for the model's [icdf].
    All definitions of specification predicates and all proofs; statements are repeated in
    Properties_C01i.v. *)
From Coq Require Import ZArith NArith List Reals Lra Lia.
From Coquelicot Require Import Coquelicot.
From Flocq Require Import Core.
From HepMC Require Import Num NumR Result VegasPdf Lemmas_C01 Lemmas_C07.
Import ListNotations.
Local Open Scope R_scope.

(* ------------------------------------------------------------------------------------------- *)
(** * 1. point and weight as real functions of the random number *)

(** Point and weight components of [icdf1 p d u].  Totalised: both are 0 when [icdf1] is undefined
    behaviour ([UB]); [xw_ok] below shows that this never happens for a valid grid and u in [0,1),
    so the default plays no role in the theorems (u = 1 is a single point, see header of
    Properties_C01i.v). *)
Definition xof (p : pdf NumR) (d : N) (u : R) : R :=
  match icdf1 p d u with Ok (x, _, _) => x | UB _ => 0 end.
Definition wof (p : pdf NumR) (d : N) (u : R) : R :=
  match icdf1 p d u with Ok (_, _, w) => w | UB _ => 0 end.

Lemma nbins_INR (p : pdf NumR) : INR (nbins p) = IZR (Z.of_N (pdf_bins p)).
Proof. unfold nbins. rewrite INR_N, N2Nat.id. reflexivity. Qed.

Lemma gridn_bnd (p : pdf NumR) d b : pdf_wf p -> (d < pdf_dims p)%N -> (b <= nbins p)%nat ->
  bnd p d (N.of_nat b) = gridn p d b.
Proof.
  intros W Hd Hb. unfold gridn. symmetry. apply grid_bnd; auto. unfold nbins in Hb. lia.
Qed.

(** for u in [b/bins, (b+1)/bins): the bin is b, the point is the affine image of u, the weight is
    the derivative of that affine map *)
Lemma icdf1_on_bin (p : pdf NumR) (d : N) (b : nat) (u : R) :
  valid_grid p -> (d < pdf_dims p)%N -> (1 <= pdf_bins p < 2 ^ 64)%N -> (b < nbins p)%nat ->
  INR b / INR (nbins p) <= u < INR (S b) / INR (nbins p) ->
  icdf1 p d u = Ok (gridn p d b + (u * INR (nbins p) - INR b) * cell_w p d b, N.of_nat b,
                    cell_w p d b * INR (nbins p)).
Proof.
  intros V Hd Hbins Hb Hu.
  assert (HB : 0 < INR (nbins p)) by (apply INR_pos; unfold nbins; lia).
  assert (Hb1 : INR (S b) <= INR (nbins p)) by (apply le_INR; lia).
  assert (Hb0 : 0 <= INR b) by apply pos_INR.
  assert (HuB : INR b <= u * INR (nbins p) < INR (S b)).
  { destruct Hu as (H1 & H2). split.
    - apply Rmult_le_compat_r with (r := INR (nbins p)) in H1; [|lra].
      unfold Rdiv in H1. rewrite Rmult_assoc, Rinv_l, Rmult_1_r in H1 by lra. exact H1.
    - apply Rmult_lt_compat_r with (r := INR (nbins p)) in H2; [|lra].
      unfold Rdiv in H2. rewrite Rmult_assoc, Rinv_l, Rmult_1_r in H2 by lra. exact H2. }
  assert (Hu01 : 0 <= u < 1).
  { split.
    - apply Rle_trans with (INR b / INR (nbins p)); [|lra]. apply Rmult_le_pos; [lra|]. left. now apply Rinv_0_lt_compat.
    - apply Rmult_lt_reg_r with (INR (nbins p)); lra. }
  destruct (icdf1_in_bin p d u V Hd Hbins Hu01) as (x & b' & w & E & (_ & _ & Ew) & Eb & Ex).
  rewrite <- nbins_INR in Eb, Ex, Ew.
  assert (Hb' : b' = N.of_nat b).
  { assert (Hz : Zfloor (u * INR (nbins p)) = Z.of_nat b).
    { apply Zfloor_imp. rewrite <- !INR_IZR_INZ.
      replace (Z.of_nat b + 1)%Z with (Z.of_nat (S b)) by lia. rewrite <- INR_IZR_INZ. exact HuB. }
    rewrite Hz in Eb. lia. }
  subst b'. destruct V as (W & _).
  replace (N.of_nat b + 1)%N with (N.of_nat (S b)) in Ex, Ew by lia.
  rewrite !gridn_bnd in Ex, Ew by (auto; lia).
  rewrite E, Ex, Ew. unfold cell_w. rewrite (INR_N b). reflexivity.
Qed.

Lemma xw_on_bin (p : pdf NumR) (d : N) (b : nat) (u : R) :
  valid_grid p -> (d < pdf_dims p)%N -> (1 <= pdf_bins p < 2 ^ 64)%N -> (b < nbins p)%nat ->
  INR b / INR (nbins p) <= u < INR (S b) / INR (nbins p) ->
  xof p d u = gridn p d b + (u * INR (nbins p) - INR b) * cell_w p d b /\
  wof p d u = cell_w p d b * INR (nbins p).
Proof.
  intros V Hd Hbins Hb Hu. unfold xof, wof. rewrite (icdf1_on_bin p d b u V Hd Hbins Hb Hu). split; reflexivity.
Qed.

(** never undefined behaviour on [0,1): [xof]/[wof] are the components of an [Ok] result *)
Lemma xw_ok (p : pdf NumR) (d : N) (u : R) :
  valid_grid p -> (d < pdf_dims p)%N -> (1 <= pdf_bins p < 2 ^ 64)%N -> 0 <= u < 1 ->
  exists b, icdf1 p d u = Ok (xof p d u, b, wof p d u) /\ 0 <= xof p d u <= 1 /\ 0 <= wof p d u.
Proof.
  intros V Hd Hbins Hu.
  destruct (icdf1_in_bin p d u V Hd Hbins Hu) as (x & b & w & E & (Hb & Hx & Ew) & _ & _).
  exists b. unfold xof, wof. rewrite E. split; [reflexivity|].
  destruct V as (W & V). specialize (V d Hd). destruct V as (Hl & V0 & V1 & Vm).
  assert (M : mono_upto (fun k => nth k (slice p d) 0) (nbins p)) by exact Vm.
  pose proof (mono_upto_le _ _ M 0%nat (N.to_nat b)) as M0.
  pose proof (mono_upto_le _ _ M (N.to_nat (b + 1)) (nbins p)) as M1.
  pose proof (mono_upto_le _ _ M (N.to_nat b) (N.to_nat (b + 1))) as M2.
  unfold nbins in *. cbv beta in M0, M1, M2. unfold bnd in Hx, Ew.
  assert (0 < IZR (Z.of_N (pdf_bins p))) by (apply IZR_N_pos; lia).
  specialize (M0 ltac:(lia)). specialize (M1 ltac:(lia)). specialize (M2 ltac:(lia)).
  split; [lra|]. rewrite Ew. apply Rmult_le_pos; lra.
Qed.

(** strictly inside a bin the weight is the derivative of the point transformation: w = dx/du *)
Lemma weight_is_derivative (p : pdf NumR) (d : N) (b : nat) (u : R) :
  valid_grid p -> (d < pdf_dims p)%N -> (1 <= pdf_bins p < 2 ^ 64)%N -> (b < nbins p)%nat ->
  INR b / INR (nbins p) < u < INR (S b) / INR (nbins p) ->
  is_derive (xof p d) u (wof p d u).
Proof.
  intros V Hd Hbins Hb Hu.
  destruct (xw_on_bin p d b u V Hd Hbins Hb ltac:(lra)) as (_ & Ew). rewrite Ew.
  apply (is_derive_ext_loc (fun t => gridn p d b + (t * INR (nbins p) - INR b) * cell_w p d b)).
  - apply (locally_interval _ u (INR b / INR (nbins p)) (INR (S b) / INR (nbins p)));
      [exact (proj1 Hu)|exact (proj2 Hu)|].
    intros t Ht1 Ht2. change (INR b / INR (nbins p) < t) in Ht1. change (t < INR (S b) / INR (nbins p)) in Ht2.
    symmetry. apply (xw_on_bin p d b t V Hd Hbins Hb). lra.
  - auto_derive; [exact I|]. ring.
Qed.

(* ------------------------------------------------------------------------------------------- *)
(** * 2. change of variables on one bin *)

(** general form: every f that is Riemann integrable over the bin (no continuity needed) *)
Lemma change_of_variables_bin_gen (p : pdf NumR) (d : N) (b : nat) (f : R -> R) (If : R) :
  valid_grid p -> (d < pdf_dims p)%N -> (1 <= pdf_bins p < 2 ^ 64)%N -> (b < nbins p)%nat ->
  is_RInt f (gridn p d b) (gridn p d (S b)) If ->
  is_RInt (fun u => f (xof p d u) * wof p d u) (INR b / INR (nbins p)) (INR (S b) / INR (nbins p)) If.
Proof.
  intros V Hd Hbins Hb HI.
  assert (HB : 0 < INR (nbins p)) by (apply INR_pos; unfold nbins; lia).
  set (B := INR (nbins p)) in *.
  set (W := cell_w p d b).
  set (k := W * B). set (v := gridn p d b - INR b * W).
  assert (Ea : k * (INR b / B) + v = gridn p d b) by (unfold k, v; field; lra).
  assert (Eb : k * (INR (S b) / B) + v = gridn p d (S b)).
  { unfold k, v, W, cell_w. rewrite S_INR. field. lra. }
  rewrite <- Ea, <- Eb in HI. apply is_RInt_comp_lin in HI.
  apply (is_RInt_ext (fun y => scal k (f (k * y + v)))); [|exact HI].
  intros u Hu.
  assert (Hlt : INR b / B < INR (S b) / B).
  { rewrite S_INR. unfold Rdiv. apply Rmult_lt_compat_r; [now apply Rinv_0_lt_compat|lra]. }
  rewrite Rmin_left, Rmax_right in Hu by lra.
  destruct (xw_on_bin p d b u V Hd Hbins Hb ltac:(fold B; lra)) as (Ex & Ew).
  rewrite Ex, Ew. fold B W. unfold scal; cbn. unfold mult; cbn.
  replace (gridn p d b + (u * B - INR b) * W) with (k * u + v) by (unfold k, v; ring).
  unfold k. ring.
Qed.

(** continuous f, value written with [RInt] *)
Lemma change_of_variables_bin (p : pdf NumR) (d : N) (b : nat) (f : R -> R) :
  valid_grid p -> (d < pdf_dims p)%N -> (1 <= pdf_bins p < 2 ^ 64)%N -> (b < nbins p)%nat ->
  (forall x, gridn p d b <= x <= gridn p d (S b) -> continuous f x) ->
  is_RInt (fun u => f (xof p d u) * wof p d u) (INR b / INR (nbins p)) (INR (S b) / INR (nbins p))
          (RInt f (gridn p d b) (gridn p d (S b))).
Proof.
  intros V Hd Hbins Hb Hc. apply change_of_variables_bin_gen; auto.
  apply (RInt_correct f). apply (ex_RInt_continuous f).
  assert (Hm : gridn p d b <= gridn p d (S b)).
  { destruct V as (W & V). destruct (V d Hd) as (_ & _ & _ & Vm).
    rewrite !gridn_slice by (auto; lia). apply Vm. exact Hb. }
  intros z Hz. rewrite Rmin_left, Rmax_right in Hz by lra. apply Hc. exact Hz.
Qed.

(* ------------------------------------------------------------------------------------------- *)
(** * 3. change of variables on the whole unit interval *)

Lemma gridn_valid (p : pdf NumR) (d : N) : valid_grid p -> (d < pdf_dims p)%N ->
  gridn p d 0 = 0 /\ gridn p d (nbins p) = 1 /\
  forall a b, (a <= b <= nbins p)%nat -> gridn p d a <= gridn p d b.
Proof.
  intros (W & V) Hd. destruct (V d Hd) as (_ & V0 & V1 & Vm).
  rewrite !gridn_slice by (auto; lia). split; [exact V0|]. split; [exact V1|].
  intros a b Hab. rewrite !gridn_slice by (auto; lia).
  apply (mono_upto_le (fun k => nth k (slice p d) 0) (nbins p)); [exact Vm|exact Hab].
Qed.

Lemma change_of_variables_upto (p : pdf NumR) (d : N) (f : R -> R) :
  valid_grid p -> (d < pdf_dims p)%N -> (1 <= pdf_bins p < 2 ^ 64)%N -> ex_RInt f 0 1 ->
  forall n, (n <= nbins p)%nat ->
  is_RInt (fun u => f (xof p d u) * wof p d u) 0 (INR n / INR (nbins p)) (RInt f 0 (gridn p d n)).
Proof.
  intros V Hd Hbins Hex.
  destruct (gridn_valid p d V Hd) as (G0 & G1 & Gm).
  induction n as [|n IH]; intros Hn.
  - rewrite G0. cbn [INR]. unfold Rdiv. rewrite Rmult_0_l.
    rewrite (is_RInt_unique f 0 0 _ (is_RInt_point f 0)). apply (is_RInt_point (V := R_NormedModule)).
  - assert (H0n : 0 <= gridn p d n) by (rewrite <- G0; apply Gm; lia).
    assert (Hnn : gridn p d n <= gridn p d (S n)) by (apply Gm; lia).
    assert (Hn1 : gridn p d (S n) <= 1) by (rewrite <- G1; apply Gm; lia).
    assert (E1 : ex_RInt f 0 (gridn p d (S n))) by (apply (ex_RInt_Chasles_1 f 0 _ 1); [lra|exact Hex]).
    assert (E2 : ex_RInt f 0 (gridn p d n)) by (apply (ex_RInt_Chasles_1 f 0 _ 1); [lra|exact Hex]).
    assert (E3 : ex_RInt f (gridn p d n) (gridn p d (S n))) by (apply (ex_RInt_Chasles_2 f 0); [lra|exact E1]).
    rewrite <- (RInt_Chasles f 0 (gridn p d n) (gridn p d (S n)) E2 E3).
    refine (is_RInt_Chasles (V := R_NormedModule) _ 0 (INR n / INR (nbins p)) _ _ _ (IH ltac:(lia)) _).
    apply change_of_variables_bin_gen; auto. apply (RInt_correct f). exact E3.
Qed.

(** general form: every Riemann-integrable f *)
Lemma change_of_variables_gen (p : pdf NumR) (d : N) (f : R -> R) (If : R) :
  valid_grid p -> (d < pdf_dims p)%N -> (1 <= pdf_bins p < 2 ^ 64)%N ->
  is_RInt f 0 1 If -> is_RInt (fun u => f (xof p d u) * wof p d u) 0 1 If.
Proof.
  intros V Hd Hbins HI.
  assert (HB : 0 < INR (nbins p)) by (apply INR_pos; unfold nbins; lia).
  destruct (gridn_valid p d V Hd) as (_ & G1 & _).
  pose proof (change_of_variables_upto p d f V Hd Hbins (ex_intro _ If HI) (nbins p) (le_n _)) as H.
  rewrite G1, (is_RInt_unique f 0 1 If HI) in H.
  replace (INR (nbins p) / INR (nbins p)) with 1 in H by (field; lra). exact H.
Qed.

(** continuous f: the expectation of f * w under uniform u is the integral of f *)
Lemma change_of_variables (p : pdf NumR) (d : N) (f : R -> R) :
  valid_grid p -> (d < pdf_dims p)%N -> (1 <= pdf_bins p < 2 ^ 64)%N ->
  (forall x, 0 <= x <= 1 -> continuous f x) ->
  is_RInt (fun u => f (xof p d u) * wof p d u) 0 1 (RInt f 0 1).
Proof.
  intros V Hd Hbins Hc. apply change_of_variables_gen; auto.
  apply (RInt_correct f). apply (ex_RInt_continuous f).
  intros z Hz. rewrite Rmin_left, Rmax_right in Hz by lra. apply Hc. exact Hz.
Qed.

(* the weight integrates to one: u |-> x(u) carries the uniform law onto a law with total mass 1 *)
Lemma weight_total_mass (p : pdf NumR) (d : N) :
  valid_grid p -> (d < pdf_dims p)%N -> (1 <= pdf_bins p < 2 ^ 64)%N ->
  is_RInt (wof p d) 0 1 1.
Proof.
  intros V Hd Hbins.
  assert (H1 : is_RInt (fun _ : R => 1) 0 1 1).
  { pose proof (is_RInt_const (V := R_NormedModule) 0 1 1) as H.
    match type of H with is_RInt _ _ _ ?l =>
      assert (E : l = 1) by (unfold scal; cbn; unfold mult; cbn; ring); rewrite E in H end.
    exact H. }
  pose proof (change_of_variables_gen p d (fun _ => 1) 1 V Hd Hbins H1) as H.
  apply (is_RInt_ext (fun u => 1 * wof p d u)); [intros x _; apply Rmult_1_l|exact H].
Qed.

(* ------------------------------------------------------------------------------------------- *)
(** * 4. d dimensions: iterated integrals *)

(** [iter_int dom n G l]: the n-fold iterated Riemann integral over the unit cube of G (a function
    of the list of its n variables, first variable = outermost integral) exists and is l.  The
    inner integral has to exist for every value t with [dom t] of the outer variable; [H] is the
    inner integral as a function of the outer variable. *)
Inductive iter_int (dom : R -> Prop) : nat -> (list R -> R) -> R -> Prop :=
| ii_O G : iter_int dom O G (G [])
| ii_S n G H l :
    (forall t, dom t -> iter_int dom n (fun ts => G (t :: ts)) (H t)) ->
    is_RInt H 0 1 l -> iter_int dom (S n) G l.

Definition unit_closed (t : R) : Prop := 0 <= t <= 1.      (* for the integrand's variables *)
Definition unit_halfopen (t : R) : Prop := 0 <= t < 1.     (* for the random numbers *)

Lemma iter_int_O (dom : R -> Prop) G l : l = G [] -> iter_int dom O G l.
Proof. intros ->. constructor. Qed.

Lemma iter_int_ext (dom : R -> Prop) n : forall G G' l, (forall ts, G ts = G' ts) -> iter_int dom n G l -> iter_int dom n G' l.
Proof.
  induction n as [|n IH]; intros G G' l He Hi; inversion Hi; subst.
  - apply iter_int_O. apply He.
  - apply (ii_S dom n G' H l); [|assumption].
    intros t Ht. apply (IH (fun ts => G (t :: ts))); [intros ts; apply He|auto].
Qed.

(** the iterated integral is unique as soon as [dom] contains the open unit interval *)
Lemma iter_int_unique (dom : R -> Prop) n : (forall t, 0 < t < 1 -> dom t) ->
  forall G l l', iter_int dom n G l -> iter_int dom n G l' -> l = l'.
Proof.
  intros Hdom. induction n as [|n IH]; intros G l l' H1 H2;
    inversion H1 as [|n1 G1 Ha l1 Hia HIa]; inversion H2 as [|n2 G2 Hb l2 Hib HIb]; subst.
  - reflexivity.
  - rewrite <- (is_RInt_unique _ _ _ _ HIa), <- (is_RInt_unique _ _ _ _ HIb).
    apply (RInt_ext Ha Hb 0 1).
    intros t Ht. rewrite Rmin_left, Rmax_right in Ht by lra.
    apply (IH (fun ts => G (t :: ts))); auto.
Qed.

(** f(point) * weight of a sampling result; 0 for undefined behaviour (which the theorems below
    exclude on the half-open cube, see [icdf_in_bin] of Lemmas_C07.v) *)
Definition vegas_term_res (f : list R -> R) (r : res (list R * list N * R)) : R :=
  match r with Ok r' => vegas_term_d f r' | UB _ => 0 end.

Lemma iterated_change_of_variables_loop (p : pdf NumR) :
  valid_grid p -> (1 <= pdf_bins p < 2 ^ 64)%N ->
  forall n d0 w0 f I, (N.to_nat d0 + n <= N.to_nat (pdf_dims p))%nat ->
  iter_int unit_closed n f I ->
  iter_int unit_halfopen n (fun us => vegas_term_res f (icdf_loop p d0 us w0)) (w0 * I).
Proof.
  intros V Hbins. induction n as [|n IH]; intros d0 w0 f I Hd Hi;
    inversion Hi as [|n' G' Hx l' Hinner HI]; subst.
  - apply iter_int_O. cbn. ring.
  -
    apply (ii_S _ n _ (fun u => w0 * (Hx (xof p d0 u) * wof p d0 u))).
    + intros u Hu.
      destruct (xw_ok p d0 u V ltac:(lia) Hbins Hu) as (b & E & Hx01 & _).
      apply (iter_int_ext _ n
        (fun us => vegas_term_res (fun xs => f (xof p d0 u :: xs)) (icdf_loop p (d0 + 1) us (w0 * wof p d0 u)))).
      * intros us. cbn [icdf_loop]. rewrite E. cbn [bind].
        change (mul NumR w0 (wof p d0 u)) with (w0 * wof p d0 u).
        destruct (icdf_loop p (d0 + 1) us (w0 * wof p d0 u)) as [[[xs bs] w']|c]; reflexivity.
      * replace (w0 * (Hx (xof p d0 u) * wof p d0 u)) with ((w0 * wof p d0 u) * Hx (xof p d0 u)) by ring.
        apply IH; [lia|]. apply Hinner. exact Hx01.
    + apply (is_RInt_scal (V := R_NormedModule) _ 0 1 w0 I).
      apply (change_of_variables_gen p d0 Hx I); auto. lia.
Qed.

(** the model's [icdf]: the iterated integral over the random numbers of f(x(u)) * w(u) is the
    iterated integral of f *)
Lemma iterated_change_of_variables (p : pdf NumR) (f : list R -> R) (I : R) :
  valid_grid p -> (1 <= pdf_bins p < 2 ^ 64)%N ->
  iter_int unit_closed (N.to_nat (pdf_dims p)) f I ->
  iter_int unit_halfopen (N.to_nat (pdf_dims p)) (fun us => vegas_term_res f (icdf p us)) I.
Proof.
  intros V Hbins Hi. unfold icdf. replace I with (1 * I) by ring.
  apply (iterated_change_of_variables_loop p V Hbins _ 0%N 1 f I); [lia|exact Hi].
Qed.

(** product integrands *)
Fixpoint prodf (fs : list (R -> R)) (xs : list R) : R :=
  match fs, xs with f :: fs', x :: xs' => f x * prodf fs' xs' | _, _ => 1 end.

Lemma iter_int_prod (dom : R -> Prop) (fs : list (R -> R)) (Is : list R) :
  Forall2 (fun f I => is_RInt f 0 1 I) fs Is ->
  forall C, iter_int dom (length fs) (fun xs => C * prodf fs xs) (C * prodR Is).
Proof.
  induction 1 as [|f I fs Is Hf _ IH]; intros C.
  - apply iter_int_O. reflexivity.
  - cbn [length prodR].
    apply (ii_S dom _ _ (fun t => (C * prodR Is) * f t)).
    + intros t _. apply (iter_int_ext dom _ (fun xs => (C * f t) * prodf fs xs)); [intros ts; cbn [prodf]; ring|].
      replace (C * prodR Is * f t) with ((C * f t) * prodR Is) by ring. apply IH.
    + replace (C * (I * prodR Is)) with ((C * prodR Is) * I) by ring.
      apply (is_RInt_scal (V := R_NormedModule) f 0 1 (C * prodR Is) I Hf).
Qed.

Lemma product_change_of_variables (p : pdf NumR) (fs : list (R -> R)) (Is : list R) :
  valid_grid p -> (1 <= pdf_bins p < 2 ^ 64)%N -> length fs = N.to_nat (pdf_dims p) ->
  Forall2 (fun f I => is_RInt f 0 1 I) fs Is ->
  iter_int unit_halfopen (N.to_nat (pdf_dims p)) (fun us => vegas_term_res (prodf fs) (icdf p us)) (prodR Is).
Proof.
  intros V Hbins Hl HF. apply iterated_change_of_variables; auto.
  rewrite <- Hl. replace (prodR Is) with (1 * prodR Is) by ring.
  apply (iter_int_ext _ _ (fun xs => 1 * prodf fs xs)); [intros; ring|].
  apply iter_int_prod. exact HF.
Qed.

Lemma product_change_of_variables_continuous (p : pdf NumR) (fs : list (R -> R)) :
  valid_grid p -> (1 <= pdf_bins p < 2 ^ 64)%N -> length fs = N.to_nat (pdf_dims p) ->
  List.Forall (fun f => forall x, 0 <= x <= 1 -> continuous f x) fs ->
  iter_int unit_halfopen (N.to_nat (pdf_dims p)) (fun us => vegas_term_res (prodf fs) (icdf p us))
           (prodR (map (fun f => RInt f 0 1) fs)).
Proof.
  intros V Hbins Hl HF. apply product_change_of_variables; auto.
  clear Hl. induction HF as [|f fs Hc _ IH]; cbn [map]; constructor; [|exact IH].
  apply (RInt_correct f). apply (ex_RInt_continuous f).
  intros z Hz. rewrite Rmin_left, Rmax_right in Hz by lra. apply Hc. exact Hz.
Qed.

(* ------------------------------------------------------------------------------------------- *)
(** * 5. concrete instances *)

Lemma sq_integral : is_RInt (fun x => x * x) 0 1 (1 / 3).
Proof.
  replace (1 / 3) with ((1 * 1 * 1 / 3) - (0 * 0 * 0 / 3)) by field.
  apply (is_RInt_derive (fun x => x * x * x / 3)).
  - intros x _. auto_derive; [exact I|]. field.
  - intros x _. apply (ex_derive_continuous (fun x => x * x)). auto_derive. exact I.
Qed.

Lemma sq_continuous x : continuous (fun x => x * x) x.
Proof. apply (ex_derive_continuous (fun x => x * x)). auto_derive. exact I. Qed.

Lemma id_integral : is_RInt (fun x => x) 0 1 (1 / 2).
Proof.
  apply (is_RInt_ext (fun x => 0 + 1 * x)); [intros x _; change (0 + 1 * x = x); ring|].
  replace (1 / 2) with (0 + 1 / 2) by field. apply affine_integral.
Qed.

Lemma ex_p_grid1 : gridn ex_p 1 0 = 0 /\ gridn ex_p 1 1 = / 4 /\ gridn ex_p 1 2 = 1.
Proof. unfold gridn, grid. cbn. repeat split; reflexivity. Qed.

Lemma ex_p_grid0 : gridn ex_p 0 0 = 0 /\ gridn ex_p 0 1 = / 2 /\ gridn ex_p 0 2 = 1.
Proof. unfold gridn, grid. cbn. repeat split; reflexivity. Qed.

(** dimension 1 of [ex_p] (Lemmas_C07.v): two bins, boundaries 0, 1/4, 1; f(x) = x * x *)
Lemma c01i_example_1d :
  valid_grid ex_p /\ (1 < pdf_dims ex_p)%N /\ (1 <= pdf_bins ex_p < 2 ^ 64)%N /\
  (forall x, 0 <= x <= 1 -> continuous (fun x => x * x) x) /\
  icdf1 ex_p 1 (1 / 8) = Ok (1 / 16, 0%N, 1 / 2) /\
  icdf1 ex_p 1 (3 / 4) = Ok (5 / 8, 1%N, 3 / 2) /\
  xof ex_p 1 (3 / 4) = 5 / 8 /\ wof ex_p 1 (3 / 4) = 3 / 2 /\
  is_RInt (fun u => (xof ex_p 1 u * xof ex_p 1 u) * wof ex_p 1 u) (INR 0 / INR 2) (INR 1 / INR 2) (1 / 192) /\
  is_RInt (fun x => x * x) (gridn ex_p 1 0) (gridn ex_p 1 1) (1 / 192) /\
  is_RInt (fun u => (xof ex_p 1 u * xof ex_p 1 u) * wof ex_p 1 u) 0 1 (1 / 3) /\
  is_RInt (fun x => x * x) 0 1 (1 / 3) /\
  RInt (fun x => x * x) 0 1 = 1 / 3.
Proof.
  destruct ex_bins as (_ & Hb). destruct ex_p_grid1 as (G0 & G1 & G2).
  assert (Hd : (1 < pdf_dims ex_p)%N) by (cbn; lia).
  assert (Hn : nbins ex_p = 2%nat) by reflexivity.
  assert (E1 : icdf1 ex_p 1 (1 / 8) = Ok (1 / 16, 0%N, 1 / 2)).
  { rewrite (icdf1_on_bin ex_p 1 0 (1 / 8) ex_valid Hd Hb) by (rewrite ?Hn; cbn [INR]; try lia; lra).
    unfold cell_w. rewrite Hn, G0, G1. cbn [INR N.of_nat]. f_equal. f_equal; [f_equal|]; field. }
  assert (E2 : icdf1 ex_p 1 (3 / 4) = Ok (5 / 8, 1%N, 3 / 2)).
  { rewrite (icdf1_on_bin ex_p 1 1 (3 / 4) ex_valid Hd Hb) by (rewrite ?Hn; cbn [INR]; try lia; lra).
    unfold cell_w. rewrite Hn, G1, G2. cbn [INR N.of_nat]. f_equal. f_equal; [f_equal|]; field. }
  assert (Hsq : is_RInt (fun x => x * x) (gridn ex_p 1 0) (gridn ex_p 1 1) (1 / 192)).
  { rewrite G0, G1.
    replace (1 / 192) with ((/ 4 * / 4 * / 4 / 3) - (0 * 0 * 0 / 3)) by field.
    apply (is_RInt_derive (fun x => x * x * x / 3)).
    - intros x _. auto_derive; [exact I|]. field.
    - intros x _. apply sq_continuous. }
  split; [exact ex_valid|]. split; [exact Hd|]. split; [exact Hb|].
  split; [intros x _; apply sq_continuous|].
  split; [exact E1|]. split; [exact E2|].
  split; [unfold xof; rewrite E2; reflexivity|]. split; [unfold wof; rewrite E2; reflexivity|].
  split; [|split; [exact Hsq|]].
  - apply (change_of_variables_bin_gen ex_p 1 0 (fun x => x * x) (1 / 192) ex_valid Hd Hb); [rewrite Hn; lia|exact Hsq].
  - split; [|split; [exact sq_integral|apply is_RInt_unique; exact sq_integral]].
    apply (change_of_variables_gen ex_p 1 (fun x => x * x) (1 / 3) ex_valid Hd Hb sq_integral).
Qed.

(** a grid with a zero-width bin: one dimension, three bins, boundaries 0, 1/4, 1/4, 1 *)
Definition ex_deg : pdf NumR := @mk_pdf NumR 3 1 [0; / 4; / 4; 1].

Lemma ex_deg_valid : valid_grid ex_deg.
Proof.
  split; [reflexivity|]. intros d Hd. cbn [ex_deg pdf_dims] in Hd. assert (d = 0%N) as -> by lia.
  change (slice ex_deg 0) with [0; / 4; / 4; 1]. change (nbins ex_deg) with 3%nat.
  unfold row_valid. cbn [length nth]. repeat split; try lra.
  intros k Hk. destruct k as [|[|[|k]]]; [| | |lia]; cbn [nth]; lra.
Qed.

Lemma c01i_example_degenerate :
  valid_grid ex_deg /\ gridn ex_deg 0 1 = gridn ex_deg 0 2 /\
  is_RInt (fun u => (xof ex_deg 0 u * xof ex_deg 0 u) * wof ex_deg 0 u) (INR 1 / INR 3) (INR 2 / INR 3) 0 /\
  is_RInt (fun u => (xof ex_deg 0 u * xof ex_deg 0 u) * wof ex_deg 0 u) 0 1 (1 / 3).
Proof.
  assert (Hd : (0 < pdf_dims ex_deg)%N) by (cbn; lia).
  assert (Hb : (1 <= pdf_bins ex_deg < 2 ^ 64)%N) by (cbn; lia).
  assert (G : gridn ex_deg 0 1 = gridn ex_deg 0 2) by reflexivity.
  split; [exact ex_deg_valid|]. split; [exact G|]. split.
  - apply (change_of_variables_bin_gen ex_deg 0 1 (fun x => x * x) 0 ex_deg_valid Hd Hb); [cbn; lia|].
    rewrite <- G. apply (is_RInt_point (V := R_NormedModule)).
  - apply (change_of_variables_gen ex_deg 0 (fun x => x * x) (1 / 3) ex_deg_valid Hd Hb sq_integral).
Qed.

(** both dimensions of [ex_p], f(x0, x1) = x0^2 * x1: iterated integral 1/3 * 1/2 = 1/6 *)
Lemma c01i_example_product :
  iter_int unit_halfopen 2
    (fun us => vegas_term_res (prodf [(fun x => x * x); (fun x => x)]) (icdf ex_p us)) (1 / 6) /\
  iter_int unit_closed 2 (prodf [(fun x => x * x); (fun x => x)]) (1 / 6) /\
  vegas_term_res (prodf [(fun x => x * x); (fun x => x)]) (icdf ex_p [1 / 8; 3 / 4]) =
    (1 / 8 * (1 / 8) * (5 / 8 * 1)) * (1 * 1 * (3 / 2)).
Proof.
  destruct ex_bins as (_ & Hb).
  assert (HF : Forall2 (fun f I => is_RInt f 0 1 I) [(fun x => x * x); (fun x : R => x)] [1 / 3; 1 / 2]).
  { constructor; [exact sq_integral|]. constructor; [exact id_integral|constructor]. }
  replace (1 / 6) with (prodR [1 / 3; 1 / 2]) by (cbn; field).
  split; [|split].
  - exact (product_change_of_variables ex_p [(fun x => x * x); (fun x : R => x)] [1 / 3; 1 / 2]
             ex_valid Hb (eq_refl 2%nat) HF).
  - apply (iter_int_ext _ _ (fun xs => 1 * prodf [(fun x => x * x); (fun x : R => x)] xs)); [intros; ring|].
    replace (prodR [1 / 3; 1 / 2]) with (1 * prodR [1 / 3; 1 / 2]) by ring.
    apply (iter_int_prod _ _ _ HF).
  - destruct c01i_example_1d as (_ & _ & _ & _ & _ & E2 & _).
    assert (Hd0 : (0 < pdf_dims ex_p)%N) by (cbn; lia).
    assert (E1 : icdf1 ex_p 0 (1 / 8) = Ok (1 / 8, 0%N, 1)).
    { rewrite (icdf1_on_bin ex_p 0 0 (1 / 8) ex_valid Hd0 Hb) by (change (nbins ex_p) with 2%nat; cbn [INR]; try lia; lra).
      destruct ex_p_grid0 as (G0 & G1 & _). unfold cell_w. rewrite G0, G1.
      change (nbins ex_p) with 2%nat. cbn [INR N.of_nat]. f_equal. f_equal; [f_equal|]; field. }
    unfold icdf. cbn [icdf_loop]. rewrite E1. cbn [bind]. change (0 + 1)%N with 1%N. rewrite E2. cbn.
    field.
Qed.
