(** Lemmas for C19m: state threading in MPI runs ([Mpi.v]).  Every rank carries the grid / the channel weights in
    its own state [rs_aux] and refines it locally; the checkpoint is only written to.  Shown here: the state the
    ranks sample iteration k with is nevertheless exactly [vchk_pdf L] / [mchk_weights L] of the checkpoint
    after iteration k-1, i.e. what the serial driver (C19) and a run resumed from that checkpoint use. *)
From Coq Require Import ZArith NArith List Bool Lia.
From HepMC Require Import Num Translated Result Accum VegasPdf Discrete MultiChannel Helper Iter Chkpt Callback Run Mpi
  Lemmas_Run Lemmas_C16 Lemmas_C10 Lemmas_C12 Lemmas_C04 Lemmas_C19 Lemmas_C12m.
Import ListNotations.

Section Generic.
  Context {K : Num}.
  Variables (C S R P : Type).
  Variable world : N.
  Variable sub_calls : Z -> Z -> Z -> Z.
  Variable usage : N.
  Variable local_iter : S -> N -> N -> N -> res (R * N * N * list (event K)).
  Variable rebuild : S -> plainres K -> list K -> R.
  Variable addc : C -> R -> N -> C.
  Variable cb : N -> C -> bool.
  Variable refine : C -> S -> R -> res S.
  Notation MExec := (MExec C S R world sub_calls usage local_iter rebuild addc cb refine).

  (** [state_of c]: the adaptive state an iteration started from checkpoint c uses (serial driver, resumed run) *)
  Variable state_of : C -> res S.
  (* the local refinement of the carried state is the state of the new checkpoint *)
  Hypothesis coherent : forall c a pl ex g,
    state_of (addc c (rebuild a pl ex) g) = refine (addc c (rebuild a pl ex) g) a (rebuild a pl ex).

  Lemma mexec_threaded cs c g a logs tr c' g' a' rest :
    MExec cs c g a logs tr c' g' a' rest -> state_of c = Ok a ->
    Forall (fun t => state_of (mi_prev t) = Ok (mi_aux t)) tr /\
    (match rev tr with t :: _ => mi_go t = true | [] => True end -> state_of c' = Ok a').
  Proof.
    induction 1 as [c g a|calls cs c g a ls t Hok E1 E2 E3 E4 E5|calls cs c g a ls t a1 logs tr c' g' a' rest Hok E1 E2 E3 E4 E5 Er Hex IH];
      intros H0.
    - split; [constructor|auto].
    - split; [constructor; [rewrite E2, E4; exact H0|constructor]|]. cbn [rev app]. intros Hg. congruence.
    - assert (H1 : state_of (mi_chk t) = Ok a1).
      { destruct Hok as (_ & (pl & ex & Eres) & Echk & _). rewrite <- Er, Echk, Eres, E4. apply coherent. }
      destruct (IH H1) as [IH1 IH2]. split; [constructor; [rewrite E2, E4; exact H0|exact IH1]|].
      cbn [rev]. destruct (rev tr) as [|t1 r] eqn:Erev; [|exact IH2]. cbn [app]. intros _.
      assert (tr = []) by (apply (f_equal (@rev _)) in Erev; rewrite rev_involutive in Erev; exact Erev). subst tr.
      inversion Hex; subst. exact H1.
  Qed.

  (** a parameter of the checkpoint that [add] never changes (alpha; beta and the minimum weight) *)
  Variable par : C -> P.
  Hypothesis par_add : forall c r g, par (addc c r g) = par c.

  Lemma mexec_par cs c g a logs tr c' g' a' rest :
    MExec cs c g a logs tr c' g' a' rest -> Forall (fun t => par (mi_prev t) = par c /\ par (mi_chk t) = par c) tr.
  Proof.
    induction 1 as [c g a|calls cs c g a ls t Hok E1 E2 E3 E4 E5|calls cs c g a ls t a1 logs tr c' g' a' rest Hok E1 E2 E3 E4 E5 Er Hex IH].
    - constructor.
    - destruct Hok as (_ & _ & Echk & _). constructor; [|constructor]. rewrite Echk, par_add, E2. auto.
    - destruct Hok as (_ & _ & Echk & _). assert (Ep : par (mi_chk t) = par c) by (rewrite Echk, par_add, E2; reflexivity).
      constructor; [rewrite E2; auto|]. eapply Forall_impl; [|exact IH]. cbv beta. intros t0 [Q1 Q2]. rewrite Q1, Q2, Ep. auto.
  Qed.
End Generic.

Lemma vchk_dimensions_alpha {K : Num} (c : vchk K) d : vc_alpha (vchk_dimensions c d) = vc_alpha c.
Proof. unfold vchk_dimensions. destruct (b_results (vc_base c)); [destruct (vc_first c)|]; reflexivity. Qed.
Lemma mchk_channels_pars {K : Num} (c : mchk K) n :
  mc_minw (mchk_channels c n) = mc_minw c /\ mc_beta (mchk_channels c n) = mc_beta c.
Proof. unfold mchk_channels. destruct (mc_first c); auto. Qed.

Section Drivers.
  Context {K : Num}.
  Context (L : Libm K).
  Variable strm : N -> K.
  Variable ps : list (dparams K).
  Variable f : integrand K.
  Variable world : N.
  Variable perm : list N.

  (** *** VEGAS *)
  Lemma c19m_vegas_threaded d cb cs (c : vchk K) idx sts' logs :
    world_ok world -> perm_ok world perm -> cb_rank_independent cb -> Forall (fun calls => (calls < 2 ^ 64)%N) cs ->
    mpi_vegas_run L strm ps f world perm d cb cs c idx = Ok (sts', logs) ->
    let c0 := vchk_dimensions c d in
    exists tr : list (miter (vchk K) (pdf K) (vegasres K)), length tr = length logs /\
      (* iteration k: all ranks sample with the common grid [mi_aux t], which is the grid of the checkpoint
         before that iteration and the one recorded in the result all ranks add *)
      (forall k ls, nth_error logs k = Some ls -> exists t gk, nth_error tr k = Some t /\
         vchk_pdf L (mi_prev t) = Ok (mi_aux t) /\ v_pdf (mi_result t) = mi_aux t /\
         mi_chk t = vchk_add (mi_prev t) (mi_result t) gk /\ length ls = N.to_nat world /\
         forall r l, nth_error ls r = Some l -> rl_chk l = mi_chk t /\
           (exists n gpos idx0 lr g2 idx1, vegas_iteration strm ps f (mi_aux t) n gpos idx0 = Ok (lr, g2, idx1, rl_events l)) /\
           Forall (vegas_point_from strm (mi_aux t)) (rl_events l)) /\
      (* iteration 0 *)
      (forall t, nth_error tr 0 = Some t -> mi_prev t = c0 /\ vchk_pdf L c0 = Ok (mi_aux t)) /\
      (* iteration k+1 *)
      (forall k t t', nth_error tr k = Some t -> nth_error tr (Datatypes.S k) = Some t' ->
         mi_prev t' = mi_chk t /\
         refine_pdf L (mi_aux t) (vc_alpha c) (v_adj (mi_result t)) = Ok (mi_aux t') /\
         vchk_pdf L (mi_chk t) = Ok (mi_aux t')) /\
      (* what the ranks return *)
      (exists c' a', Forall (fun st => rs_chk st = c' /\ rs_aux st = a') sts' /\ length sts' = N.to_nat world /\
         match rev tr with
         | [] => c' = c0 /\ vchk_pdf L c0 = Ok a'
         | t :: _ => c' = mi_chk t /\ if mi_go t then vchk_pdf L c' = Ok a' else a' = mi_aux t
         end).
  Proof.
    intros Hw Hp Hcb Hcs Hrun. cbv zeta.
    destruct (c12m_vegas_exec L strm ps f world perm d cb cs c idx sts' logs Hw Hp Hcb Hcs Hrun)
      as (g & p & tr & c' & g' & a' & rest & Hg & Hpdf & Hex & Hag & Hlen & _).
    unfold vegas_MExec in Hex.
    assert (Hcoh : forall (c1 : vchk K) (a : pdf K) pl ex g1,
               vchk_pdf L (vchk_add c1 (mk_vegasres pl a ex) g1) = vegas_ref L (vchk_add c1 (mk_vegasres pl a ex) g1) a (mk_vegasres pl a ex)).
    { intros c1 a pl ex g1. destruct (vchk_pdf_after_add L c1 (mk_vegasres pl a ex) g1) as [E1 E2]. rewrite E1. unfold vegas_ref. rewrite E2. reflexivity. }
    destruct (mexec_threaded _ _ _ _ _ _ _ _ _ _ _ (vchk_pdf L) Hcoh _ _ _ _ _ _ _ _ _ _ Hex Hpdf) as [Hth Hfin].
    pose proof (mexec_par _ _ _ _ _ _ _ _ _ _ _ _ (@vc_alpha K) (fun c1 r g1 => proj2 (vchk_pdf_after_add L c1 r g1)) _ _ _ _ _ _ _ _ _ _ Hex) as Hpar.
    rewrite Forall_forall in Hth, Hpar.
    destruct (mexec_length _ _ _ _ _ _ _ _ _ _ _ _ _ _ _ _ _ _ _ _ _ Hex) as [Hl1 _].
    destruct (mexec_chain _ _ _ _ _ _ _ _ _ _ _ _ _ _ _ _ _ _ _ _ _ Hex) as [Hc0 Hch].
    destruct (mexec_result _ _ _ _ _ _ _ _ _ _ _ _ _ _ _ _ _ _ _ _ _ Hex) as (Hr1 & _ & Hr3).
    exists tr. split; [exact Hl1|]. split; [|split; [|split]].
    - intros k ls Hn. destruct (mexec_nth _ _ _ _ _ _ _ _ _ _ _ _ _ _ _ _ _ _ _ _ _ Hex k ls Hn) as (t & Ht & Hok & _).
      destruct Hok as (Hlen' & (pl & ex & Eres) & Echk & _ & Hranks).
      exists t, (mi_gen t + pdf_dims p * mi_calls t)%N. split; [exact Ht|].
      split; [apply Hth; eapply nth_error_In; exact Ht|]. split; [rewrite Eres; reflexivity|]. split; [exact Echk|]. split; [exact Hlen'|].
      intros r l Hr. destruct (Hranks r l Hr) as (Q1 & _ & _ & idx0 & lr & g2 & idx1 & Hli). split; [exact Q1|].
      unfold vegas_li in Hli. split; [eexists _, _, _, _, _, _; exact Hli|].
      apply vegas_iteration_state in Hli as (_ & Hpts & _). exact Hpts.
    - intros t Ht. destruct (Hc0 t Ht) as (Q1 & _ & Q3). rewrite Q3. auto.
    - intros k t t' Ht Ht'. destruct (Hch k t t' Ht Ht') as (_ & Q2 & _ & Q4). split; [exact Q2|].
      unfold vegas_ref in Q4. destruct (Hpar t (nth_error_In _ _ Ht)) as [_ Ea]. rewrite Ea, vchk_dimensions_alpha in Q4.
      split; [exact Q4|]. rewrite <- Q2. apply Hth. eapply nth_error_In; exact Ht'.
    - exists c', a'. split; [|split; [exact Hlen|]].
      + eapply Forall_impl; [|exact Hag]. cbv beta. intros st (Q1 & _ & Q3). auto.
      + destruct (rev tr) as [|t r] eqn:Erev.
        * split; [exact Hr1|]. subst a'. exact Hpdf.
        * split; [exact Hr1|]. destruct (mi_go t) eqn:Eg; [apply Hfin; reflexivity|exact Hr3].
  Qed.

  (** *** multi-channel *)
  Variable mp : mcmap K.

  Lemma c19m_mc_threaded d channels cb cs (c : mchk K) idx sts' logs :
    world_ok world -> perm_ok world perm -> cb_rank_independent cb -> Forall (fun calls => (calls < 2 ^ 64)%N) cs ->
    mpi_mc_run L strm ps f world perm mp d channels cb cs c idx = Ok (sts', logs) ->
    let c0 := mchk_channels c channels in
    exists tr : list (miter (mchk K) (list K) (mcres_mc K)), length tr = length logs /\
      (forall k ls, nth_error logs k = Some ls -> exists t gk, nth_error tr k = Some t /\
         mchk_weights L (mi_prev t) = Ok (mi_aux t) /\ m_weights (mi_result t) = mi_aux t /\
         mi_chk t = mchk_add (mi_prev t) (mi_result t) gk /\ length ls = N.to_nat world /\
         forall r l, nth_error ls r = Some l -> rl_chk l = mi_chk t /\
           (exists n gpos idx0 lr g2 idx1, mc_iteration strm ps f mp d (mi_aux t) n gpos idx0 = Ok (lr, g2, idx1, rl_events l)) /\
           Forall (mc_point_from strm mp d (mi_aux t)) (rl_events l)) /\
      (forall t, nth_error tr 0 = Some t -> mi_prev t = c0 /\ mchk_weights L c0 = Ok (mi_aux t)) /\
      (forall k t t', nth_error tr k = Some t -> nth_error tr (Datatypes.S k) = Some t' ->
         mi_prev t' = mi_chk t /\
         refine_weights L (mi_aux t) (m_adj (mi_result t)) (mc_minw c) (mc_beta c) = Ok (mi_aux t') /\
         mchk_weights L (mi_chk t) = Ok (mi_aux t')) /\
      (exists c' a', Forall (fun st => rs_chk st = c' /\ rs_aux st = a') sts' /\ length sts' = N.to_nat world /\
         match rev tr with
         | [] => c' = c0 /\ mchk_weights L c0 = Ok a'
         | t :: _ => c' = mi_chk t /\ if mi_go t then mchk_weights L c' = Ok a' else a' = mi_aux t
         end).
  Proof.
    intros Hw Hp Hcb Hcs Hrun. cbv zeta.
    destruct (c12m_mc_exec L strm ps f world perm mp d channels cb cs c idx sts' logs Hw Hp Hcb Hcs Hrun)
      as (g & ws & tr & c' & g' & a' & rest & Hg & Hws & Hex & Hag & Hlen).
    unfold mc_MExec in Hex.
    assert (Hcoh : forall (c1 : mchk K) (a : list K) pl ex g1,
               mchk_weights L (mchk_add c1 (mk_mcres_mc pl ex a) g1) = mc_ref L (mchk_add c1 (mk_mcres_mc pl ex a) g1) a (mk_mcres_mc pl ex a)).
    { intros c1 a pl ex g1. destruct (mchk_weights_after_add L c1 (mk_mcres_mc pl ex a) g1) as (E1 & E2 & E3).
      rewrite E1. unfold mc_ref. rewrite E2, E3. reflexivity. }
    destruct (mexec_threaded _ _ _ _ _ _ _ _ _ _ _ (mchk_weights L) Hcoh _ _ _ _ _ _ _ _ _ _ Hex Hws) as [Hth Hfin].
    pose proof (mexec_par _ _ _ _ _ _ _ _ _ _ _ _ (fun c1 : mchk K => (mc_minw c1, mc_beta c1))
                  (fun c1 r g1 => f_equal2 pair (proj1 (proj2 (mchk_weights_after_add L c1 r g1))) (proj2 (proj2 (mchk_weights_after_add L c1 r g1))))
                  _ _ _ _ _ _ _ _ _ _ Hex) as Hpar.
    rewrite Forall_forall in Hth, Hpar.
    destruct (mexec_length _ _ _ _ _ _ _ _ _ _ _ _ _ _ _ _ _ _ _ _ _ Hex) as [Hl1 _].
    destruct (mexec_chain _ _ _ _ _ _ _ _ _ _ _ _ _ _ _ _ _ _ _ _ _ Hex) as [Hc0 Hch].
    destruct (mexec_result _ _ _ _ _ _ _ _ _ _ _ _ _ _ _ _ _ _ _ _ _ Hex) as (Hr1 & _ & Hr3).
    exists tr. split; [exact Hl1|]. split; [|split; [|split]].
    - intros k ls Hn. destruct (mexec_nth _ _ _ _ _ _ _ _ _ _ _ _ _ _ _ _ _ _ _ _ _ Hex k ls Hn) as (t & Ht & Hok & _).
      destruct Hok as (Hlen' & (pl & ex & Eres) & Echk & _ & Hranks).
      exists t, (mi_gen t + (N.of_nat d + 1) * mi_calls t)%N. split; [exact Ht|].
      split; [apply Hth; eapply nth_error_In; exact Ht|]. split; [rewrite Eres; reflexivity|]. split; [exact Echk|]. split; [exact Hlen'|].
      intros r l Hr. destruct (Hranks r l Hr) as (Q1 & _ & _ & idx0 & lr & g2 & idx1 & Hli). split; [exact Q1|].
      unfold mc_li in Hli. split; [eexists _, _, _, _, _, _; exact Hli|].
      apply mc_iteration_state in Hli as (_ & Hpts). exact Hpts.
    - intros t Ht. destruct (Hc0 t Ht) as (Q1 & _ & Q3). rewrite Q3. auto.
    - intros k t t' Ht Ht'. destruct (Hch k t t' Ht Ht') as (_ & Q2 & _ & Q4). split; [exact Q2|].
      unfold mc_ref in Q4. destruct (Hpar t (nth_error_In _ _ Ht)) as [_ Ea]. injection Ea as Ea1 Ea2.
      destruct (mchk_channels_pars c channels) as [Eb1 Eb2]. rewrite Ea1, Ea2, Eb1, Eb2 in Q4.
      split; [exact Q4|]. rewrite <- Q2. apply Hth. eapply nth_error_In; exact Ht'.
    - exists c', a'. split; [|split; [exact Hlen|]].
      + eapply Forall_impl; [|exact Hag]. cbv beta. intros st (Q1 & _ & Q3). auto.
      + destruct (rev tr) as [|t r] eqn:Erev.
        * split; [exact Hr1|]. subst a'. exact Hws.
        * split; [exact Hr1|]. destruct (mi_go t) eqn:Eg; [apply Hfin; reflexivity|exact Hr3].
  Qed.
End Drivers.

(** ** non-vacuity: C19's example (VEGAS, double precision, grid that moves, libm stand-in) run by the MPI driver
    on 3 ranks with the reduction order 2,0,1 of C04's example: the run is defined, performs the 3 iterations, and
    on every rank the first grid is the uniform one, the grids recorded in results 1 and 2 are the refinements of
    results 0 and 1, the grid has moved, and the grid the rank carries at the end is [vchk_pdf] of the checkpoint
    it returns.  Grids are compared through their sign/mantissa/exponent representation ([pdf_out]). *)
From HepMC Require Import NumB.
Definition ex19m_run :=
  mpi_vegas_run ex19_L ex19_strm [] ex19_f 3 [2; 0; 1]%N 1 (fun _ _ => true) [8; 8; 8]%N (vchk_default 4 (one B64) 0) 0.
Definition pdf_eqb (p q : pdf B64) : bool := outs_eqb (pdf_out p) (pdf_out q).
Definition ex19m_check : bool :=
  match ex19m_run with
  | Ok (sts, logs) =>
      Nat.eqb (length sts) 3 && Nat.eqb (length logs) 3 &&
      forallb (fun st =>
        match b_results (vc_base (rs_chk st)) with
        | [r0; r1; r2] =>
            pdf_eqb (v_pdf r0) (uniform_pdf 1 4) &&
            match refine_pdf ex19_L (v_pdf r0) (one B64) (v_adj r0) with Ok p => pdf_eqb p (v_pdf r1) | UB _ => false end &&
            match refine_pdf ex19_L (v_pdf r1) (one B64) (v_adj r1) with Ok p => pdf_eqb p (v_pdf r2) | UB _ => false end &&
            negb (pdf_eqb (v_pdf r1) (v_pdf r0)) &&
            match vchk_pdf ex19_L (rs_chk st) with Ok p => pdf_eqb p (rs_aux st) | UB _ => false end
        | _ => false
        end) sts
  | UB _ => false
  end.
Lemma c19m_example : ex19m_check = true /\ world_ok 3 /\ perm_ok 3 [2; 0; 1]%N /\
  cb_rank_independent (fun (_ : N) (_ : vchk B64) => true) /\ Forall (fun calls => (calls < 2 ^ 64)%N) [8; 8; 8]%N.
Proof.
  split; [vm_compute; reflexivity|]. split; [unfold world_ok; lia|]. split; [split; [discriminate|repeat constructor]|].
  split; [intros r r' c; reflexivity|repeat constructor].
Qed.
