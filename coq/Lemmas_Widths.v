(** The evaluation counters of the code are what the model takes them to be: unsigned 64-bit integers.
    [counter_widths] is regenerated from the declarations in /repo's headers on every run (members of
    mc_result and of both accumulators, and every member, local variable and parameter with "calls" in the name);
    the model counts in N without a bound, which is the behaviour of the code for every count a run can
    reach (below 2^64) exactly when no declared counter is narrower. *)
From Coq Require Import ZArith List String Lia Bool.
From HepMC Require Import Translated.
Import ListNotations.
Local Open Scope Z_scope.

Lemma counter_widths_all_64 : forallb (fun p => snd p =? 64) counter_widths = true.
Proof. vm_compute. reflexivity. Qed.

Lemma counters_do_not_wrap : forall (name : string) (w n : Z),
  In (name, w) counter_widths -> 0 <= n < 2 ^ 64 -> n mod 2 ^ w = n.
Proof.
  intros name w n Hin Hn. pose proof counter_widths_all_64 as H.
  rewrite forallb_forall in H. apply H in Hin. cbn [snd] in Hin. apply Z.eqb_eq in Hin. subst w.
  apply Z.mod_small. exact Hn.
Qed.

(** a narrower counter would lose evaluations: the smallest count it gets wrong *)
Lemma narrower_counter_wraps : forall w : Z, 0 <= w < 64 -> exists n, 0 <= n < 2 ^ 64 /\ n mod 2 ^ w <> n.
Proof.
  intros w Hw. exists (2 ^ w). split.
  - split; [apply Z.pow_nonneg; lia|]. apply Z.pow_lt_mono_r; lia.
  - rewrite Z.mod_same by (apply Z.pow_nonzero; lia). pose proof (Z.pow_pos_nonneg 2 w). lia.
Qed.

Lemma counter_members_present :
  In ("mc_result::calls_"%string, 64) counter_widths /\ In ("mc_result::non_zero_calls_"%string, 64) counter_widths /\
  In ("mc_result::finite_calls_"%string, 64) counter_widths /\ In ("accumulator::non_zero_calls_"%string, 64) counter_widths /\
  In ("accumulator::finite_calls_"%string, 64) counter_widths.
Proof. vm_compute. intuition. Qed.
