(** Lemmas for C10: every call consumes a fixed, predictable amount of generator output. *)
From Coq Require Import ZArith NArith List Bool Lia.
From HepMC Require Import Num Translated Result Accum VegasPdf Discrete MultiChannel Iter Chkpt Callback Run Lemmas_Run Lemmas_C16.
Import ListNotations.

Section Steps.
  Context {K : Num}.
  Variable strm : N -> K.
  Variable ps : list (dparams K).
  Variable f : integrand K.

  Lemma plain_step_pos d s s' : plain_step strm ps f d s = Ok s' ->
    it_g s' = (it_g s + N.of_nat d)%N /\ it_idx s' = (it_idx s + 1)%N.
  Proof.
    unfold plain_step. intros H. apply bind_Ok in H as ([a v] & _ & H). injection H as <-. cbn. auto.
  Qed.

  Lemma vegas_step_pos p s s' : vegas_step strm ps f p s = Ok s' ->
    it_g s' = (it_g s + pdf_dims p)%N /\ it_idx s' = (it_idx s + 1)%N.
  Proof.
    unfold vegas_step. intros H. apply bind_Ok in H as ([[xs bs] w] & _ & H).
    apply bind_Ok in H as ([a v] & _ & H). apply bind_Ok in H as (adj & _ & H).
    injection H as <-. cbn. rewrite N2Nat.id. auto.
  Qed.

  Variable mp : mcmap K.
  Lemma mc_step_pos d ws cum en s s' : mc_step strm ps f mp d ws cum en s = Ok s' ->
    it_g s' = (it_g s + (N.of_nat d + 1))%N /\ it_idx s' = (it_idx s + 1)%N.
  Proof.
    unfold mc_step. destruct (m_dens mp _ _ _ _ _) as [jac dens]. intros H.
    apply bind_Ok in H as (w & _ & H). apply bind_Ok in H as ([a v] & _ & H).
    apply bind_Ok in H as (adj & _ & H). injection H as <-. cbn. split; [lia|reflexivity].
  Qed.

  (** n calls: position advanced by n * cost, whatever the integrand returns *)
  Lemma loop_pos (step : itst K -> res (itst K)) (cost : N) :
    (forall s s', step s = Ok s' -> it_g s' = (it_g s + cost)%N /\ it_idx s' = (it_idx s + 1)%N) ->
    forall n s0 s, iter_loop step n s0 = Ok s ->
      it_g s = (it_g s0 + n * cost)%N /\ it_idx s = (it_idx s0 + n)%N.
  Proof.
    intros Hs n s0. apply (iter_loop_ind step (fun k s => it_g s = (it_g s0 + k * cost)%N /\ it_idx s = (it_idx s0 + k)%N)).
    - split; lia.
    - intros k s s' [H1 H2] H. apply Hs in H as [H3 H4]. rewrite H3, H4, H1, H2. split; lia.
  Qed.

  Lemma plain_iteration_draws d calls g idx r g' idx' tr :
    plain_iteration strm ps f d calls g idx = Ok (r, g', idx', tr) ->
    g' = (g + calls * N.of_nat d)%N /\ idx' = (idx + calls)%N.
  Proof.
    unfold plain_iteration. intros H. apply bind_Ok in H as (s & Hl & H). injection H as _ <- <- _.
    apply (loop_pos _ (N.of_nat d) (plain_step_pos d)) in Hl. exact Hl.
  Qed.

  Lemma vegas_iteration_draws p calls g idx r g' idx' tr :
    vegas_iteration strm ps f p calls g idx = Ok (r, g', idx', tr) ->
    g' = (g + calls * pdf_dims p)%N /\ idx' = (idx + calls)%N.
  Proof.
    unfold vegas_iteration. intros H. apply bind_Ok in H as (s & Hl & H). injection H as _ <- <- _.
    apply (loop_pos _ (pdf_dims p) (vegas_step_pos p)) in Hl. exact Hl.
  Qed.

  Lemma mc_iteration_draws d ws calls g idx r g' idx' tr :
    mc_iteration strm ps f mp d ws calls g idx = Ok (r, g', idx', tr) ->
    g' = (g + calls * (N.of_nat d + 1))%N /\ idx' = (idx + calls)%N.
  Proof.
    unfold mc_iteration. intros H. apply bind_Ok in H as (s & Hl & H). injection H as _ <- <- _.
    apply (loop_pos _ (N.of_nat d + 1)%N (mc_step_pos d ws _ _)) in Hl. exact Hl.
  Qed.
End Steps.

(** ** the generator stored after each iteration *)
Section Stored.
  Variables (C R Evt : Type).
  Variable gen_of : C -> res N.
  Variable iterate : C -> N -> N -> N -> res (R * N * N * list Evt).
  Variable add : C -> R -> N -> C.
  Variable cb : C -> bool.
  Variable cost : N.
  Hypothesis gen_add : forall c r g, gen_of (add c r g) = Ok g.
  Hypothesis iterate_cost : forall c calls g idx r g' idx' evs,
    iterate c calls g idx = Ok (r, g', idx', evs) -> g' = (g + calls * cost)%N.

  Definition sumN (l : list N) : N := fold_right N.add 0%N l.

  (* generator stored with the checkpoint the i-th callback sees = start advanced by cost * (calls of iterations 0..i) *)
  Lemma exec_stored cs c g idx ls c' idx' rest :
    Exec C R Evt iterate add cb cs c g idx ls c' idx' rest ->
    forall i l, nth_error ls i = Some l -> gen_of (il_chk l) = Ok (g + sumN (firstn (S i) cs) * cost)%N.
  Proof.
    induction 1 as [c g idx|calls cs c g idx l g' idx' Hok Hc|calls cs c g idx l g' idx' ls c' idx'' rest Hok Hc Hex IH]; intros i l0 Hn.
    - destruct i; discriminate.
    - destruct i as [|i]; [|destruct i; discriminate]. injection Hn as <-.
      destruct Hok as (r & Hi & Eq & _). rewrite Eq, gen_add. apply iterate_cost in Hi. subst g'.
      cbn [firstn sumN fold_right]. f_equal. lia.
    - destruct Hok as (r & Hi & Eq & _). pose proof (iterate_cost _ _ _ _ _ _ _ _ Hi) as Hg.
      destruct i as [|i].
      + injection Hn as <-. rewrite Eq, gen_add. subst g'. cbn [firstn sumN fold_right]. f_equal. lia.
      + cbn [nth_error] in Hn. rewrite (IH i l0 Hn). subst g'.
        change (firstn (S (S i)) (calls :: cs)) with (calls :: firstn (S i) cs).
        cbn [sumN fold_right]. fold (sumN (firstn (S i) cs)). f_equal. lia.
  Qed.
End Stored.

Lemma base_gen_add {R} (b : base R) r g : base_gen (base_add b r g) = Ok g.
Proof. unfold base_gen, base_add. cbn. rewrite rev_app_distr. reflexivity. Qed.

(** instances: the generators stored by the PLAIN driver *)
Lemma c10_plain_stored {K : Num} (strm : N -> K) ps f d cb cs (c : pchk K) idx c' idx' ls g :
  plain_run strm ps f d cb cs c idx = Ok (c', idx', ls) -> base_gen c = Ok g ->
  forall i l, nth_error ls i = Some l ->
    base_gen (il_chk l) = Ok (g + sumN (firstn (S i) cs) * N.of_nat d)%N.
Proof.
  unfold plain_run. intros H Hg. apply run_exec in H as (g0 & rest & Hg0 & Hex).
  rewrite Hg in Hg0. injection Hg0 as <-.
  eapply exec_stored; [apply base_gen_add| |exact Hex].
  intros c0 calls g1 idx1 r g' idx2 evs Hi. apply plain_iteration_draws in Hi. apply Hi.
Qed.

Lemma c10_draw_counts {K : Num} (strm : N -> K) ps f :
  (forall d calls g idx r g' idx' tr, plain_iteration strm ps f d calls g idx = Ok (r, g', idx', tr) ->
     g' = (g + calls * N.of_nat d)%N /\ idx' = (idx + calls)%N) /\
  (forall p calls g idx r g' idx' tr, vegas_iteration strm ps f p calls g idx = Ok (r, g', idx', tr) ->
     g' = (g + calls * pdf_dims p)%N /\ idx' = (idx + calls)%N) /\
  (forall mp d ws calls g idx r g' idx' tr, mc_iteration strm ps f mp d ws calls g idx = Ok (r, g', idx', tr) ->
     g' = (g + calls * (N.of_nat d + 1))%N /\ idx' = (idx + calls)%N).
Proof.
  split; [|split].
  - intros. eapply plain_iteration_draws; eauto.
  - intros. eapply vegas_iteration_draws; eauto.
  - intros. eapply mc_iteration_draws; eauto.
Qed.

(* non-vacuity: a real run in double precision on an integrand returning NaN, zero and finite values *)
From HepMC Require Import NumB.
Definition ex10_strm (n : N) : B64 := zero B64.
Definition ex10_f : integrand B64 := fun o => mk_iret (if N.eqb (o_idx o) 0 then div B64 (zero B64) (zero B64) else if N.eqb (o_idx o) 1 then zero B64 else one B64) [] false.
Lemma c10_example : match plain_iteration ex10_strm [] ex10_f 3 5 7 0 with Ok (r, g', idx', _) => g' = 22%N /\ r_nz (p_main r) = 4%N /\ r_fin (p_main r) = 3%N | UB _ => False end.
Proof. vm_compute. repeat split; reflexivity. Qed.

(** the usage predictor after the repair: count what std::generate_canonical takes from an engine that always returns min() *)
Section Usage.
  Variable raw : Type.
  (* std::generate_canonical as a black box: the number of engine outputs it takes, given the stream of outputs it would see *)
  Variable draws : (nat -> raw) -> nat.
  Variable lo : raw.
  Definition predicted_usage : nat := draws (fun _ => lo).
  Lemma usage_is_cost : (forall s1 s2, draws s1 = draws s2) -> forall s, draws s = predicted_usage.
  Proof. intros H s. unfold predicted_usage. apply H. Qed.
End Usage.

Definition standard_draws (raw : Type) (b log2r : N) (_ : nat -> raw) : nat := N.to_nat (N.max 1 ((b + log2r - 1) / log2r)).
Lemma usage_standard (raw : Type) (lo : raw) (b log2r : N) (s : nat -> raw) :
  standard_draws raw b log2r s = predicted_usage raw (standard_draws raw b log2r) lo /\
  standard_draws raw b log2r s = N.to_nat (N.max 1 ((b + log2r - 1) / log2r)).
Proof. split; reflexivity. Qed.
