(** * NumR: Coq's real numbers as an instance of [Num] (ideal arithmetic, not computable). *)
From Coq Require Import ZArith NArith Reals List.
From Flocq Require Import Core.
From HepMC Require Import Num.
Local Open Scope R_scope.

Definition Rltb (a b : R) : bool := if Rlt_dec a b then true else false.
Definition Rleb (a b : R) : bool := if Rle_dec a b then true else false.
Definition Reqb (a b : R) : bool := if Req_EM_T a b then true else false.

(* T -> std::size_t: truncation toward zero, defined when the result is in [0, 2^64) *)
Definition Rtrunc_N (x : R) : option N :=
  let z := Ztrunc x in
  if (z <? 0)%Z then None else if (z <? 2 ^ 64)%Z then Some (Z.to_N z) else None.

Definition NumR : Num := {|
  T := R;
  zero := 0; one := 1;
  inf := 0;              (* no infinity among the reals: only used by chi_square_dof of one result *)
  pred_one := 1;         (* nexttoward(1, 0) has no real counterpart; only reached when u == 1 *)
  add := Rplus; sub := Rminus; mul := Rmult; div := Rdiv;
  fsqrt := sqrt; fabs := Rabs;
  ofN := fun n => IZR (Z.of_N n);
  trunc := Rtrunc_N;
  eqb := Reqb; ltb := Rltb; leb := Rleb;
  isfinite := fun _ => true |}.

Definition LibmR : Libm NumR := @Build_Libm NumR ln Rpower.

Lemma Rltb_true a b : Rltb a b = true <-> a < b.
Proof. unfold Rltb. destruct (Rlt_dec a b); split; intros; auto; discriminate. Qed.
Lemma Rltb_false a b : Rltb a b = false <-> b <= a.
Proof. unfold Rltb. destruct (Rlt_dec a b); split; intros; auto; try discriminate; [exfalso; apply (Rlt_irrefl a); eapply Rlt_le_trans; eauto | apply Rnot_lt_le; auto]. Qed.
Lemma Rleb_true a b : Rleb a b = true <-> a <= b.
Proof. unfold Rleb. destruct (Rle_dec a b); split; intros; auto; discriminate. Qed.
Lemma Rleb_false a b : Rleb a b = false <-> b < a.
Proof. unfold Rleb. destruct (Rle_dec a b); split; intros; auto; try discriminate; [exfalso; apply (Rlt_irrefl a); eapply Rle_lt_trans; eauto | apply Rnot_le_lt; auto]. Qed.
Lemma Reqb_true a b : Reqb a b = true <-> a = b.
Proof. unfold Reqb. destruct (Req_EM_T a b); split; intros; auto; discriminate. Qed.
Lemma Reqb_false a b : Reqb a b = false <-> a <> b.
Proof. unfold Reqb. destruct (Req_EM_T a b); split; intros; auto; try discriminate. contradiction. Qed.

Lemma isnanR (x : NumR) : @isnan NumR x = false.
Proof. unfold isnan. cbn. assert (H : Reqb x x = true) by (apply Reqb_true; reflexivity). rewrite H. reflexivity. Qed.

Lemma fmaxR (a b : NumR) : @fmax NumR a b = Rmax a b.
Proof.
  unfold fmax. rewrite !isnanR. cbn. unfold Rmax.
  destruct (Rle_dec a b) as [H|H]; destruct (Rltb a b) eqn:E.
  - reflexivity.
  - apply Rltb_false in E. apply Rle_antisym; assumption.
  - apply Rltb_true in E. exfalso. apply H. left. exact E.
  - reflexivity.
Qed.

Lemma halfR : @half NumR = / 2.
Proof. unfold half. cbn. unfold Rdiv. rewrite Rmult_1_l. reflexivity. Qed.

Lemma ofN_R (n : N) : ofN NumR n = IZR (Z.of_N n).
Proof. reflexivity. Qed.
