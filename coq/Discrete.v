(** * Discrete: discrete_distribution.hpp (after the upper_bound repair).  No proofs here. *)
From Coq Require Import ZArith NArith List.
From HepMC Require Import Num.
Import ListNotations.

Section Discrete.
  Context {K : Num}.

  (* std::partial_sum: s_0 = w_0, s_i = s_{i-1} + w_i *)
  Fixpoint psums_from (acc : K) (l : list K) : list K :=
    match l with [] => [] | w :: l' => let s := add K acc w in s :: psums_from s l' end.
  Definition psums (ws : list K) : list K :=
    match ws with [] => [] | w0 :: rest => w0 :: psums_from w0 rest end.

  (* for (auto& k : weight_sums) k /= weight_sums.back();  -- the last entry is divided last *)
  Definition normalise (sums : list K) : list K :=
    let total := last sums (zero K) in map (fun s => div K s total) sums.

  Definition cumulative (ws : list K) : list K := normalise (psums ws).

  (** libstdc++'s std::upper_bound: bisection with first/len, predicate [val < *middle] *)
  Fixpoint ub_loop (fuel : nat) (l : list K) (u : K) (first len : N) : N :=
    match fuel with
    | O => first
    | S f =>
      if N.eqb len 0 then first else
      let hlf := N.div2 len in
      let middle := (first + hlf)%N in
      match nthN l middle with
      | Some e => if ltb K u e then ub_loop f l u first hlf
                  else ub_loop f l u (middle + 1)%N (len - hlf - 1)%N
      | None => first
      end
    end.
  Definition upper_bound (l : list K) (u : K) : N :=
    ub_loop (S (length l)) l u 0%N (N.of_nat (length l)).

  (** discrete_distribution(begin, end)(generator) for the canonical number [u] *)
  Definition select (ws : list K) (u : K) : N := upper_bound (cumulative ws) u.
End Discrete.
