(** C09f - "the selection probabilities equal the weights", in floating point.
    Statements only (proofs in Lemmas_C09f.v).  Everything is about the model's own [cumulative]
    (= [normalise] of [psums]) of Discrete.v instantiated with K := NumB prec emax (IEEE-754 binary
    format, round to nearest even), i.e. about the very list [select] bisects.

    Notation.  u = uB prec = 2^-prec (unit roundoff).  For a list [ws] of floats, [BRs ws] is the
    list of their exact real values, [Rsum] the exact real sum.  [fcum_hi ws i] is the exact real
    value of the i-th entry s_i of [cumulative ws]; [fcum_lo ws i] is s_{i-1}, and 0 for i = 0.
    By C09 (C09_select_interval over the reals, the order-theoretic part C09_upper_bound_spec for
    every format) channel i is selected exactly when s_{i-1} <= u < s_i, so
    [fcum_hi ws i - fcum_lo ws i] is the measure of the canonical numbers that select channel i.

    Hypotheses.  [float_weights_ok ws] of Lemmas_C09.v: every weight finite and not negative
    (either zero allowed, zeros anywhere, not normalised), the total as the code computes it (last
    partial sum) finite and positive - hence no partial sum overflowed.  (2 <= prec) excludes only
    the degenerate one-bit format and is used for "a rounded quotient in [0,1] is off by at most
    u/2".  No bound on the number n of channels is needed.

    What is proved.
    * C09f_interval_length: for every i < n
        | (s_i - s_{i-1}) - w_i / sum_j w_j |  <=  (n + 1) u
      (absolute; stronger than the (2n + 2) u asked for).  Where the n + 1 comes from: each of
      the two quotients contributes u/2, the rounded addition s_i = fl(s_{i-1} + w_i) contributes
      u relative to s_i <= total, and the total differs from the exact sum by (n - 1) u relatively
      (the errors of the n - 1 additions telescope; all terms are non-negative, so every partial
      sum is at most the total).  For i = 0 the bound is (n - 1/2) u.
    * C09f_cumulative: | s_i - (w_0 + ... + w_i) / sum w | <= (i + n) u.
    * C09f_tiling: s_{-1} = 0, the upper end of interval i is the lower end of interval i + 1,
      and the last entry is exactly 1: the intervals tile [0, 1], their lengths sum to exactly 1.
    * C09f_total: the exact sum of the weights is positive and the total the code divides by
      satisfies | total - sum w | <= (n - 1) u total.
    * C09f_interval_length_float32/64/80: the first statement for float, double, x87 long double
      with u = 2^-24, 2^-53, 2^-64 written out.

    What is NOT proved: a relative bound on the interval length (false in general: a tiny weight
    next to a large total gives an interval of length 0 or of one ulp of s_i - compare
    C09_select_never_disabled_float, which only excludes exact zeros); nothing about the
    distribution of the canonical numbers; NaN/infinite/negative weights and overflowing partial
    sums are outside the hypotheses. *)
From Coq Require Import ZArith NArith List Reals.
From Flocq Require Import Core BinarySingleNaN.
From HepMC Require Import Num NumR NumB Discrete Lemmas_C09 Lemmas_C09f.
From HepMC Require Lemmas_C14.
Import ListNotations.
Local Open Scope R_scope.

Theorem C09f_interval_length :
  forall prec emax (Hprec : FLX.Prec_gt_0 prec) (Hmax : Prec_lt_emax prec emax)
         (ws : list (NumB prec emax Hprec Hmax)) (i : nat),
  (2 <= prec)%Z -> float_weights_ok prec emax Hprec Hmax ws -> (i < length ws)%nat ->
  Rabs ((fcum_hi prec emax Hprec Hmax ws i - fcum_lo prec emax Hprec Hmax ws i)
        - nth i (BRs prec emax Hprec Hmax ws) 0 / Rsum (BRs prec emax Hprec Hmax ws))
    <= (INR (length ws) + 1) * Lemmas_C14.uB prec.
Proof. exact c09f_interval_length. Qed.
Print Assumptions C09f_interval_length.

Theorem C09f_cumulative :
  forall prec emax (Hprec : FLX.Prec_gt_0 prec) (Hmax : Prec_lt_emax prec emax)
         (ws : list (NumB prec emax Hprec Hmax)) (i : nat),
  (2 <= prec)%Z -> float_weights_ok prec emax Hprec Hmax ws -> (i < length ws)%nat ->
  Rabs (fcum_hi prec emax Hprec Hmax ws i
        - Rsum (firstn (S i) (BRs prec emax Hprec Hmax ws)) / Rsum (BRs prec emax Hprec Hmax ws))
    <= (INR i + INR (length ws)) * Lemmas_C14.uB prec.
Proof. exact c09f_cumulative. Qed.
Print Assumptions C09f_cumulative.

Theorem C09f_tiling :
  forall prec emax (Hprec : FLX.Prec_gt_0 prec) (Hmax : Prec_lt_emax prec emax)
         (ws : list (NumB prec emax Hprec Hmax)),
  float_weights_ok prec emax Hprec Hmax ws ->
  fcum_lo prec emax Hprec Hmax ws 0 = 0 /\
  (forall i, fcum_lo prec emax Hprec Hmax ws (S i) = fcum_hi prec emax Hprec Hmax ws i) /\
  fcum_hi prec emax Hprec Hmax ws (length ws - 1) = 1.
Proof. exact c09f_tiling. Qed.
Print Assumptions C09f_tiling.

Theorem C09f_total :
  forall prec emax (Hprec : FLX.Prec_gt_0 prec) (Hmax : Prec_lt_emax prec emax)
         (ws : list (NumB prec emax Hprec Hmax)),
  float_weights_ok prec emax Hprec Hmax ws ->
  0 < Rsum (BRs prec emax Hprec Hmax ws) /\
  Rabs (B2R (last (@psums (NumB prec emax Hprec Hmax) ws) (zero (NumB prec emax Hprec Hmax)))
        - Rsum (BRs prec emax Hprec Hmax ws))
    <= INR (length ws - 1) * Lemmas_C14.uB prec
       * B2R (last (@psums (NumB prec emax Hprec Hmax) ws) (zero (NumB prec emax Hprec Hmax))).
Proof. exact c09f_total. Qed.
Print Assumptions C09f_total.

Theorem C09f_interval_length_float32 : forall (ws : list B32) (i : nat),
  float_weights_ok 24 128 P24 M24 ws -> (i < length ws)%nat ->
  Rabs ((fcum_hi 24 128 P24 M24 ws i - fcum_lo 24 128 P24 M24 ws i)
        - nth i (BRs 24 128 P24 M24 ws) 0 / Rsum (BRs 24 128 P24 M24 ws))
    <= (INR (length ws) + 1) * / 16777216.
Proof. exact c09f_interval_length_float32. Qed.
Print Assumptions C09f_interval_length_float32.

Theorem C09f_interval_length_float64 : forall (ws : list B64) (i : nat),
  float_weights_ok 53 1024 P53 M53 ws -> (i < length ws)%nat ->
  Rabs ((fcum_hi 53 1024 P53 M53 ws i - fcum_lo 53 1024 P53 M53 ws i)
        - nth i (BRs 53 1024 P53 M53 ws) 0 / Rsum (BRs 53 1024 P53 M53 ws))
    <= (INR (length ws) + 1) * / 9007199254740992.
Proof. exact c09f_interval_length_float64. Qed.
Print Assumptions C09f_interval_length_float64.

Theorem C09f_interval_length_float80 : forall (ws : list B80) (i : nat),
  float_weights_ok 64 16384 P64 M64 ws -> (i < length ws)%nat ->
  Rabs ((fcum_hi 64 16384 P64 M64 ws i - fcum_lo 64 16384 P64 M64 ws i)
        - nth i (BRs 64 16384 P64 M64 ws) 0 / Rsum (BRs 64 16384 P64 M64 ws))
    <= (INR (length ws) + 1) * / 18446744073709551616.
Proof. exact c09f_interval_length_float80. Qed.
Print Assumptions C09f_interval_length_float80.

(* non-vacuity: five double-precision weights 1, 3, fl(1/3), 0, fl(10/7) (a disabled channel, two
   values that are not dyadic, so partial sums and quotients are really rounded) satisfy the
   hypotheses; checked by computation through booleans *)
Example C09f_example :
  float_weights_ok 53 1024 P53 M53
    [one B64; ofN B64 3; div B64 (one B64) (ofN B64 3); zero B64; div B64 (ofN B64 10) (ofN B64 7)] /\
  length [one B64; ofN B64 3; div B64 (one B64) (ofN B64 3); zero B64; div B64 (ofN B64 10) (ofN B64 7)]
    = 5%nat.
Proof. exact c09f_example. Qed.

(* ... and, for every format, the weights 0, 1, 0 of C09_example_float *)
Example C09f_example_any_format :
  forall prec emax (Hprec : FLX.Prec_gt_0 prec) (Hmax : Prec_lt_emax prec emax),
  let KB := NumB prec emax Hprec Hmax in
  float_weights_ok prec emax Hprec Hmax [zero KB; one KB; zero KB].
Proof. exact ex09_weights_ok. Qed.
