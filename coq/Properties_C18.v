(** C18 — a killed run always leaves a complete checkpoint file.

    What is proved (about the file-system model Fs.v, for an arbitrary byte type, arbitrary previous
    file-system content, arbitrary texts and ARBITRARY cutting of each text into write calls):
    the operation list of the writing callback (create/truncate the sibling "<name>.tmp", write the
    text in pieces, close, rename over <name>) is such that in every state a kill can leave —
    before, between or after any operation, and after any proper prefix of the bytes of any write —
    the final name holds either what it held before the invocation or the complete new text; over a
    whole run it holds the text of the last completed or of the current iteration.  The pinned tree
    before the repair (truncate and rewrite in place) is refuted by a crash right after the open.

    Tie to the code (checked on every run, not proved): the real system-call sequence of
    hep::callback in a writing mode is recorded by an LD_PRELOAD interposer and compared with
    [write_chkpt_ops] (paths, order, concatenated payload = serialised text), and the real process is
    killed at every operation and inside writes.

    Assumptions, not proved: POSIX semantics of open(O_TRUNC) / write / close / rename as modelled by
    [apply] (rename is atomic; a killed process keeps completed writes and a prefix of the write in
    progress; no power-loss or page-cache model).  "Resuming from the file leads to the same final
    result" is the composition of this file's theorems (the file is the complete text of some
    iteration) with C05 (text -> checkpoint) and C03 (resume = never stopping); the real process is
    also resumed after every kill by the check. *)
From Coq Require Import List String.
From HepMC Require Import Fs Lemmas_C18.
Import ListNotations.

Theorem C18_write_atomic : forall (A : Type) (s : fs A) (filename : path) (chunks : list (list A)) (s' : fs A),
  In s' (crash_states A s (write_chkpt_ops A filename chunks)) ->
  lookup A s' filename = lookup A s filename \/ lookup A s' filename = Some (List.concat chunks).
Proof. exact write_atomic. Qed.
Print Assumptions C18_write_atomic.

Theorem C18_write_complete : forall (A : Type) (s : fs A) (filename : path) (chunks : list (list A)),
  lookup A (run_ops A s (write_chkpt_ops A filename chunks)) filename = Some (List.concat chunks).
Proof. exact write_complete. Qed.
Print Assumptions C18_write_complete.

Theorem C18_run_atomic : forall (A : Type) (filename : path) (texts : list (list (list A))) (s s' : fs A),
  In s' (crash_states A s (run_writes A filename texts)) ->
  lookup A s' filename = lookup A s filename \/
  exists chunks, In chunks texts /\ lookup A s' filename = Some (List.concat chunks).
Proof. exact run_atomic. Qed.
Print Assumptions C18_run_atomic.

Theorem C18_run_atomic_precise : forall (A : Type) (filename : path) (texts : list (list (list A))) (s s' : fs A),
  In s' (crash_states A s (run_writes A filename texts)) ->
  exists j, j <= List.length texts /\
    lookup A s' filename = lookup A (run_ops A s (run_writes A filename (firstn j texts))) filename.
Proof. exact run_atomic_precise. Qed.
Print Assumptions C18_run_atomic_precise.

Theorem C18_tmp_is_another_file : forall filename : path, String.eqb filename (tmp_of filename) = false.
Proof. exact tmp_neq. Qed.
Print Assumptions C18_tmp_is_another_file.

Theorem C18_in_place_refuted : forall (A : Type) (filename : path) (old : list A) (chunks : list (list A)),
  old <> [] -> List.concat chunks <> [] ->
  exists s', In s' (crash_states A [(filename, old)] (write_in_place_ops A filename chunks)) /\
             lookup A s' filename <> Some old /\ lookup A s' filename <> Some (List.concat chunks).
Proof. exact in_place_refuted. Qed.
Print Assumptions C18_in_place_refuted.

Example C18_example :
  In None ex18_contents /\ In (Some [1; 2; 3]) ex18_contents /\ In (Some [4; 5; 6]) ex18_contents /\
  forall c, In c ex18_contents -> c = None \/ c = Some [1; 2; 3] \/ c = Some [4; 5; 6].
Proof. exact c18_example. Qed.
