(** C02 - each iteration result is the documented estimator of the sampled values.
    Statements only (definitions of the specification functions and all proofs: Lemmas_C02.v).

    WHAT IS PROVED.  The first four theorems hold for EVERY [Num] (no arithmetic law is used, so they
    hold bit for bit for float / double / long double as well as for the reals), every stream of random
    numbers, every integrand and channel-map oracle, every distribution set, every grid / weight
    vector, every call count N >= 0 and every starting generator position / call counter.  They all
    have the shape "if the iteration returns [Ok (result, g', idx', evs)] then ..."; that the iteration
    does return [Ok] (no undefined behaviour) is NOT claimed here - it depends on the grid and the
    integrand's fills (C01, C11) - but the Examples at the end run all three iterations in double
    precision on an integrand returning NaN, 0, finite values and +inf.

    Vocabulary (Lemmas_C02.v): [call_obs evs] = what the integrand saw at each [EvIntegrand] event of the
    iteration's event list, in call order; [vals f evs] = the pairs (f(point), point.weight());
    [countedb (v,w)] = v != 0; [keptb (v,w)] = v != 0 && isfinite(v*w); [prod (v,w)] = v*w;
    [sanitised v w] = the value accumulator::invoke returns (v*w, or 0 if v != 0 and v*w is not finite,
    or v itself if v == 0); [acc3 xs t] = the TRANSLATED [accumulate] folded over xs from the triple
    t = (sum, sum_of_squares, compensation); [main_fold vs c] = accumulator::invoke's effect on the main
    cell folded over the calls.

    - C02_calls_and_events: calls() = N, exactly N integrand evaluations, the integrand's call counter
      advances by N (all three integrators, N >= 0).
    - C02_main_is_filtered_fold: the main result is [cell_result N] of accumulator::invoke folded over the N
      calls, and (sum, sumsq, compensation) = the translated Kahan [accumulate] folded, in call order and
      from (0,0,0), over the products f*w of exactly the calls with f != 0 and f*w finite;
      non_zero_calls = number of calls with f != 0, finite_calls = number of those with finite f*w.
      (The compensation term is part of the statement: it is the accumulator's, results do not store it.)
    - C02_vegas_adjustment: the VEGAS adjustment vector has dims*bins entries; entry i is the fold, in call
      order and from 0, of [add (v*v)] (v the sanitised value) over the (call, dimension j) pairs with
      j*bins + bin_j = i [vegas_adj_flat]; if every bin index reported by the inverse CDF is < bins (this is
      C01's statement about the grid, here an explicit hypothesis) entry j*bins+b is the fold over the calls
      whose bin in dimension j is b [vegas_adj_bin].  WITHOUT that hypothesis the per-bin reading is false
      in the model as in the C++: an out-of-range bin index of dimension j < dims-1 is added, unchecked, to
      a bin of the next dimension; the flat statement covers this honestly.
    - C02_mc_adjustment: the multi-channel adjustment vector has one entry per channel weight; entry j is the
      fold, in call order and from 0, over the calls whose sanitised value v does not compare equal to zero, of
      [add (dens_j * ((v*v) * w))], with dens = the densities the map returned for that call; every call's
      density vector has at least as many entries as there are channels (so [nth j dens 0] never defaults).
    Ideal arithmetic (K = NumR):
    - C02_kahan_exact_R: the translated [accumulate] folded from (0,0,0) gives (sum x, sum x^2, 0).
    - C02_estimator_R: hence for any main result of the three iterations over the reals sum = SUM f*w and
      sumsq = SUM (f*w)^2 over ALL N calls (zero values contribute 0, nothing is non-finite), value = sum/N.
    - C02_value_R, C02_variance_formula_R, C02_error_R: value = sum/N; for 2 <= N < 2^64,
      variance = (sumsq/N - (sum/N)^2)/(N-1); error = sqrt variance.  [value]/[variance] are the translated
      mc_result members.  N = 1 divides by zero in the code (over NumR: Rinv 0) and is excluded; N = 0 is
      covered by the counter theorems only; N >= 2^64 cannot occur in C++ (size_t) and is excluded because the
      translated [wrap64 (N - 1)] would wrap.

    NOT PROVED HERE.  Rounding-error bounds of the floating-point sums (the statement for IEEE arithmetic is the
    exact fold above, not a closeness claim); the distribution bins (C11); absence of UB. *)
From Coq Require Import ZArith NArith List Bool Reals.
From HepMC Require Import Num NumB NumR Translated Result Accum VegasPdf Discrete MultiChannel Iter Chkpt Run
  Lemmas_Run Lemmas_C02.
Import ListNotations.

Theorem C02_calls_and_events : forall (K : Num) (strm : N -> K) ps (f : integrand K) (mp : mcmap K),
  (forall d calls g idx r g' idx' evs, plain_iteration strm ps f d calls g idx = Ok (r, g', idx', evs) ->
     r_calls (p_main r) = calls /\ length (call_obs evs) = N.to_nat calls /\ idx' = (idx + calls)%N) /\
  (forall p calls g idx r g' idx' evs, vegas_iteration strm ps f p calls g idx = Ok (r, g', idx', evs) ->
     r_calls (p_main (v_plain r)) = calls /\ length (call_obs evs) = N.to_nat calls /\ idx' = (idx + calls)%N) /\
  (forall d ws calls g idx r g' idx' evs, mc_iteration strm ps f mp d ws calls g idx = Ok (r, g', idx', evs) ->
     r_calls (p_main (m_plain r)) = calls /\ length (call_obs evs) = N.to_nat calls /\ idx' = (idx + calls)%N).
Proof. exact (@c02_calls_and_events). Qed.
Print Assumptions C02_calls_and_events.

(* [main_spec f calls evs m], spelled out:
     m = cell_result calls (main_fold (vals f evs) cell0)
     (r_sum m, r_sumsq m, compensation) = acc3 kept (0,0,0) = the same triple of fold_left cell_add kept cell0
     r_nz m = #(v != 0), r_fin m = #(v != 0 and v*w finite), r_calls m = calls
   with kept = map prod (filter keptb (vals f evs)) *)
Theorem C02_main_is_filtered_fold : forall (K : Num) (strm : N -> K) ps (f : integrand K) (mp : mcmap K),
  let spec (calls : N) (evs : list (event K)) (m : mcres K) :=
    let vs := vals f evs in
    let kept := map prod (filter keptb vs) in
    m = cell_result calls (main_fold vs cell0) /\
    (r_sum m, r_sumsq m, c_comp (main_fold vs cell0)) = acc3 kept (zero K, zero K, zero K) /\
    (r_sum m, r_sumsq m, c_comp (main_fold vs cell0)) = cell3 (fold_left cell_add kept cell0) /\
    r_nz m = N.of_nat (length (filter countedb vs)) /\
    r_fin m = N.of_nat (length (filter keptb vs)) /\
    r_calls m = calls in
  (forall d calls g idx r g' idx' evs, plain_iteration strm ps f d calls g idx = Ok (r, g', idx', evs) ->
     spec calls evs (p_main r)) /\
  (forall p calls g idx r g' idx' evs, vegas_iteration strm ps f p calls g idx = Ok (r, g', idx', evs) ->
     spec calls evs (p_main (v_plain r))) /\
  (forall d ws calls g idx r g' idx' evs, mc_iteration strm ps f mp d ws calls g idx = Ok (r, g', idx', evs) ->
     spec calls evs (p_main (m_plain r))).
Proof. exact (@c02_main_is_filtered_fold). Qed.
Print Assumptions C02_main_is_filtered_fold.

(* the fold above is the fold of accumulator::invoke over the calls, for any starting cell: sums via the
   translated [accumulate] over the kept products, counters via the lengths of the two filters *)
Theorem C02_invoke_fold : forall (K : Num) (vs : list (K * K)) (c : cell K),
  let kept := map prod (filter keptb vs) in
  cell3 (main_fold vs c) = cell3 (fold_left cell_add kept c) /\
  cell3 (main_fold vs c) = acc3 kept (cell3 c) /\
  c_nz (main_fold vs c) = (c_nz c + N.of_nat (length (filter countedb vs)))%N /\
  c_fin (main_fold vs c) = (c_fin c + N.of_nat (length (filter keptb vs)))%N.
Proof. exact (@main_fold_spec). Qed.
Print Assumptions C02_invoke_fold.

Theorem C02_vegas_adjustment : forall (K : Num) (strm : N -> K) ps (f : integrand K) p calls g idx r g' idx' evs,
  vegas_iteration strm ps f p calls g idx = Ok (r, g', idx', evs) ->
  length (v_adj r) = N.to_nat (pdf_dims p * pdf_bins p) /\
  (forall i, (i < pdf_dims p * pdf_bins p)%N ->
     nthN (v_adj r) i = Some (vegas_adj_flat (pdf_bins p) i (vcalls f evs) (zero K))) /\
  (Forall (fun c => Forall (fun b => (b < pdf_bins p)%N) (fst c)) (vcalls f evs) ->
   forall j b, (j < pdf_dims p)%N -> (b < pdf_bins p)%N ->
     nthN (v_adj r) (j * pdf_bins p + b) = Some (vegas_adj_bin j b (vcalls f evs) (zero K))).
Proof. exact (@c02_vegas_adjustment). Qed.
Print Assumptions C02_vegas_adjustment.

Theorem C02_mc_adjustment : forall (K : Num) (strm : N -> K) ps (f : integrand K) (mp : mcmap K)
    d ws calls g idx r g' idx' evs,
  mc_iteration strm ps f mp d ws calls g idx = Ok (r, g', idx', evs) ->
  length (m_adj r) = length ws /\
  (forall j, (j < length ws)%nat ->
     nth_error (m_adj r) j = Some (mc_adj_spec j (mcalls f mp ws evs) (zero K))) /\
  Forall (fun c => (length ws <= length (fst (fst c)))%nat) (mcalls f mp ws evs).
Proof. exact (@c02_mc_adjustment). Qed.
Print Assumptions C02_mc_adjustment.

Theorem C02_kahan_exact_R : forall xs : list R,
  @acc3 NumR xs (zero NumR, zero NumR, zero NumR) = (Rsum xs, Rsum (map sq xs), 0%R).
Proof. exact c02_kahan_exact_R. Qed.
Print Assumptions C02_kahan_exact_R.

Theorem C02_estimator_R : forall (f : integrand NumR) calls evs (m : mcres NumR),
  main_spec f calls evs m ->
  r_sum m = Rsum (map (fun vw => (fst vw * snd vw)%R) (vals f evs)) /\
  r_sumsq m = Rsum (map (fun vw => sq (fst vw * snd vw)) (vals f evs)) /\
  c_comp (main_fold (vals f evs) cell0) = 0%R /\
  value m = (Rsum (map (fun vw => (fst vw * snd vw)%R) (vals f evs)) / ofN NumR calls)%R.
Proof. exact c02_estimator_R. Qed.
Print Assumptions C02_estimator_R.

Theorem C02_value_R : forall r : mcres NumR, value r = (r_sum r / ofN NumR (r_calls r))%R.
Proof. exact c02_value_R. Qed.
Print Assumptions C02_value_R.

Theorem C02_variance_formula_R : forall r : mcres NumR, (2 <= r_calls r < 2 ^ 64)%N ->
  let n := ofN NumR (r_calls r) in
  variance r = ((r_sumsq r / n - (r_sum r / n) * (r_sum r / n)) / (n - 1))%R.
Proof. exact c02_variance_formula_R. Qed.
Print Assumptions C02_variance_formula_R.

Theorem C02_error_R : forall r : mcres NumR, error r = sqrt (variance r).
Proof. exact c02_error_R. Qed.
Print Assumptions C02_error_R.

(* non-vacuity: 7 calls in double precision, integrand values NaN, 0, x+1, +inf, NaN, 0, x+1 (5 non-zero, 2 finite):
   all three iterations return Ok; for VEGAS all reported bin indices are in range *)
Example C02_example_plain : exists r g' idx' evs,
  plain_iteration ex02_strm ex02_ps ex02_f 2 7 0 0 = Ok (r, g', idx', evs) /\
  r_nz (p_main r) = 5%N /\ r_fin (p_main r) = 2%N.
Proof. exact c02_example_plain. Qed.

Example C02_example_vegas : exists r g' idx' evs,
  vegas_iteration ex02_strm ex02_ps ex02_f (uniform_pdf 2 2) 7 0 0 = Ok (r, g', idx', evs) /\
  Forall (fun c => Forall (fun b => (b < pdf_bins (uniform_pdf (K:=B64) 2 2))%N) (fst c)) (vcalls ex02_f evs) /\
  r_nz (p_main (v_plain r)) = 5%N /\ r_fin (p_main (v_plain r)) = 2%N.
Proof. exact c02_example_vegas. Qed.

Example C02_example_mc : exists r g' idx' evs,
  mc_iteration ex02_strm ex02_ps ex02_f ex02_mp 2 ex02_ws 7 0 0 = Ok (r, g', idx', evs) /\
  r_nz (p_main (m_plain r)) = 5%N /\ r_fin (p_main (m_plain r)) = 2%N.
Proof. exact c02_example_mc. Qed.

(* the hypothesis of C02_estimator_R is met by a PLAIN iteration over the reals *)
Example C02_example_R : exists r g' idx' evs,
  plain_iteration (K:=NumR) (fun _ => 0%R) [] ex02_fR 1 3 0 0 = Ok (r, g', idx', evs) /\
  main_spec ex02_fR 3 evs (p_main r).
Proof. exact c02_example_R. Qed.

(* N = 2, sum = 4, sumsq = 10: E = 2, S^2 = (10/2 - 4)/(2-1) = 1 *)
Example C02_example_variance :
  variance (mk_mcres (K:=NumR) 2 2 2 4%R 10%R) = 1%R /\ error (mk_mcres (K:=NumR) 2 2 2 4%R 10%R) = 1%R.
Proof. exact c02_variance_example. Qed.
