(** C01 - sampling weights make every integrator an unbiased estimator.
    Statements only (proofs in Lemmas_C01.v).  All theorems are about the model's own definitions:
    [plain_step] (Iter.v), [icdf1]/[icdf_loop]/[icdf] (VegasPdf.v), [mc_weight] (MultiChannel.v).
    Except for the two theorems marked "every Num", the arithmetic is ideal ([K := NumR]); the
    observable form of the property ("exact to rounding" for float, double, long double) is checked
    by the correspondence harness, not proved here.

    What is proved.
    * PLAIN ([C01_plain_point], every Num): the observation handed to the integrand consists of the
      d canonical numbers drawn, unchanged, with weight [one]; the main accumulator receives
      f(o) with that weight.
    * VEGAS, one dimension ([C01_icdf1_lattice]): for ANY boundary vector of the right length (no
      monotonicity, no validity needed), bins >= 1 (bins < 2^64: the range of std::size_t, needed
      for the float -> size_t conversion to be defined), m >= 1, b < bins, k < m, the lattice number
      u = (b*m + k + 1/2)/(bins*m) is mapped - without undefined behaviour - to bin b, to the point
      g_b + (k+1/2)/m * (g_{b+1} - g_b), with weight factor (g_{b+1} - g_b) * bins.
      [C01_vegas_lattice_1d_midpoint_rule]: the average of f(x(u)) * w(u) over the bins*m lattice
      numbers IS the composite midpoint rule of f on the grid cells refined m-fold, for EVERY
      f : R -> R.  [C01_midpoint_exact_affine_1d]: for a grid running from 0 to 1 that rule
      integrates affine f exactly (a + c/2; [C01_affine_integral] identifies this with the Riemann
      integral over [0,1]).
    * VEGAS, d dimensions: [C01_icdf_componentwise] (every Num) and [C01_icdf_components] ([icdf]
      acts coordinate by coordinate, weight = ((one * w_0) * w_1) * ..., which over R is the product
      [C01_icdf_weight_is_product]).  [C01_vegas_lattice_is_midpoint_rule]: for every d, every
      boundary vector, every m and EVERY f : list R -> R, the average over the (bins*m)^d lattice
      (nested loops, [lsum]) equals the d-dimensional composite midpoint rule [mid_rule] on the
      product grid (fully general statement, not only product integrands).
      [C01_vegas_lattice_exact_product], [C01_vegas_lattice_exact_multiaffine]: for grids running
      from 0 to 1 in every dimension the result is the exact integral prod_i (a_i + c_i/2) for
      f(x) = prod_i (a_i + c_i x_i) and for finite sums of such products (hence for every
      multi-affine polynomial) - the class the lattice harness uses.
    * multi-channel ([C01_mc_weight_mixture]): [mc_weight J alphas dens] is Ok (J / sum alpha_j d_j),
      and with the true channel densities g_j = d_j / J (J <> 0 any common jacobian factor)
      (sum_j alpha_j g_j) * weight = 1 whenever the denominator is non-zero.
      [C01_mc_unbiased_finite]: on any finite sample space, for any channel weights and mass
      functions, sum_i alpha_i sum_y g_i(y) f(y) w(y) = sum of f over the points the mixture can
      reach, for EVERY f; the identity needs no sign or normalisation hypothesis.  With admissible
      channels (alpha_i >= 0, sum alpha_i = 1, g_i >= 0, sum_y g_i = 1) the left-hand side is the
      expectation over channel choice and point ([C01_mc_total_mass]) and the unreachable points are
      exactly those that no enabled channel produces ([C01_unreachable_iff]) - so disabled channels
      (alpha_i = 0) are covered.  [C01_mc_unbiased_finite_model]: the same with the weight the model
      computes from reported densities J(y) * g_i(y) for an arbitrary non-zero jacobian J(y).
      That channel i is chosen with probability alpha_i is C09's theorem (interval lengths of
      [select]); it is not repeated here.

    What is NOT proved.
    * The continuous change-of-variables statement (integral over [0,1]^d of f(x(u)) w(u) du =
      integral of f) is not proved in Coq; the lattice theorems are its exact discrete form for
      every refinement m (the composite midpoint rule converges to the integral for every
      Riemann-integrable f as m grows, but that limit is not formalised).
    * Floating-point rounding of the lattice average (the "to rounding" part) is not bounded here.
    * u = 1 (mapped to nexttoward(1,0) by the C++) is not a lattice number and plays no role.
    * [mc_weight] over R divides by zero silently (Rinv 0 = 0); the theorems assume a non-zero
      denominator exactly where the property does. *)
From Coq Require Import ZArith NArith List Reals.
From HepMC Require Import Num NumR Result Accum VegasPdf MultiChannel Iter Lemmas_C01.
Import ListNotations.
Local Open Scope R_scope.

(* PLAIN passes the canonical numbers through with weight one (every Num) *)
Theorem C01_plain_point : forall (K : Num) (strm : N -> K) (ps : list (dparams K)) (f : integrand K)
    (d : nat) (s s' : itst K),
  plain_step strm ps f d s = Ok s' ->
  let o := plain_obs strm d s in
  o_point o = draws strm (it_g s) d /\ length (o_point o) = d /\
  (forall i, (i < d)%nat -> nth_error (o_point o) i = Some (strm (it_g s + N.of_nat i)%N)) /\
  o_weight o = one K /\
  it_tr s' = EvIntegrand o true :: it_tr s /\
  a_main (it_acc s') = fst (invoke_main (a_main (it_acc s)) (i_val (f o)) (one K)) /\
  it_g s' = (it_g s + N.of_nat d)%N /\ it_idx s' = (it_idx s + 1)%N.
Proof. exact @plain_point. Qed.
Print Assumptions C01_plain_point.

(* 1-d lattice lemma for the model's icdf1 *)
Theorem C01_icdf1_lattice : forall (p : pdf NumR) (d m b k : N),
  pdf_wf p -> (d < pdf_dims p)%N ->
  (1 <= pdf_bins p < 2 ^ 64)%N -> (1 <= m)%N -> (b < pdf_bins p)%N -> (k < m)%N ->
  let u := (IZR (Z.of_N (b * m + k)) + / 2) / IZR (Z.of_N (pdf_bins p * m)) in
  let gl := grid p d b in let gr := grid p d (b + 1) in
  icdf1 p d u = Ok (gl + ((IZR (Z.of_N k) + / 2) / IZR (Z.of_N m)) * (gr - gl), b,
                    (gr - gl) * IZR (Z.of_N (pdf_bins p))).
Proof. exact icdf1_lattice. Qed.
Print Assumptions C01_icdf1_lattice.

(* 1-d: lattice average = composite midpoint rule, for every f *)
Theorem C01_vegas_lattice_1d_midpoint_rule : forall (p : pdf NumR) (d : N) (m : nat) (f : R -> R),
  pdf_wf p -> (d < pdf_dims p)%N -> (1 <= pdf_bins p < 2 ^ 64)%N -> (1 <= m)%nat ->
  lattice_avg_1d p d m f = Ok (midpoint_rule_1d p d m f).
Proof. exact vegas_lattice_1d_midpoint_rule. Qed.
Print Assumptions C01_vegas_lattice_1d_midpoint_rule.

(* ... which is exact for affine integrands on every grid from 0 to 1 *)
Theorem C01_midpoint_exact_affine_1d : forall (p : pdf NumR) (d : N) (m : nat) (a c : R),
  (1 <= m)%nat -> gridn p d 0 = 0 -> gridn p d (nbins p) = 1 ->
  midpoint_rule_1d p d m (fun x => a + c * x) = a + c / 2.
Proof. exact midpoint_exact_affine_1d. Qed.
Print Assumptions C01_midpoint_exact_affine_1d.

Theorem C01_vegas_lattice_1d_exact_affine : forall (p : pdf NumR) (d : N) (m : nat) (a c : R),
  pdf_wf p -> (d < pdf_dims p)%N -> (1 <= pdf_bins p < 2 ^ 64)%N -> (1 <= m)%nat ->
  gridn p d 0 = 0 -> gridn p d (nbins p) = 1 ->
  lattice_avg_1d p d m (fun x => a + c * x) = Ok (a + c / 2).
Proof. exact vegas_lattice_1d_exact_affine. Qed.
Print Assumptions C01_vegas_lattice_1d_exact_affine.

(* a + c/2 is the integral of a + c x over [0,1] *)
Theorem C01_affine_integral : forall a c : R,
  @Coquelicot.RInt.is_RInt Coquelicot.Hierarchy.R_NormedModule (fun x => a + c * x) 0 1 (a + c / 2).
Proof. exact affine_integral. Qed.
Print Assumptions C01_affine_integral.

(* icdf acts componentwise (every Num): if every coordinate maps, the whole point maps, with the
   factors multiplied in the order ((w0 * f_0) * f_1) * ... *)
Theorem C01_icdf_componentwise : forall (K : Num) (p : pdf K) (d : N) (us xs : list K) (bs : list N)
    (ws : list K) (w0 : K),
  icdf_all p d us xs bs ws -> icdf_loop p d us w0 = Ok (xs, bs, fold_left (mul K) ws w0).
Proof. exact @icdf_loop_componentwise. Qed.
Print Assumptions C01_icdf_componentwise.

(* ... and conversely every defined result arises that way *)
Theorem C01_icdf_components : forall (K : Num) (p : pdf K) (us : list K) (d : N) (w0 : K)
    (xs : list K) (bs : list N) (w : K),
  icdf_loop p d us w0 = Ok (xs, bs, w) ->
  exists ws, icdf_all p d us xs bs ws /\ w = fold_left (mul K) ws w0.
Proof. exact @icdf_loop_inv. Qed.
Print Assumptions C01_icdf_components.

(* over R the weight is the product of the factors *)
Theorem C01_icdf_weight_is_product : forall (p : pdf NumR) (us xs : list R) (bs : list N) (ws : list R),
  icdf_all p 0 us xs bs ws -> icdf p us = Ok (xs, bs, prodR ws).
Proof. exact icdf_componentwise. Qed.
Print Assumptions C01_icdf_weight_is_product.

(* d dimensions, EVERY integrand: lattice average = composite midpoint rule on the product grid *)
Theorem C01_vegas_lattice_is_midpoint_rule : forall (p : pdf NumR) (m : nat) (f : list R -> R),
  pdf_wf p -> (1 <= pdf_bins p < 2 ^ 64)%N -> (1 <= m)%nat ->
  lattice_avg p m f = Ok (mid_rule p m 0 (N.to_nat (pdf_dims p)) f).
Proof. exact vegas_lattice_is_midpoint_rule. Qed.
Print Assumptions C01_vegas_lattice_is_midpoint_rule.

(* exact for products of affine factors ... *)
Theorem C01_vegas_lattice_exact_product : forall (p : pdf NumR) (m : nat) (l : list (R * R)),
  pdf_wf p -> (1 <= pdf_bins p < 2 ^ 64)%N -> (1 <= m)%nat -> grid_unit p ->
  length l = N.to_nat (pdf_dims p) ->
  lattice_avg p m (maff l) = Ok (maff_int l).
Proof. exact vegas_lattice_exact_product. Qed.
Print Assumptions C01_vegas_lattice_exact_product.

(* ... and for finite sums of them (all multi-affine polynomials) *)
Theorem C01_vegas_lattice_exact_multiaffine : forall (p : pdf NumR) (m : nat) (t : list (R * list (R * R))),
  pdf_wf p -> (1 <= pdf_bins p < 2 ^ 64)%N -> (1 <= m)%nat -> grid_unit p ->
  Forall (fun cl => length (snd cl) = N.to_nat (pdf_dims p)) t ->
  lattice_avg p m (msum t) = Ok (msum_int t).
Proof. exact vegas_lattice_exact_multiaffine. Qed.
Print Assumptions C01_vegas_lattice_exact_multiaffine.

(* multi-channel weight times mixture density = 1, for any common jacobian factor *)
Theorem C01_mc_weight_mixture : forall (jac : R) (ws dens : list R),
  (length ws <= length dens)%nat -> jac <> 0 -> dotR ws dens <> 0 ->
  exists w, @mc_weight NumR jac ws dens = Ok w /\ w = jac / dotR ws dens /\
            dotR ws (map (fun d => d / jac) dens) * w = 1.
Proof. exact mc_weight_mixture. Qed.
Print Assumptions C01_mc_weight_mixture.

(* unbiasedness over points and channel choice on a finite sample space, every f *)
Theorem C01_mc_unbiased_finite : forall (A : Type) (chs : list (R * (A -> R))) (Y : list A) (f : A -> R),
  sumCh A chs (fun g => sumY A Y (fun y => g y * (f y * (1 / mixture A chs y)))) =
  sumY A (filter (reachable A chs) Y) f.
Proof. exact mc_unbiased_finite. Qed.
Print Assumptions C01_mc_unbiased_finite.

(* the same with the weight the model computes from the reported densities J(y) * g_i(y) *)
Theorem C01_mc_unbiased_finite_model : forall (A : Type) (chs : list (R * (A -> R))) (Y : list A)
    (f J w : A -> R),
  (forall y, In y Y -> J y <> 0) ->
  (forall y, In y Y -> mixture A chs y <> 0 ->
     @mc_weight NumR (J y) (map fst chs) (map (fun ch => J y * snd ch y) chs) = Ok (w y)) ->
  sumCh A chs (fun g => sumY A Y (fun y => g y * (f y * w y))) = sumY A (filter (reachable A chs) Y) f.
Proof. exact mc_unbiased_finite_model. Qed.
Print Assumptions C01_mc_unbiased_finite_model.

(* with admissible channels the sampling law has total mass one ... *)
Theorem C01_mc_total_mass : forall (A : Type) (chs : list (R * (A -> R))) (Y : list A),
  admissible A chs Y -> sumCh A chs (fun g => sumY A Y g) = 1.
Proof. exact mc_total_mass. Qed.
Print Assumptions C01_mc_total_mass.

(* ... and a point is unreachable iff no enabled channel produces it *)
Theorem C01_unreachable_iff : forall (A : Type) (chs : list (R * (A -> R))) (Y : list A) (y : A),
  admissible A chs Y ->
  (mixture A chs y = 0 <-> Forall (fun ch => fst ch = 0 \/ snd ch y = 0) chs).
Proof. exact unreachable_iff. Qed.
Print Assumptions C01_unreachable_iff.

(* non-vacuity *)
Example C01_example_vegas :
  pdf_wf ex_pdf /\ (1 <= pdf_bins ex_pdf < 2 ^ 64)%N /\ grid_unit ex_pdf /\
  (exists x w, icdf1 ex_pdf 1 ((IZR (Z.of_N (1 * 3 + 2)) + / 2) / IZR (Z.of_N (2 * 3))) = Ok (x, 1%N, w) /\
               x = 3 / 4 + (2 + / 2) / 3 * (1 - 3 / 4) /\ w = (1 - 3 / 4) * 2) /\
  lattice_avg_1d ex_pdf 0 3 (fun x => 7 + 4 * x) = Ok 9 /\
  lattice_avg ex_pdf 3 (maff [(1, 2); (3, -1)]) = Ok 5 /\
  lattice_avg ex_pdf 3 (msum [(2, [(1, 2); (3, -1)]); (-1, [(0, 1); (0, 1)])]) = Ok (39 / 4).
Proof. exact c01_example_vegas. Qed.

Example C01_example_plain :
  let strm : N -> NumR := fun n => lat 4 (N.to_nat n) in
  let f : integrand NumR := fun o => @mk_iret NumR (hd 0 (o_point o)) [] false in
  exists s', plain_step strm [] f 1 (mk_itst 2 0 (acc_init []) [] []) = Ok s' /\
             it_tr s' = [EvIntegrand (@mk_obs NumR 0 [lat 4 2] 1 [] 0 []) true].
Proof. exact c01_example_plain. Qed.

Example C01_example_weight :
  exists w, @mc_weight NumR 2 [1 / 4; 3 / 4; 0] [2; 4; 6] = Ok w /\ w = 4 / 7.
Proof. exact c01_example_weight. Qed.

Example C01_example_channels :
  admissible nat ex_chs ex_Y /\
  forall f : nat -> R,
    sumCh nat ex_chs (fun g => sumY nat ex_Y (fun y => g y * (f y * (1 / mixture nat ex_chs y)))) =
    f 0%nat + f 1%nat.
Proof. exact c01_example_channels. Qed.
