(** C18, fault sequences — system calls of the writing callback may fail, and the process may be
    killed at any point afterwards.

    What is proved (model Fs.v; arbitrary byte type, previous content, texts, cutting into writes
    and ANY sequence of invocation outcomes): an invocation completes (create/truncate <name>.tmp,
    writes, close, rename), or the open of the temporary fails (the callback does nothing), or a
    write / the close / the rename fails after arbitrary pieces reached the temporary (no rename).
    In every state a kill can leave, the final name holds what the last completed invocation among
    the first j wrote, for some j up to the invocation in progress — never a partial text, never
    the bytes of an invocation that did not complete.  A fallback that rewrites the final name in
    place when the temporary cannot be created is refuted.

    Tie to the code (checked on every run, not proved): the interposer makes the k-th file
    operation of the real process fail (open: EACCES, write: ENOSPC, rename: EXDEV), the recorded
    operations of that invocation are compared with [invocation_ops], and the process is killed at
    the operations that follow.

    Assumptions, not proved: as for Properties_C18.v; a failed system call has no effect on the
    file system (a failed write writes nothing). *)
From Coq Require Import List String.
From HepMC Require Import Fs Lemmas_C18 Lemmas_C18f.
Import ListNotations.

Theorem C18f_invocation_atomic : forall (A : Type) (s : fs A) (filename : path) (o : outcome A) (s' : fs A),
  In s' (crash_states A s (invocation_ops A filename o)) ->
  lookup A s' filename = lookup A s filename \/
  lookup A s' filename = match o with Completes chunks => Some (List.concat chunks) | _ => lookup A s filename end.
Proof. exact invocation_atomic. Qed.
Print Assumptions C18f_invocation_atomic.

Theorem C18f_outcomes_atomic : forall (A : Type) (filename : path) (os : list (outcome A)) (s s' : fs A),
  In s' (crash_states A s (run_outcomes A filename os)) ->
  exists j, j <= List.length os /\ lookup A s' filename = last_completed A (firstn j os) (lookup A s filename).
Proof. exact outcomes_atomic. Qed.
Print Assumptions C18f_outcomes_atomic.

Theorem C18f_never_partial : forall (A : Type) (filename : path) (os : list (outcome A)) (s s' : fs A),
  In s' (crash_states A s (run_outcomes A filename os)) ->
  lookup A s' filename = lookup A s filename \/
  exists chunks, In (Completes chunks) os /\ lookup A s' filename = Some (List.concat chunks).
Proof. exact outcomes_never_partial. Qed.
Print Assumptions C18f_never_partial.

Theorem C18f_final : forall (A : Type) (filename : path) (os : list (outcome A)) (s : fs A),
  lookup A (run_ops A s (run_outcomes A filename os)) filename = last_completed A os (lookup A s filename).
Proof. exact outcomes_final. Qed.
Print Assumptions C18f_final.

Theorem C18f_no_faults_is_C18 : forall (A : Type) (filename : path) (texts : list (list (list A))),
  run_outcomes A filename (map Completes texts) = run_writes A filename texts.
Proof. exact outcomes_no_faults. Qed.
Print Assumptions C18f_no_faults_is_C18.

Theorem C18f_in_place_fallback_refuted : forall (A : Type) (filename : path) (old : list A) (chunks : list (list A)),
  old <> [] -> List.concat chunks <> [] ->
  exists s', In s' (crash_states A [(filename, old)] (write_in_place_ops A filename chunks)) /\
             lookup A s' filename <> Some old /\ lookup A s' filename <> Some (List.concat chunks).
Proof. exact in_place_fallback_refuted. Qed.
Print Assumptions C18f_in_place_fallback_refuted.

Example C18f_example :
  In None ex18f_contents /\ In (Some [1; 2; 3]) ex18f_contents /\ In (Some [4; 5; 6]) ex18f_contents /\
  (forall c, In c ex18f_contents -> c = None \/ c = Some [1; 2; 3] \/ c = Some [4; 5; 6]) /\
  In (Some [7]) (map (fun s => lookup nat s "chk.tmp"%string) (crash_states nat [] (run_outcomes nat "chk"%string ex18f_outcomes))).
Proof. exact c18f_example. Qed.
