(** * Iter: plain_iteration, vegas_iteration, multi_channel_iteration (plain.hpp, vegas.hpp,
    multi_channel.hpp).  User code (integrand, channel map) and the random engine are oracles.
    No proofs in this file. *)
From Coq Require Import ZArith NArith List Bool.
From HepMC Require Import Num Translated Result Accum VegasPdf Discrete MultiChannel.
Import ListNotations.

Section Iter.
  Context {K : Num}.

  (** The random engine is a position in a fixed stream of canonical numbers
      (std::generate_canonical<T, digits>); [strm] is that stream. *)
  Variable strm : N -> K.
  Definition draws (g : N) (d : nat) : list K := map strm (iotaN g d).

  (** What the integrand can see of a point, and what it does. [o_idx] counts the calls the
      integrand object has received (user functors may carry state). *)
  Record obs := mk_obs {
    o_idx : N; o_point : list K; o_weight : K; o_bins : list N; o_channel : N; o_coords : list K }.
  Record iret := mk_iret {
    i_val : K;                       (* returned value                                         *)
    i_fills : list (fill K);         (* projector.add calls, in order                          *)
    i_wants : bool }.                (* the integrand itself asked for point.weight()          *)
  Definition integrand := obs -> iret.

  (** channel map, under its documented contract: outputs are functions of the inputs only *)
  Record mcmap := mk_mcmap {
    (* call counter (user functors may carry state), channel, random numbers, enabled channels *)
    m_coords : N -> N -> list K -> list N -> list K;
    (* ... and the coordinates; returns (jacobian, densities) *)
    m_dens : N -> N -> list K -> list K -> list N -> K * list K }.

  Inductive event :=
  | EvMapCoords (ch : N) (us : list K) (en : list N)
  | EvIntegrand (o : obs) (weight_visible : bool)
  | EvMapDens (ch : N) (us coords : list K) (en : list N).

  Record itst := mk_itst {
    it_g : N;                (* generator position                 *)
    it_idx : N;              (* calls the integrand has received   *)
    it_acc : accst K;
    it_adj : list K;         (* adjustment data                    *)
    it_tr : list event }.    (* newest first                       *)

  Definition iter_loop (step : itst -> res itst) (n : N) (s : itst) : res itst :=
    N.iter n (fun r => bind r step) (Ok s).

  Variable ps : list (dparams K).
  Variable f : integrand.

  (** common tail of a call: projector fills, main accumulation *)
  Definition finish_call (s : itst) (o : obs) (r : iret) : res (accst K * K) :=
    do ds <- do_fills ps (o_weight o) (a_dists (it_acc s)) (i_fills r);
    let '(m, v) := invoke_main (a_main (it_acc s)) (i_val r) (o_weight o) in
    Ok (mk_accst m ds, v).

  (** PLAIN *)
  Definition plain_step (d : nat) (s : itst) : res itst :=
    let us := draws (it_g s) d in
    let o := mk_obs (it_idx s) us (one K) [] 0 [] in
    let r := f o in
    do av <- finish_call s o r;
    let '(a, _) := av in
    Ok (mk_itst (it_g s + N.of_nat d) (it_idx s + 1) a (it_adj s) (EvIntegrand o true :: it_tr s)).

  Definition plain_iteration (d : nat) (calls : N) (g idx : N) : res (plainres K * N * N * list event) :=
    do s <- iter_loop (plain_step d) calls (mk_itst g idx (acc_init ps) [] []);
    Ok (acc_result ps (it_acc s) calls, it_g s, it_idx s, rev (it_tr s)).

  (** VEGAS *)
  Fixpoint add_squares (adj : list K) (bins : N) (j : N) (bs : list N) (sq : K) : res (list K) :=
    match bs with
    | [] => Ok adj
    | b :: bs' =>
      let i := (j * bins + b)%N in
      do old <- getN 60 adj i;
      add_squares (setN adj i (add K old sq)) bins (j + 1) bs' sq
    end.

  Definition vegas_step (p : pdf K) (s : itst) : res itst :=
    let d := N.to_nat (pdf_dims p) in
    let us := draws (it_g s) d in
    do xbw <- icdf p us;
    let '(xs, bs, w) := xbw in
    let o := mk_obs (it_idx s) xs w bs 0 [] in
    let r := f o in
    do av <- finish_call s o r;
    let '(a, v) := av in
    do adj <- add_squares (it_adj s) (pdf_bins p) 0 bs (mul K v v);
    Ok (mk_itst (it_g s + N.of_nat d) (it_idx s + 1) a adj (EvIntegrand o true :: it_tr s)).

  Definition vegas_iteration (p : pdf K) (calls : N) (g idx : N) : res (vegasres K * N * N * list event) :=
    let adj0 := repeat (zero K) (N.to_nat (pdf_dims p * pdf_bins p)) in
    do s <- iter_loop (vegas_step p) calls (mk_itst g idx (acc_init ps) adj0 []);
    Ok (mk_vegasres (acc_result ps (it_acc s) calls) p (it_adj s), it_g s, it_idx s, rev (it_tr s)).

  (** multi-channel *)
  Variable mp : mcmap.

  (* adjustment_data[j] += densities[j] * square; densities[j] unchecked *)
  Fixpoint add_dens (adj dens : list K) (sq : K) : res (list K) :=
    match adj with
    | [] => Ok []
    | a :: adj' =>
      match dens with
      | [] => UB 61
      | d :: dens' => do rest <- add_dens adj' dens' sq; Ok (add K a (mul K d sq) :: rest)
      end
    end.

  (* how often the lazily evaluated weight() asks the map for densities: every request while the
     cached weight compares equal to zero, otherwise only the first one *)
  Definition dens_calls (w : K) (requests : nat) : nat :=
    if eqb K w (zero K) then requests else Nat.min 1 requests.

  Definition mc_step (d : nat) (ws cum : list K) (en : list N) (s : itst) : res itst :=
    let us := draws (it_g s) d in
    let uc := strm (it_g s + N.of_nat d) in
    let ch := upper_bound cum uc in
    let coords := m_coords mp (it_idx s) ch us en in
    let '(jac, dens) := m_dens mp (it_idx s) ch us coords en in
    do w <- mc_weight jac ws dens;
    let o := mk_obs (it_idx s) us w [] ch coords in
    let r := f o in
    do av <- finish_call s o r;
    let '(a, v) := av in
    let requests := (length (i_fills r) + (if i_wants r then 1 else 0)
                     + (if neqb (i_val r) (zero K) then 1 else 0)
                     + (if eqb K v (zero K) then 0 else 1))%nat in
    let tr := repeat (EvMapDens ch us coords en) (dens_calls w requests)
              ++ EvIntegrand o (i_wants r)
              :: EvMapCoords ch us en :: it_tr s in
    do adj <- (if eqb K v (zero K) then Ok (it_adj s)
               else add_dens (it_adj s) dens (mul K (mul K v v) w));
    Ok (mk_itst (it_g s + N.of_nat d + 1) (it_idx s + 1) a adj tr).

  Definition mc_iteration (d : nat) (ws : list K) (calls : N) (g idx : N)
    : res (mcres_mc K * N * N * list event) :=
    let adj0 := repeat (zero K) (length ws) in
    do s <- iter_loop (mc_step d ws (cumulative ws) (enabled ws)) calls (mk_itst g idx (acc_init ps) adj0 []);
    Ok (mk_mcres_mc (acc_result ps (it_acc s) calls) (it_adj s) ws, it_g s, it_idx s, rev (it_tr s)).
End Iter.
Arguments obs K : clear implicits.
Arguments iret K : clear implicits.
Arguments integrand K : clear implicits.
Arguments mcmap K : clear implicits.
Arguments event K : clear implicits.
Arguments itst K : clear implicits.
