(** Lemmas for C17f: the floating-point version of "every coordinate the integrand sees lies in the unit
    interval" (property C17) - VEGAS over [NumB] (closed interval, coordinate inside its reported bin, bin
    index below the bin count) and PLAIN / multi-channel over [NumB] (half-open interval).
    Compositions of Lemmas_C17.v (protocol of an iteration), Lemmas_C07f.v / Lemmas_C07g.v (the inverse CDF in
    IEEE arithmetic).  Statements: Properties_C17f.v. *)
From Coq Require Import ZArith NArith List Reals Lra Lia Bool.
From Flocq Require Import Core BinarySingleNaN.
From HepMC Require Import Num NumR NumB Translated Result Accum VegasPdf Discrete MultiChannel Iter
  Lemmas_Run Lemmas_C01 Lemmas_C09 Lemmas_C07f Lemmas_C07g Lemmas_C17.
Import ListNotations.

(** generic: two lists of equal length, a property of all index-aligned pairs *)
Lemma aligned_Forall_l {A B} (P : A -> Prop) (xs : list A) (bs : list B) :
  length xs = length bs ->
  (forall k x b, nth_error xs k = Some x -> nth_error bs k = Some b -> P x) -> Forall P xs.
Proof.
  intros L H. apply Forall_forall. intros x Hx. apply In_nth_error in Hx as (k & Hk).
  assert (Hlt : (k < length bs)%nat) by (rewrite <- L; apply nth_error_Some; congruence).
  destruct (nth_error bs k) as [b|] eqn:Eb; [|apply nth_error_None in Eb; lia].
  exact (H k x b Hk Eb).
Qed.

Lemma aligned_Forall_r {A B} (Q : B -> Prop) (xs : list A) (bs : list B) :
  length xs = length bs ->
  (forall k x b, nth_error xs k = Some x -> nth_error bs k = Some b -> Q b) -> Forall Q bs.
Proof.
  intros L H. apply Forall_forall. intros b Hb. apply In_nth_error in Hb as (k & Hk).
  assert (Hlt : (k < length xs)%nat) by (rewrite L; apply nth_error_Some; congruence).
  destruct (nth_error xs k) as [x|] eqn:Ex; [|apply nth_error_None in Ex; lia].
  exact (H k x b Ex Hk).
Qed.

Section Float.
  Variables prec emax : Z.
  Context (Hprec : FLX.Prec_gt_0 prec) (Hmax : Prec_lt_emax prec emax).
  Hypothesis Hprec2 : (2 <= prec)%Z.
  Notation KB := (NumB prec emax Hprec Hmax).

  (** the grid hypothesis, in the model's own operations: a bin count the format represents exactly and that
      fits size_t, and in every dimension a non-decreasing row of finite boundaries inside [0,1] *)
  Definition grid_ok (p : pdf KB) : Prop :=
    (1 <= pdf_bins p)%N /\ (Z.of_N (pdf_bins p) < 2 ^ prec)%Z /\ (pdf_bins p < 2 ^ 64)%N /\
    forall d, (d < pdf_dims p)%N -> slice_ok prec emax Hprec Hmax p d.

  (** what one VEGAS call shows to the integrand: one coordinate and one bin index per dimension; the k-th
      coordinate lies (closed) in the k-th reported bin of dimension k, whose index is below the bin count,
      and in the closed unit interval - all comparisons are the format's own [leb] *)
  Definition point_in_bins_f (p : pdf KB) (xs : list KB) (bs : list N) : Prop :=
    length xs = N.to_nat (pdf_dims p) /\ length bs = N.to_nat (pdf_dims p) /\
    forall k x b, nth_error xs k = Some x -> nth_error bs k = Some b ->
      point_in_bin prec emax Hprec Hmax p (N.of_nat k) b x /\
      leb KB (zero KB) x = true /\ leb KB x (one KB) = true.

  (* a finite value between two boundaries of a [slice_ok] row is in [0,1] *)
  Lemma in_bin_unit (p : pdf KB) (d b : N) (x : KB) :
    slice_ok prec emax Hprec Hmax p d -> point_in_bin prec emax Hprec Hmax p d b x ->
    leb KB (zero KB) x = true /\ leb KB x (one KB) = true.
  Proof.
    intros Hs (Hb & l & r & El & Er & Fx & X0 & X1).
    destruct (Hs b Hb) as (l' & r' & El' & Er' & Fl & Fr & L0 & LR & R1).
    rewrite El in El'. injection El' as <-. rewrite Er in Er'. injection Er' as <-.
    destruct (Bone_R prec emax Hprec Hmax) as (F1 & E1).
    change (is_finite l = true) in Fl. change (is_finite r = true) in Fr. change (is_finite x = true) in Fx.
    pose proof (Bleb_R prec emax (B754_zero false) l eq_refl Fl L0) as A. cbn [B2R] in A.
    pose proof (Bleb_R prec emax l x Fl Fx X0) as B.
    pose proof (Bleb_R prec emax x r Fx Fr X1) as C.
    pose proof (Bleb_R prec emax r _ Fr F1 R1) as D. rewrite E1 in D.
    split.
    - apply (Bleb_R' prec emax); [reflexivity|exact Fx|]. change (B2R (zero KB)) with 0%R. lra.
    - apply (Bleb_R' prec emax); [exact Fx|exact F1|].
      change (B2R (one KB)) with (B2R (Bone' prec emax Hprec Hmax)). rewrite E1. lra.
  Qed.

  (** [icdf] on a full set of random numbers from the closed unit interval *)
  Lemma c17f_icdf_unit (p : pdf KB) (us : list KB) :
    grid_ok p -> length us = N.to_nat (pdf_dims p) -> Forall (unit_closed prec emax Hprec Hmax) us ->
    exists xs bs w, icdf p us = Ok (xs, bs, w) /\ point_in_bins_f p xs bs.
  Proof.
    intros (B1 & Bp & B64 & Hs) HL Hus.
    assert (Hs' : forall k, (k < length us)%nat -> slice_ok prec emax Hprec Hmax p (N.of_nat k)).
    { intros k Hk. apply Hs. lia. }
    destruct (c07g_icdf_points_in_bins prec emax Hprec Hmax Hprec2 p us B1 Bp B64 Hs' Hus)
      as (xs & bs & w & E & L1 & L2 & PB).
    exists xs, bs, w. split; [exact E|]. split; [exact (eq_trans L1 HL)|]. split; [exact (eq_trans L2 HL)|].
    intros k x b Ex Eb. pose proof (PB k x b Ex Eb) as P. split; [exact P|].
    apply (in_bin_unit p (N.of_nat k) b x); [|exact P].
    apply Hs'. rewrite <- L1. apply nth_error_Some. congruence.
  Qed.

  (** flat reading: all coordinates in the closed unit interval, all bin indices below the bin count *)
  Lemma point_in_bins_f_flat (p : pdf KB) xs bs : point_in_bins_f p xs bs ->
    Forall (unit_closed prec emax Hprec Hmax) xs /\ Forall (fun b => (b < pdf_bins p)%N) bs.
  Proof.
    intros (L1 & L2 & H). split.
    - apply (aligned_Forall_l _ xs bs); [congruence|]. intros k x b Ex Eb.
      destruct (H k x b Ex Eb) as ((_ & l & r & _ & _ & Fx & _) & X0 & X1). split; [exact Fx|]. split; assumption.
    - apply (aligned_Forall_r _ xs bs); [congruence|]. intros k x b Ex Eb.
      destruct (H k x b Ex Eb) as ((Hb & _) & _). exact Hb.
  Qed.

  Variable strm : N -> KB.
  Variable ps : list (dparams KB).
  Variable f : integrand KB.

  (** every event of a VEGAS iteration over an IEEE format *)
  Lemma c17f_unit_interval_vegas (p : pdf KB) calls g idx r g' idx' tr :
    grid_ok p -> (forall n, unit_closed prec emax Hprec Hmax (strm n)) ->
    vegas_iteration strm ps f p calls g idx = Ok (r, g', idx', tr) ->
    Forall (fun e : event KB => exists o : obs KB, e = EvIntegrand o true /\
                                  point_in_bins_f p (o_point o) (o_bins o)) tr.
  Proof.
    intros V HP H. destruct (c17_protocol_vegas strm ps f p calls g idx r g' idx' tr H) as [L Hn].
    apply Forall_forall. intros e He. apply In_nth_error in He as (i & Hi).
    assert (Hlt : (i < N.to_nat calls)%nat) by (rewrite <- L; apply nth_error_Some; congruence).
    destruct (Hn i Hlt) as (e' & Hi' & xs & bs & w & Ei & ->). rewrite Hi in Hi'. injection Hi' as ->.
    eexists. split; [reflexivity|]. cbn [o_point o_bins].
    destruct (c17f_icdf_unit p (draws strm (g + N.of_nat i * pdf_dims p) (N.to_nat (pdf_dims p))) V)
      as (xs' & bs' & w' & Ei' & Hpt).
    - apply draws_length.
    - apply draws_Forall. exact HP.
    - rewrite Ei in Ei'. injection Ei' as <- <- <-. exact Hpt.
  Qed.

  Lemma c17f_unit_interval_vegas_flat (p : pdf KB) calls g idx r g' idx' tr :
    grid_ok p -> (forall n, unit_closed prec emax Hprec Hmax (strm n)) ->
    vegas_iteration strm ps f p calls g idx = Ok (r, g', idx', tr) ->
    length tr = N.to_nat calls /\
    Forall (fun e : event KB => exists o : obs KB, e = EvIntegrand o true /\
              length (o_point o) = N.to_nat (pdf_dims p) /\ length (o_bins o) = N.to_nat (pdf_dims p) /\
              Forall (unit_closed prec emax Hprec Hmax) (o_point o) /\
              Forall (fun b => (b < pdf_bins p)%N) (o_bins o)) tr.
  Proof.
    intros V HP H. split; [exact (proj1 (c17_protocol_vegas strm ps f p calls g idx r g' idx' tr H))|].
    pose proof (c17f_unit_interval_vegas p calls g idx r g' idx' tr V HP H) as HF.
    eapply Forall_impl; [|exact HF]. cbv beta. intros e (o & -> & Hpt). exists o. split; [reflexivity|].
    destruct (point_in_bins_f_flat p _ _ Hpt) as [A B]. destruct Hpt as (L1 & L2 & _). auto.
  Qed.

  (** PLAIN and multi-channel: the numbers are the stream entries; half-open interval, and its reading
      over the reals *)
  Definition unit_open_real (u : KB) : Prop := is_finite u = true /\ (0 <= B2R u < 1)%R.

  Lemma unit_open_real_of (u : KB) : unit_open prec emax Hprec Hmax u -> unit_open_real u.
  Proof. exact (unit_open_R prec emax Hprec Hmax u). Qed.

  Variable mp : mcmap KB.

  Lemma c17f_unit_interval_plain d calls g idx r g' idx' tr :
    (forall n, unit_open prec emax Hprec Hmax (strm n)) ->
    plain_iteration strm ps f d calls g idx = Ok (r, g', idx', tr) ->
    Forall (fun e : event KB => exists o : obs KB, e = EvIntegrand o true /\ length (o_point o) = d /\
              Forall (unit_open prec emax Hprec Hmax) (o_point o) /\
              Forall unit_open_real (o_point o) /\ o_weight o = one KB) tr.
  Proof.
    intros HP H.
    pose proof (c17_unit_interval_plain strm ps f (unit_open prec emax Hprec Hmax) d calls g idx r g' idx' tr HP H) as HF.
    eapply Forall_impl; [|exact HF]. cbv beta. intros e (o & -> & L & Hu & Hw). exists o.
    split; [reflexivity|]. split; [exact L|]. split; [exact Hu|]. split; [|exact Hw].
    eapply Forall_impl; [|exact Hu]. exact unit_open_real_of.
  Qed.

  Lemma c17f_unit_interval_mc d ws calls g idx r g' idx' tr :
    (forall n, unit_open prec emax Hprec Hmax (strm n)) ->
    mc_iteration strm ps f mp d ws calls g idx = Ok (r, g', idx', tr) ->
    Forall (fun e : event KB => match e with
                     | EvMapCoords _ us _ => length us = d /\ Forall (unit_open prec emax Hprec Hmax) us
                     | EvIntegrand o _ => length (o_point o) = d /\ Forall (unit_open prec emax Hprec Hmax) (o_point o)
                     | EvMapDens _ us _ _ => length us = d /\ Forall (unit_open prec emax Hprec Hmax) us
                     end) tr.
  Proof.
    intros HP H.
    exact (c17_unit_interval_mc strm ps f mp (unit_open prec emax Hprec Hmax) d ws calls g idx r g' idx' tr HP H).
  Qed.
End Float.

(* ------------------------------------------------------------------------------------------- *)
(** * non-vacuity: a VEGAS and a PLAIN iteration in single precision (values compared through [Bout]) *)

(* stream entries k/4: the closed stream 0, 1/4, 1/2, 3/4, 1 (it does deliver exactly 1, as
   generate_canonical<float> can), the half-open stream 0, 1/4, 1/2, 3/4 *)
Definition ex17f_tab (k : N) : B32 := div B32 (ofN B32 k) (ofN B32 4).
Definition ex17f_strm (n : N) : B32 := ex17f_tab (N.modulo n 5).
Definition ex17f_strm_o (n : N) : B32 := ex17f_tab (N.modulo n 4).
Definition ex17f_f : integrand B32 := fun o =>
  mk_iret (add B32 (nth 0 (o_point o) (zero B32)) (nth 1 (o_point o) (zero B32))) [] false.

Definition unit_closedb (u : B32) : bool := isfinite B32 u && leb B32 (zero B32) u && leb B32 u (one B32).
Definition unit_openb (u : B32) : bool := isfinite B32 u && leb B32 (zero B32) u && ltb B32 u (one B32).

Definition ex17f_tab_check : bool :=
  forallb (fun k => unit_closedb (ex17f_tab k)) [0; 1; 2; 3; 4]%N &&
  forallb (fun k => unit_openb (ex17f_tab k)) [0; 1; 2; 3]%N.
Lemma ex17f_tab_check_true : ex17f_tab_check = true.
Proof. vm_compute. reflexivity. Qed.

Lemma ex17f_strm_closed : forall n, unit_closed 24 128 P24 M24 (ex17f_strm n).
Proof.
  pose proof ex17f_tab_check_true as H. unfold ex17f_tab_check in H. apply andb_prop in H as [H _].
  rewrite forallb_forall in H. intros n. unfold ex17f_strm.
  assert (Hk : In (N.modulo n 5) [0; 1; 2; 3; 4]%N).
  { pose proof (N.mod_upper_bound n 5 ltac:(lia)) as B. cbn [In].
    generalize dependent (N.modulo n 5). intros k B.
    assert (C : (k = 0 \/ k = 1 \/ k = 2 \/ k = 3 \/ k = 4)%N) by lia.
    destruct C as [C|[C|[C|[C|C]]]]; rewrite C; auto 6. }
  specialize (H _ Hk). unfold unit_closedb in H.
  apply andb_prop in H as [H H2]. apply andb_prop in H as [H0 H1]. split; [exact H0|]. split; assumption.
Qed.

Lemma ex17f_strm_open : forall n, unit_open 24 128 P24 M24 (ex17f_strm_o n).
Proof.
  pose proof ex17f_tab_check_true as H. unfold ex17f_tab_check in H. apply andb_prop in H as [_ H].
  rewrite forallb_forall in H. intros n. unfold ex17f_strm_o.
  assert (Hk : In (N.modulo n 4) [0; 1; 2; 3]%N).
  { pose proof (N.mod_upper_bound n 4 ltac:(lia)) as B. cbn [In].
    generalize dependent (N.modulo n 4). intros k B.
    assert (C : (k = 0 \/ k = 1 \/ k = 2 \/ k = 3)%N) by lia.
    destruct C as [C|[C|[C|C]]]; rewrite C; auto 6. }
  specialize (H _ Hk). unfold unit_openb in H.
  apply andb_prop in H as [H H2]. apply andb_prop in H as [H0 H1]. split; [exact H0|]. split; assumption.
Qed.

(* the library's starting grid, 2 dimensions x 3 bins, float (Lemmas_C07f.v / Lemmas_C07g.v) *)
Lemma ex17f_grid_ok : grid_ok 24 128 P24 M24 ex07f_p.
Proof.
  destruct ex07g_grid as (B1 & Bp & B64 & S0 & S1 & _).
  split; [exact B1|]. split; [exact Bp|]. split; [exact B64|].
  intros d Hd. change (pdf_dims ex07f_p) with 2%N in Hd.
  assert (C : d = 0%N \/ d = 1%N) by lia. destruct C as [-> | ->]; assumption.
Qed.

Definition ex17f_obs_out (e : event B32) : list outrep * list N * outrep :=
  match e with
  | EvIntegrand o _ => (map (Bout 24 128) (o_point o), o_bins o, Bout 24 128 (o_weight o))
  | _ => ([], [], ONan)
  end.

Definition outs_eqb (a b : list outrep) : bool :=
  Nat.eqb (length a) (length b) && forallb (fun xy => outrep_eqb (fst xy) (snd xy)) (combine a b).
Definition Ns_eqb (a b : list N) : bool :=
  Nat.eqb (length a) (length b) && forallb (fun xy => N.eqb (fst xy) (snd xy)) (combine a b).

Lemma outs_eqb_eq : forall a b, outs_eqb a b = true -> a = b.
Proof.
  unfold outs_eqb. induction a as [|x a IH]; intros [|y b] H; try reflexivity; try discriminate H.
  cbn in H. apply andb_prop in H as [L H]. apply andb_prop in H as [E H].
  apply outrep_eqb_eq in E. subst y. f_equal. apply IH. rewrite L. exact H.
Qed.
Lemma Ns_eqb_eq : forall a b, Ns_eqb a b = true -> a = b.
Proof.
  unfold Ns_eqb. induction a as [|x a IH]; intros [|y b] H; try reflexivity; try discriminate H.
  cbn in H. apply andb_prop in H as [L H]. apply andb_prop in H as [E H].
  apply N.eqb_eq in E. subst y. f_equal. apply IH. rewrite L. exact H.
Qed.

Ltac conv_eqbs :=
  repeat match goal with
         | H : N.eqb _ _ = true |- _ => apply N.eqb_eq in H
         | H : Nat.eqb _ _ = true |- _ => apply Nat.eqb_eq in H
         | H : outs_eqb _ _ = true |- _ => apply outs_eqb_eq in H
         | H : Ns_eqb _ _ = true |- _ => apply Ns_eqb_eq in H
         end.

(* third call (stream entries 1 and 0): coordinates 16777214 * 2^-24 (just below 1) in bin 2 and +0 in bin 0;
   fifth call (entries 3/4 and 1): 3/4 in bin 2 and 16777214 * 2^-24 in bin 2 *)
Definition ex17f_vegas_check : bool :=
  match vegas_iteration ex17f_strm [] ex17f_f ex07f_p 5 0 0 with
  | Ok (r, g', idx', tr) =>
      N.eqb g' 10 && N.eqb idx' 5 && Nat.eqb (length tr) 5 &&
      match nth_error tr 2, nth_error tr 4 with
      | Some e2, Some e4 =>
          let '(x2, b2, _) := ex17f_obs_out e2 in
          let '(x4, b4, _) := ex17f_obs_out e4 in
          outs_eqb x2 [OFin false 16777214 (-24); OZero false] && Ns_eqb b2 [2; 0]%N &&
          outs_eqb x4 [OFin false 12582912 (-24); OFin false 16777214 (-24)] && Ns_eqb b4 [2; 2]%N
      | _, _ => false
      end
  | UB _ => false
  end.
Lemma ex17f_vegas_check_true : ex17f_vegas_check = true.
Proof. vm_compute. reflexivity. Qed.

Lemma c17f_example_vegas :
  grid_ok 24 128 P24 M24 ex07f_p /\ (forall n, unit_closed 24 128 P24 M24 (ex17f_strm n)) /\
  exists r tr e2 e4,
    vegas_iteration ex17f_strm [] ex17f_f ex07f_p 5 0 0 = Ok (r, 10%N, 5%N, tr) /\ length tr = 5%nat /\
    nth_error tr 2 = Some e2 /\ nth_error tr 4 = Some e4 /\
    fst (ex17f_obs_out e2) = ([OFin false 16777214 (-24); OZero false], [2; 0]%N) /\
    fst (ex17f_obs_out e4) = ([OFin false 12582912 (-24); OFin false 16777214 (-24)], [2; 2]%N).
Proof.
  split; [exact ex17f_grid_ok|]. split; [exact ex17f_strm_closed|].
  pose proof ex17f_vegas_check_true as H. unfold ex17f_vegas_check in H.
  destruct (vegas_iteration ex17f_strm [] ex17f_f ex07f_p 5 0 0) as [[[[r g'] idx'] tr]|]; [|discriminate H].
  destruct (nth_error tr 2) as [e2|] eqn:E2; [|apply andb_prop in H as [_ H]; discriminate H].
  destruct (nth_error tr 4) as [e4|] eqn:E4; [|apply andb_prop in H as [_ H]; discriminate H].
  destruct (ex17f_obs_out e2) as [[x2 b2] w2] eqn:O2. destruct (ex17f_obs_out e4) as [[x4 b4] w4] eqn:O4.
  split_andb H. split_andb Hc. conv_eqbs. subst.
  exists r, tr, e2, e4. rewrite O2, O4. repeat split; try reflexivity; assumption.
Qed.

(* PLAIN, 3 calls of 2 numbers from the half-open stream: the points are (0, 1/4), (1/2, 3/4), (0, 1/4) *)
Definition ex17f_plain_check : bool :=
  match plain_iteration ex17f_strm_o [] ex17f_f 2 3 0 0 with
  | Ok (r, g', idx', tr) =>
      N.eqb g' 6 && N.eqb idx' 3 &&
      match tr with
      | [e0; e1; e2] =>
          outs_eqb (fst (fst (ex17f_obs_out e0))) [OZero false; OFin false 8388608 (-25)] &&
          outs_eqb (fst (fst (ex17f_obs_out e1))) [OFin false 8388608 (-24); OFin false 12582912 (-24)] &&
          outs_eqb (fst (fst (ex17f_obs_out e2))) [OZero false; OFin false 8388608 (-25)]
      | _ => false
      end
  | UB _ => false
  end.
Lemma ex17f_plain_check_true : ex17f_plain_check = true.
Proof. vm_compute. reflexivity. Qed.

Lemma c17f_example_plain :
  (forall n, unit_open 24 128 P24 M24 (ex17f_strm_o n)) /\
  exists r e0 e1 e2,
    plain_iteration ex17f_strm_o [] ex17f_f 2 3 0 0 = Ok (r, 6%N, 3%N, [e0; e1; e2]) /\
    fst (fst (ex17f_obs_out e0)) = [OZero false; OFin false 8388608 (-25)] /\
    fst (fst (ex17f_obs_out e1)) = [OFin false 8388608 (-24); OFin false 12582912 (-24)] /\
    fst (fst (ex17f_obs_out e2)) = [OZero false; OFin false 8388608 (-25)].
Proof.
  split; [exact ex17f_strm_open|].
  pose proof ex17f_plain_check_true as H. unfold ex17f_plain_check in H.
  destruct (plain_iteration ex17f_strm_o [] ex17f_f 2 3 0 0) as [[[[r g'] idx'] tr]|]; [|discriminate H].
  destruct tr as [|e0 [|e1 [|e2 [|e3 tr]]]]; try (apply andb_prop in H as [_ H]; discriminate H).
  split_andb H. split_andb Hc. conv_eqbs. subst g' idx'.
  exists r, e0, e1, e2. repeat split; assumption.
Qed.

(* ------------------------------------------------------------------------------------------- *)
(** * the three formats of the library (flat reading) *)
Lemma c17f_unit_interval_vegas_formats :
  (forall (strm : N -> B32) ps f (p : pdf B32) calls g idx r g' idx' tr,
     grid_ok 24 128 P24 M24 p -> (forall n, unit_closed 24 128 P24 M24 (strm n)) ->
     vegas_iteration strm ps f p calls g idx = Ok (r, g', idx', tr) ->
     Forall (fun e : event B32 => exists o : obs B32, e = EvIntegrand o true /\
               Forall (unit_closed 24 128 P24 M24) (o_point o) /\
               Forall (fun b => (b < pdf_bins p)%N) (o_bins o)) tr) /\
  (forall (strm : N -> B64) ps f (p : pdf B64) calls g idx r g' idx' tr,
     grid_ok 53 1024 P53 M53 p -> (forall n, unit_closed 53 1024 P53 M53 (strm n)) ->
     vegas_iteration strm ps f p calls g idx = Ok (r, g', idx', tr) ->
     Forall (fun e : event B64 => exists o : obs B64, e = EvIntegrand o true /\
               Forall (unit_closed 53 1024 P53 M53) (o_point o) /\
               Forall (fun b => (b < pdf_bins p)%N) (o_bins o)) tr) /\
  (forall (strm : N -> B80) ps f (p : pdf B80) calls g idx r g' idx' tr,
     grid_ok 64 16384 P64 M64 p -> (forall n, unit_closed 64 16384 P64 M64 (strm n)) ->
     vegas_iteration strm ps f p calls g idx = Ok (r, g', idx', tr) ->
     Forall (fun e : event B80 => exists o : obs B80, e = EvIntegrand o true /\
               Forall (unit_closed 64 16384 P64 M64) (o_point o) /\
               Forall (fun b => (b < pdf_bins p)%N) (o_bins o)) tr).
Proof.
  split; [|split]; intros strm ps f p calls g idx r g' idx' tr V HP H.
  - destruct (c17f_unit_interval_vegas_flat 24 128 P24 M24 ltac:(lia) strm ps f p calls g idx r g' idx' tr V HP H) as [_ HF].
    eapply Forall_impl; [|exact HF]. cbv beta. intros e (o & E & _ & _ & A & B). exists o. auto.
  - destruct (c17f_unit_interval_vegas_flat 53 1024 P53 M53 ltac:(lia) strm ps f p calls g idx r g' idx' tr V HP H) as [_ HF].
    eapply Forall_impl; [|exact HF]. cbv beta. intros e (o & E & _ & _ & A & B). exists o. auto.
  - destruct (c17f_unit_interval_vegas_flat 64 16384 P64 M64 ltac:(lia) strm ps f p calls g idx r g' idx' tr V HP H) as [_ HF].
    eapply Forall_impl; [|exact HF]. cbv beta. intros e (o & E & _ & _ & A & B). exists o. auto.
Qed.
