(** * Codec: every serialize() member and every std::istream constructor of the checkpoint
    classes, at the level of tokens and white space.  Numbers are abstract tokens here; their
    decimal text is the subject of Decimal.v.  No proofs in this file. *)
From Coq Require Import ZArith NArith List Bool String.
From HepMC Require Import Num Result Chkpt.
Import ListNotations.

Section Codec.
  Context {K : Num}.

  Inductive tok :=
  | TNat (n : N)          (* std::size_t printed in decimal                                      *)
  | TNum (x : K)          (* T printed with std::scientific, max_digits10 - 1 fractional digits   *)
  | TGen (g : N)          (* operator<< of the random engine                                      *)
  | TStr (s : string)     (* raw characters up to (not including) the next newline                *)
  | TSp                   (* ' '                                                                  *)
  | TNl.                  (* '\n'                                                                 *)

  (** ** writers *)
  Definition ser_mcres (r : mcres K) : list tok :=
    [TNat (r_calls r); TSp; TNat (r_nz r); TSp; TNat (r_fin r); TSp; TNum (r_sum r); TSp; TNum (r_sumsq r)].

  Definition ser_dparams (p : dparams K) : list tok :=
    [TStr (d_name p); TNl; TNat (d_bx p); TSp; TNum (d_xmin p); TSp; TNum (d_bsx p); TSp;
     TNat (d_by p); TSp; TNum (d_ymin p); TSp; TNum (d_bsy p)].

  Definition ser_dres (d : dres K) : list tok :=
    ser_dparams (dr_par d) ++ flat_map (fun b => TNl :: ser_mcres b) (dr_bins d).

  Definition ser_plain (r : plainres K) : list tok :=
    ser_mcres (p_main r) ++ [TNl; TNat (N.of_nat (List.length (p_dists r)))]
    ++ flat_map (fun d => TNl :: ser_dres d) (p_dists r).

  Definition ser_pdf (p : pdf K) : list tok :=
    [TNat (pdf_bins p); TSp; TNat (pdf_dims p)] ++ flat_map (fun x => [TSp; TNum x]) (pdf_x p).

  Definition ser_vegasres (r : vegasres K) : list tok :=
    ser_plain (v_plain r) ++ [TNl] ++ ser_pdf (v_pdf r) ++ [TNl]
    ++ flat_map (fun x => [TNum x; TSp]) (v_adj r).

  (* for (i < channel_weights_.size()) out << '\n' << adjustment_data_.at(i) << ' ' << channel_weights_.at(i) *)
  Definition ser_mcres_mc (r : mcres_mc K) : list tok :=
    ser_plain (m_plain r) ++ [TNl; TNat (N.of_nat (List.length (m_weights r)))]
    ++ flat_map (fun '(a, w) => [TNl; TNum a; TSp; TNum w]) (combine (m_adj r) (m_weights r)).

  (* "# <result_name> 1 <max_digits10>\n" size { '\n' result } *)
  Definition ser_base {R} (header : string) (ser_r : R -> list tok) (b : base R) : list tok :=
    [TStr header; TNl; TNat (N.of_nat (List.length (b_results b)))]
    ++ flat_map (fun r => TNl :: ser_r r) (b_results b).
  Definition ser_gens {R} (b : base R) : list tok := flat_map (fun g => [TNl; TGen g]) (b_gens b).

  Variable digits10 : string.      (* max_digits10 of the numeric type, in decimal *)
  Definition header (name : string) : string := ("# " ++ name ++ " 1 " ++ digits10)%string.

  Definition ser_pchk (c : pchk K) : list tok :=
    ser_base (header "plain_result"%string) ser_plain c ++ ser_gens c.

  (* pdf_.front() of an empty vector is undefined *)
  Definition ser_vchk (c : vchk K) : res (list tok) :=
    let b := vc_base c in
    do tail <- match b_results b, vc_first c with
               | [], Some p => Ok (TNl :: ser_pdf p)
               | [], None => UB 80
               | _, _ => Ok []
               end;
    Ok (ser_base (header "vegas_result"%string) ser_vegasres b ++ [TNl; TNum (vc_alpha c)] ++ tail ++ ser_gens b).

  Definition ser_mchk (c : mchk K) : list tok :=
    let b := mc_base c in
    ser_base (header "multi_channel_result"%string) ser_mcres_mc b ++ [TNl; TNum (mc_beta c); TSp; TNum (mc_minw c)]
    ++ match b_results b with
       | [] => [TNl; TNat (N.of_nat (List.length (mc_first c)))] ++ flat_map (fun w => [TSp; TNum w]) (mc_first c)
       | _ => []
       end
    ++ ser_gens b.

  (** ** readers: a reader consumes a prefix of the token list; [UB 90+] = the stream failed *)
  Definition reader (A : Type) := list tok -> res (A * list tok).
  Definition ret {A} (a : A) : reader A := fun t => Ok (a, t).
  Definition rbind {A B} (r : reader A) (k : A -> reader B) : reader B :=
    fun t => match r t with Ok (a, t') => k a t' | UB c => UB c end.
  Notation "'rdo' x <- r ; k" := (rbind r (fun x => k)) (at level 200, x pattern, r at level 100, k at level 200).

  Fixpoint skip_ws (t : list tok) : list tok :=
    match t with TSp :: t' | TNl :: t' => skip_ws t' | _ => t end.

  (* in >> std::size_t / in >> T / in >> ws >> engine *)
  Definition rd_nat : reader N := fun t => match skip_ws t with TNat n :: t' => Ok (n, t') | _ => UB 90 end.
  Definition rd_num : reader K := fun t => match skip_ws t with TNum x :: t' => Ok (x, t') | _ => UB 91 end.
  Definition rd_gen : reader N := fun t => match skip_ws t with TGen g :: t' => Ok (g, t') | _ => UB 92 end.

  (* if (in.peek() == '\n') in.get(); std::getline(in, name) *)
  Definition rd_name : reader string := fun t =>
    let t := match t with TNl :: t' => t' | _ => t end in
    match t with
    | TStr s :: TNl :: t' => Ok (s, t')
    | TNl :: t' => Ok (EmptyString, t')
    | _ => UB 93
    end.

  Fixpoint rd_many {A} (r : reader A) (n : nat) : reader (list A) :=
    match n with
    | O => ret []
    | S n' => rdo a <- r; rdo l <- rd_many r n'; ret (a :: l)
    end.

  Definition rd_mcres : reader (mcres K) :=
    rdo c <- rd_nat; rdo n <- rd_nat; rdo f <- rd_nat; rdo s <- rd_num; rdo ss <- rd_num;
    ret (mk_mcres c n f s ss).

  Definition rd_dparams : reader (dparams K) :=
    rdo name <- rd_name; rdo bx <- rd_nat; rdo xmin <- rd_num; rdo bsx <- rd_num;
    rdo by_ <- rd_nat; rdo ymin <- rd_num; rdo bsy <- rd_num;
    ret (mk_dparams bx by_ xmin ymin bsx bsy name).

  Definition rd_dres : reader (dres K) :=
    rdo p <- rd_dparams; rdo bins <- rd_many rd_mcres (N.to_nat (d_bx p * d_by p)); ret (mk_dres p bins).

  Definition rd_plain : reader (plainres K) :=
    rdo m <- rd_mcres; rdo n <- rd_nat; rdo ds <- rd_many rd_dres (N.to_nat n); ret (mk_plainres m ds).

  Definition rd_pdf : reader (pdf K) :=
    rdo bins <- rd_nat; rdo dims <- rd_nat;
    rdo x <- rd_many rd_num (N.to_nat ((bins + 1) * dims)); ret (mk_pdf bins dims x).

  Definition rd_vegasres : reader (vegasres K) :=
    rdo p <- rd_plain; rdo g <- rd_pdf;
    rdo adj <- rd_many rd_num (N.to_nat (pdf_bins g * pdf_dims g)); ret (mk_vegasres p g adj).

  Definition rd_mcres_mc : reader (mcres_mc K) :=
    rdo p <- rd_plain; rdo n <- rd_nat;
    rdo aw <- rd_many (rdo a <- rd_num; rdo w <- rd_num; ret (a, w)) (N.to_nat n);
    ret (mk_mcres_mc p (map fst aw) (map snd aw)).

  (* chkpt(std::istream&): skip a header line, size, results *)
  Definition rd_results {R} (rd_r : reader R) : reader (list R) := fun t =>
    let t := match t with TStr _ :: TNl :: t' => t' | _ => t end in
    (rdo n <- rd_nat; rd_many rd_r (N.to_nat n)) t.

  Definition rd_pchk : reader (pchk K) :=
    rdo rs <- rd_results rd_plain; rdo gs <- rd_many rd_gen (S (List.length rs)); ret (mk_base rs gs).

  Definition rd_vchk : reader (vchk K) :=
    rdo rs <- rd_results rd_vegasres; rdo alpha <- rd_num;
    rdo first <- match rs with [] => rdo p <- rd_pdf; ret (Some p) | _ => ret None end;
    rdo gs <- rd_many rd_gen (S (List.length rs));
    ret (mk_vchk (mk_base rs gs) alpha 0 first).

  Definition rd_mchk : reader (mchk K) :=
    rdo rs <- rd_results rd_mcres_mc; rdo beta <- rd_num; rdo minw <- rd_num;
    rdo first <- match rs with
                 | [] => rdo n <- rd_nat; rd_many rd_num (N.to_nat n)
                 | _ => ret []
                 end;
    rdo gs <- rd_many rd_gen (S (List.length rs));
    ret (mk_mchk (mk_base rs gs) beta minw first).

  Definition deser {A} (r : reader A) (t : list tok) : res A :=
    match r t with Ok (a, _) => Ok a | UB c => UB c end.
End Codec.
Arguments tok K : clear implicits.
