(** C07g - floating-point counterpart of "every sampled point lies inside the bin reported for it"
    (properties C07 and C17) for the coordinate computed by [icdf1]:
        size = rgt - lft;   x = lft + inside * size        (each operation rounded to nearest even).
    Statements only (all definitions and proofs in Lemmas_C07g.v).

    Everything is about the model's own [icdf1] / [icdf] / [bin_left] (VegasPdf.v) instantiated with
    K := NumB prec emax, Flocq's IEEE-754 binary format of precision prec and exponent bound emax, for EVERY
    format with prec >= 2 (in particular B32 = float, B64 = double, B80 = x87 long double).  Nothing is
    computed for the general theorems; they rest on Flocq's correctness theorems for [Bplus], [Bminus],
    [Bmult], on monotonicity of rounding, on [round_N_le_midp] / [pred_UP_eq_DN] (neighbouring floats and
    midpoints), on [FLT_format_plus_small] (a small difference of floats is exact) and on
    [generic_format_plus_weak] (Sterbenz-type exactness of position - floor(position)).

    Specification predicates, all in the model's own comparison operations:
    - [unit_open u], [unit_closed u] (Lemmas_C07f.v): u finite and 0 <= u < 1, resp. 0 <= u <= 1;
    - [slice_ok p d] (Lemmas_C07g.v): for every bin b < bins of dimension d both boundaries
      [bin_left p d b] = Ok l and [bin_left p d (b+1)] = Ok r exist, are finite and
      leb zero l, leb l r, leb r one hold  (a non-decreasing boundary row with values in [0,1]);
    - [point_in_bin p d b x]: b < bins, both boundaries l, r of bin b exist, x is finite and
      leb l x = true and leb x r = true.

    What is proved
    - [C07g_point_in_bin]: lft, rgt finite with lft <= rgt (any signs), inside finite with 0 <= inside < 1.
      If the bin size  size = rgt - lft  does not overflow (is finite) then inside * size and
      x = lft + inside * size are finite (no further overflow is possible) and  lft <= x <= rgt  as [leb].
      This is the full statement: the case where the subtraction is rounded UP is included.  Argument:
      lower bound by monotonicity of rounding; upper bound: if rgt - lft is representable or rounded down,
      lft + fl(inside * size) <= lft + size <= rgt; if it is rounded up then it is not representable, hence
      above 2^(emin+prec) (smaller differences of floats are exact), so size is in the normal range where
      the gap below size is < 2 * size * 2^-prec; since inside <= 1 - 2^-prec the product lies strictly below
      the midpoint of pred(size) and size and rounds to at most pred(size) = round-down(rgt - lft) <= rgt - lft;
      finally rounding lft + m <= rgt is monotone and rgt is representable.
    - [C07g_point_in_bin_unit]: for 0 <= lft <= rgt <= 1 the size cannot overflow, so no finiteness
      hypothesis on any result is needed.
    - [C07g_point_in_bin_formats]: the first theorem spelled out for float, double and long double.
    - [C07g_inside_open]: for 1 <= bins < 2^prec, bins < 2^64 and finite 0 <= v < 1, the index
      i = size_t(v * T(bins)) is defined, i < bins, and  inside = v * T(bins) - T(i)  is finite, computed
      exactly, and satisfies 0 <= inside < 1 ([unit_open]).
    - [C07g_icdf1_point_in_bin]: for such bins, a dimension with [slice_ok] and every finite u in [0,1]
      (including 0, -0, pred_one and exactly 1):  icdf1 p d u = Ok (x, b, w)  with b < bins, both boundaries
      lft = bin_left p d b and rgt = bin_left p d (b+1) exist, x is finite,
      leb lft x = true, leb x rgt = true, and 0 <= x <= 1.
    - [C07g_icdf_points_in_bins]: all dimensions: [icdf p us] is [Ok (xs, bs, w)] and the k-th coordinate
      lies in the k-th reported bin of dimension k ([point_in_bin]).

    What is NOT proved
    - Strictness: x < rgt is not claimed (and is false in general: x can round up to rgt, e.g. when the bin
      is a single ulp wide); the half-open reading "x in [lft, rgt)" holds over the reals only
      (Properties_C07.v).  Consequently x may equal the left boundary of the next bin.
    - Nothing about the weight  size * T(bins)  beyond its defining expression.
    - bins >= 2^prec (T(bins) rounded) and prec = 1 are excluded as in Properties_C07f.v.
    - NaN, infinite, negative or > 1 random numbers, and grids violating [slice_ok] (boundaries outside [0,1],
      decreasing, non-finite): nothing is claimed; for [C07g_point_in_bin] an overflowing rgt - lft is
      excluded by hypothesis. *)
From Coq Require Import ZArith NArith List Reals.
From Flocq Require Import Core BinarySingleNaN.
From HepMC Require Import Num NumB NumR Result VegasPdf Lemmas_C07f Lemmas_C07g.
Import ListNotations.

(* (1) the coordinate lies between the two boundaries; only the bin size can overflow *)
Theorem C07g_point_in_bin :
  forall (prec emax : Z) (Hprec : FLX.Prec_gt_0 prec) (Hmax : Prec_lt_emax prec emax),
    (2 <= prec)%Z ->
    forall lft rgt inside : NumB prec emax Hprec Hmax,
      let K := NumB prec emax Hprec Hmax in
      isfinite K lft = true -> isfinite K rgt = true -> leb K lft rgt = true ->
      unit_open prec emax Hprec Hmax inside ->
      let size := sub K rgt lft in
      let x := add K lft (mul K inside size) in
      isfinite K size = true ->
      isfinite K (mul K inside size) = true /\ isfinite K x = true /\
      leb K lft x = true /\ leb K x rgt = true.
Proof. exact c07g_point_in_bin. Qed.
Print Assumptions C07g_point_in_bin.

(* boundaries in [0,1]: no overflow hypothesis at all *)
Theorem C07g_point_in_bin_unit :
  forall (prec emax : Z) (Hprec : FLX.Prec_gt_0 prec) (Hmax : Prec_lt_emax prec emax),
    (2 <= prec)%Z ->
    forall lft rgt inside : NumB prec emax Hprec Hmax,
      let K := NumB prec emax Hprec Hmax in
      isfinite K lft = true -> isfinite K rgt = true ->
      leb K (zero K) lft = true -> leb K lft rgt = true -> leb K rgt (one K) = true ->
      unit_open prec emax Hprec Hmax inside ->
      let size := sub K rgt lft in
      let x := add K lft (mul K inside size) in
      isfinite K size = true /\ isfinite K (mul K inside size) = true /\ isfinite K x = true /\
      leb K lft x = true /\ leb K x rgt = true.
Proof. exact c07g_point_in_bin_unit. Qed.
Print Assumptions C07g_point_in_bin_unit.

(* (1) for float, double and x87 long double *)
Theorem C07g_point_in_bin_formats :
  (forall lft rgt inside : B32,
     isfinite B32 lft = true -> isfinite B32 rgt = true -> leb B32 lft rgt = true ->
     unit_open 24 128 P24 M24 inside -> isfinite B32 (sub B32 rgt lft) = true ->
     leb B32 lft (add B32 lft (mul B32 inside (sub B32 rgt lft))) = true /\
     leb B32 (add B32 lft (mul B32 inside (sub B32 rgt lft))) rgt = true) /\
  (forall lft rgt inside : B64,
     isfinite B64 lft = true -> isfinite B64 rgt = true -> leb B64 lft rgt = true ->
     unit_open 53 1024 P53 M53 inside -> isfinite B64 (sub B64 rgt lft) = true ->
     leb B64 lft (add B64 lft (mul B64 inside (sub B64 rgt lft))) = true /\
     leb B64 (add B64 lft (mul B64 inside (sub B64 rgt lft))) rgt = true) /\
  (forall lft rgt inside : B80,
     isfinite B80 lft = true -> isfinite B80 rgt = true -> leb B80 lft rgt = true ->
     unit_open 64 16384 P64 M64 inside -> isfinite B80 (sub B80 rgt lft) = true ->
     leb B80 lft (add B80 lft (mul B80 inside (sub B80 rgt lft))) = true /\
     leb B80 (add B80 lft (mul B80 inside (sub B80 rgt lft))) rgt = true).
Proof. exact c07g_point_in_bin_formats. Qed.
Print Assumptions C07g_point_in_bin_formats.

(* (2) the offset inside the bin is exact and lies in [0,1) *)
Theorem C07g_inside_open :
  forall (prec emax : Z) (Hprec : FLX.Prec_gt_0 prec) (Hmax : Prec_lt_emax prec emax),
    (2 <= prec)%Z ->
    forall (bins : N) (v : NumB prec emax Hprec Hmax),
      let K := NumB prec emax Hprec Hmax in
      (1 <= bins)%N -> (Z.of_N bins < 2 ^ prec)%Z -> (bins < 2 ^ 64)%N ->
      unit_open prec emax Hprec Hmax v ->
      exists i, trunc K (mul K v (ofN K bins)) = Some i /\ (i < bins)%N /\
        unit_open prec emax Hprec Hmax (sub K (mul K v (ofN K bins)) (ofN K i)).
Proof. exact c07g_inside_open. Qed.
Print Assumptions C07g_inside_open.

(* (3) one dimension of the inverse CDF: the point lies in the reported bin *)
Theorem C07g_icdf1_point_in_bin :
  forall (prec emax : Z) (Hprec : FLX.Prec_gt_0 prec) (Hmax : Prec_lt_emax prec emax),
    (2 <= prec)%Z ->
    forall (p : pdf (NumB prec emax Hprec Hmax)) (d : N) (u : NumB prec emax Hprec Hmax),
      let K := NumB prec emax Hprec Hmax in
      (1 <= pdf_bins p)%N -> (Z.of_N (pdf_bins p) < 2 ^ prec)%Z -> (pdf_bins p < 2 ^ 64)%N ->
      slice_ok prec emax Hprec Hmax p d -> unit_closed prec emax Hprec Hmax u ->
      exists x b w lft rgt,
        icdf1 p d u = Ok (x, b, w) /\ (b < pdf_bins p)%N /\
        bin_left p d b = Ok lft /\ bin_left p d (b + 1) = Ok rgt /\
        isfinite K x = true /\ leb K lft x = true /\ leb K x rgt = true /\
        leb K (zero K) x = true /\ leb K x (one K) = true.
Proof. exact c07g_icdf1_point_in_bin. Qed.
Print Assumptions C07g_icdf1_point_in_bin.

(* all dimensions *)
Theorem C07g_icdf_points_in_bins :
  forall (prec emax : Z) (Hprec : FLX.Prec_gt_0 prec) (Hmax : Prec_lt_emax prec emax),
    (2 <= prec)%Z ->
    forall (p : pdf (NumB prec emax Hprec Hmax)) (us : list (NumB prec emax Hprec Hmax)),
      (1 <= pdf_bins p)%N -> (Z.of_N (pdf_bins p) < 2 ^ prec)%Z -> (pdf_bins p < 2 ^ 64)%N ->
      (forall k, (k < length us)%nat -> slice_ok prec emax Hprec Hmax p (N.of_nat k)) ->
      Forall (unit_closed prec emax Hprec Hmax) us ->
      exists xs bs w, icdf p us = Ok (xs, bs, w) /\
        length xs = length us /\ length bs = length us /\
        forall k x b, nth_error xs k = Some x -> nth_error bs k = Some b ->
          point_in_bin prec emax Hprec Hmax p (N.of_nat k) b x.
Proof. exact c07g_icdf_points_in_bins. Qed.
Print Assumptions C07g_icdf_points_in_bins.

(** Non-vacuity.  All values are computed through the wire representation [Bout] inside boolean checks. *)

(* float: lft = 5 * 2^-26, rgt = inside = 1 - 2^-24 satisfy the hypotheses of (1).  The exact difference
   1 - 2.25 * 2^-24 is rounded UP to size = 16777214 * 2^-24 (the difficult case); inside * size rounds to
   16777213 * 2^-24 and the point is 16777214 * 2^-24 <= rgt = 16777215 * 2^-24 *)
Example C07g_ex_point :
  isfinite B32 ex07g_lft = true /\ isfinite B32 ex07g_rgt = true /\ leb B32 ex07g_lft ex07g_rgt = true /\
  unit_open 24 128 P24 M24 ex07g_inside /\ isfinite B32 ex07g_size = true /\
  Bout 24 128 ex07g_lft = OFin false 10485760 (-47) /\
  Bout 24 128 ex07g_rgt = OFin false 16777215 (-24) /\
  Bout 24 128 ex07g_size = OFin false 16777214 (-24) /\
  Bout 24 128 (mul B32 ex07g_inside ex07g_size) = OFin false 16777213 (-24) /\
  Bout 24 128 ex07g_x = OFin false 16777214 (-24).
Proof. exact ex07g_point. Qed.

(* the starting grid [uniform_pdf 2 3] in float satisfies the hypotheses of (3) and of the all-dimension
   theorem in both dimensions; u = 1 in dimension 1 reports bin 2 = [fl(2/3), 1] = [11184811 * 2^-24, 1]
   and the point 16777214 * 2^-24 *)
Example C07g_ex_grid :
  (1 <= pdf_bins ex07f_p)%N /\ (Z.of_N (pdf_bins ex07f_p) < 2 ^ 24)%Z /\ (pdf_bins ex07f_p < 2 ^ 64)%N /\
  slice_ok 24 128 P24 M24 ex07f_p 0 /\ slice_ok 24 128 P24 M24 ex07f_p 1 /\
  unit_closed 24 128 P24 M24 (one B32) /\
  exists x w l r, icdf1 ex07f_p 1 (one B32) = Ok (x, 2%N, w) /\
    bin_left ex07f_p 1 2 = Ok l /\ bin_left ex07f_p 1 3 = Ok r /\
    Bout 24 128 l = OFin false 11184811 (-24) /\ Bout 24 128 x = OFin false 16777214 (-24) /\
    Bout 24 128 r = OFin false 8388608 (-23).
Proof. exact ex07g_grid. Qed.
