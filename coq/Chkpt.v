(** * Chkpt: chkpt.hpp, plain_chkpt.hpp, vegas_chkpt.hpp, multi_channel_chkpt.hpp (after the
    rollback repairs).  A generator is a position in the stream of canonical numbers.
    No proofs in this file. *)
From Coq Require Import ZArith NArith List Bool.
From HepMC Require Import Num Result VegasPdf MultiChannel.
Import ListNotations.

Section Chkpt.
  Context {K : Num}.
  Context (L : Libm K).

  (** chkpt_with_rng<R, chkpt<Result>>: results and results + 1 generators *)
  Record base (R : Type) := mk_base { b_results : list R; b_gens : list N }.
  Arguments mk_base {R}. Arguments b_results {R}. Arguments b_gens {R}.

  Definition base_init {R} (g : N) : base R := mk_base [] [g].
  Definition base_add {R} (b : base R) (r : R) (g : N) : base R :=
    mk_base (b_results b ++ [r]) (b_gens b ++ [g]).
  (* generators_.back(): undefined on an empty vector *)
  Definition base_gen {R} (b : base R) : res N :=
    match rev (b_gens b) with g :: _ => Ok g | [] => UB 40 end.
  (* rollback(iteration): throws if iteration > results.size() *)
  Definition base_rollback {R} (b : base R) (k : N) : res (base R) :=
    if (N.of_nat (length (b_results b)) <? k)%N then UB 41
    else Ok (mk_base (firstn (N.to_nat k) (b_results b)) (firstn (S (N.to_nat k)) (b_gens b))).

  (** PLAIN *)
  Definition pchk := base (plainres K).

  (** VEGAS: alpha, the bin count of the default constructor, and the optional first grid *)
  Record vchk := mk_vchk { vc_base : base (vegasres K); vc_alpha : K; vc_bins : N; vc_first : option (pdf K) }.

  Definition vchk_default (bins : N) (alpha : K) (g : N) : vchk := mk_vchk (base_init g) alpha bins None.
  Definition vchk_user (p : pdf K) (alpha : K) (g : N) : vchk := mk_vchk (base_init g) alpha 0 (Some p).

  (* chkpt.dimensions(d) *)
  Definition vchk_dimensions (c : vchk) (d : N) : vchk :=
    match b_results (vc_base c), vc_first c with
    | [], None => mk_vchk (vc_base c) (vc_alpha c) (vc_bins c) (Some (uniform_pdf d (vc_bins c)))
    | _, _ => c
    end.

  (* chkpt.pdf(): the first grid, or the refinement of the last result *)
  Definition vchk_pdf (c : vchk) : res (pdf K) :=
    match rev (b_results (vc_base c)) with
    | [] => match vc_first c with Some p => Ok p | None => UB 42 end
    | r :: _ => refine_pdf L (v_pdf r) (vc_alpha c) (v_adj r)
    end.

  Definition vchk_add (c : vchk) (r : vegasres K) (g : N) : vchk :=
    mk_vchk (base_add (vc_base c) r g) (vc_alpha c) (vc_bins c) (vc_first c).

  Definition vchk_rollback (c : vchk) (k : N) : res vchk :=
    let first := match k, b_results (vc_base c) with
                 | 0%N, r :: _ => Some (v_pdf r)
                 | _, _ => vc_first c
                 end in
    do b <- base_rollback (vc_base c) k;
    Ok (mk_vchk b (vc_alpha c) (vc_bins c) first).

  (** multi-channel: beta, minimum weight, first weights (empty = not set yet) *)
  Record mchk := mk_mchk { mc_base : base (mcres_mc K); mc_beta : K; mc_minw : K; mc_first : list K }.

  Definition mchk_default (minw beta : K) (g : N) : mchk := mk_mchk (base_init g) beta minw [].
  Definition mchk_user (ws : list K) (minw beta : K) (g : N) : res mchk :=
    do first <- refine_weights L ws (repeat (one K) (length ws)) minw beta;
    Ok (mk_mchk (base_init g) beta minw first).

  (* chkpt.channels(n) *)
  Definition mchk_channels (c : mchk) (n : N) : mchk :=
    match mc_first c with
    | [] => mk_mchk (mc_base c) (mc_beta c) (mc_minw c) (repeat (div K (one K) (ofN K n)) (N.to_nat n))
    | _ => c
    end.

  Definition mchk_weights (c : mchk) : res (list K) :=
    match rev (b_results (mc_base c)) with
    | [] => Ok (mc_first c)
    | r :: _ => refine_weights L (m_weights r) (m_adj r) (mc_minw c) (mc_beta c)
    end.

  Definition mchk_add (c : mchk) (r : mcres_mc K) (g : N) : mchk :=
    mk_mchk (base_add (mc_base c) r g) (mc_beta c) (mc_minw c) (mc_first c).

  Definition mchk_rollback (c : mchk) (k : N) : res mchk :=
    let first := match k, b_results (mc_base c) with
                 | 0%N, r :: _ => m_weights r
                 | _, _ => mc_first c
                 end in
    do b <- base_rollback (mc_base c) k;
    Ok (mk_mchk b (mc_beta c) (mc_minw c) first).
End Chkpt.
Arguments mk_base {R}. Arguments b_results {R}. Arguments b_gens {R}.
Arguments vchk K : clear implicits.
Arguments mchk K : clear implicits.
Arguments pchk K : clear implicits.
