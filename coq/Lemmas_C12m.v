(** Lemmas for C12m: the protocol of the MPI drivers ([Mpi.v], all ranks side by side): iterations in order,
    one callback invocation per rank and performed iteration, stop exactly at the first "false", return the
    checkpoint the last callback saw.  The relation [MExec] defined here is also what C19m and C10m build on. *)
From Coq Require Import ZArith NArith List Bool Lia.
From HepMC Require Import Num Translated Result Accum VegasPdf Discrete MultiChannel Helper Iter Chkpt Callback Run Mpi
  Lemmas_Run Lemmas_C16 Lemmas_C10 Lemmas_C12 Lemmas_C04.
Import ListNotations.

Section Generic.
  Context {K : Num}.
  Variables (C S R : Type).
  Variable world : N.
  Variable perm : list N.
  Variable sub_calls : Z -> Z -> Z -> Z.
  Variable usage : N.
  Variable local_iter : S -> N -> N -> N -> res (R * N * N * list (event K)).
  Variable plain_of : R -> plainres K.
  Variable extra_of : R -> list K.
  Variable rebuild : S -> plainres K -> list K -> R.
  Variable addc : C -> R -> N -> C.
  Variable cb : N -> C -> bool.
  Variable refine : C -> S -> R -> res S.
  Variable Inv : S -> Prop.

  Notation rstate := (rank_state C S).
  Notation rlog := (@rank_log K C).
  Notation mpi_it := (mpi_iteration C S R world perm sub_calls usage local_iter plain_of extra_of rebuild addc cb refine).
  Notation mpi_lp := (mpi_loop C S R world perm sub_calls usage local_iter plain_of extra_of rebuild addc cb refine).

  (** the common data of one performed iteration of all ranks: the calls, the checkpoint / generator / adaptive
      state all ranks held before it, the result all ranks added, the checkpoint all ranks handed to their
      callback, and the common answer *)
  Record miter := mk_miter { mi_calls : N; mi_prev : C; mi_gen : N; mi_aux : S; mi_result : R; mi_chk : C; mi_go : bool }.

  (** [ls] = the ranks' log records of that iteration (entry r = rank r): one record = the local part of the
      iteration followed by exactly one callback invocation on [rl_chk] with answer [rl_continue] *)
  Definition miter_ok (ls : list rlog) (t : miter) : Prop :=
    length ls = N.to_nat world /\
    (exists pl ex, mi_result t = rebuild (mi_aux t) pl ex) /\
    mi_chk t = addc (mi_prev t) (mi_result t) (mi_gen t + usage * mi_calls t)%N /\
    mi_go t = cb 0%N (mi_chk t) /\
    forall r l, nth_error ls r = Some l ->
      rl_chk l = mi_chk t /\ rl_continue l = cb (N.of_nat r) (rl_chk l) /\ rl_continue l = mi_go t /\
      (* rank r sampled its share of the calls with the common adaptive state, from its part of the stream *)
      exists idx lr g2 idx',
        local_iter (mi_aux t) (rk_sub world sub_calls (mi_calls t) (N.of_nat r))
                   (mi_gen t + usage * rk_before world (mi_calls t) (N.of_nat r))%N idx
          = Ok (lr, g2, idx', rl_events l).

  (** [MExec cs c g a logs tr c' g' a' rest]: from the common checkpoint c, generator g, adaptive state a the
      ranks perform the iterations [tr] (logs [logs]) for a prefix of [cs] and end with c', g', a';
      [rest] = the requested iterations NOT performed *)
  Inductive MExec : list N -> C -> N -> S -> list (list rlog) -> list miter -> C -> N -> S -> list N -> Prop :=
  | MDone c g a : MExec [] c g a [] [] c g a []
  | MStop calls cs c g a ls t :
      miter_ok ls t -> mi_calls t = calls -> mi_prev t = c -> mi_gen t = g -> mi_aux t = a -> mi_go t = false ->
      MExec (calls :: cs) c g a [ls] [t] (mi_chk t) (g + usage * calls)%N a cs
  | MGo calls cs c g a ls t a1 logs tr c' g' a' rest :
      miter_ok ls t -> mi_calls t = calls -> mi_prev t = c -> mi_gen t = g -> mi_aux t = a -> mi_go t = true ->
      refine (mi_chk t) a (mi_result t) = Ok a1 ->
      MExec cs (mi_chk t) (g + usage * calls)%N a1 logs tr c' g' a' rest ->
      MExec (calls :: cs) c g a (ls :: logs) (t :: tr) c' g' a' rest.

  (** *** one iteration *)
  Lemma miter_of_iteration calls sts c g a sts' ls go :
    world_ok world -> sub_calls_ok sub_calls -> cost_ok usage local_iter Inv -> refine_ok refine Inv ->
    template_ok local_iter plain_of extra_of Inv -> perm_ok world perm -> cb_rank_independent cb ->
    (calls < 2 ^ 64)%N -> length sts = N.to_nat world -> agree c g a sts -> Inv a ->
    mpi_it calls sts = Ok (sts', ls, go) ->
    exists t a', miter_ok ls t /\ mi_calls t = calls /\ mi_prev t = c /\ mi_gen t = g /\ mi_aux t = a /\ mi_go t = go /\
      (if go then refine (mi_chk t) a (mi_result t) else Ok a) = Ok a' /\
      agree (mi_chk t) (g + usage * calls)%N a' sts' /\ length sts' = N.to_nat world /\ Inv a'.
  Proof.
    intros Hw Hs Hcost Hrf Htm Hp Hcb Hc Hlen Hag HI Hrun.
    destruct (mapM_idx (local_part C S R world sub_calls usage local_iter calls) 0 sts) as [locals|code] eqn:Hm.
    2:{ unfold mpi_iteration in Hrun. rewrite Hm in Hrun. discriminate. }
    destruct (mpi_iteration_eq C S R world perm sub_calls usage local_iter plain_of extra_of rebuild addc cb refine Inv
                calls sts c g a locals Hw Hs Hcost Hc Hlen Hag HI (Htm a HI) Hp Hcb Hm) as (tbuf & nbuf & pl & ex & _ & _ & _ & E).
    cbv zeta in E. rewrite E in Hrun. clear E.
    destruct (locals_facts C S R world sub_calls usage local_iter Inv calls sts c g a locals Hw Hs Hcost Hc Hlen Hag HI Hm) as [Ll Lf].
    set (G := (g + usage * calls)%N) in *. set (result := rebuild a pl ex) in *. set (c' := addc c result G) in *.
    apply bind_Ok in Hrun as (aux' & Er & Hrun). injection Hrun as <- <- <-.
    exists (mk_miter calls c g a result c' (cb 0%N c')), aux'. cbn [mi_calls mi_prev mi_gen mi_aux mi_result mi_chk mi_go].
    split; [|split; [reflexivity|split; [reflexivity|split; [reflexivity|split; [reflexivity|split; [reflexivity|split; [exact Er|]]]]]]].
    - unfold miter_ok. cbn [mi_calls mi_prev mi_gen mi_aux mi_result mi_chk mi_go].
      split; [rewrite map_length; exact Ll|]. split; [exists pl, ex; reflexivity|]. split; [reflexivity|]. split; [reflexivity|].
      intros r l Hn. rewrite nth_error_map in Hn. destruct (nth_error locals r) as [x|] eqn:Ex; [|discriminate].
      injection Hn as <-. cbn [rl_chk rl_continue rl_events].
      split; [reflexivity|]. split; [apply Hcb|]. split; [reflexivity|].
      destruct (Lf r x Ex) as (st & _ & _ & _ & Hl). eexists _, _, _, _. exact Hl.
    - split; [|split].
      + apply Forall_forall. intros st Hst. apply in_map_iff in Hst as (x & <- & _). cbn. auto.
      + rewrite map_length. exact Ll.
      + destruct (cb 0%N c'); [exact (Hrf _ _ _ _ HI Er)|injection Er as <-; exact HI].
  Qed.

  (** *** the loop *)
  Lemma mpi_loop_acc cs : forall sts log,
    mpi_lp cs sts log = match mpi_lp cs sts [] with Ok (s, ls) => Ok (s, rev log ++ ls) | UB e => UB e end.
  Proof.
    induction cs as [|calls cs IH]; intros sts log; cbn [mpi_loop].
    - rewrite app_nil_r. reflexivity.
    - destruct (mpi_it calls sts) as [[[sts1 ls] go]|code]; cbn [bind]; [|reflexivity].
      destruct go.
      + rewrite (IH _ (ls :: log)), (IH _ [ls]).
        destruct (mpi_lp cs sts1 []) as [[s2 ls2]|e]; [|reflexivity].
        cbn [rev app]. rewrite <- app_assoc. reflexivity.
      + cbn [rev app]. reflexivity.
  Qed.

  Lemma mpi_loop_mexec cs : forall sts c g a sts' logs,
    world_ok world -> sub_calls_ok sub_calls -> cost_ok usage local_iter Inv -> refine_ok refine Inv ->
    template_ok local_iter plain_of extra_of Inv -> perm_ok world perm -> cb_rank_independent cb ->
    Forall (fun calls => (calls < 2 ^ 64)%N) cs -> length sts = N.to_nat world -> agree c g a sts -> Inv a ->
    mpi_lp cs sts [] = Ok (sts', logs) ->
    exists tr c' g' a' rest, MExec cs c g a logs tr c' g' a' rest /\
      agree c' g' a' sts' /\ length sts' = N.to_nat world /\ Inv a'.
  Proof.
    induction cs as [|calls cs IH]; intros sts c g a sts' logs Hw Hs Hcost Hrf Htm Hp Hcb Hcs Hlen Hag HI Hrun; cbn [mpi_loop] in Hrun.
    - injection Hrun as <- <-. exists [], c, g, a, []. split; [constructor|auto].
    - pose proof (Forall_inv Hcs) as Hc. pose proof (Forall_inv_tail Hcs) as Hcs'. cbv beta in Hc.
      destruct (mpi_it calls sts) as [[[sts1 ls] go]|code] eqn:Eit; cbn [bind] in Hrun; [|discriminate].
      destruct (miter_of_iteration calls sts c g a sts1 ls go Hw Hs Hcost Hrf Htm Hp Hcb Hc Hlen Hag HI Eit)
        as (t & a1 & Hok & E1 & E2 & E3 & E4 & E5 & Er & Hag1 & Hl1 & HI1).
      destruct go.
      + rewrite mpi_loop_acc in Hrun.
        destruct (mpi_lp cs sts1 []) as [[s2 ls2]|e] eqn:E2'; [|discriminate]. injection Hrun as <- <-. cbn [rev app].
        destruct (IH sts1 _ _ _ _ _ Hw Hs Hcost Hrf Htm Hp Hcb Hcs' Hl1 Hag1 HI1 E2') as (tr & c' & g' & a' & rest & Hex & Hfin).
        exists (t :: tr), c', g', a', rest. split; [|exact Hfin]. eapply MGo; eauto.
      + injection Hrun as <- <-. cbn [rev app]. injection Er as <-.
        exists [t], (mi_chk t), (g + usage * calls)%N, a, cs. split; [|auto]. eapply MStop; eauto.
  Qed.

  (** *** consequences of [MExec] *)
  Lemma mexec_length cs c g a logs tr c' g' a' rest :
    MExec cs c g a logs tr c' g' a' rest -> length tr = length logs /\ length cs = (length logs + length rest)%nat.
  Proof.
    induction 1 as [c g a|calls cs c g a ls t Hok E1 E2 E3 E4 E5|calls cs c g a ls t a1 logs tr c' g' a' rest Hok E1 E2 E3 E4 E5 Er Hex [IH1 IH2]];
      cbn [length]; split; lia.
  Qed.

  (* iteration i of the run is iteration i of the request, performed by all ranks *)
  Lemma mexec_nth cs c g a logs tr c' g' a' rest :
    MExec cs c g a logs tr c' g' a' rest ->
    forall i ls, nth_error logs i = Some ls ->
      exists t, nth_error tr i = Some t /\ miter_ok ls t /\ nth_error cs i = Some (mi_calls t) /\
                mi_gen t = (g + usage * sumN (firstn i cs))%N.
  Proof.
    induction 1 as [c g a|calls cs c g a ls t Hok E1 E2 E3 E4 E5|calls cs c g a ls t a1 logs tr c' g' a' rest Hok E1 E2 E3 E4 E5 Er Hex IH];
      intros i ls0 Hn.
    - destruct i; discriminate.
    - destruct i as [|i]; [|destruct i; discriminate]. injection Hn as <-. exists t. cbn [nth_error firstn sumN fold_right].
      rewrite E1, E3. split; [reflexivity|]. split; [exact Hok|]. split; [reflexivity|lia].
    - destruct i as [|i].
      + injection Hn as <-. exists t. cbn [nth_error firstn sumN fold_right]. rewrite E1, E3.
        split; [reflexivity|]. split; [exact Hok|]. split; [reflexivity|lia].
      + cbn [nth_error] in Hn. destruct (IH i ls0 Hn) as (t' & H1 & H2 & H3 & H4). exists t'. cbn [nth_error].
        split; [exact H1|]. split; [exact H2|]. split; [exact H3|]. rewrite H4.
        cbn [firstn sumN fold_right]. fold (sumN (firstn i cs)). rewrite N.mul_add_distr_l. lia.
  Qed.

  (* how the common data is threaded from one iteration to the next *)
  Lemma mexec_chain cs c g a logs tr c' g' a' rest :
    MExec cs c g a logs tr c' g' a' rest ->
    (forall t, nth_error tr 0 = Some t -> mi_prev t = c /\ mi_gen t = g /\ mi_aux t = a) /\
    (forall i t t', nth_error tr i = Some t -> nth_error tr (Datatypes.S i) = Some t' ->
       mi_go t = true /\ mi_prev t' = mi_chk t /\ mi_gen t' = (mi_gen t + usage * mi_calls t)%N /\
       refine (mi_chk t) (mi_aux t) (mi_result t) = Ok (mi_aux t')).
  Proof.
    induction 1 as [c g a|calls cs c g a ls t Hok E1 E2 E3 E4 E5|calls cs c g a ls t a1 logs tr c' g' a' rest Hok E1 E2 E3 E4 E5 Er Hex [IH1 IH2]].
    - split; [intros t H; discriminate|intros [|i] t t' H; discriminate].
    - split; [intros t0 H; injection H as <-; auto|]. intros [|i] t0 t' H H'; [discriminate|destruct i; discriminate].
    - split; [intros t0 H; injection H as <-; auto|]. intros [|i] t0 t' H H'.
      + injection H as <-. cbn [nth_error] in H'. destruct (IH1 t' H') as (P1 & P2 & P3).
        rewrite P1, P2, P3, E1, E3, E4. auto.
      + cbn [nth_error] in H, H'. exact (IH2 i t0 t' H H').
  Qed.

  (* the answers: "continue" after every iteration but possibly the last; iterations are skipped only
     because the last answer was "stop"; a "continue" as last answer means nothing was skipped *)
  Lemma mexec_continue cs c g a logs tr c' g' a' rest :
    MExec cs c g a logs tr c' g' a' rest ->
    Forall (fun t => mi_go t = true) (removelast tr) /\
    (rest <> [] -> exists tr0 t, tr = tr0 ++ [t] /\ mi_go t = false) /\
    (forall tr0 t, tr = tr0 ++ [t] -> mi_go t = true -> rest = []).
  Proof.
    induction 1 as [c g a|calls cs c g a ls t Hok E1 E2 E3 E4 E5|calls cs c g a ls t a1 logs tr c' g' a' rest Hok E1 E2 E3 E4 E5 Er Hex IH].
    - split; [constructor|]. split; [intros H; congruence|]. intros tr0 t Eq. destruct tr0; discriminate.
    - split; [constructor|]. split.
      + intros _. exists [], t. auto.
      + intros tr0 t1 Eq Hl. destruct tr0 as [|x tr0]; [|destruct tr0; discriminate]. injection Eq as <-. congruence.
    - destruct IH as (IH1 & IH2 & IH3). split; [|split].
      + destruct tr as [|t1 tr]; [constructor|]. cbn [removelast]. constructor; auto.
      + intros Hr. destruct (IH2 Hr) as (tr0 & t1 & -> & Hl). exists (t :: tr0), t1. auto.
      + intros tr0 t1 Eq Hl. destruct tr0 as [|x tr0].
        * injection Eq as Q1 Q2. subst. inversion Hex; subst; auto.
        * injection Eq as Q1 Q2. subst. eapply IH3; eauto.
  Qed.

  (* what the ranks hold at the end *)
  Lemma mexec_result cs c g a logs tr c' g' a' rest :
    MExec cs c g a logs tr c' g' a' rest ->
    c' = match rev tr with t :: _ => mi_chk t | [] => c end /\
    g' = (g + usage * sumN (firstn (length logs) cs))%N /\
    match rev tr with
    | t :: _ => if mi_go t then refine (mi_chk t) (mi_aux t) (mi_result t) = Ok a' else a' = mi_aux t
    | [] => a' = a
    end.
  Proof.
    induction 1 as [c g a|calls cs c g a ls t Hok E1 E2 E3 E4 E5|calls cs c g a ls t a1 logs tr c' g' a' rest Hok E1 E2 E3 E4 E5 Er Hex (IH1 & IH2 & IH3)].
    - cbn. split; [reflexivity|]. split; [lia|reflexivity].
    - cbn [rev app length firstn sumN fold_right]. rewrite E5. split; [reflexivity|]. split; [f_equal; f_equal; lia|auto].
    - split; [|split].
      + rewrite IH1. cbn [rev]. destruct (rev tr) as [|t1 r]; reflexivity.
      + rewrite IH2. cbn [length firstn sumN fold_right]. fold (sumN (firstn (length logs) cs)). rewrite N.mul_add_distr_l. lia.
      + cbn [rev]. destruct (rev tr) as [|t1 r] eqn:Erev.
        * cbn [app]. assert (tr = []) by (apply (f_equal (@rev _)) in Erev; rewrite rev_involutive in Erev; exact Erev). subst tr.
          inversion Hex; subst. rewrite E5. exact Er.
        * cbn [app]. exact IH3.
  Qed.

  (* number of results in the checkpoint handed to the callbacks of iteration i *)
  Lemma mexec_sizes (size : C -> nat) :
    (forall c r g, size (addc c r g) = Datatypes.S (size c)) ->
    forall cs c g a logs tr c' g' a' rest, MExec cs c g a logs tr c' g' a' rest ->
    forall i t, nth_error tr i = Some t -> size (mi_chk t) = (size c + i + 1)%nat.
  Proof.
    intros Hsize cs c g a logs tr c' g' a' rest Hex.
    induction Hex as [c g a|calls cs c g a ls t Hok E1 E2 E3 E4 E5|calls cs c g a ls t a1 logs tr c' g' a' rest Hok E1 E2 E3 E4 E5 Er Hex IH];
      intros i t0 Hn.
    - destruct i; discriminate.
    - destruct i as [|i]; [|destruct i; discriminate]. injection Hn as <-.
      destruct Hok as (_ & _ & Eq & _). rewrite Eq, Hsize, E2. lia.
    - destruct i as [|i].
      + injection Hn as <-. destruct Hok as (_ & _ & Eq & _). rewrite Eq, Hsize, E2. lia.
      + cbn [nth_error] in Hn. rewrite (IH i t0 Hn). destruct Hok as (_ & _ & Eq & _). rewrite Eq, Hsize, E2. lia.
  Qed.
  (** *** the same, told by the ranks' own log records *)
  Lemma miter_ok_all ls t : miter_ok ls t -> Forall (fun l => rl_continue l = mi_go t /\ rl_chk l = mi_chk t) ls.
  Proof.
    intros (_ & _ & _ & _ & H). apply Forall_forall. intros l Hl. apply In_nth_error in Hl as (r & Hr).
    destruct (H r l Hr) as (H1 & _ & H3 & _). auto.
  Qed.

  Lemma mexec_ranks cs c g a logs tr c' g' a' rest :
    MExec cs c g a logs tr c' g' a' rest ->
    (* every rank answered "continue" after every iteration but possibly the last *)
    Forall (fun ls => Forall (fun l => rl_continue l = true) ls) (removelast logs) /\
    (* iterations are skipped only because every rank's last answer was "stop" *)
    (rest <> [] -> exists logs0 ls, logs = logs0 ++ [ls] /\ Forall (fun l => rl_continue l = false) ls) /\
    (* and a single "continue" among the last answers means nothing was skipped *)
    (forall logs0 ls l, logs = logs0 ++ [ls] -> In l ls -> rl_continue l = true -> rest = []) /\
    (* the common checkpoint at the end is the one every rank's last callback saw *)
    match rev logs with ls :: _ => Forall (fun l => rl_chk l = c') ls | [] => c' = c end.
  Proof.
    induction 1 as [c g a|calls cs c g a ls t Hok E1 E2 E3 E4 E5|calls cs c g a ls t a1 logs tr c' g' a' rest Hok E1 E2 E3 E4 E5 Er Hex IH].
    - split; [constructor|]. split; [intros H; congruence|]. split; [|reflexivity]. intros logs0 ls l Eq. destruct logs0; discriminate.
    - pose proof (miter_ok_all ls t Hok) as Hall. rewrite Forall_forall in Hall.
      split; [constructor|]. split; [|split].
      + intros _. exists [], ls. split; [reflexivity|]. apply Forall_forall. intros l Hl. destruct (Hall l Hl) as [-> _]. exact E5.
      + intros logs0 ls1 l Eq Hl Hc. destruct logs0 as [|x logs0]; [|destruct logs0; discriminate]. injection Eq as <-.
        destruct (Hall l Hl) as [Q _]. congruence.
      + cbn [rev app]. apply Forall_forall. intros l Hl. apply (Hall l Hl).
    - pose proof (miter_ok_all ls t Hok) as Hall. rewrite Forall_forall in Hall.
      destruct IH as (IH1 & IH2 & IH3 & IH4). split; [|split; [|split]].
      + destruct logs as [|l1 logs]; [constructor|]. cbn [removelast]. constructor; [|exact IH1].
        apply Forall_forall. intros l Hl. destruct (Hall l Hl) as [-> _]. exact E5.
      + intros Hr. destruct (IH2 Hr) as (logs0 & ls1 & -> & Hl). exists (ls :: logs0), ls1. auto.
      + intros logs0 ls1 l Eq Hl Hc. destruct logs0 as [|x logs0].
        * injection Eq as Q1 Q2. subst. inversion Hex; subst; auto.
        * injection Eq as Q1 Q2. subst. eapply IH3; eauto.
      + cbn [rev]. destruct (rev logs) as [|l1 r] eqn:Erev; [|exact IH4]. cbn [app].
        assert (logs = []) by (apply (f_equal (@rev _)) in Erev; rewrite rev_involutive in Erev; exact Erev). subst logs.
        inversion Hex; subst. apply Forall_forall. intros l Hl. apply (Hall l Hl).
  Qed.

  (* "a checkpoint holding exactly the results so far", for every rank *)
  Lemma mexec_rank_sizes (size : C -> nat) :
    (forall c r g, size (addc c r g) = Datatypes.S (size c)) ->
    forall cs c g a logs tr c' g' a' rest, MExec cs c g a logs tr c' g' a' rest ->
    forall i ls l, nth_error logs i = Some ls -> In l ls -> size (rl_chk l) = (size c + i + 1)%nat.
  Proof.
    intros Hsize cs c g a logs tr c' g' a' rest Hex i ls l Hn Hl.
    destruct (mexec_nth _ _ _ _ _ _ _ _ _ _ Hex i ls Hn) as (t & Ht & Hok & _).
    pose proof (miter_ok_all ls t Hok) as Hall. rewrite Forall_forall in Hall. destruct (Hall l Hl) as [_ ->].
    eapply mexec_sizes; eauto.
  Qed.
End Generic.
Arguments mk_miter {C S R}. Arguments mi_calls {C S R}. Arguments mi_prev {C S R}. Arguments mi_gen {C S R}.
Arguments mi_aux {C S R}. Arguments mi_result {C S R}. Arguments mi_chk {C S R}. Arguments mi_go {C S R}.

(** the decision recorded for an iteration is the callback's answer on the checkpoint of that iteration *)
Lemma mexec_go {K : Num} {C S R : Type} world sub_calls usage (local_iter : S -> N -> N -> N -> res (R * N * N * list (event K)))
    rebuild (addc : C -> R -> N -> C) cb refine cs c g a logs tr c' g' a' rest :
  MExec C S R world sub_calls usage local_iter rebuild addc cb refine cs c g a logs tr c' g' a' rest ->
  Forall (fun t => mi_go t = cb 0%N (mi_chk t)) tr.
Proof.
  induction 1 as [c g a|calls cs c g a ls t Hok E1 E2 E3 E4 E5|calls cs c g a ls t a1 logs tr c' g' a' rest Hok E1 E2 E3 E4 E5 Er Hex IH].
  - constructor.
  - constructor; [|constructor]. apply Hok.
  - constructor; [apply Hok|exact IH].
Qed.

(** everything at once (the statement of C12m_protocol) *)
Lemma c12m_protocol {K : Num} {C S R : Type} world sub_calls usage (local_iter : S -> N -> N -> N -> res (R * N * N * list (event K)))
    rebuild (addc : C -> R -> N -> C) cb refine cs c g a logs tr c' g' a' rest :
  MExec C S R world sub_calls usage local_iter rebuild addc cb refine cs c g a logs tr c' g' a' rest ->
  (* performed ++ skipped = requested, in order; one trace entry per performed iteration *)
  (length tr = length logs /\ length cs = (length logs + length rest)%nat) /\
  (* iteration i of the run is iteration i of the request, and was one lock-step iteration of all ranks *)
  (forall i ls, nth_error logs i = Some ls ->
     exists t, nth_error tr i = Some t /\ miter_ok C S R world sub_calls usage local_iter rebuild addc cb ls t /\
               nth_error cs i = Some (mi_calls t) /\ mi_gen t = (g + usage * sumN (firstn i cs))%N) /\
  (* the first iteration starts from the given data, iteration i+1 from what iteration i left *)
  ((forall t, nth_error tr 0 = Some t -> mi_prev t = c /\ mi_gen t = g /\ mi_aux t = a) /\
   (forall i t t', nth_error tr i = Some t -> nth_error tr (Datatypes.S i) = Some t' ->
      mi_go t = true /\ mi_prev t' = mi_chk t /\ mi_gen t' = (mi_gen t + usage * mi_calls t)%N /\
      refine (mi_chk t) (mi_aux t) (mi_result t) = Ok (mi_aux t'))) /\
  (* "continue" after every iteration but possibly the last; skipped iterations only after a "stop";
     a final "continue" means nothing was skipped *)
  (Forall (fun t => mi_go t = true) (removelast tr) /\
   (rest <> [] -> exists tr0 t, tr = tr0 ++ [t] /\ mi_go t = false) /\
   (forall tr0 t, tr = tr0 ++ [t] -> mi_go t = true -> rest = [])) /\
  (* the checkpoint / generator / adaptive state the ranks end with *)
  (c' = match rev tr with t :: _ => mi_chk t | [] => c end /\
   g' = (g + usage * sumN (firstn (length logs) cs))%N /\
   match rev tr with
   | t :: _ => if mi_go t then refine (mi_chk t) (mi_aux t) (mi_result t) = Ok a' else a' = mi_aux t
   | [] => a' = a
   end).
Proof.
  intros H. split; [eapply mexec_length; exact H|]. split; [eapply mexec_nth; exact H|].
  split; [eapply mexec_chain; exact H|]. split; [eapply mexec_continue; exact H|eapply mexec_result; exact H].
Qed.

(** the protocol in terms of the ranks' records only (no trace): what C12 says, for every rank *)
Definition rank_protocol {K : Num} {C S : Type} (world : N) (size : C -> nat) (cb : N -> C -> bool) (cs : list N) (c : C)
    (sts' : list (rank_state C S)) (logs : list (list (@rank_log K C))) : Prop :=
  (* a prefix of the requested iterations is performed; one state per rank is returned *)
  (length logs <= length cs)%nat /\ length sts' = N.to_nat world /\
  (* iteration i: one record per rank = exactly one callback invocation per rank, all on the same checkpoint,
     which holds exactly the results so far; each answer is the rank's callback's answer on it *)
  (forall i ls, nth_error logs i = Some ls -> length ls = N.to_nat world /\
     exists ci, size ci = (size c + i + 1)%nat /\
       forall r l, nth_error ls r = Some l -> rl_chk l = ci /\ rl_continue l = cb (N.of_nat r) ci) /\
  (* every rank answered "continue" after every iteration but possibly the last *)
  Forall (fun ls => Forall (fun l => rl_continue l = true) ls) (removelast logs) /\
  (* iterations are skipped only because every rank's last answer was "stop" *)
  (length logs < length cs -> exists logs0 ls, logs = logs0 ++ [ls] /\ Forall (fun l => rl_continue l = false) ls) /\
  (* a "continue" among the last answers means nothing was skipped *)
  (forall logs0 ls l, logs = logs0 ++ [ls] -> In l ls -> rl_continue l = true -> length logs = length cs) /\
  (* every rank returns the checkpoint its last callback saw (the starting one if nothing was requested) *)
  (forall st, In st sts' -> match rev logs with ls :: _ => forall l, In l ls -> rs_chk st = rl_chk l | [] => rs_chk st = c end).

Lemma rank_protocol_intro {K : Num} {C S R : Type} world sub_calls usage (local_iter : S -> N -> N -> N -> res (R * N * N * list (event K)))
    rebuild (addc : C -> R -> N -> C) cb refine (size : C -> nat) cs c g a logs tr c' g' a' rest sts' :
  (forall c r g, size (addc c r g) = Datatypes.S (size c)) ->
  MExec C S R world sub_calls usage local_iter rebuild addc cb refine cs c g a logs tr c' g' a' rest ->
  agree c' g' a' sts' -> length sts' = N.to_nat world ->
  rank_protocol world size cb cs c sts' logs.
Proof.
  intros Hsize Hex Hag Hlen.
  destruct (mexec_length _ _ _ _ _ _ _ _ _ _ _ _ _ _ _ _ _ _ _ _ _ Hex) as [Hl1 Hl2].
  destruct (mexec_ranks _ _ _ _ _ _ _ _ _ _ _ _ _ _ _ _ _ _ _ _ _ Hex) as (H1 & H2 & H3 & H4).
  split; [lia|]. split; [exact Hlen|]. split; [|split; [exact H1|split; [|split]]].
  - intros i ls Hn. destruct (mexec_nth _ _ _ _ _ _ _ _ _ _ _ _ _ _ _ _ _ _ _ _ _ Hex i ls Hn) as (t & Ht & Hok & _).
    split; [apply Hok|]. exists (mi_chk t). split; [eapply mexec_sizes; eauto|].
    intros r l Hr. destruct Hok as (_ & _ & _ & _ & Hranks). destruct (Hranks r l Hr) as (Q1 & Q2 & _). rewrite <- Q1. auto.
  - intros Hlt. apply H2. intros ->. cbn in Hl2. lia.
  - intros logs0 ls l Eq Hl Hc. rewrite (H3 logs0 ls l Eq Hl Hc) in Hl2. cbn in Hl2. lia.
  - intros st Hst. unfold agree in Hag. rewrite Forall_forall in Hag. destruct (Hag st Hst) as (E1 & _).
    destruct (rev logs) as [|ls r]; [congruence|]. rewrite Forall_forall in H4. intros l Hl. rewrite (H4 l Hl). exact E1.
Qed.

(** where a run with the built-in decision ends, told by the ranks' log records: no target => every requested
    iteration is performed; positive target => no rank saw the target reached before the last performed
    iteration, and if iterations were skipped every rank saw it reached at the last performed one *)
Definition builtin_stops {K : Num} {C : Type} (mains : C -> list (mcres K)) (target : K) (cs : list N)
    (logs : list (list (@rank_log K C))) : Prop :=
  (ltb K (zero K) target = false -> length logs = length cs) /\
  (ltb K (zero K) target = true ->
     Forall (fun ls => Forall (fun l => leb K (rel_err_all (mains (rl_chk l))) target = false) ls) (removelast logs) /\
     (length logs < length cs -> exists logs0 ls, logs = logs0 ++ [ls] /\
        Forall (fun l => leb K (rel_err_all (mains (rl_chk l))) target = true) ls)).

(** the built-in decision *)
Section Builtin.
  Context {K : Num}.
  Variables (C S R : Type).
  Variable world : N.
  Variable sub_calls : Z -> Z -> Z -> Z.
  Variable usage : N.
  Variable local_iter : S -> N -> N -> N -> res (R * N * N * list (event K)).
  Variable rebuild : S -> plainres K -> list K -> R.
  Variable addc : C -> R -> N -> C.
  Variable cb : N -> C -> bool.
  Variable refine : C -> S -> R -> res S.
  Variable mains : C -> list (mcres K).
  Variable target : K.
  (* every rank's callback answers with the built-in decision (mpi_callback in any mode) *)
  Hypothesis cb_builtin : forall r c, cb r c = decide target (mains c).
  Notation MExec := (MExec C S R world sub_calls usage local_iter rebuild addc cb refine).

  Lemma c12m_no_target cs c g a logs tr c' g' a' rest :
    ltb K (zero K) target = false -> MExec cs c g a logs tr c' g' a' rest ->
    rest = [] /\ length logs = length cs.
  Proof.
    intros Ht H. assert (Hr : rest = []).
    { destruct rest as [|x rest]; [reflexivity|].
      destruct (mexec_continue _ _ _ _ _ _ _ _ _ _ _ _ _ _ _ _ _ _ _ _ _ H) as (_ & H2 & _).
      destruct H2 as (tr0 & t & -> & Hg); [congruence|].
      pose proof (mexec_go _ _ _ _ _ _ _ _ _ _ _ _ _ _ _ _ _ _ H) as Hgo. rewrite Forall_forall in Hgo.
      rewrite (Hgo t), cb_builtin, decide_no_target in Hg by (auto; apply in_or_app; right; left; reflexivity). discriminate. }
    split; [exact Hr|]. destruct (mexec_length _ _ _ _ _ _ _ _ _ _ _ _ _ _ _ _ _ _ _ _ _ H) as [_ E]. subst rest. cbn in E. lia.
  Qed.

  Lemma c12m_target cs c g a logs tr c' g' a' rest :
    ltb K (zero K) target = true -> MExec cs c g a logs tr c' g' a' rest ->
    (* not before: after every iteration but the last the combined relative error was not <= target *)
    Forall (fun t => leb K (rel_err_all (mains (mi_chk t))) target = false) (removelast tr) /\
    (* iterations were skipped only because the last performed one reached the target *)
    (length logs < length cs -> exists tr0 t, tr = tr0 ++ [t] /\ leb K (rel_err_all (mains (mi_chk t))) target = true) /\
    (* and a performed iteration that reached the target is the last one *)
    (forall i t, nth_error tr i = Some t -> leb K (rel_err_all (mains (mi_chk t))) target = true -> Datatypes.S i = length tr).
  Proof.
    intros Ht H.
    destruct (mexec_continue _ _ _ _ _ _ _ _ _ _ _ _ _ _ _ _ _ _ _ _ _ H) as (H1 & H2 & _).
    destruct (mexec_length _ _ _ _ _ _ _ _ _ _ _ _ _ _ _ _ _ _ _ _ _ H) as [Hl1 Hl2].
    pose proof (mexec_go _ _ _ _ _ _ _ _ _ _ _ _ _ _ _ _ _ _ H) as Hgo. rewrite Forall_forall in Hgo.
    assert (Hd : forall t, In t tr -> mi_go t = negb (leb K (rel_err_all (mains (mi_chk t))) target)).
    { intros t Hin. rewrite (Hgo t Hin), cb_builtin. apply decide_target. exact Ht. }
    assert (Hrm : forall t, In t (removelast tr) -> In t tr).
    { intros t Hin. destruct tr as [|x tr0]; [contradiction|].
      rewrite (app_removelast_last x) by congruence. apply in_or_app. left. exact Hin. }
    split; [|split].
    - rewrite Forall_forall in *. intros t Hin. specialize (H1 t Hin). rewrite (Hd t (Hrm t Hin)) in H1.
      destruct (leb K _ target); [discriminate|reflexivity].
    - intros Hlt. destruct rest as [|x rest]; [cbn in Hl2; lia|].
      destruct H2 as (tr0 & t & -> & Hc); [congruence|]. exists tr0, t. split; [reflexivity|].
      rewrite Hd in Hc by (apply in_or_app; right; left; reflexivity).
      destruct (leb K _ target); [reflexivity|discriminate].
    - intros i t Hn Hle. assert (Hi : (i < length tr)%nat) by (apply nth_error_Some; congruence).
      destruct (Nat.eq_dec (Datatypes.S i) (length tr)) as [E|E]; [exact E|exfalso].
      assert (Hin : In t (removelast tr)).
      { destruct tr as [|x tr0]; [cbn in Hi; lia|].
        assert (Eq : x :: tr0 = removelast (x :: tr0) ++ [last (x :: tr0) x]) by (apply app_removelast_last; congruence).
        assert (Hlen : length (removelast (x :: tr0)) = length tr0).
        { apply (f_equal (@length _)) in Eq. rewrite app_length in Eq. cbn [length] in Eq. lia. }
        rewrite Eq in Hn. rewrite nth_error_app1 in Hn by (cbn [length] in *; lia). eapply nth_error_In; exact Hn. }
      rewrite Forall_forall in H1. specialize (H1 t Hin). rewrite (Hd t (Hrm t Hin)), Hle in H1. discriminate.
  Qed.
  Lemma c12m_builtin_ranks cs c g a logs tr c' g' a' rest :
    MExec cs c g a logs tr c' g' a' rest -> builtin_stops mains target cs logs.
  Proof.
    intros H. split; [intros Ht; exact (proj2 (c12m_no_target _ _ _ _ _ _ _ _ _ _ Ht H))|]. intros Ht.
    destruct (mexec_ranks _ _ _ _ _ _ _ _ _ _ _ _ _ _ _ _ _ _ _ _ _ H) as (H1 & H2 & _).
    destruct (mexec_length _ _ _ _ _ _ _ _ _ _ _ _ _ _ _ _ _ _ _ _ _ H) as [_ Hl2].
    assert (Hd : forall ls l, In ls logs -> In l ls -> rl_continue l = negb (leb K (rel_err_all (mains (rl_chk l))) target)).
    { intros ls l Hls Hl. apply In_nth_error in Hls as (i & Hi). apply In_nth_error in Hl as (r & Hr).
      destruct (mexec_nth _ _ _ _ _ _ _ _ _ _ _ _ _ _ _ _ _ _ _ _ _ H i ls Hi) as (t & _ & (_ & _ & _ & _ & Hok) & _).
      destruct (Hok r l Hr) as (_ & Q & _). rewrite Q, cb_builtin. apply decide_target. exact Ht. }
    split.
    - rewrite Forall_forall in *. intros ls Hls. apply Forall_forall. intros l Hl.
      assert (Hin : In ls logs).
      { destruct logs as [|x logs0]; [contradiction|]. rewrite (app_removelast_last x) by congruence. apply in_or_app. left. exact Hls. }
      pose proof (H1 ls Hls) as Q. rewrite Forall_forall in Q. specialize (Q l Hl). rewrite (Hd ls l Hin Hl) in Q.
      destruct (leb K _ target); [discriminate|reflexivity].
    - intros Hlt. destruct rest as [|x rest]; [cbn in Hl2; lia|].
      destruct H2 as (logs0 & ls & -> & Hc); [congruence|]. exists logs0, ls. split; [reflexivity|].
      rewrite Forall_forall in *. intros l Hl. specialize (Hc l Hl).
      rewrite (Hd ls l) in Hc by (auto; apply in_or_app; right; left; reflexivity).
      destruct (leb K _ target); [reflexivity|discriminate].
  Qed.
End Builtin.

(** ** the three drivers *)
Section Drivers.
  Context {K : Num}.
  Context (L : Libm K).
  Variable strm : N -> K.
  Variable ps : list (dparams K).
  Variable f : integrand K.
  Variable world : N.
  Variable perm : list N.

  Lemma ranks_agree {C S} (c : C) g (a : S) idx : agree c g a (ranks world (mk_rank_state c g a idx)) /\
    length (ranks world (mk_rank_state c g a idx)) = N.to_nat world.
  Proof.
    split; [|unfold ranks; apply repeat_length].
    unfold ranks, agree. apply Forall_forall. intros st Hst. apply repeat_spec in Hst. subst st. cbn. auto.
  Qed.

  (* [MExec] for the three drivers *)
  Definition plain_MExec (d : nat) (cb : N -> pchk K -> bool) :=
    MExec (pchk K) unit (plainres K) world sub_calls_plain (N.of_nat d) (plain_li strm ps f d) (fun _ pl _ => pl) base_add cb noref.
  Definition vegas_MExec (dims : N) (cb : N -> vchk K -> bool) :=
    MExec (vchk K) (pdf K) (vegasres K) world sub_calls_vegas dims (vegas_li strm ps f) (fun p pl ex => mk_vegasres pl p ex) vchk_add cb (vegas_ref L).
  Definition mc_MExec (mp : mcmap K) (d : nat) (cb : N -> mchk K -> bool) :=
    MExec (mchk K) (list K) (mcres_mc K) world sub_calls_multi_channel (N.of_nat d + 1) (mc_li strm ps f mp d)
      (fun ws pl ex => mk_mcres_mc pl ex ws) mchk_add cb (mc_ref L).

  Lemma c12m_plain_exec d cb cs (c : pchk K) idx sts' logs :
    world_ok world -> perm_ok world perm -> cb_rank_independent cb -> Forall (fun calls => (calls < 2 ^ 64)%N) cs ->
    mpi_plain_run strm ps f world perm d cb cs c idx = Ok (sts', logs) ->
    exists g tr c' g' a' rest, base_gen c = Ok g /\ plain_MExec d cb cs c g tt logs tr c' g' a' rest /\
      agree c' g' a' sts' /\ length sts' = N.to_nat world.
  Proof.
    intros Hw Hp Hcb Hcs Hrun. unfold mpi_plain_run in Hrun. apply bind_Ok in Hrun as (g & Hg & Hrun).
    destruct (ranks_agree c g tt idx) as [Hag Hlen].
    destruct (mpi_loop_mexec (pchk K) unit (plainres K) world perm sub_calls_plain (N.of_nat d) (plain_li strm ps f d) (fun r => r) (fun _ => [])
                (fun _ pl _ => pl) base_add cb noref triv cs _ c g tt sts' logs Hw sub_plain_ok (plain_cost strm ps f d) noref_ok
                (plain_template strm ps f d) Hp Hcb Hcs Hlen Hag I Hrun) as (tr & c' & g' & a' & rest & Hex & H1 & H2 & _).
    exists g, tr, c', g', a', rest. auto.
  Qed.

  Lemma c12m_vegas_exec d cb cs (c : vchk K) idx sts' logs :
    world_ok world -> perm_ok world perm -> cb_rank_independent cb -> Forall (fun calls => (calls < 2 ^ 64)%N) cs ->
    mpi_vegas_run L strm ps f world perm d cb cs c idx = Ok (sts', logs) ->
    exists g p tr c' g' a' rest, base_gen (vc_base (vchk_dimensions c d)) = Ok g /\ vchk_pdf L (vchk_dimensions c d) = Ok p /\
      vegas_MExec (pdf_dims p) cb cs (vchk_dimensions c d) g p logs tr c' g' a' rest /\
      agree c' g' a' sts' /\ length sts' = N.to_nat world /\ pdf_dims a' = pdf_dims p.
  Proof.
    intros Hw Hp Hcb Hcs Hrun. unfold mpi_vegas_run in Hrun. cbv zeta in Hrun.
    apply bind_Ok in Hrun as (g & Hg & Hrun). apply bind_Ok in Hrun as (p & Hpdf & Hrun).
    destruct (ranks_agree (vchk_dimensions c d) g p idx) as [Hag Hlen].
    destruct (mpi_loop_mexec (vchk K) (pdf K) (vegasres K) world perm sub_calls_vegas (pdf_dims p) (vegas_li strm ps f) (@v_plain K) (@v_adj K)
                (fun p pl ex => mk_vegasres pl p ex) vchk_add cb (vegas_ref L) (dims_inv (pdf_dims p)) cs _ (vchk_dimensions c d) g p sts' logs
                Hw sub_vegas_ok (vegas_cost strm ps f _) (vegas_refine_ok L _) (vegas_template strm ps f _) Hp Hcb Hcs Hlen Hag eq_refl Hrun)
      as (tr & c' & g' & a' & rest & Hex & H1 & H2 & H3).
    exists g, p, tr, c', g', a', rest. auto 8.
  Qed.

  Lemma c12m_mc_exec mp d channels cb cs (c : mchk K) idx sts' logs :
    world_ok world -> perm_ok world perm -> cb_rank_independent cb -> Forall (fun calls => (calls < 2 ^ 64)%N) cs ->
    mpi_mc_run L strm ps f world perm mp d channels cb cs c idx = Ok (sts', logs) ->
    exists g ws tr c' g' a' rest, base_gen (mc_base (mchk_channels c channels)) = Ok g /\ mchk_weights L (mchk_channels c channels) = Ok ws /\
      mc_MExec mp d cb cs (mchk_channels c channels) g ws logs tr c' g' a' rest /\
      agree c' g' a' sts' /\ length sts' = N.to_nat world.
  Proof.
    intros Hw Hp Hcb Hcs Hrun. unfold mpi_mc_run in Hrun. cbv zeta in Hrun.
    apply bind_Ok in Hrun as (g & Hg & Hrun). apply bind_Ok in Hrun as (ws & Hws & Hrun).
    destruct (ranks_agree (mchk_channels c channels) g ws idx) as [Hag Hlen].
    destruct (mpi_loop_mexec (mchk K) (list K) (mcres_mc K) world perm sub_calls_multi_channel (N.of_nat d + 1) (mc_li strm ps f mp d) (@m_plain K) (@m_adj K)
                (fun ws pl ex => mk_mcres_mc pl ex ws) mchk_add cb (mc_ref L) triv cs _ (mchk_channels c channels) g ws sts' logs
                Hw sub_mc_ok (mc_cost strm ps f mp d) (mc_refine_ok L) (mc_template strm ps f mp d) Hp Hcb Hcs Hlen Hag I Hrun)
      as (tr & c' & g' & a' & rest & Hex & H1 & H2 & _).
    exists g, ws, tr, c', g', a', rest. auto 8.
  Qed.
  (* the whole protocol for the three drivers, in terms of the ranks' records *)
  Lemma c12m_plain_rank_protocol d cb cs (c : pchk K) idx sts' logs :
    world_ok world -> perm_ok world perm -> cb_rank_independent cb -> Forall (fun calls => (calls < 2 ^ 64)%N) cs ->
    mpi_plain_run strm ps f world perm d cb cs c idx = Ok (sts', logs) ->
    rank_protocol world (fun c : pchk K => length (b_results c)) cb cs c sts' logs.
  Proof.
    intros Hw Hp Hcb Hcs Hrun.
    destruct (c12m_plain_exec d cb cs c idx sts' logs Hw Hp Hcb Hcs Hrun) as (g & tr & c' & g' & a' & rest & _ & Hex & Hag & Hlen).
    eapply rank_protocol_intro; [|exact Hex|exact Hag|exact Hlen]. intros c0 r g0. apply size_pchk.
  Qed.

  Lemma c12m_vegas_rank_protocol d cb cs (c : vchk K) idx sts' logs :
    world_ok world -> perm_ok world perm -> cb_rank_independent cb -> Forall (fun calls => (calls < 2 ^ 64)%N) cs ->
    mpi_vegas_run L strm ps f world perm d cb cs c idx = Ok (sts', logs) ->
    rank_protocol world (fun c : vchk K => length (b_results (vc_base c))) cb cs (vchk_dimensions c d) sts' logs.
  Proof.
    intros Hw Hp Hcb Hcs Hrun.
    destruct (c12m_vegas_exec d cb cs c idx sts' logs Hw Hp Hcb Hcs Hrun) as (g & p & tr & c' & g' & a' & rest & _ & _ & Hex & Hag & Hlen & _).
    eapply rank_protocol_intro; [|exact Hex|exact Hag|exact Hlen]. intros c0 r g0. apply size_vchk.
  Qed.

  Lemma c12m_mc_rank_protocol mp d channels cb cs (c : mchk K) idx sts' logs :
    world_ok world -> perm_ok world perm -> cb_rank_independent cb -> Forall (fun calls => (calls < 2 ^ 64)%N) cs ->
    mpi_mc_run L strm ps f world perm mp d channels cb cs c idx = Ok (sts', logs) ->
    rank_protocol world (fun c : mchk K => length (b_results (mc_base c))) cb cs (mchk_channels c channels) sts' logs.
  Proof.
    intros Hw Hp Hcb Hcs Hrun.
    destruct (c12m_mc_exec mp d channels cb cs c idx sts' logs Hw Hp Hcb Hcs Hrun) as (g & ws & tr & c' & g' & a' & rest & _ & _ & Hex & Hag & Hlen).
    eapply rank_protocol_intro; [|exact Hex|exact Hag|exact Hlen]. intros c0 r g0. apply size_mchk.
  Qed.

  (* the built-in decision on every rank (mpi_callback in any mode): where the three drivers stop *)
  Lemma c12m_plain_builtin d cb target cs (c : pchk K) idx sts' logs :
    world_ok world -> perm_ok world perm -> Forall (fun calls => (calls < 2 ^ 64)%N) cs ->
    (forall r c, cb r c = cb_plain target c) ->
    mpi_plain_run strm ps f world perm d cb cs c idx = Ok (sts', logs) ->
    builtin_stops (fun c : pchk K => map p_main (b_results c)) target cs logs.
  Proof.
    intros Hw Hp Hcs Hcb Hrun.
    assert (Hri : cb_rank_independent cb) by (intros r r' c0; rewrite !Hcb; reflexivity).
    destruct (c12m_plain_exec d cb cs c idx sts' logs Hw Hp Hri Hcs Hrun) as (g & tr & c' & g' & a' & rest & _ & Hex & _).
    eapply c12m_builtin_ranks; [|exact Hex]. exact Hcb.
  Qed.

  Lemma c12m_vegas_builtin d cb target cs (c : vchk K) idx sts' logs :
    world_ok world -> perm_ok world perm -> Forall (fun calls => (calls < 2 ^ 64)%N) cs ->
    (forall r c, cb r c = cb_vegas target c) ->
    mpi_vegas_run L strm ps f world perm d cb cs c idx = Ok (sts', logs) ->
    builtin_stops (fun c : vchk K => map (fun r => p_main (v_plain r)) (b_results (vc_base c))) target cs logs.
  Proof.
    intros Hw Hp Hcs Hcb Hrun.
    assert (Hri : cb_rank_independent cb) by (intros r r' c0; rewrite !Hcb; reflexivity).
    destruct (c12m_vegas_exec d cb cs c idx sts' logs Hw Hp Hri Hcs Hrun) as (g & p & tr & c' & g' & a' & rest & _ & _ & Hex & _).
    eapply c12m_builtin_ranks; [|exact Hex]. exact Hcb.
  Qed.

  Lemma c12m_mc_builtin mp d channels cb target cs (c : mchk K) idx sts' logs :
    world_ok world -> perm_ok world perm -> Forall (fun calls => (calls < 2 ^ 64)%N) cs ->
    (forall r c, cb r c = cb_mc target c) ->
    mpi_mc_run L strm ps f world perm mp d channels cb cs c idx = Ok (sts', logs) ->
    builtin_stops (fun c : mchk K => map (fun r => p_main (m_plain r)) (b_results (mc_base c))) target cs logs.
  Proof.
    intros Hw Hp Hcs Hcb Hrun.
    assert (Hri : cb_rank_independent cb) by (intros r r' c0; rewrite !Hcb; reflexivity).
    destruct (c12m_mc_exec mp d channels cb cs c idx sts' logs Hw Hp Hri Hcs Hrun) as (g & ws & tr & c' & g' & a' & rest & _ & _ & Hex & _).
    eapply c12m_builtin_ranks; [|exact Hex]. exact Hcb.
  Qed.
End Drivers.

(** ** non-vacuity: C04's example run (PLAIN, double precision, 3 ranks, reduction order 2,0,1) with the built-in
    decision, four iterations requested.  Target 1/8: the ranks stop together after the second iteration (answers
    true,true,true / false,false,false), every rank's callbacks saw checkpoints with 1 and 2 results and every
    rank returns 2 results; target 0: all four iterations are performed.  Only booleans and lengths are
    computed. *)
From HepMC Require Import NumB.
Definition ex12m_target : B64 := div B64 (one B64) (ofN B64 8).
Definition ex12m_run (target : B64) :=
  mpi_plain_run ex04_strm [] ex04_f 3 [2; 0; 1]%N 2 (fun _ c => cb_plain target c) [4; 5; 7; 4]%N (base_init 0) 0.
Definition ex12m_check : bool :=
  match ex12m_run ex12m_target, ex12m_run (zero B64) with
  | Ok (sts, logs), Ok (sts0, logs0) =>
      list_eqb (list_eqb Bool.eqb) (map (map (@rl_continue B64 _)) logs) [[true; true; true]; [false; false; false]] &&
      list_eqb (list_eqb Nat.eqb) (map (map (fun l => length (b_results (rl_chk l)))) logs) [[1; 1; 1]; [2; 2; 2]]%nat &&
      list_eqb Nat.eqb (map (fun st => length (b_results (rs_chk st))) sts) [2; 2; 2]%nat &&
      Nat.eqb (length logs0) 4 &&
      ltb B64 (zero B64) ex12m_target && negb (ltb B64 (zero B64) (zero B64))
  | _, _ => false
  end.
Lemma c12m_example : ex12m_check = true /\ world_ok 3 /\ perm_ok 3 [2; 0; 1]%N /\
  (forall target, cb_rank_independent (fun (_ : N) (c : pchk B64) => cb_plain target c)) /\
  Forall (fun calls => (calls < 2 ^ 64)%N) [4; 5; 7; 4]%N.
Proof.
  split; [vm_compute; reflexivity|]. split; [unfold world_ok; lia|]. split; [split; [discriminate|repeat constructor]|].
  split; [intros target r r' c; reflexivity|repeat constructor].
Qed.
