(** Lemmas for C13: combining results obeys the documented formulas and laws
    (mc_helper.hpp: weighted_with_variance, weighted_equally, chi_square_dof, the distribution
    accumulator; mc_result.hpp: create_result, value, variance). *)
From Coq Require Import ZArith NArith Reals List Lia Lra Permutation Bool.
From Coq Require String.
From HepMC Require Import Num NumR Translated Result Helper.
Import ListNotations.
Local Open Scope R_scope.

(** ** Specification vocabulary *)

(* sums over a list of results *)
Fixpoint sumNl {A} (f : A -> N) (l : list A) : N := match l with [] => 0%N | r :: l' => (f r + sumNl f l')%N end.
Fixpoint sumRl {A} (f : A -> R) (l : list A) : R := match l with [] => 0 | r :: l' => f r + sumRl f l' end.

(* N -> R *)
Definition RN (n : N) : R := IZR (Z.of_N n).

(* a result takes part in the variance-weighted combination iff it has a finite (hence non-zero) call;
   finite_calls <= non_zero_calls, so results without non-zero calls never take part *)
Definition live {K : Num} (r : mcres K) : bool := negb (N.eqb (r_fin r) 0).
Definition lives {K : Num} (rs : list (mcres K)) : list (mcres K) := filter live rs.

(* S_i^2 > 0 for the results that take part *)
Definition pos_var (rs : list (mcres NumR)) : Prop := Forall (fun r => 0 < @variance NumR r) (lives rs).

(* sum 1/S_i^2 and sum E_i/S_i^2 over the results that take part *)
Definition Sw (rs : list (mcres NumR)) : R := sumRl (fun r => / @variance NumR r) (lives rs).
Definition Swe (rs : list (mcres NumR)) : R := sumRl (fun r => @value NumR r / @variance NumR r) (lives rs).

(* total call counter in the range where N - 1 does not wrap and is not 0 *)
Definition calls_ok (n : N) : Prop := (2 <= n < two64)%N.

(** ** generic list facts *)
Lemma sumNl_app {A} (f : A -> N) l1 l2 : sumNl f (l1 ++ l2) = (sumNl f l1 + sumNl f l2)%N.
Proof. induction l1 as [|a l IH]; cbn; [reflexivity|]. rewrite IH. lia. Qed.
Lemma sumRl_app {A} (f : A -> R) l1 l2 : sumRl f (l1 ++ l2) = sumRl f l1 + sumRl f l2.
Proof. induction l1 as [|a l IH]; cbn; [lra|]. rewrite IH. lra. Qed.
Lemma sumNl_perm {A} (f : A -> N) l1 l2 : Permutation l1 l2 -> sumNl f l1 = sumNl f l2.
Proof. induction 1; cbn; try lia; congruence. Qed.
Lemma sumRl_perm {A} (f : A -> R) l1 l2 : Permutation l1 l2 -> sumRl f l1 = sumRl f l2.
Proof. induction 1; cbn; try lra; congruence. Qed.
Lemma filter_perm {A} (p : A -> bool) l1 l2 : Permutation l1 l2 -> Permutation (filter p l1) (filter p l2).
Proof.
  induction 1 as [|x l l' HP IH|x y l|l l' l'' H1 IH1 H2 IH2]; cbn.
  - constructor.
  - destruct (p x); [constructor|]; exact IH.
  - destruct (p x), (p y); try apply Permutation_refl. apply perm_swap.
  - eapply Permutation_trans; eauto.
Qed.

Lemma RN_pos n : (1 <= n)%N -> 0 < RN n.
Proof. intros H. unfold RN. apply IZR_lt. lia. Qed.
Lemma RN_add a b : RN (a + b) = RN a + RN b.
Proof. unfold RN. rewrite N2Z.inj_add, plus_IZR. reflexivity. Qed.

(** ** value / variance / create_result over the reals *)
Lemma valueR (r : mcres NumR) : @value NumR r = r_sum r / RN (r_calls r).
Proof. unfold value, mc_value. cbn. rewrite N2Z.id. reflexivity. Qed.

Lemma wrap_pred n : calls_ok n -> Z.to_N (wrap64 (Z.of_N n - wrap64 1)) = (n - 1)%N.
Proof.
  intros [H1 H2]. unfold two64 in H2. unfold wrap64.
  change (1 mod 2 ^ 64)%Z with 1%Z. rewrite Z.mod_small by (change (2 ^ 64)%Z with 18446744073709551616%Z; lia). lia.
Qed.

Lemma RN_pred n : (1 <= n)%N -> RN (n - 1) = RN n - 1.
Proof. intros H. unfold RN. rewrite N2Z.inj_sub by lia. rewrite minus_IZR. reflexivity. Qed.

Lemma varianceR (r : mcres NumR) : calls_ok (r_calls r) ->
  @variance NumR r = (r_sumsq r - r_sum r * r_sum r / RN (r_calls r)) / RN (r_calls r) / (RN (r_calls r) - 1).
Proof.
  intros H. unfold variance, mc_variance. rewrite (wrap_pred _ H). cbn. rewrite N2Z.id.
  fold (RN (r_calls r)). fold (RN (r_calls r - 1)). rewrite RN_pred by (destruct H; lia). reflexivity.
Qed.

Lemma mk_result_counters {K : Num} n nz fin (e s : K) :
  r_calls (mk_result n nz fin e s) = n /\ r_nz (mk_result n nz fin e s) = nz /\ r_fin (mk_result n nz fin e s) = fin.
Proof. unfold mk_result, create_result. cbn. rewrite !N2Z.id. auto. Qed.

Lemma mk_resultR n nz fin (e s : R) : calls_ok n ->
  @mk_result NumR n nz fin e s = @mk_mcres NumR n nz fin (RN n * e) (RN n * (e * e + (RN n - 1) * s * s)).
Proof.
  intros H. unfold mk_result, create_result. rewrite (wrap_pred _ H). cbn. rewrite !N2Z.id.
  fold (RN n). fold (RN (n - 1)). rewrite RN_pred by (destruct H; lia). reflexivity.
Qed.

(* value needs only calls >= 1 *)
Lemma mk_result_value n nz fin (e s : R) : (1 <= n)%N -> @value NumR (@mk_result NumR n nz fin e s) = e.
Proof.
  intros H. rewrite valueR. destruct (@mk_result_counters NumR n nz fin e s) as (-> & _ & _).
  unfold mk_result, create_result. cbn. rewrite N2Z.id. fold (RN n).
  pose proof (RN_pos n H). field. lra.
Qed.

Lemma mk_result_variance n nz fin (e s : R) : calls_ok n -> @variance NumR (@mk_result NumR n nz fin e s) = s * s.
Proof.
  intros H. rewrite mk_resultR by exact H. rewrite varianceR by exact H. cbn.
  assert (2 <= RN n). { unfold RN. apply IZR_le. destruct H. lia. }
  field. lra.
Qed.

Lemma c13_create_result_inverse n nz fin (e s : R) : calls_ok n ->
  let r := @mk_result NumR n nz fin e s in
  r_calls r = n /\ r_nz r = nz /\ r_fin r = fin /\
  @value NumR r = e /\ @variance NumR r = s * s /\ @error NumR r = Rabs s /\ (0 <= s -> @error NumR r = s).
Proof.
  intros H r. destruct (@mk_result_counters NumR n nz fin e s) as (H1 & H2 & H3).
  split; [exact H1|]. split; [exact H2|]. split; [exact H3|].
  split; [apply mk_result_value; destruct H; lia|].
  split; [apply mk_result_variance; exact H|].
  assert (E : @error NumR r = Rabs s).
  { unfold error, r. rewrite mk_result_variance by exact H. cbn. apply sqrt_Rsqr_abs. }
  split; [exact E|]. intros Hs. rewrite E. apply Rabs_right. lra.
Qed.

(** ** weighted_with_variance: the call counters (any numeric type) *)
Section Counters.
  Context {K : Num}.

  Lemma wwv_step_counters (a : @wacc K) r :
    w_calls (wwv_step a r) = (w_calls a + r_calls r)%N /\ w_nz (wwv_step a r) = (w_nz a + r_nz r)%N /\
    w_fin (wwv_step a r) = (w_fin a + r_fin r)%N.
  Proof. unfold wwv_step. destruct (N.eqb (r_fin r) 0); cbn; auto. Qed.

  Lemma wwv_fold_counters rs : forall (a : @wacc K),
    w_calls (fold_left wwv_step rs a) = (w_calls a + sumNl r_calls rs)%N /\
    w_nz (fold_left wwv_step rs a) = (w_nz a + sumNl r_nz rs)%N /\
    w_fin (fold_left wwv_step rs a) = (w_fin a + sumNl r_fin rs)%N.
  Proof.
    induction rs as [|r rs IH]; intros a; cbn [fold_left sumNl].
    - rewrite !N.add_0_r. auto.
    - destruct (IH (wwv_step a r)) as (H1 & H2 & H3). destruct (wwv_step_counters a r) as (G1 & G2 & G3).
      rewrite H1, H2, H3, G1, G2, G3. repeat split; lia.
  Qed.

  Lemma wwv_shape (rs : list (mcres K)) : exists e s,
    weighted_with_variance rs = mk_result (sumNl r_calls rs) (sumNl r_nz rs) (sumNl r_fin rs) e s.
  Proof.
    unfold weighted_with_variance.
    destruct (wwv_fold_counters rs (mk_wacc 0 0 0 (zero K) (zero K))) as (H1 & H2 & H3). cbn in H1, H2, H3.
    rewrite H1, H2, H3. destruct (N.eqb (sumNl r_fin rs) 0); eexists; eexists; reflexivity.
  Qed.

  Lemma c13_wwv_counters (rs : list (mcres K)) :
    r_calls (weighted_with_variance rs) = sumNl r_calls rs /\
    r_nz (weighted_with_variance rs) = sumNl r_nz rs /\
    r_fin (weighted_with_variance rs) = sumNl r_fin rs.
  Proof. destruct (wwv_shape rs) as (e & s & ->). apply mk_result_counters. Qed.

  Lemma lives_cons (r : mcres K) rs : lives (r :: rs) = if live r then r :: lives rs else lives rs.
  Proof. reflexivity. Qed.

  Lemma lives_nil_iff (rs : list (mcres K)) : sumNl r_fin rs = 0%N <-> lives rs = [].
  Proof.
    induction rs as [|r rs IH]; cbn [sumNl]; [split; reflexivity|]. rewrite lives_cons. unfold live.
    destruct (N.eqb_spec (r_fin r) 0) as [E|E]; cbn [negb].
    - rewrite E, N.add_0_l. exact IH.
    - split; [lia|discriminate].
  Qed.

  Lemma live_false (r : mcres K) : r_fin r = 0%N -> live r = false.
  Proof. intros H. unfold live. rewrite H. reflexivity. Qed.
End Counters.

(** ** weighted_with_variance over the reals *)
Notation valR := (@value NumR).
Notation varR := (@variance NumR).
Notation errR := (@error NumR).
Notation wwvR := (@weighted_with_variance NumR).

Lemma wwv_stepR (a : @wacc NumR) r :
  wwv_step a r = @mk_wacc NumR (w_calls a + r_calls r) (w_nz a + r_nz r) (w_fin a + r_fin r)
                   (w_est a + (if live r then valR r / varR r else 0)) (w_var a + (if live r then / varR r else 0)).
Proof.
  unfold wwv_step, live. destruct (N.eqb (r_fin r) 0); cbn [negb].
  - f_equal; lra.
  - cbn. f_equal; unfold Rdiv; lra.
Qed.

Lemma wwv_foldR rs : forall (a : @wacc NumR),
  fold_left wwv_step rs a = @mk_wacc NumR (w_calls a + sumNl r_calls rs) (w_nz a + sumNl r_nz rs) (w_fin a + sumNl r_fin rs)
                              (w_est a + Swe rs) (w_var a + Sw rs).
Proof.
  induction rs as [|r rs IH]; intros a; cbn [fold_left sumNl].
  - unfold Swe, Sw. cbn. rewrite !N.add_0_r, !Rplus_0_r. destruct a; reflexivity.
  - rewrite IH, wwv_stepR. cbn [w_calls w_nz w_fin w_est w_var]. unfold Swe, Sw. rewrite lives_cons.
    destruct (live r); cbn [sumRl]; f_equal; try lia; lra.
Qed.

(* the whole function in closed form *)
Lemma wwv_closed rs :
  wwvR rs =
  if N.eqb (sumNl r_fin rs) 0
  then @mk_result NumR (sumNl r_calls rs) (sumNl r_nz rs) (sumNl r_fin rs) (Swe rs) (sqrt (Sw rs))
  else @mk_result NumR (sumNl r_calls rs) (sumNl r_nz rs) (sumNl r_fin rs) (Swe rs / Sw rs) (sqrt (/ Sw rs)).
Proof.
  unfold weighted_with_variance. rewrite wwv_foldR. cbn [w_calls w_nz w_fin w_est w_var].
  rewrite !N.add_0_l. destruct (N.eqb (sumNl r_fin rs) 0); cbn; rewrite !Rplus_0_l; unfold Rdiv; rewrite ?Rmult_1_l; reflexivity.
Qed.

Lemma c13_wwv_perm rs rs' : Permutation rs rs' -> wwvR rs = wwvR rs'.
Proof.
  intros H. rewrite !wwv_closed.
  rewrite (sumNl_perm r_calls _ _ H), (sumNl_perm r_nz _ _ H), (sumNl_perm r_fin _ _ H).
  assert (HL : Permutation (lives rs) (lives rs')) by (apply filter_perm; exact H).
  unfold Swe, Sw. rewrite (sumRl_perm _ _ _ HL), (sumRl_perm (fun r => / varR r) _ _ HL). reflexivity.
Qed.

Lemma Sw_pos rs : pos_var rs -> lives rs <> [] -> 0 < Sw rs.
Proof.
  unfold pos_var, Sw. induction (lives rs) as [|r l IH]; intros HP HN; [congruence|].
  inversion HP as [|? ? Hr Hl]; subst. cbn [sumRl]. pose proof (Rinv_0_lt_compat _ Hr).
  destruct l as [|r' l']; [cbn [sumRl]; lra|]. assert (0 < sumRl (fun r => / varR r) (r' :: l')) by (apply IH; [exact Hl|discriminate]). lra.
Qed.

Lemma c13_wwv_formula rs : pos_var rs -> lives rs <> [] -> calls_ok (sumNl r_calls rs) ->
  valR (wwvR rs) = Swe rs / Sw rs /\ varR (wwvR rs) = / Sw rs /\ errR (wwvR rs) = sqrt (/ Sw rs).
Proof.
  intros HP HN HC. rewrite wwv_closed.
  destruct (N.eqb_spec (sumNl r_fin rs) 0) as [E|E]; [apply lives_nil_iff in E; contradiction|].
  pose proof (Sw_pos rs HP HN) as HS. pose proof (Rinv_0_lt_compat _ HS) as HI.
  assert (V : varR (@mk_result NumR (sumNl r_calls rs) (sumNl r_nz rs) (sumNl r_fin rs) (Swe rs / Sw rs) (sqrt (/ Sw rs))) = / Sw rs).
  { rewrite mk_result_variance by exact HC. apply sqrt_sqrt. lra. }
  split; [apply mk_result_value; destruct HC; lia|]. split; [exact V|].
  unfold error. rewrite V. reflexivity.
Qed.

(* the combined estimate is a convex combination of the E_i *)
Lemma Swe_lower lo rs : pos_var rs -> Forall (fun r => lo <= valR r) (lives rs) -> lo * Sw rs <= Swe rs.
Proof.
  unfold pos_var, Sw, Swe. induction (lives rs) as [|r l IH]; intros HP HL; cbn [sumRl]; [lra|].
  inversion HP as [|? ? Hr Hl]; subst. inversion HL as [|? ? Lr Ll]; subst.
  specialize (IH Hl Ll). pose proof (Rinv_0_lt_compat _ Hr) as Hi.
  unfold Rdiv. assert (lo * / varR r <= valR r * / varR r) by (apply Rmult_le_compat_r; lra). lra.
Qed.
Lemma Swe_upper hi rs : pos_var rs -> Forall (fun r => valR r <= hi) (lives rs) -> Swe rs <= hi * Sw rs.
Proof.
  unfold pos_var, Sw, Swe. induction (lives rs) as [|r l IH]; intros HP HL; cbn [sumRl]; [lra|].
  inversion HP as [|? ? Hr Hl]; subst. inversion HL as [|? ? Lr Ll]; subst.
  specialize (IH Hl Ll). pose proof (Rinv_0_lt_compat _ Hr) as Hi.
  unfold Rdiv. assert (valR r * / varR r <= hi * / varR r) by (apply Rmult_le_compat_r; lra). lra.
Qed.

Lemma c13_wwv_between rs : pos_var rs -> lives rs <> [] -> calls_ok (sumNl r_calls rs) ->
  (forall lo, Forall (fun r => lo <= valR r) (lives rs) -> lo <= valR (wwvR rs)) /\
  (forall hi, Forall (fun r => valR r <= hi) (lives rs) -> valR (wwvR rs) <= hi).
Proof.
  intros HP HN HC. destruct (c13_wwv_formula rs HP HN HC) as (-> & _ & _).
  pose proof (Sw_pos rs HP HN) as HS. pose proof (Rinv_0_lt_compat _ HS) as HI.
  split.
  - intros lo HL. pose proof (Swe_lower lo rs HP HL) as H.
    replace lo with (lo * Sw rs / Sw rs) by (field; lra). unfold Rdiv. apply Rmult_le_compat_r; lra.
  - intros hi HL. pose proof (Swe_upper hi rs HP HL) as H.
    replace hi with (hi * Sw rs / Sw rs) by (field; lra). unfold Rdiv. apply Rmult_le_compat_r; lra.
Qed.

Lemma Sw_ge r l : Forall (fun r => 0 < varR r) l -> In r l -> / varR r <= sumRl (fun r => / varR r) l.
Proof.
  induction l as [|x l IH]; intros HP HI; [destruct HI|]. inversion HP as [|? ? Hx Hl]; subst. cbn [sumRl].
  assert (0 <= sumRl (fun r => / varR r) l).
  { clear -Hl. induction l as [|y l IH]; cbn [sumRl]; [lra|]. inversion Hl; subst. pose proof (Rinv_0_lt_compat (varR y)). specialize (IH H2). lra. }
  destruct HI as [->|HI].
  - lra.
  - specialize (IH Hl HI). pose proof (Rinv_0_lt_compat _ Hx). lra.
Qed.

Lemma c13_wwv_error_le rs : pos_var rs -> calls_ok (sumNl r_calls rs) ->
  forall r, In r (lives rs) -> varR (wwvR rs) <= varR r /\ errR (wwvR rs) <= errR r.
Proof.
  intros HP HC r Hr. assert (HN : lives rs <> []) by (intros E; rewrite E in Hr; destruct Hr).
  destruct (c13_wwv_formula rs HP HN HC) as (_ & V & _).
  assert (Hv : 0 < varR r) by (unfold pos_var in HP; rewrite Forall_forall in HP; apply HP; exact Hr).
  pose proof (Sw_ge r _ HP Hr) as H. fold (Sw rs) in H. pose proof (Rinv_0_lt_compat _ Hv) as Hi.
  assert (L : varR (wwvR rs) <= varR r).
  { rewrite V. rewrite <- (Rinv_inv (varR r)). apply Rinv_le_contravar; lra. }
  split; [exact L|]. unfold error. cbn. apply sqrt_le_1_alt. exact L.
Qed.

(* results without a finite call (in particular: without a non-zero call): only the counters change *)
Lemma c13_wwv_skips_empty rs1 r0 rs2 : r_fin r0 = 0%N ->
  exists c nz f e s,
    wwvR (rs1 ++ rs2) = @mk_result NumR c nz f e s /\
    wwvR (rs1 ++ r0 :: rs2) = @mk_result NumR (c + r_calls r0) (nz + r_nz r0) f e s /\
    c = sumNl r_calls (rs1 ++ rs2) /\ nz = sumNl r_nz (rs1 ++ rs2) /\ f = sumNl r_fin (rs1 ++ rs2) /\
    ((1 <= c)%N -> valR (wwvR (rs1 ++ r0 :: rs2)) = valR (wwvR (rs1 ++ rs2))) /\
    (calls_ok c -> calls_ok (c + r_calls r0) ->
       varR (wwvR (rs1 ++ r0 :: rs2)) = varR (wwvR (rs1 ++ rs2)) /\ errR (wwvR (rs1 ++ r0 :: rs2)) = errR (wwvR (rs1 ++ rs2))).
Proof.
  intros H0.
  assert (P : Permutation (rs1 ++ r0 :: rs2) (r0 :: rs1 ++ rs2)) by (apply Permutation_sym, Permutation_middle).
  rewrite (c13_wwv_perm _ _ P). set (rs := rs1 ++ rs2).
  assert (E : exists e s, wwvR rs = @mk_result NumR (sumNl r_calls rs) (sumNl r_nz rs) (sumNl r_fin rs) e s /\
                          wwvR (r0 :: rs) = @mk_result NumR (sumNl r_calls rs + r_calls r0) (sumNl r_nz rs + r_nz r0) (sumNl r_fin rs) e s).
  { rewrite !wwv_closed. cbn [sumNl]. rewrite H0, N.add_0_l.
    assert (L : lives (r0 :: rs) = lives rs) by (rewrite lives_cons, (live_false r0 H0); reflexivity).
    unfold Swe, Sw. rewrite L. rewrite (N.add_comm (r_calls r0)), (N.add_comm (r_nz r0)).
    destruct (N.eqb (sumNl r_fin rs) 0); eexists; eexists; split; reflexivity. }
  destruct E as (e & s & E1 & E2).
  exists (sumNl r_calls rs), (sumNl r_nz rs), (sumNl r_fin rs), e, s.
  split; [exact E1|]. split; [exact E2|]. split; [reflexivity|]. split; [reflexivity|]. split; [reflexivity|].
  rewrite E1, E2. split.
  - intros Hc. rewrite !mk_result_value by lia. reflexivity.
  - intros C1 C2. unfold error. rewrite !mk_result_variance by assumption. split; reflexivity.
Qed.

(* the same in the words of the property: a result without non-zero calls (finite_calls <= non_zero_calls
   holds for every result the library produces) *)
Lemma c13_wwv_skips_no_nonzero rs1 r0 rs2 : r_nz r0 = 0%N -> (r_fin r0 <= r_nz r0)%N ->
  exists c nz f e s,
    wwvR (rs1 ++ rs2) = @mk_result NumR c nz f e s /\
    wwvR (rs1 ++ r0 :: rs2) = @mk_result NumR (c + r_calls r0) nz f e s /\
    c = sumNl r_calls (rs1 ++ rs2) /\ nz = sumNl r_nz (rs1 ++ rs2) /\ f = sumNl r_fin (rs1 ++ rs2).
Proof.
  intros Hz Hle. assert (H0 : r_fin r0 = 0%N) by lia.
  destruct (c13_wwv_skips_empty rs1 r0 rs2 H0) as (c & nz & f & e & s & E1 & E2 & Hc & Hn & Hf & _).
  exists c, nz, f, e, s. rewrite Hz, N.add_0_r in E2. auto.
Qed.

(** ** weighted_equally *)
Notation weqR := (@weighted_equally NumR).

Lemma c13_weq_small {K : Num} :
  @weighted_equally K [] = mk_mcres 0 0 0 (zero K) (zero K) /\ forall r, @weighted_equally K [r] = r.
Proof. split; reflexivity. Qed.

Lemma weq_foldR rs : forall (a : @eacc NumR),
  fold_left weq_step rs a = @mk_eacc NumR (e_calls a + sumNl r_calls rs) (e_nz a + sumNl r_nz rs) (e_fin a + sumNl r_fin rs)
                              (e_sum a + sumRl valR rs) (e_sumsq a + sumRl (fun r => valR r * valR r) rs).
Proof.
  induction rs as [|r rs IH]; intros a; cbn [fold_left sumNl sumRl].
  - rewrite !N.add_0_r, !Rplus_0_r. destruct a; reflexivity.
  - rewrite IH. unfold weq_step at 1 2 3 4 5. cbn [e_calls e_nz e_fin e_sum e_sumsq add mul NumR].
    f_equal; try lia; lra.
Qed.

Lemma RN_nat n : RN (N.of_nat n) = INR n.
Proof. unfold RN. rewrite nat_N_Z. symmetry. apply INR_IZR_INZ. Qed.

Lemma weq_closed rs : (2 <= length rs)%nat ->
  let m := INR (length rs) in
  let mu := sumRl valR rs / m in
  weqR rs = @mk_result NumR (sumNl r_calls rs) (sumNl r_nz rs) (sumNl r_fin rs) mu
              (sqrt ((sumRl (fun r => valR r * valR r) rs / m - mu * mu) / (m - 1))).
Proof.
  intros H m mu. destruct rs as [|r1 [|r2 rs]]; [cbn in H; lia|cbn in H; lia|].
  unfold weighted_equally. rewrite weq_foldR. cbn [e_calls e_nz e_fin e_sum e_sumsq].
  rewrite !N.add_0_l. cbn [zero div sub mul fsqrt ofN NumR].
  fold (RN (N.of_nat (length (r1 :: r2 :: rs)))). fold (RN (N.of_nat (length (r1 :: r2 :: rs)) - 1)).
  rewrite RN_pred by lia. rewrite RN_nat. fold m. rewrite !Rplus_0_l. reflexivity.
Qed.

Lemma sum_sq_dev {A} (x : A -> R) c l :
  sumRl (fun r => (x r - c) * (x r - c)) l = sumRl (fun r => x r * x r) l - 2 * c * sumRl x l + INR (length l) * c * c.
Proof.
  induction l as [|a l IH]; [cbn; lra|]. cbn [sumRl]. rewrite IH. change (length (a :: l)) with (S (length l)). rewrite S_INR. lra.
Qed.

Lemma sumRl_sq_nonneg {A} (x : A -> R) l : 0 <= sumRl (fun r => x r * x r) l.
Proof. induction l as [|a l IH]; cbn [sumRl]; [lra|]. pose proof (Rle_0_sqr (x a)) as H. unfold Rsqr in H. lra. Qed.

(* mean and standard error of the mean *)
Lemma c13_weq_formula rs : (2 <= length rs)%nat -> calls_ok (sumNl r_calls rs) ->
  let m := INR (length rs) in
  let mu := sumRl valR rs / m in
  let s2 := sumRl (fun r => (valR r - mu) * (valR r - mu)) rs / (m * (m - 1)) in
  r_calls (weqR rs) = sumNl r_calls rs /\ r_nz (weqR rs) = sumNl r_nz rs /\ r_fin (weqR rs) = sumNl r_fin rs /\
  valR (weqR rs) = mu /\ varR (weqR rs) = s2 /\ errR (weqR rs) = sqrt s2 /\
  s2 = (sumRl (fun r => valR r * valR r) rs / m - mu * mu) / (m - 1).
Proof.
  intros H HC m mu s2. rewrite (weq_closed rs H). fold m. fold mu.
  assert (Hm : 2 <= m). { unfold m. replace 2 with (INR 2) by reflexivity. apply le_INR. exact H. }
  assert (E : s2 = (sumRl (fun r => valR r * valR r) rs / m - mu * mu) / (m - 1)).
  { unfold s2. rewrite sum_sq_dev. fold m. unfold mu. field. lra. }
  assert (P : 0 <= s2).
  { unfold s2. apply Rmult_le_pos; [apply sumRl_sq_nonneg with (x := fun r => valR r - mu)|].
    left. apply Rinv_0_lt_compat. apply Rmult_lt_0_compat; lra. }
  destruct (@mk_result_counters NumR (sumNl r_calls rs) (sumNl r_nz rs) (sumNl r_fin rs) mu
              (sqrt ((sumRl (fun r => valR r * valR r) rs / m - mu * mu) / (m - 1)))) as (C1 & C2 & C3).
  split; [exact C1|]. split; [exact C2|]. split; [exact C3|].
  split; [apply mk_result_value; destruct HC; lia|].
  assert (V : varR (@mk_result NumR (sumNl r_calls rs) (sumNl r_nz rs) (sumNl r_fin rs) mu
              (sqrt ((sumRl (fun r => valR r * valR r) rs / m - mu * mu) / (m - 1)))) = s2).
  { rewrite mk_result_variance by exact HC. rewrite <- E. apply sqrt_sqrt. exact P. }
  split; [exact V|]. split; [unfold error; rewrite V; reflexivity|]. exact E.
Qed.

(** ** chi_square_dof *)
Lemma c13_chi2_single {K : Num} acc (r : mcres K) : chi_square_dof acc [r] = inf K.
Proof. reflexivity. Qed.

Lemma chi2_empty_R acc : @chi_square_dof NumR acc [] = 0.
Proof. unfold chi_square_dof. cbn [fold_left zero div NumR]. unfold Rdiv. apply Rmult_0_l. Qed.

(* n - 1 wraps around to 2^64 - 1: the quotient is 0 / (2^64 - 1) in every numeric type *)
Lemma c13_chi2_empty :
  (forall (K : Num) acc, @chi_square_dof K acc [] = div K (zero K) (ofN K 18446744073709551615)) /\
  (forall acc, @chi_square_dof NumR acc [] = 0).
Proof. split; [intros K acc; reflexivity|exact chi2_empty_R]. Qed.

Lemma chi2_fold acc_v rs : forall s,
  fold_left (fun s r => add NumR s (div NumR (mul NumR (sub NumR (valR r) acc_v) (sub NumR (valR r) acc_v)) (varR r))) rs s
  = s + sumRl (fun r => (valR r - acc_v) * (valR r - acc_v) / varR r) rs.
Proof.
  induction rs as [|r rs IH]; intros s; cbn [fold_left sumRl]; [lra|]. rewrite IH. cbn [add sub mul div NumR]. lra.
Qed.

Lemma chi2_closed acc rs : length rs <> 1%nat ->
  @chi_square_dof NumR acc rs =
  sumRl (fun r => (valR r - valR (acc rs)) * (valR r - valR (acc rs)) / varR r) rs
  / RN (Z.to_N (wrap64 (Z.of_nat (length rs) - 1))).
Proof.
  intros H. unfold chi_square_dof. destruct rs as [|r1 [|r2 rs]]; [|cbn in H; congruence|].
  - cbn. unfold RN. lra.
  - rewrite chi2_fold. cbn [zero div ofN NumR]. rewrite Rplus_0_l. reflexivity.
Qed.

Lemma chi2_sum_nonneg c rs : Forall (fun r => 0 < varR r) rs ->
  0 <= sumRl (fun r => (valR r - c) * (valR r - c) / varR r) rs.
Proof.
  induction 1 as [|r rs Hr Hrs IH]; cbn [sumRl]; [lra|].
  assert (0 <= (valR r - c) * (valR r - c) / varR r).
  { apply Rmult_le_pos; [|left; apply Rinv_0_lt_compat; exact Hr]. pose proof (Rle_0_sqr (valR r - c)) as H. unfold Rsqr in H. exact H. }
  lra.
Qed.

Lemma c13_chi2_nonneg acc rs : Forall (fun r => 0 < varR r) rs -> 0 <= @chi_square_dof NumR acc rs.
Proof.
  intros HP. destruct (Nat.eq_dec (length rs) 1) as [E|E].
  - destruct rs as [|r [|? ?]]; try discriminate. cbn. lra.
  - rewrite chi2_closed by exact E. pose proof (chi2_sum_nonneg (valR (acc rs)) rs HP) as H.
    set (d := RN _). assert (Hd : 0 <= d) by (unfold d, RN; apply IZR_le; lia).
    unfold Rdiv. destruct (Req_dec d 0) as [Z|Z]; [rewrite Z, Rinv_0; lra|].
    apply Rmult_le_pos; [exact H|]. left. apply Rinv_0_lt_compat. lra.
Qed.

(* the documented formula, n >= 2 *)
Lemma c13_chi2_formula acc rs : (2 <= length rs)%nat -> (Z.of_nat (length rs) < 2 ^ 64)%Z ->
  @chi_square_dof NumR acc rs =
  sumRl (fun r => (valR r - valR (acc rs)) * (valR r - valR (acc rs)) / varR r) rs / (INR (length rs) - 1).
Proof.
  intros H2 H64. rewrite chi2_closed by lia. f_equal. unfold wrap64. rewrite Z.mod_small by lia.
  unfold RN. rewrite Z2N.id by lia. rewrite minus_IZR, <- INR_IZR_INZ. reflexivity.
Qed.

(** ** the distribution combiner applies the scalar rule bin by bin (any numeric type, any rule) *)
Section Binwise.
  Context {K : Num}.
  Variable acc : list (mcres K) -> mcres K.

  (* [col] is the list of bins (j,k) of all results, in order *)
  Definition column (rs : list (plainres K)) (j k : N) (col : list (mcres K)) : Prop :=
    Forall2 (fun r b => exists d, nthN (p_dists r) j = Some d /\ nthN (dr_bins d) k = Some b) rs col.

  Lemma bin_column_spec rs j k : forall col, bin_column rs j k = Ok col <-> column rs j k col.
  Proof.
    unfold column. induction rs as [|r rs IH]; intros col; cbn [bin_column fold_right].
    - split; [intros H; inversion H; constructor|intros H; inversion H; reflexivity].
    - fold (bin_column rs j k). split.
      + intros H. destruct (bin_column rs j k) as [l|c] eqn:E; [|discriminate]. cbn [bind] in H.
        unfold getN in H. destruct (nthN (p_dists r) j) as [d|] eqn:Ed; [|discriminate]. cbn [bind] in H.
        destruct (nthN (dr_bins d) k) as [b|] eqn:Eb; [|discriminate]. cbn [bind] in H. inversion H; subst.
        constructor; [exists d; auto|]. apply IH. reflexivity.
      + intros H. inversion H as [|? b ? l (d & Hd & Hb) Hl]; subst. apply IH in Hl. rewrite Hl. cbn [bind].
        unfold getN. rewrite Hd. cbn [bind]. rewrite Hb. reflexivity.
  Qed.

  Lemma column_fun rs j k c1 c2 : column rs j k c1 -> column rs j k c2 -> c1 = c2.
  Proof. intros H1 H2. apply bin_column_spec in H1, H2. congruence. Qed.

  Lemma combine_bins_spec rs j ks : forall bins, combine_bins acc rs j ks = Ok bins ->
    Forall2 (fun k b => exists col, column rs j k col /\ b = acc col) ks bins.
  Proof.
    induction ks as [|k ks IH]; intros bins H; cbn [combine_bins] in H.
    - inversion H. constructor.
    - destruct (bin_column rs j k) as [col|c] eqn:E; [|discriminate]. cbn [bind] in H.
      destruct (combine_bins acc rs j ks) as [rest|c]; [|discriminate]. cbn [bind] in H. inversion H; subst.
      constructor; [exists col; split; [apply bin_column_spec; exact E|reflexivity]|]. apply IH. reflexivity.
  Qed.

  Lemma combine_bins_ok rs j ks : (forall k, In k ks -> exists col, column rs j k col) ->
    exists bins, combine_bins acc rs j ks = Ok bins.
  Proof.
    induction ks as [|k ks IH]; intros H; cbn [combine_bins]; [eexists; reflexivity|].
    destruct (H k (or_introl eq_refl)) as (col & Hc). apply bin_column_spec in Hc. rewrite Hc. cbn [bind].
    destruct IH as (rest & ->); [intros k' Hk; apply H; right; exact Hk|]. cbn [bind]. eexists; reflexivity.
  Qed.

  Lemma iotaN'_length n : forall s, length (iotaN' s n) = n.
  Proof. induction n as [|n IH]; intros s; cbn; [reflexivity|]. rewrite IH. reflexivity. Qed.
  Lemma iotaN'_nth n : forall s i, (i < n)%nat -> nth_error (iotaN' s n) i = Some (s + N.of_nat i)%N.
  Proof.
    induction n as [|n IH]; intros s i H; [lia|]. destruct i as [|i]; cbn [iotaN' nth_error].
    - f_equal. lia.
    - rewrite IH by lia. f_equal. lia.
  Qed.
  Lemma iotaN'_In n s k : In k (iotaN' s n) -> exists i, (i < n)%nat /\ k = (s + N.of_nat i)%N.
  Proof.
    intros H. apply In_nth_error in H as (i & Hi). assert (L : (i < n)%nat).
    { rewrite <- (iotaN'_length n s). apply nth_error_Some. congruence. }
    rewrite iotaN'_nth in Hi by exact L. exists i. split; [exact L|congruence].
  Qed.

  (* one combined distribution: same parameters and bin count as in the first result, bin k = rule (column k) *)
  Definition dist_binwise (rs : list (plainres K)) (j : N) (d0 d : dres K) : Prop :=
    dr_par d = dr_par d0 /\ length (dr_bins d) = length (dr_bins d0) /\
    forall k, (k < length (dr_bins d0))%nat ->
      exists col, column rs j (N.of_nat k) col /\ nth_error (dr_bins d) k = Some (acc col).

  Lemma Forall2_nth {A B} (P : A -> B -> Prop) l l' : Forall2 P l l' ->
    forall i x, nth_error l i = Some x -> exists y, nth_error l' i = Some y /\ P x y.
  Proof.
    induction 1 as [|a b l l' Hab HF IH]; intros [|i] x Hx; try discriminate; cbn [nth_error] in *.
    - inversion Hx; subst. exists b. auto.
    - apply IH. exact Hx.
  Qed.

  Lemma Forall2_len {A B} (P : A -> B -> Prop) l l' : Forall2 P l l' -> length l = length l'.
  Proof. induction 1; cbn; congruence. Qed.

  Lemma combine_dists_spec rs first : forall j ds, combine_dists acc rs first j = Ok ds ->
    length ds = length first /\
    forall i d0, nth_error first i = Some d0 ->
      exists d, nth_error ds i = Some d /\ dist_binwise rs (j + N.of_nat i) d0 d.
  Proof.
    induction first as [|d0 first IH]; intros j ds H; cbn [combine_dists] in H.
    - inversion H. split; [reflexivity|]. intros [|i] d Hd; discriminate.
    - destruct (combine_bins acc rs j (iotaN' 0 (length (dr_bins d0)))) as [bins|c] eqn:E; [|discriminate].
      cbn [bind] in H. destruct (combine_dists acc rs first (j + 1)) as [rest|c] eqn:E2; [|discriminate].
      cbn [bind] in H. inversion H; subst. destruct (IH _ _ E2) as (L & IH').
      split; [cbn; rewrite L; reflexivity|]. intros [|i] d1 Hd1; cbn [nth_error] in Hd1 |- *.
      + inversion Hd1; subst. eexists; split; [reflexivity|]. apply combine_bins_spec in E.
        pose proof (Forall2_len _ _ _ E) as LE. rewrite iotaN'_length in LE.
        split; [reflexivity|]. split; [cbn; lia|]. cbn [dr_bins]. intros k Hk.
        destruct (Forall2_nth _ _ _ E k (N.of_nat k)) as (b & Hb & col & Hc & ->).
        { rewrite iotaN'_nth by exact Hk. f_equal. }
        exists col. rewrite N.add_0_r. split; [exact Hc|exact Hb].
      + destruct (IH' i d1 Hd1) as (d & Hd & HB). exists d. split; [exact Hd|].
        replace (j + N.of_nat (S i))%N with (j + 1 + N.of_nat i)%N by lia. exact HB.
  Qed.

  (* every result has at least the distributions and bins of the first one *)
  Definition covers (r0 r : plainres K) : Prop :=
    forall j d0, nth_error (p_dists r0) j = Some d0 ->
      exists d, nth_error (p_dists r) j = Some d /\ (length (dr_bins d0) <= length (dr_bins d))%nat.

  Lemma column_ok r0 rs j d0 k : Forall (covers r0) rs -> nth_error (p_dists r0) j = Some d0 ->
    (k < length (dr_bins d0))%nat -> exists col, column rs (N.of_nat j) (N.of_nat k) col.
  Proof.
    intros HC Hj Hk. unfold column. induction HC as [|r rs Hr Hrs IH]; [exists []; constructor|].
    destruct IH as (col & Hcol). destruct (Hr j d0 Hj) as (d & Hd & Hl).
    destruct (nth_error (dr_bins d) k) as [b|] eqn:Eb; [|apply nth_error_None in Eb; lia].
    exists (b :: col). constructor; [|exact Hcol]. exists d. unfold nthN. rewrite !Nat2N.id. auto.
  Qed.

  Lemma combine_dists_ok r0 rs first : Forall (covers r0) rs ->
    forall j, (forall i d0, nth_error first i = Some d0 -> nth_error (p_dists r0) (j + i) = Some d0) ->
    exists ds, combine_dists acc rs first (N.of_nat j) = Ok ds.
  Proof.
    intros HC. induction first as [|d0 first IH]; intros j Hf; cbn [combine_dists]; [eexists; reflexivity|].
    destruct (combine_bins_ok rs (N.of_nat j) (iotaN' 0 (length (dr_bins d0)))) as (bins & ->).
    { intros k Hk. apply iotaN'_In in Hk as (i & Hi & ->). rewrite N.add_0_l.
      apply (column_ok r0 rs j d0 i HC); [|exact Hi]. rewrite <- (Nat.add_0_r j). apply Hf. reflexivity. }
    cbn [bind]. replace (N.of_nat j + 1)%N with (N.of_nat (S j)) by lia.
    destruct (IH (S j)) as (rest & ->).
    { intros i d1 Hd1. replace (S j + i)%nat with (j + S i)%nat by lia. apply Hf. exact Hd1. }
    cbn [bind]. eexists; reflexivity.
  Qed.

  (* the specification of the combined result *)
  Definition binwise (rs : list (plainres K)) (r : plainres K) : Prop :=
    p_main r = acc (map p_main rs) /\
    match rs with
    | [] => p_dists r = []
    | r0 :: _ =>
        length (p_dists r) = length (p_dists r0) /\
        forall j d0, nth_error (p_dists r0) j = Some d0 ->
          exists d, nth_error (p_dists r) j = Some d /\ dist_binwise rs (N.of_nat j) d0 d
    end.

  Lemma c13_dist_binwise rs r : accumulate_plain acc rs = Ok r -> binwise rs r.
  Proof.
    unfold accumulate_plain, binwise. destruct rs as [|r0 rs].
    - cbn [bind]. intros H. inversion H. split; reflexivity.
    - destruct (combine_dists acc (r0 :: rs) (p_dists r0) 0) as [ds|c] eqn:E; [|discriminate].
      cbn [bind]. intros H. inversion H; subst. cbn [p_main p_dists]. split; [reflexivity|].
      destruct (combine_dists_spec _ _ _ _ E) as (L & HS). split; [exact L|].
      intros j d0 Hj. destruct (HS j d0 Hj) as (d & Hd & HB). rewrite N.add_0_l in HB. exists d. auto.
  Qed.

  Lemma c13_dist_total rs : match rs with [] => True | r0 :: rs' => Forall (covers r0) rs' end ->
    exists r, accumulate_plain acc rs = Ok r /\ binwise rs r.
  Proof.
    intros H. assert (E : exists r, accumulate_plain acc rs = Ok r).
    { unfold accumulate_plain. destruct rs as [|r0 rs]; [eexists; reflexivity|].
      destruct (combine_dists_ok r0 (r0 :: rs) (p_dists r0)) with (j := O) as (ds & Hds).
      - constructor; [|exact H]. intros j d0 Hj. exists d0. split; [exact Hj|lia].
      - intros i d0 Hd. exact Hd.
      - change (N.of_nat 0) with 0%N in Hds. rewrite Hds. eexists; reflexivity. }
    destruct E as (r & E). exists r. split; [exact E|]. apply c13_dist_binwise. exact E.
  Qed.
End Binwise.

(** ** concrete instances (non-vacuity of the hypotheses) *)
Definition ex_r1 : mcres NumR := @mk_result NumR 100 100 100 1 1.          (* E = 1, S^2 = 1   *)
Definition ex_r2 : mcres NumR := @mk_result NumR 300 200 250 3 (/ 2).      (* E = 3, S^2 = 1/4 *)
Definition ex_r3 : mcres NumR := @mk_result NumR 50 50 50 5 2.             (* E = 5, S^2 = 4   *)
Definition ex_r0 : mcres NumR := @mk_mcres NumR 10 3 0 0 0.                (* no finite call *)

Lemma ex_ok n : (2 <= n < 1000)%N -> calls_ok n.
Proof. unfold calls_ok, two64. lia. Qed.

Lemma ex_vals :
  valR ex_r1 = 1 /\ varR ex_r1 = 1 /\ valR ex_r2 = 3 /\ varR ex_r2 = / 4 /\ valR ex_r3 = 5 /\ varR ex_r3 = 4.
Proof.
  unfold ex_r1, ex_r2, ex_r3. rewrite !mk_result_value by lia. rewrite !mk_result_variance by (apply ex_ok; lia).
  repeat split; lra.
Qed.

Lemma ex_lives : lives [ex_r1; ex_r0; ex_r2] = [ex_r1; ex_r2].
Proof.
  unfold lives. cbn [filter]. unfold live.
  destruct (@mk_result_counters NumR 100 100 100 1 1) as (_ & _ & E1).
  destruct (@mk_result_counters NumR 300 200 250 3 (/ 2)) as (_ & _ & E2).
  unfold ex_r1, ex_r2. rewrite E1, E2. reflexivity.
Qed.

Lemma ex_calls : sumNl r_calls [ex_r1; ex_r0; ex_r2] = 410%N.
Proof.
  cbn [sumNl]. destruct (@mk_result_counters NumR 100 100 100 1 1) as (E1 & _ & _).
  destruct (@mk_result_counters NumR 300 200 250 3 (/ 2)) as (E2 & _ & _).
  unfold ex_r1, ex_r2. rewrite E1, E2. reflexivity.
Qed.

Lemma c13_example_wwv :
  let rs := [ex_r1; ex_r0; ex_r2] in
  pos_var rs /\ lives rs <> [] /\ calls_ok (sumNl r_calls rs) /\
  valR (wwvR rs) = 13 / 5 /\ varR (wwvR rs) = / 5 /\ r_calls (wwvR rs) = 410%N /\
  In ex_r1 (lives rs) /\ varR ex_r1 = 1 /\
  Forall (fun r => 1 <= valR r) (lives rs) /\ Forall (fun r => valR r <= 3) (lives rs).
Proof.
  intros rs. destruct ex_vals as (V1 & S1 & V2 & S2 & _).
  assert (HP : pos_var rs). { unfold pos_var, rs. rewrite ex_lives. repeat constructor; lra. }
  assert (HN : lives rs <> []). { unfold rs. rewrite ex_lives. discriminate. }
  assert (HC : calls_ok (sumNl r_calls rs)). { unfold rs. rewrite ex_calls. apply ex_ok. lia. }
  destruct (c13_wwv_formula rs HP HN HC) as (F1 & F2 & _).
  assert (W : Sw rs = 5). { unfold Sw, rs. rewrite ex_lives. cbn [sumRl]. rewrite S1, S2. field. }
  assert (WE : Swe rs = 13). { unfold Swe, rs. rewrite ex_lives. cbn [sumRl]. rewrite S1, S2, V1, V2. field. }
  split; [exact HP|]. split; [exact HN|]. split; [exact HC|].
  split; [rewrite F1, W, WE; reflexivity|]. split; [rewrite F2, W; reflexivity|].
  split; [destruct (@c13_wwv_counters NumR rs) as (C & _); rewrite C; apply ex_calls|].
  unfold rs. rewrite ex_lives. split; [left; reflexivity|]. split; [exact S1|].
  split; repeat constructor; lra.
Qed.

Lemma c13_example_weq :
  let rs := [ex_r1; ex_r2; ex_r3] in
  (2 <= length rs)%nat /\ calls_ok (sumNl r_calls rs) /\ valR (weqR rs) = 3 /\ varR (weqR rs) = 4 / 3.
Proof.
  intros rs. destruct ex_vals as (V1 & _ & V2 & _ & V3 & _).
  assert (HL : (2 <= length rs)%nat) by (cbn; lia).
  assert (HC : calls_ok (sumNl r_calls rs)).
  { unfold rs. cbn [sumNl]. destruct (@mk_result_counters NumR 100 100 100 1 1) as (E1 & _ & _).
    destruct (@mk_result_counters NumR 300 200 250 3 (/ 2)) as (E2 & _ & _).
    destruct (@mk_result_counters NumR 50 50 50 5 2) as (E3 & _ & _).
    unfold ex_r1, ex_r2, ex_r3. rewrite E1, E2, E3. apply ex_ok. lia. }
  destruct (c13_weq_formula rs HL HC) as (_ & _ & _ & F1 & F2 & _).
  split; [exact HL|]. split; [exact HC|].
  assert (M : sumRl valR rs / INR (length rs) = 3).
  { unfold rs. cbn [sumRl length INR]. rewrite V1, V2, V3. field. }
  split; [rewrite F1; exact M|]. rewrite F2, M. unfold rs. cbn [sumRl length INR]. rewrite V1, V2, V3. lra.
Qed.

Lemma c13_example_chi2 :
  let rs := [ex_r1; ex_r2] in
  Forall (fun r => 0 < varR r) rs /\ @chi_square_dof NumR wwvR rs = 16 / 5.
Proof.
  intros rs. destruct ex_vals as (V1 & S1 & V2 & S2 & _).
  split; [repeat constructor; lra|].
  rewrite c13_chi2_formula by (cbn; lia).
  assert (P : Permutation [ex_r1; ex_r0; ex_r2] (ex_r0 :: rs)) by (apply perm_swap).
  destruct c13_example_wwv as (_ & _ & _ & F & _).
  assert (E : valR (wwvR rs) = 13 / 5).
  { destruct (c13_wwv_skips_empty [] ex_r0 rs eq_refl) as (c & nz & f & e & s & _ & _ & Hc & _ & _ & Hv & _).
    cbn [app] in Hv, Hc. rewrite <- Hv; [rewrite <- (c13_wwv_perm _ _ P); exact F|].
    rewrite Hc. unfold rs. cbn [sumNl]. destruct (@mk_result_counters NumR 100 100 100 1 1) as (E1 & _ & _).
    unfold ex_r1 at 1. rewrite E1. lia. }
  rewrite E. unfold rs. cbn [sumRl length INR]. rewrite V1, V2, S1, S2. lra.
Qed.

Definition ex_par : dparams NumR := @mk_dparams NumR 2 1 0 0 (/ 2) 1 String.EmptyString.
Definition ex_p1 : plainres NumR := mk_plainres ex_r1 [mk_dres ex_par [ex_r1; ex_r2]].
Definition ex_p2 : plainres NumR := mk_plainres ex_r2 [mk_dres ex_par [ex_r3; ex_r1]].

Lemma c13_example_dist :
  Forall (@covers NumR ex_p1) [ex_p2] /\
  accumulate_plain wwvR [ex_p1; ex_p2] =
  Ok (mk_plainres (wwvR [ex_r1; ex_r2]) [mk_dres ex_par [wwvR [ex_r1; ex_r3]; wwvR [ex_r2; ex_r1]]]).
Proof.
  split; [|reflexivity].
  constructor; [|constructor]. intros [|[|j]] d0 H; cbn in H; try discriminate.
  inversion H; subst. eexists; split; [reflexivity|]. cbn. lia.
Qed.
