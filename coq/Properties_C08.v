(** C08 - channel weights stay a probability vector; disabled channels and the floor are respected.
    Statements only (proofs in Lemmas_C08.v).  Everything is about the model's own
    [refine_weights] (with [raw_weights], [clamp], [clamp_sum]) of MultiChannel.v, which mirrors
    multi_channel_refine_weights.hpp after the zero-data repair.

    The power function.  The C++ calls pow(adjustment_data[i], beta) and pow(0, beta) = 0 for
    beta > 0.  Coq's [Rpower 0 b] is exp (b * ln 0) = exp 0 = 1 (C08_LibmR_pow_zero), so the
    model's [LibmR] does NOT behave like the C function on a zero datum.  The real-number theorems
    are therefore stated for EVERY [L : Libm NumR] that satisfies [pow_ok L]:
    fpow 0 b = 0 for b > 0 and fpow d b > 0 for d > 0; [LibmR0] (Rpower with the C convention at 0)
    is such an instance (C08_pow_ok_LibmR0).  Nothing else about pow is used.

    What is proved (K := NumR, any number of channels, weights >= 0 normalised or not with zeros
    anywhere, data >= 0 of the same length, beta > 0; beta <= 1 is never needed):
    * C08_zero_total_id (every Num), C08_zero_data_id, C08_zero_products_id, C08_all_zero_data_id:
      if the raw total w_1 d_1^beta + ... compares equal to zero - in particular if all data are
      zero, or every product is zero - the weights are returned unchanged.
    * C08_prob_vector: if some w_i * d_i^beta > 0 the call returns (no undefined behaviour) a vector
      of the same length, all entries >= 0, summing to 1.  No hypothesis on the minimum weight is
      needed for this.  C08_initial_normalisation: the same for the call with data 1...1 that
      produces the weights of iteration 0 from the user's weights.
    * C08_disabled_stay: w_i = 0 -> w'_i = 0, in both branches.  C08_zero_datum_disables
      (observation, the model reproduces the code): in the non-degenerate branch an enabled channel
      whose datum is zero gets weight zero, i.e. is disabled from then on.
    * C08_formula: for w_i > 0, d_i > 0: w'_i = max (w_i d_i^beta / S, m) / S2 with S = [raw_total]
      (sum of the raw weights) and S2 = [clamped_total] (sum of the clamped non-zero entries);
      C08_clamped_total_le: S2 <= 1 + n m; C08_floor: w'_i >= m / (1 + n m) for m >= 0 (the bound
      m < 1/n of the property text is not needed).
    * C08_step / C08_chain: for any list of adjustment vectors applied successively
      ([refine_chain]): no undefined behaviour, length kept, entries >= 0, zeros stay zero, the
      result is either the initial vector (only no-information iterations so far) or sums to 1, and
      sums to 1 if the initial vector did.
    * C08_disabled_stay_float (NumB prec emax, every format, every Libm): if channel i has a weight
      that compares equal to zero (+0 or -0), fpow(d_i, beta) is finite and - in the non-degenerate
      branch - the value new_sum computed by the second loop ([new_sum_of]) is neither NaN nor a
      zero, then the call returns a vector whose entry i compares equal to zero.  The hypothesis
      on new_sum is explicit because it is not derived here from hypotheses on the inputs.

    What is NOT proved: for floats, that the weights are finite, non-negative and sum to one up to
    rounding, the formula and the floor (only the exact disabled-channel statement is proved for
    floats; the rest is covered over the reals and by the differential test); nothing about how
    accurate the platform's pow is. *)
From Coq Require Import ZArith NArith List Reals.
From Flocq Require Import Core BinarySingleNaN.
From HepMC Require Import Num NumR NumB MultiChannel Lemmas_C09 Lemmas_C08.
Import ListNotations.
Local Open Scope R_scope.

Theorem C08_LibmR_pow_zero : forall b : R, fpow LibmR 0 b = 1.
Proof. exact LibmR_pow_zero. Qed.
Print Assumptions C08_LibmR_pow_zero.

Theorem C08_pow_ok_LibmR0 : pow_ok LibmR0.
Proof. exact pow_ok_LibmR0. Qed.
Print Assumptions C08_pow_ok_LibmR0.

(* the repaired branch, every numeric type *)
Theorem C08_zero_total_id : forall (K : Num) (L : Libm K) (ws data : list K) (minw beta : K) (raw : list K),
  raw_weights L ws data beta = Ok raw ->
  eqb K (fold_left (add K) raw (zero K)) (zero K) = true ->
  refine_weights L ws data minw beta = Ok ws.
Proof. exact (@c08_zero_total_id). Qed.
Print Assumptions C08_zero_total_id.

Theorem C08_zero_data_id : forall (L : Libm NumR) (ws data : list R) (minw beta : R),
  length ws = length data -> raw_total L ws data beta = 0 ->
  @refine_weights NumR L ws data minw beta = Ok ws.
Proof. exact c08_zero_data_id. Qed.
Print Assumptions C08_zero_data_id.

Theorem C08_zero_products_id : forall (L : Libm NumR) (ws data : list R) (minw beta : R),
  length ws = length data -> (forall i, nth i ws 0 * fpow L (nth i data 0) beta = 0) ->
  @refine_weights NumR L ws data minw beta = Ok ws.
Proof. exact c08_zero_products_id. Qed.
Print Assumptions C08_zero_products_id.

Theorem C08_all_zero_data_id : forall (L : Libm NumR), pow_ok L ->
  forall (ws data : list R) (minw beta : R),
  length ws = length data -> 0 < beta -> (forall i, nth i data 0 = 0) ->
  @refine_weights NumR L ws data minw beta = Ok ws.
Proof. exact c08_all_zero_data_id. Qed.
Print Assumptions C08_all_zero_data_id.

Theorem C08_prob_vector : forall (L : Libm NumR), pow_ok L ->
  forall (ws data : list R) (minw beta : R),
  nonneg ws -> nonneg data -> length ws = length data -> 0 < beta ->
  (exists i, 0 < nth i ws 0 * fpow L (nth i data 0) beta) ->
  exists ws', @refine_weights NumR L ws data minw beta = Ok ws' /\
    length ws' = length ws /\ nonneg ws' /\ Rsum ws' = 1.
Proof. exact c08_prob_vector. Qed.
Print Assumptions C08_prob_vector.

Theorem C08_initial_normalisation : forall (L : Libm NumR), pow_ok L ->
  forall (ws : list R) (minw beta : R),
  nonneg ws -> 0 < beta -> (exists i, 0 < nth i ws 0) ->
  exists ws', @refine_weights NumR L ws (repeat (one NumR) (length ws)) minw beta = Ok ws' /\
    length ws' = length ws /\ nonneg ws' /\ Rsum ws' = 1 /\
    (forall i, nth i ws 0 = 0 -> nth i ws' 0 = 0).
Proof. exact c08_initial_normalisation. Qed.
Print Assumptions C08_initial_normalisation.

Theorem C08_disabled_stay : forall (L : Libm NumR) (ws data : list R) (minw beta : R) (ws' : list R) (i : nat),
  length ws = length data -> @refine_weights NumR L ws data minw beta = Ok ws' ->
  nth i ws 0 = 0 -> nth i ws' 0 = 0.
Proof. exact c08_disabled_stay. Qed.
Print Assumptions C08_disabled_stay.

Theorem C08_zero_datum_disables : forall (L : Libm NumR), pow_ok L ->
  forall (ws data : list R) (minw beta : R) (ws' : list R) (i : nat),
  length ws = length data -> 0 < beta -> raw_total L ws data beta <> 0 ->
  @refine_weights NumR L ws data minw beta = Ok ws' -> nth i data 0 = 0 -> nth i ws' 0 = 0.
Proof. exact c08_zero_datum_disables. Qed.
Print Assumptions C08_zero_datum_disables.

Theorem C08_formula : forall (L : Libm NumR), pow_ok L ->
  forall (ws data : list R) (minw beta : R) (ws' : list R) (i : nat),
  nonneg ws -> nonneg data -> length ws = length data -> 0 < beta ->
  @refine_weights NumR L ws data minw beta = Ok ws' ->
  0 < nth i ws 0 -> 0 < nth i data 0 ->
  nth i ws' 0 = Rmax (nth i ws 0 * fpow L (nth i data 0) beta / raw_total L ws data beta) minw
                / clamped_total L ws data minw beta.
Proof. exact c08_formula. Qed.
Print Assumptions C08_formula.

Theorem C08_clamped_total_le : forall (L : Libm NumR), pow_ok L ->
  forall (ws data : list R) (minw beta : R),
  nonneg ws -> nonneg data -> length ws = length data -> 0 < beta -> 0 <= minw ->
  0 < raw_total L ws data beta ->
  clamped_total L ws data minw beta <= 1 + INR (length ws) * minw.
Proof. exact c08_clamped_total_le. Qed.
Print Assumptions C08_clamped_total_le.

Theorem C08_floor : forall (L : Libm NumR), pow_ok L ->
  forall (ws data : list R) (minw beta : R) (ws' : list R) (i : nat),
  nonneg ws -> nonneg data -> length ws = length data -> 0 < beta -> 0 <= minw ->
  @refine_weights NumR L ws data minw beta = Ok ws' ->
  0 < nth i ws 0 -> 0 < nth i data 0 ->
  minw / (1 + INR (length ws) * minw) <= nth i ws' 0.
Proof. exact c08_floor. Qed.
Print Assumptions C08_floor.

Theorem C08_step : forall (L : Libm NumR), pow_ok L ->
  forall (ws data : list R) (minw beta : R),
  nonneg ws -> nonneg data -> length ws = length data -> 0 < beta ->
  exists ws', @refine_weights NumR L ws data minw beta = Ok ws' /\
    length ws' = length ws /\ nonneg ws' /\ (ws' = ws \/ Rsum ws' = 1) /\
    (forall i, nth i ws 0 = 0 -> nth i ws' 0 = 0).
Proof. exact c08_step. Qed.
Print Assumptions C08_step.

Theorem C08_chain : forall (L : Libm NumR), pow_ok L ->
  forall (datas : list (list R)) (ws : list R) (minw beta : R),
  nonneg ws -> 0 < beta ->
  Forall (fun d => nonneg d /\ length d = length ws) datas ->
  exists ws', refine_chain L ws datas minw beta = Ok ws' /\
    length ws' = length ws /\ nonneg ws' /\
    (ws' = ws \/ Rsum ws' = 1) /\ (Rsum ws = 1 -> Rsum ws' = 1) /\
    (forall i, nth i ws 0 = 0 -> nth i ws' 0 = 0).
Proof. exact c08_chain. Qed.
Print Assumptions C08_chain.

Theorem C08_disabled_stay_float :
  forall prec emax (Hprec : FLX.Prec_gt_0 prec) (Hmax : Prec_lt_emax prec emax)
         (L : Libm (NumB prec emax Hprec Hmax))
         (ws data : list (NumB prec emax Hprec Hmax)) (minw beta : NumB prec emax Hprec Hmax)
         (raw : list (NumB prec emax Hprec Hmax)) (i : nat) (w d : NumB prec emax Hprec Hmax),
  let KB := NumB prec emax Hprec Hmax in
  raw_weights L ws data beta = Ok raw ->
  (eqb KB (fold_left (add KB) raw (zero KB)) (zero KB) = false ->
   @isnan KB (new_sum_of raw minw) = false /\ eqb KB (new_sum_of raw minw) (zero KB) = false) ->
  nth_error ws i = Some w -> nth_error data i = Some d ->
  eqb KB w (zero KB) = true -> isfinite KB (fpow L d beta) = true ->
  exists ws' w', refine_weights L ws data minw beta = Ok ws' /\
                 nth_error ws' i = Some w' /\ eqb KB w' (zero KB) = true.
Proof. exact c08_disabled_stay_float. Qed.
Print Assumptions C08_disabled_stay_float.

(* non-vacuity *)
Example C08_example_R :
  pow_ok LibmR0 /\ nonneg ex08_wsR /\ nonneg ex08_dataR /\ length ex08_wsR = length ex08_dataR /\
  0 < nth 0 ex08_wsR 0 * fpow LibmR0 (nth 0 ex08_dataR 0) 1 /\
  @refine_weights NumR LibmR0 ex08_wsR ex08_dataR (1/5) 1 = Ok [30/37; 0; 7/37; 0] /\
  (1/5) / (1 + INR (length ex08_wsR) * (1/5)) = 1/9.
Proof. exact c08_example_R. Qed.

Example C08_example_chain :
  Forall (fun d => nonneg d /\ length d = length ex08_wsR) [ex08_dataR; [0; 0; 0; 0]; ex08_dataR] /\
  exists ws', refine_chain LibmR0 ex08_wsR [ex08_dataR; [0; 0; 0; 0]; ex08_dataR] (1/5) 1 = Ok ws' /\
              Rsum ws' = 1 /\ nth 1 ws' 0 = 0.
Proof. exact c08_example_chain. Qed.

Example C08_example_float : ex08_check = true.
Proof. exact c08_example_float. Qed.
