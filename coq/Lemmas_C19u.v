(** C19, user-driven histories: a VEGAS / multi-channel checkpoint that the user drives himself with add() and rollback()
    (as vegas_iteration / multi_channel_iteration users do, or a callback that takes the checkpoint by reference) refines the
    obvious specification - a list of results to which add appends and of which rollback(k) keeps the first k - and the state
    the next iteration samples with (pdf() / channel_weights()) is a function of that list alone: the refinement of its last
    element, whatever was added and discarded before.  Nothing is remembered from earlier calls. *)
From Coq Require Import ZArith NArith List Bool Lia.
From HepMC Require Import Num Result VegasPdf MultiChannel Chkpt.
Import ListNotations.

Section UserHistories.
  Context {K : Num}.
  Context (L : Libm K).

  (** operations a user performs on a checkpoint between iterations *)
  Inductive uop (R : Type) := UAdd (r : R) (g : N) | URollback (k : N).
  Arguments UAdd {R}. Arguments URollback {R}.

  (** the specification: a plain list *)
  Definition spec_step {R} (l : list R) (o : uop R) : option (list R) :=
    match o with
    | UAdd r _ => Some (l ++ [r])
    | URollback k => if (N.of_nat (length l) <? k)%N then None else Some (firstn (N.to_nat k) l)
    end.
  Fixpoint spec_run {R} (l : list R) (os : list (uop R)) : option (list R) :=
    match os with
    | [] => Some l
    | o :: os' => match spec_step l o with Some l' => spec_run l' os' | None => None end
    end.

  (** VEGAS *)
  Definition vstep (c : vchk K) (o : uop (vegasres K)) : res (vchk K) :=
    match o with UAdd r g => Ok (vchk_add c r g) | URollback k => vchk_rollback c k end.
  Fixpoint vrun (c : vchk K) (os : list (uop (vegasres K))) : res (vchk K) :=
    match os with
    | [] => Ok c
    | o :: os' => match vstep c o with Ok c' => vrun c' os' | UB e => UB e end
    end.

  Lemma vstep_refines (c : vchk K) o : match vstep c o, spec_step (b_results (vc_base c)) o with
                            | Ok c', Some l' => b_results (vc_base c') = l' /\ vc_alpha c' = vc_alpha c
                            | UB _, None => True
                            | _, _ => False
                            end.
  Proof.
    destruct o as [r g|k]; cbn [vstep spec_step].
    - cbn. split; reflexivity.
    - unfold vchk_rollback, base_rollback.
      destruct (N.of_nat (length (b_results (vc_base c))) <? k)%N; cbn; [exact I|split; reflexivity].
  Qed.

  Lemma vrun_refines os : forall c : vchk K,
    match vrun c os, spec_run (b_results (vc_base c)) os with
    | Ok c', Some l' => b_results (vc_base c') = l' /\ vc_alpha c' = vc_alpha c
    | UB _, None => True
    | _, _ => False
    end.
  Proof.
    induction os as [|o os IH]; intros c; cbn [vrun spec_run]; [split; reflexivity|].
    pose proof (vstep_refines c o) as H.
    destruct (vstep c o) as [c1|e], (spec_step (b_results (vc_base c)) o) as [l1|]; try contradiction; [|exact I].
    destruct H as [H1 H2]. specialize (IH c1). rewrite H1 in IH.
    destruct (vrun c1 os) as [c2|e2], (spec_run l1 os) as [l2|]; try contradiction; [|exact I].
    destruct IH as [I1 I2]. split; [exact I1|congruence].
  Qed.

  (** the state of the next iteration after any accepted history that leaves at least one result: the refinement of the last
      result the checkpoint holds now *)
  Lemma vegas_next_state_is_refinement_of_last (c : vchk K) os c' l r :
    vrun c os = Ok c' -> spec_run (b_results (vc_base c)) os = Some (l ++ [r]) ->
    vchk_pdf L c' = refine_pdf L (v_pdf r) (vc_alpha c) (v_adj r).
  Proof.
    intros Hr Hs. pose proof (vrun_refines os c) as H. rewrite Hr, Hs in H. destruct H as [H1 H2].
    unfold vchk_pdf. rewrite H1, rev_app_distr. cbn. rewrite H2. reflexivity.
  Qed.

  (** two histories with the same surviving results give the same next state, whatever was added and discarded on the way *)
  Lemma vegas_next_state_history_free (c : vchk K) os1 os2 c1 c2 l r :
    vrun c os1 = Ok c1 -> vrun c os2 = Ok c2 ->
    spec_run (b_results (vc_base c)) os1 = Some (l ++ [r]) -> spec_run (b_results (vc_base c)) os2 = Some (l ++ [r]) ->
    vchk_pdf L c1 = vchk_pdf L c2.
  Proof.
    intros R1 R2 S1 S2.
    rewrite (vegas_next_state_is_refinement_of_last c os1 c1 l r R1 S1), (vegas_next_state_is_refinement_of_last c os2 c2 l r R2 S2).
    reflexivity.
  Qed.

  (** multi-channel *)
  Definition mstep (c : mchk K) (o : uop (mcres_mc K)) : res (mchk K) :=
    match o with UAdd r g => Ok (mchk_add c r g) | URollback k => mchk_rollback c k end.
  Fixpoint mrun (c : mchk K) (os : list (uop (mcres_mc K))) : res (mchk K) :=
    match os with
    | [] => Ok c
    | o :: os' => match mstep c o with Ok c' => mrun c' os' | UB e => UB e end
    end.

  Lemma mstep_refines (c : mchk K) o : match mstep c o, spec_step (b_results (mc_base c)) o with
                            | Ok c', Some l' => b_results (mc_base c') = l' /\ mc_beta c' = mc_beta c /\ mc_minw c' = mc_minw c
                            | UB _, None => True
                            | _, _ => False
                            end.
  Proof.
    destruct o as [r g|k]; cbn [mstep spec_step].
    - cbn. repeat split; reflexivity.
    - unfold mchk_rollback, base_rollback.
      destruct (N.of_nat (length (b_results (mc_base c))) <? k)%N; cbn; [exact I|repeat split; reflexivity].
  Qed.

  Lemma mrun_refines os : forall c : mchk K,
    match mrun c os, spec_run (b_results (mc_base c)) os with
    | Ok c', Some l' => b_results (mc_base c') = l' /\ mc_beta c' = mc_beta c /\ mc_minw c' = mc_minw c
    | UB _, None => True
    | _, _ => False
    end.
  Proof.
    induction os as [|o os IH]; intros c; cbn [mrun spec_run]; [repeat split; reflexivity|].
    pose proof (mstep_refines c o) as H.
    destruct (mstep c o) as [c1|e], (spec_step (b_results (mc_base c)) o) as [l1|]; try contradiction; [|exact I].
    destruct H as (H1 & H2 & H3). specialize (IH c1). rewrite H1 in IH.
    destruct (mrun c1 os) as [c2|e2], (spec_run l1 os) as [l2|]; try contradiction; [|exact I].
    destruct IH as (I1 & I2 & I3). repeat split; [exact I1|congruence|congruence].
  Qed.

  Lemma mc_next_state_is_refinement_of_last (c : mchk K) os c' l r :
    mrun c os = Ok c' -> spec_run (b_results (mc_base c)) os = Some (l ++ [r]) ->
    mchk_weights L c' = refine_weights L (m_weights r) (m_adj r) (mc_minw c) (mc_beta c).
  Proof.
    intros Hr Hs. pose proof (mrun_refines os c) as H. rewrite Hr, Hs in H. destruct H as (H1 & H2 & H3).
    unfold mchk_weights. rewrite H1, rev_app_distr. cbn. rewrite H2, H3. reflexivity.
  Qed.

  (** a rejected rollback is exactly a rollback beyond the results the specification holds *)
  Lemma rollback_rejected_iff (c : vchk K) k : (exists e, vchk_rollback c k = UB e) <-> (N.of_nat (length (b_results (vc_base c))) < k)%N.
  Proof.
    unfold vchk_rollback, base_rollback.
    destruct (N.ltb_spec (N.of_nat (length (b_results (vc_base c)))) k) as [H|H]; cbn.
    - split; [intros _; exact H|intros _; eexists; reflexivity].
    - split; [intros [e He]; discriminate He|intros H'; lia].
  Qed.
End UserHistories.
Arguments UAdd {R}. Arguments URollback {R}.

(** non-vacuity: add a, add b, look, roll back to 1, add c  versus  add a, add c *)
Lemma spec_example : spec_run ([] : list nat) [UAdd 1 0%N; UAdd 2 0%N; URollback 1; UAdd 3 0%N] = Some ([1] ++ [3])
                     /\ spec_run ([] : list nat) [UAdd 1 0%N; UAdd 3 0%N] = Some ([1] ++ [3])
                     /\ spec_run ([] : list nat) [UAdd 1 0%N; URollback 5] = None.
Proof. repeat split. Qed.
