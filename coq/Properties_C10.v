(** C10 - every call consumes a fixed, predictable amount of generator output.
    Statements only (proofs in Lemmas_C10.v).

    A generator is a position in the stream of canonical numbers (one position = one
    std::generate_canonical<T, digits> = k raw engine outputs, k fixed per (type, engine)).  The theorems
    hold for EVERY integrand and channel-map oracle (so for every pattern of zero, finite and non-finite
    values), every grid, weight vector and selected channel, every distribution set, every call count, any
    Num: no branch of a call touches the generator.  The raw-draw cost k per number and its equality with
    hep::random_number_usage is arithmetic translated from generator_helper.hpp ([usage_k]); that both
    hep-mc and libstdc++ obtain floor(log2 R) from libm is an assumption measured by the tie, not proved. *)
From Coq Require Import ZArith NArith List Bool.
From HepMC Require Import Num Translated Result Accum VegasPdf Iter Chkpt Run Lemmas_Run Lemmas_C16 Lemmas_C10.
Import ListNotations.

(* d numbers per call (PLAIN, VEGAS: d = dimensions of the grid), d + 1 for multi-channel; the integrand
   call counter advances by one per call *)
Theorem C10_draws_per_iteration : forall (K : Num) (strm : N -> K) ps f,
  (forall d calls g idx r g' idx' tr, plain_iteration strm ps f d calls g idx = Ok (r, g', idx', tr) ->
     g' = (g + calls * N.of_nat d)%N /\ idx' = (idx + calls)%N) /\
  (forall p calls g idx r g' idx' tr, vegas_iteration strm ps f p calls g idx = Ok (r, g', idx', tr) ->
     g' = (g + calls * pdf_dims p)%N /\ idx' = (idx + calls)%N) /\
  (forall mp d ws calls g idx r g' idx' tr, mc_iteration strm ps f mp d ws calls g idx = Ok (r, g', idx', tr) ->
     g' = (g + calls * (N.of_nat d + 1))%N /\ idx' = (idx + calls)%N).
Proof. exact (@c10_draw_counts). Qed.
Print Assumptions C10_draws_per_iteration.

(* the generator stored after iteration i = the generator before the run advanced by cost x calls so far:
   for any integrator whose iterations cost [cost] numbers per call *)
Theorem C10_stored_generator :
  forall (C R Evt : Type) (gen_of : C -> res N) (iterate : C -> N -> N -> N -> res (R * N * N * list Evt))
         (add : C -> R -> N -> C) (cb : C -> bool) (cost : N),
    (forall c r g, gen_of (add c r g) = Ok g) ->
    (forall c calls g idx r g' idx' evs, iterate c calls g idx = Ok (r, g', idx', evs) -> g' = (g + calls * cost)%N) ->
    forall cs c g idx ls c' idx' rest, Exec C R Evt iterate add cb cs c g idx ls c' idx' rest ->
    forall i l, nth_error ls i = Some l -> gen_of (il_chk l) = Ok (g + sumN (firstn (S i) cs) * cost)%N.
Proof. exact exec_stored. Qed.
Print Assumptions C10_stored_generator.

(* instance: hep::plain *)
Theorem C10_plain_stored_generator : forall (K : Num) (strm : N -> K) ps f d cb cs (c : pchk K) idx c' idx' ls g,
  plain_run strm ps f d cb cs c idx = Ok (c', idx', ls) -> base_gen c = Ok g ->
  forall i l, nth_error ls i = Some l -> base_gen (il_chk l) = Ok (g + sumN (firstn (S i) cs) * N.of_nat d)%N.
Proof. exact (@c10_plain_stored). Qed.
Print Assumptions C10_plain_stored_generator.

(* the library's usage predictor (translated integer part): max(1, ceil(b / floor(log2 R))), the
   formula of std::generate_canonical, without wrap-around *)
Theorem C10_usage_predictor : forall b l, (1 <= b < 2 ^ 32)%Z -> (1 <= l < 2 ^ 32)%Z -> usage_k b l = Z.max 1 ((b + l - 1) / l).
Proof. exact usage_k_correct. Qed.
Print Assumptions C10_usage_predictor.

(* non-vacuity: 5 calls in 3 dimensions from position 7 end at 22 although the values are NaN, 0, 1, 1, 1 *)
Example C10_example : match plain_iteration ex10_strm [] ex10_f 3 5 7 0 with Ok (r, g', idx', _) => g' = 22%N /\ r_nz (p_main r) = 4%N /\ r_fin (p_main r) = 3%N | UB _ => False end.
Proof. exact c10_example. Qed.
