(** C10 - every call consumes a fixed, predictable amount of generator output.
    Statements only (proofs in Lemmas_C10.v).

    A generator is a position in the stream of canonical numbers (one position = one
    std::generate_canonical<T, digits> = k raw engine outputs, k fixed per (type, engine)).  The theorems
    hold for EVERY integrand and channel-map oracle (so for every pattern of zero, finite and non-finite
    values), every grid, weight vector and selected channel, every distribution set, every call count, any
    Num: no branch of a call touches the generator.  The raw-draw cost k per number: since the repair of the
    defect found for ranges 2^7, 2^14, 2^53 (hep-mc rounded log2 R differently from libstdc++),
    hep::random_number_usage no longer predicts k by a formula but counts the outputs std::generate_canonical
    takes from an engine with the same range; [C10_usage_is_cost] states what that needs - the number of
    outputs taken must not depend on their values - and the real count is measured for every engine of the
    harness (standard engines, engine adaptors with power-of-two ranges, odd moduli). *)
From Coq Require Import ZArith NArith List Bool.
From HepMC Require Import Num Translated Result Accum VegasPdf Iter Chkpt Run Lemmas_Run Lemmas_C16 Lemmas_C10.
Import ListNotations.

(* d numbers per call (PLAIN, VEGAS: d = dimensions of the grid), d + 1 for multi-channel; the integrand
   call counter advances by one per call *)
Theorem C10_draws_per_iteration : forall (K : Num) (strm : N -> K) ps f,
  (forall d calls g idx r g' idx' tr, plain_iteration strm ps f d calls g idx = Ok (r, g', idx', tr) ->
     g' = (g + calls * N.of_nat d)%N /\ idx' = (idx + calls)%N) /\
  (forall p calls g idx r g' idx' tr, vegas_iteration strm ps f p calls g idx = Ok (r, g', idx', tr) ->
     g' = (g + calls * pdf_dims p)%N /\ idx' = (idx + calls)%N) /\
  (forall mp d ws calls g idx r g' idx' tr, mc_iteration strm ps f mp d ws calls g idx = Ok (r, g', idx', tr) ->
     g' = (g + calls * (N.of_nat d + 1))%N /\ idx' = (idx + calls)%N).
Proof. exact (@c10_draw_counts). Qed.
Print Assumptions C10_draws_per_iteration.

(* the generator stored after iteration i = the generator before the run advanced by cost x calls so far:
   for any integrator whose iterations cost [cost] numbers per call *)
Theorem C10_stored_generator :
  forall (C R Evt : Type) (gen_of : C -> res N) (iterate : C -> N -> N -> N -> res (R * N * N * list Evt))
         (add : C -> R -> N -> C) (cb : C -> bool) (cost : N),
    (forall c r g, gen_of (add c r g) = Ok g) ->
    (forall c calls g idx r g' idx' evs, iterate c calls g idx = Ok (r, g', idx', evs) -> g' = (g + calls * cost)%N) ->
    forall cs c g idx ls c' idx' rest, Exec C R Evt iterate add cb cs c g idx ls c' idx' rest ->
    forall i l, nth_error ls i = Some l -> gen_of (il_chk l) = Ok (g + sumN (firstn (S i) cs) * cost)%N.
Proof. exact exec_stored. Qed.
Print Assumptions C10_stored_generator.

(* instance: hep::plain *)
Theorem C10_plain_stored_generator : forall (K : Num) (strm : N -> K) ps f d cb cs (c : pchk K) idx c' idx' ls g,
  plain_run strm ps f d cb cs c idx = Ok (c', idx', ls) -> base_gen c = Ok g ->
  forall i l, nth_error ls i = Some l -> base_gen (il_chk l) = Ok (g + sumN (firstn (S i) cs) * N.of_nat d)%N.
Proof. exact (@c10_plain_stored). Qed.
Print Assumptions C10_plain_stored_generator.

(* the library's usage predictor runs std::generate_canonical on an engine of the same range that always returns min() and counts
   the outputs taken: for any generate_canonical whose consumption does not depend on the values drawn, that count is the cost of
   every number of every run *)
Theorem C10_usage_is_cost : forall (raw : Type) (draws : (nat -> raw) -> nat) (lo : raw),
  (forall s1 s2, draws s1 = draws s2) -> forall s, draws s = predicted_usage raw draws lo.
Proof. exact usage_is_cost. Qed.
Print Assumptions C10_usage_is_cost.

(* instance: the algorithm of the C++11 standard (k = max(1, ceil(b / log2 R)) outputs, whatever way log2 R is rounded) *)
Theorem C10_usage_standard_algorithm : forall (raw : Type) (lo : raw) (b log2r : N) (s : nat -> raw),
  standard_draws raw b log2r s = predicted_usage raw (standard_draws raw b log2r) lo /\
  standard_draws raw b log2r s = N.to_nat (N.max 1 ((b + log2r - 1) / log2r)).
Proof. exact usage_standard. Qed.
Print Assumptions C10_usage_standard_algorithm.

(* non-vacuity: 5 calls in 3 dimensions from position 7 end at 22 although the values are NaN, 0, 1, 1, 1 *)
Example C10_example : match plain_iteration ex10_strm [] ex10_f 3 5 7 0 with Ok (r, g', idx', _) => g' = 22%N /\ r_nz (p_main r) = 4%N /\ r_fin (p_main r) = 3%N | UB _ => False end.
Proof. exact c10_example. Qed.
