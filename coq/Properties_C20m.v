(** C20m - the MPI form of C20 (mode independence): reporting never changes an MPI run.
    Statements only (proofs in Lemmas_C20m.v).

    In Mpi.v the drivers of all ranks receive one rank-aware callback [cb : N -> C -> bool] (rank, checkpoint);
    hep::mpi_callback is modelled ([mpi_callback], Lemmas_C20m.v, from mpi_callback.hpp) as C20's
    [builtin_callback] in the requested mode on rank 0 and forced into silent mode on every other rank; as in
    C20 only the decision is returned to the integrator.

    What is proved
    - C20m_iteration_answers_only / C20m_loop_answers_only / C20m_run_answers_only: one iteration of all ranks, the
      loop, and the three drivers depend on the callback ONLY through its boolean answers: two rank-aware callbacks
      that agree pointwise give the SAME result - the same rank states (checkpoint, generator, grid / weights,
      call counter of every rank), the same logs (every checkpoint handed to a callback, every answer, the events,
      the collectives) and also the same undefined-behaviour code.  No hypothesis at all (any world size,
      reduction order, rank states; no functional extensionality).
    - C20m_mpi_callback: mpi_callback's decision is the mode-free built-in decision of C20 on every rank, hence
      rank independent ([cb_rank_independent], the hypothesis of C04 / C12m / C19m / C10m); ranks > 0 neither print
      nor write a file; rank 0 behaves exactly like the serial callback in the requested mode.
    - C20m_run_mode_independent: the runs under mpi_callback in any two modes are equal; C20m_run_builtin_answers:
      any rank-aware callback answering with the built-in decision gives the run of the bare decision.
    As in C20, mode independence of the DECISION is true by construction of the model (the decision has no mode
    argument); the weight of that half lies in the correspondence check.  What the model adds is the
    "answers only" theorems.  The index-safety / termination half of C20 concerns the printing code, which is
    rank-agnostic (only rank 0 prints; the states it prints are the common checkpoints), and is not restated here.
    NOT proved: anything about the text printed or the file written (not modelled, see C18 / C20). *)
From Coq Require Import ZArith NArith List Bool.
From HepMC Require Import Num NumB Translated Result Accum VegasPdf Discrete MultiChannel Helper Iter Chkpt Callback Run Mpi
  Lemmas_Run Lemmas_C16 Lemmas_C10 Lemmas_C12 Lemmas_C04 Lemmas_C20 Lemmas_C12m Lemmas_C20m.
Import ListNotations.

Theorem C20m_iteration_answers_only : forall (K : Num) (C S R : Type) world perm sub_calls usage
    (local_iter : S -> N -> N -> N -> res (R * N * N * list (event K))) plain_of extra_of rebuild
    (addc : C -> R -> N -> C) refine (cb1 cb2 : N -> C -> bool),
  (forall r c, cb1 r c = cb2 r c) ->
  forall calls sts,
    mpi_iteration C S R world perm sub_calls usage local_iter plain_of extra_of rebuild addc cb1 refine calls sts
  = mpi_iteration C S R world perm sub_calls usage local_iter plain_of extra_of rebuild addc cb2 refine calls sts.
Proof. exact (@mpi_iteration_ext). Qed.
Print Assumptions C20m_iteration_answers_only.

Theorem C20m_loop_answers_only : forall (K : Num) (C S R : Type) world perm sub_calls usage
    (local_iter : S -> N -> N -> N -> res (R * N * N * list (event K))) plain_of extra_of rebuild
    (addc : C -> R -> N -> C) refine (cb1 cb2 : N -> C -> bool),
  (forall r c, cb1 r c = cb2 r c) ->
  forall cs sts log,
    mpi_loop C S R world perm sub_calls usage local_iter plain_of extra_of rebuild addc cb1 refine cs sts log
  = mpi_loop C S R world perm sub_calls usage local_iter plain_of extra_of rebuild addc cb2 refine cs sts log.
Proof. exact (@mpi_loop_ext). Qed.
Print Assumptions C20m_loop_answers_only.

Theorem C20m_run_answers_only : forall (K : Num) (L : Libm K) strm ps f mp world perm,
  (forall cb1 cb2 : N -> pchk K -> bool, (forall r c, cb1 r c = cb2 r c) ->
     forall d cs c idx, mpi_plain_run strm ps f world perm d cb1 cs c idx = mpi_plain_run strm ps f world perm d cb2 cs c idx) /\
  (forall cb1 cb2 : N -> vchk K -> bool, (forall r c, cb1 r c = cb2 r c) ->
     forall d cs c idx, mpi_vegas_run L strm ps f world perm d cb1 cs c idx = mpi_vegas_run L strm ps f world perm d cb2 cs c idx) /\
  (forall cb1 cb2 : N -> mchk K -> bool, (forall r c, cb1 r c = cb2 r c) ->
     forall d channels cs c idx, mpi_mc_run L strm ps f world perm mp d channels cb1 cs c idx
                               = mpi_mc_run L strm ps f world perm mp d channels cb2 cs c idx).
Proof. exact (@c20m_run_answers_only). Qed.
Print Assumptions C20m_run_answers_only.

Theorem C20m_mpi_callback : forall (K : Num) (m : cbmode) (target : K),
  (forall r c, mpi_cb_plain m target r c = cb_plain target c) /\
  (forall r c, mpi_cb_vegas m target r c = cb_vegas target c) /\
  (forall r c, mpi_cb_mc m target r c = cb_mc target c) /\
  cb_rank_independent (mpi_cb_plain m target) /\ cb_rank_independent (mpi_cb_vegas m target) /\
  cb_rank_independent (mpi_cb_mc m target) /\
  (forall (C : Type) (dec : C -> bool) r c, r <> 0%N ->
     ce_prints (mpi_callback dec m r c) = false /\ ce_writes (mpi_callback dec m r c) = None) /\
  (forall (C : Type) (dec : C -> bool) c, mpi_callback dec m 0 c = builtin_callback dec m c).
Proof. exact (@c20m_mpi_callback). Qed.
Print Assumptions C20m_mpi_callback.

Theorem C20m_run_mode_independent : forall (K : Num) (L : Libm K) strm ps f mp world perm (m1 m2 : cbmode) (target : K),
  (forall d cs c idx, mpi_plain_run strm ps f world perm d (mpi_cb_plain m1 target) cs c idx
                    = mpi_plain_run strm ps f world perm d (mpi_cb_plain m2 target) cs c idx) /\
  (forall d cs c idx, mpi_vegas_run L strm ps f world perm d (mpi_cb_vegas m1 target) cs c idx
                    = mpi_vegas_run L strm ps f world perm d (mpi_cb_vegas m2 target) cs c idx) /\
  (forall d channels cs c idx, mpi_mc_run L strm ps f world perm mp d channels (mpi_cb_mc m1 target) cs c idx
                             = mpi_mc_run L strm ps f world perm mp d channels (mpi_cb_mc m2 target) cs c idx).
Proof. exact (@c20m_run_mode_independent). Qed.
Print Assumptions C20m_run_mode_independent.

Theorem C20m_run_builtin_answers : forall (K : Num) (L : Libm K) strm ps f mp world perm (target : K),
  (forall cb, (forall r c, cb r c = cb_plain target c) ->
     forall d cs c idx, mpi_plain_run strm ps f world perm d cb cs c idx
                      = mpi_plain_run strm ps f world perm d (fun _ => cb_plain target) cs c idx) /\
  (forall cb, (forall r c, cb r c = cb_vegas target c) ->
     forall d cs c idx, mpi_vegas_run L strm ps f world perm d cb cs c idx
                      = mpi_vegas_run L strm ps f world perm d (fun _ => cb_vegas target) cs c idx) /\
  (forall cb, (forall r c, cb r c = cb_mc target c) ->
     forall d channels cs c idx, mpi_mc_run L strm ps f world perm mp d channels cb cs c idx
                               = mpi_mc_run L strm ps f world perm mp d channels (fun _ => cb_mc target) cs c idx).
Proof. exact (@c20m_run_builtin_answers). Qed.
Print Assumptions C20m_run_builtin_answers.

(* non-vacuity: C12m's example run (C04's PLAIN run, 3 ranks, built-in decision with target 1/8, 4 requested
   iterations) under mpi_callback in verbose-write mode: its answers are the bare decision's, the run IS the run
   with the bare decision, which is defined and stops after two iterations (ex12m_check); rank 0 prints, rank 2
   does not *)
Example C20m_example :
  (forall r c, mpi_cb_plain VerboseWrite ex12m_target r c = cb_plain ex12m_target c) /\
  mpi_plain_run ex04_strm [] ex04_f 3 [2; 0; 1]%N 2 (mpi_cb_plain VerboseWrite ex12m_target) [4; 5; 7; 4]%N (base_init 0) 0
    = ex12m_run ex12m_target /\
  ex12m_check = true /\
  ce_prints (mpi_callback (cb_plain ex12m_target) VerboseWrite 0 (base_init 0)) = true /\
  ce_prints (mpi_callback (cb_plain ex12m_target) VerboseWrite 2 (base_init 0)) = false.
Proof. exact c20m_example. Qed.
