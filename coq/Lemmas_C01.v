(** Lemmas for C01: the sampling weights make every integrator an unbiased estimator.
    (a) PLAIN passes the canonical numbers through with weight one (every [Num]);
    (b) 1-d lattice lemma for the model's [icdf1] over the reals;
    (c) 1-d: lattice average = composite midpoint rule, exact for affine integrands;
    (d) d dimensions: [icdf] acts componentwise, lattice average = d-dimensional composite midpoint
        rule for EVERY integrand, exact for (sums of) products of affine factors;
    (e) multi-channel weight times mixture density = 1;
    (f) finite sample space: unbiasedness over points and channel choice. *)
From Coq Require Import ZArith NArith List Reals Lra Lia Bool.
From Flocq Require Import Core.
From HepMC Require Import Num NumR Translated Result Accum VegasPdf Discrete MultiChannel Iter.
Import ListNotations.
Local Open Scope R_scope.

(* ------------------------------------------------------------------------------------------- *)
(** * (a) PLAIN *)
Section Plain.
  Context {K : Num}.
  Variable strm : N -> K.
  Variable ps : list (dparams K).
  Variable f : integrand K.

  (* the observation PLAIN builds for its call number [it_idx s] *)
  Definition plain_obs (d : nat) (s : itst K) : obs K :=
    mk_obs (it_idx s) (draws strm (it_g s) d) (one K) [] 0%N [].

  Lemma iotaN_length g d : length (iotaN g d) = d.
  Proof. revert g. induction d as [|d IH]; intros g; cbn; [reflexivity|]. rewrite IH. reflexivity. Qed.

  Lemma iotaN_nth : forall d g i, (i < d)%nat -> nth_error (iotaN g d) i = Some (g + N.of_nat i)%N.
  Proof.
    induction d as [|d IH]; intros g i Hi; [lia|]. destruct i as [|i]; cbn.
    - f_equal. lia.
    - rewrite IH by lia. f_equal. lia.
  Qed.

  Lemma draws_length g d : length (draws strm g d) = d.
  Proof. unfold draws. rewrite map_length. apply iotaN_length. Qed.

  Lemma draws_nth g d i : (i < d)%nat -> nth_error (draws strm g d) i = Some (strm (g + N.of_nat i)%N).
  Proof. intros Hi. unfold draws. rewrite nth_error_map, iotaN_nth by exact Hi. reflexivity. Qed.

  Lemma plain_point d s s' : plain_step strm ps f d s = Ok s' ->
    let o := plain_obs d s in
    o_point o = draws strm (it_g s) d /\ length (o_point o) = d /\
    (forall i, (i < d)%nat -> nth_error (o_point o) i = Some (strm (it_g s + N.of_nat i)%N)) /\
    o_weight o = one K /\
    it_tr s' = EvIntegrand o true :: it_tr s /\
    a_main (it_acc s') = fst (invoke_main (a_main (it_acc s)) (i_val (f o)) (one K)) /\
    it_g s' = (it_g s + N.of_nat d)%N /\ it_idx s' = (it_idx s + 1)%N.
  Proof.
    intros H o. unfold plain_step in H. fold (plain_obs d s) in H. fold o in H.
    unfold finish_call in H.
    destruct (do_fills ps (o_weight o) (a_dists (it_acc s)) (i_fills (f o))) as [ds|c]; cbn [bind] in H; [|discriminate].
    change (o_weight o) with (one K) in H.
    destruct (invoke_main (a_main (it_acc s)) (i_val (f o)) (one K)) as [mn v] eqn:E.
    cbn [bind] in H. injection H as <-. cbn [it_tr it_acc a_main it_g it_idx fst].
    repeat split.
    - apply draws_length.
    - intros i Hi. apply draws_nth. exact Hi.
  Qed.

  Lemma plain_step_ok d s : i_fills (f (plain_obs d s)) = [] -> exists s', plain_step strm ps f d s = Ok s'.
  Proof.
    intros H. unfold plain_step. fold (plain_obs d s). unfold finish_call. rewrite H. cbn [do_fills bind].
    destruct (invoke_main _ _ _) as [mn v]. cbn [bind]. eexists. reflexivity.
  Qed.
End Plain.

(* ------------------------------------------------------------------------------------------- *)
(** * finite sums *)
Fixpoint sumN (n : nat) (F : nat -> R) : R :=
  match n with O => 0 | S n' => sumN n' F + F n' end.

Lemma sumN_ext n F G : (forall i, (i < n)%nat -> F i = G i) -> sumN n F = sumN n G.
Proof. induction n as [|n IH]; intros H; cbn; [reflexivity|]. rewrite IH, H by (intros; auto with arith). reflexivity. Qed.

Lemma sumN_scal n c F : sumN n (fun i => c * F i) = c * sumN n F.
Proof. induction n as [|n IH]; cbn; [ring|]. rewrite IH. ring. Qed.

Lemma sumN_plus n F G : sumN n (fun i => F i + G i) = sumN n F + sumN n G.
Proof. induction n as [|n IH]; cbn; [ring|]. rewrite IH. ring. Qed.

Lemma sumN_const n c : sumN n (fun _ => c) = INR n * c.
Proof. induction n as [|n IH]; [cbn; ring|]. cbn [sumN]. rewrite IH, S_INR. ring. Qed.

Lemma sumN_app n k F : sumN (n + k) F = sumN n F + sumN k (fun i => F (n + i)%nat).
Proof.
  induction k as [|k IH]; cbn.
  - rewrite Nat.add_0_r. ring.
  - rewrite Nat.add_succ_r. cbn. rewrite IH. ring.
Qed.

Lemma sumN_split a m F : sumN (a * m) F = sumN a (fun b => sumN m (fun k => F (b * m + k)%nat)).
Proof.
  induction a as [|a IH]; [reflexivity|].
  rewrite Nat.mul_succ_l, sumN_app, IH. reflexivity.
Qed.

(* sum over k < m of (k + 1/2) = m^2 / 2 *)
Lemma sumN_half m : sumN m (fun k => INR k + / 2) = INR m * INR m / 2.
Proof. induction m as [|m IH]; [cbn; lra|]. cbn [sumN]. rewrite IH, S_INR. field. Qed.

(* telescoping sums *)
Lemma sumN_tele n (g : nat -> R) : sumN n (fun b => g (S b) - g b) = g n - g O.
Proof. induction n as [|n IH]; cbn; [ring|]. rewrite IH. ring. Qed.

(** sums of results: undefined behaviour of any term makes the sum undefined *)
Fixpoint rsum (n : nat) (F : nat -> res R) : res R :=
  match n with O => Ok 0 | S n' => do a <- rsum n' F; do b <- F n'; Ok (a + b) end.

Lemma rsum_ok n F G : (forall j, (j < n)%nat -> F j = Ok (G j)) -> rsum n F = Ok (sumN n G).
Proof.
  induction n as [|n IH]; intros H; [reflexivity|]. cbn [rsum sumN].
  rewrite IH by (intros; apply H; lia). rewrite H by lia. reflexivity.
Qed.

Lemma rsum_ext n F G : (forall j, (j < n)%nat -> F j = G j) -> rsum n F = rsum n G.
Proof.
  induction n as [|n IH]; intros H; [reflexivity|]. cbn [rsum].
  rewrite IH by (intros; apply H; lia). rewrite H by lia. reflexivity.
Qed.

Lemma rsum_ok2 a m F G : (forall b k, (b < a)%nat -> (k < m)%nat -> F (b * m + k)%nat = Ok (G b k)) ->
  rsum (a * m) F = Ok (sumN a (fun b => sumN m (fun k => G b k))).
Proof.
  intros H. destruct (Nat.eq_dec m 0) as [->|Hm].
  - rewrite Nat.mul_0_r. cbn. f_equal. induction a as [|a IH]; cbn; [reflexivity|].
    rewrite <- IH by (intros; lia). ring.
  - rewrite (rsum_ok _ _ (fun j => G (j / m)%nat (j mod m)%nat)).
    + rewrite sumN_split. f_equal. apply sumN_ext. intros b Hb. apply sumN_ext. intros k Hk.
      rewrite Nat.div_add_l, Nat.div_small, Nat.add_0_r by lia.
      rewrite Nat.add_comm, Nat.mod_add, Nat.mod_small by lia. reflexivity.
    + intros j Hj. rewrite (Nat.div_mod j m Hm) at 1. rewrite (Nat.mul_comm m).
      apply H.
      * apply Nat.div_lt_upper_bound; lia.
      * apply Nat.mod_upper_bound. exact Hm.
Qed.

(* ------------------------------------------------------------------------------------------- *)
(** * (b) the 1-d lattice lemma for [icdf1] over the reals *)

(* the flat boundary vector has (bins + 1) entries per dimension, as every constructor makes it *)
Definition pdf_wf (p : pdf NumR) : Prop :=
  length (pdf_x p) = N.to_nat (pdf_dims p * (pdf_bins p + 1)).

(* boundary b of dimension d *)
Definition grid (p : pdf NumR) (d b : N) : R :=
  nth (N.to_nat (d * (pdf_bins p + 1) + b)) (pdf_x p) 0.

Lemma bin_left_ok (p : pdf NumR) d b : pdf_wf p -> (d < pdf_dims p)%N -> (b <= pdf_bins p)%N ->
  bin_left p d b = Ok (grid p d b).
Proof.
  intros W Hd Hb. unfold bin_left, getN, nthN, grid.
  rewrite (nth_error_nth' (pdf_x p) 0); [reflexivity|].
  rewrite W. nia.
Qed.

Lemma IZR_N_pos n : (1 <= n)%N -> 0 < IZR (Z.of_N n).
Proof. intros H. apply IZR_lt. lia. Qed.

(** The lattice number u = (b*m + k + 1/2) / (bins*m) is mapped to bin b, to the point
    g_b + (k+1/2)/m * (g_{b+1} - g_b), with the weight factor (g_{b+1} - g_b) * bins. *)
Lemma icdf1_lattice_gen (p : pdf NumR) (d m b k : N) (gl gr : R) :
  (1 <= pdf_bins p < 2 ^ 64)%N -> (1 <= m)%N -> (b < pdf_bins p)%N -> (k < m)%N ->
  bin_left p d b = Ok gl -> bin_left p d (b + 1) = Ok gr ->
  let u := (IZR (Z.of_N (b * m + k)) + / 2) / IZR (Z.of_N (pdf_bins p * m)) in
  icdf1 p d u = Ok (gl + ((IZR (Z.of_N k) + / 2) / IZR (Z.of_N m)) * (gr - gl), b,
                    (gr - gl) * IZR (Z.of_N (pdf_bins p))).
Proof.
  intros Hbins Hm Hb Hk Hl Hr u.
  set (bins := pdf_bins p) in *.
  assert (HB : 0 < IZR (Z.of_N bins)) by (apply IZR_N_pos; lia).
  assert (HM : 0 < IZR (Z.of_N m)) by (apply IZR_N_pos; lia).
  assert (Hk0 : 0 <= IZR (Z.of_N k)) by (apply IZR_le; lia).
  assert (Hk1 : IZR (Z.of_N k) + 1 <= IZR (Z.of_N m)) by (rewrite <- plus_IZR; apply IZR_le; lia).
  assert (Hb0 : 0 <= IZR (Z.of_N b)) by (apply IZR_le; lia).
  assert (Hb1 : IZR (Z.of_N b) + 1 <= IZR (Z.of_N bins)) by (rewrite <- plus_IZR; apply IZR_le; lia).
  assert (Hfrac : 0 < (IZR (Z.of_N k) + / 2) / IZR (Z.of_N m) < 1).
  { split; [apply Rdiv_lt_0_compat; lra|].
    apply Rmult_lt_reg_r with (IZR (Z.of_N m)); [lra|].
    unfold Rdiv. rewrite Rmult_assoc, Rinv_l by lra. lra. }
  assert (Hpos : u * IZR (Z.of_N bins) = IZR (Z.of_N b) + (IZR (Z.of_N k) + / 2) / IZR (Z.of_N m)).
  { unfold u. rewrite !N2Z.inj_add, !N2Z.inj_mul, !plus_IZR, !mult_IZR. field. split; lra. }
  assert (Hu1 : u <> 1).
  { intros E. rewrite E, Rmult_1_l in Hpos. lra. }
  unfold icdf1. cbn [NumR eqb one pred_one mul ofN trunc sub add T]. fold bins.
  apply Reqb_false in Hu1. rewrite Hu1, Hpos.
  assert (Htr : Ztrunc (IZR (Z.of_N b) + (IZR (Z.of_N k) + / 2) / IZR (Z.of_N m)) = Z.of_N b).
  { rewrite Ztrunc_floor by lra. apply Zfloor_imp. rewrite plus_IZR. lra. }
  unfold Rtrunc_N. rewrite Htr.
  destruct (Z.ltb_spec (Z.of_N b) 0) as [?|_]; [lia|].
  destruct (Z.ltb_spec (Z.of_N b) (2 ^ 64)) as [_|?]; [|lia].
  rewrite N2Z.id, Hl, Hr. cbn [bind]. f_equal. f_equal. f_equal. ring.
Qed.

Lemma icdf1_lattice (p : pdf NumR) (d m b k : N) :
  pdf_wf p -> (d < pdf_dims p)%N ->
  (1 <= pdf_bins p < 2 ^ 64)%N -> (1 <= m)%N -> (b < pdf_bins p)%N -> (k < m)%N ->
  let u := (IZR (Z.of_N (b * m + k)) + / 2) / IZR (Z.of_N (pdf_bins p * m)) in
  let gl := grid p d b in let gr := grid p d (b + 1) in
  icdf1 p d u = Ok (gl + ((IZR (Z.of_N k) + / 2) / IZR (Z.of_N m)) * (gr - gl), b,
                    (gr - gl) * IZR (Z.of_N (pdf_bins p))).
Proof.
  intros W Hd Hbins Hm Hb Hk u gl gr.
  apply icdf1_lattice_gen; try assumption; apply bin_left_ok; try assumption; lia.
Qed.

(** nat-indexed form used for the sums *)
Definition nbins (p : pdf NumR) : nat := N.to_nat (pdf_bins p).
Definition gridn (p : pdf NumR) (d : N) (b : nat) : R := grid p d (N.of_nat b).
(* j-th number of the n-point midpoint lattice of [0,1) *)
Definition lat (n j : nat) : R := (INR j + / 2) / INR n.
(* width of cell b; k-th midpoint of cell b refined m-fold *)
Definition cell_w (p : pdf NumR) (d : N) (b : nat) : R := gridn p d (S b) - gridn p d b.
Definition cell_pt (p : pdf NumR) (d : N) (m b k : nat) : R :=
  gridn p d b + ((INR k + / 2) / INR m) * cell_w p d b.

Lemma INR_N n : INR n = IZR (Z.of_N (N.of_nat n)).
Proof. rewrite INR_IZR_INZ. f_equal. lia. Qed.

Lemma icdf1_lattice_nat (p : pdf NumR) (d : N) (m b k : nat) :
  pdf_wf p -> (d < pdf_dims p)%N ->
  (1 <= pdf_bins p < 2 ^ 64)%N -> (1 <= m)%nat -> (b < nbins p)%nat -> (k < m)%nat ->
  icdf1 p d (lat (nbins p * m) (b * m + k)) =
    Ok (cell_pt p d m b k, N.of_nat b, cell_w p d b * INR (nbins p)).
Proof.
  intros W Hd Hbins Hm Hb Hk. unfold nbins in *.
  pose proof (icdf1_lattice p d (N.of_nat m) (N.of_nat b) (N.of_nat k) W Hd Hbins) as H.
  cbv zeta in H.
  unfold lat, cell_pt, cell_w, gridn. rewrite !INR_N.
  replace (N.of_nat (N.to_nat (pdf_bins p) * m)) with (pdf_bins p * N.of_nat m)%N by lia.
  replace (N.of_nat (b * m + k)) with (N.of_nat b * N.of_nat m + N.of_nat k)%N by lia.
  replace (N.of_nat (S b)) with (N.of_nat b + 1)%N by lia.
  rewrite N2Nat.id. apply H; lia.
Qed.

(* ------------------------------------------------------------------------------------------- *)
(** * (c) one dimension: lattice average = composite midpoint rule *)

Definition vegas_term (f : R -> R) (r : R * N * R) : R := let '(x, _, w) := r in f x * w.

(* average of f(x(u)) * w(u) over the (bins*m)-point lattice; UB if any point is *)
Definition lattice_avg_1d (p : pdf NumR) (d : N) (m : nat) (f : R -> R) : res R :=
  let n := (nbins p * m)%nat in
  do s <- rsum n (fun j => do r <- icdf1 p d (lat n j); Ok (vegas_term f r));
  Ok (s / INR n).

(* composite midpoint rule on the grid cells of dimension d, each refined m-fold *)
Definition midpoint_rule_1d (p : pdf NumR) (d : N) (m : nat) (f : R -> R) : R :=
  sumN (nbins p) (fun b => cell_w p d b * (/ INR m * sumN m (fun k => f (cell_pt p d m b k)))).

Lemma INR_pos n : (1 <= n)%nat -> 0 < INR n.
Proof. intros H. apply lt_0_INR. lia. Qed.

Lemma vegas_lattice_1d_midpoint_rule (p : pdf NumR) (d : N) (m : nat) (f : R -> R) :
  pdf_wf p -> (d < pdf_dims p)%N -> (1 <= pdf_bins p < 2 ^ 64)%N -> (1 <= m)%nat ->
  lattice_avg_1d p d m f = Ok (midpoint_rule_1d p d m f).
Proof.
  intros W Hd Hbins Hm. unfold lattice_avg_1d, midpoint_rule_1d.
  assert (HB : 0 < INR (nbins p)) by (apply INR_pos; unfold nbins; lia).
  assert (HM : 0 < INR m) by (apply INR_pos; lia).
  rewrite (rsum_ok2 _ _ _ (fun b k => f (cell_pt p d m b k) * (cell_w p d b * INR (nbins p)))).
  2:{ intros b k Hb Hk. rewrite icdf1_lattice_nat by assumption. reflexivity. }
  cbn [bind]. f_equal. rewrite mult_INR. unfold Rdiv. rewrite Rmult_comm, <- sumN_scal.
  apply sumN_ext. intros b Hb.
  rewrite <- !sumN_scal. apply sumN_ext. intros k Hk. field. split; lra.
Qed.

(** the midpoint rule is exact for affine integrands on any grid from 0 to 1 *)
Lemma midpoint_exact_affine_1d (p : pdf NumR) (d : N) (m : nat) (a c : R) :
  (1 <= m)%nat -> gridn p d 0 = 0 -> gridn p d (nbins p) = 1 ->
  midpoint_rule_1d p d m (fun x => a + c * x) = a + c / 2.
Proof.
  intros Hm H0 H1. unfold midpoint_rule_1d.
  assert (HM : 0 < INR m) by (apply INR_pos; lia).
  rewrite (sumN_ext _ _ (fun b => (a * gridn p d (S b) + c / 2 * (gridn p d (S b) * gridn p d (S b)))
                                - (a * gridn p d b + c / 2 * (gridn p d b * gridn p d b)))).
  - rewrite (sumN_tele _ (fun b => a * gridn p d b + c / 2 * (gridn p d b * gridn p d b))).
    rewrite H0, H1. lra.
  - intros b _. unfold cell_pt.
    rewrite (sumN_ext _ _ (fun k => (a + c * gridn p d b - c * cell_w p d b / INR m * / 2
                                     + c * cell_w p d b / INR m * / 2)
                                    + c * cell_w p d b / INR m * (INR k + / 2))).
    2:{ intros k _. field. lra. }
    rewrite sumN_plus, sumN_const, sumN_scal, sumN_half. unfold cell_w. field. lra.
Qed.

(* ------------------------------------------------------------------------------------------- *)
(** * (d) d dimensions *)

(** [icdf] acts componentwise; the weight is the product of the factors (every [Num]) *)
Section Componentwise.
  Context {K : Num}.
  Inductive icdf_all (p : pdf K) : N -> list K -> list K -> list N -> list K -> Prop :=
  | ia_nil d : icdf_all p d [] [] [] []
  | ia_cons d u us x xs b bs w ws :
      icdf1 p d u = Ok (x, b, w) -> icdf_all p (d + 1) us xs bs ws ->
      icdf_all p d (u :: us) (x :: xs) (b :: bs) (w :: ws).

  Lemma icdf_loop_componentwise (p : pdf K) d us xs bs ws w0 :
    icdf_all p d us xs bs ws -> icdf_loop p d us w0 = Ok (xs, bs, fold_left (mul K) ws w0).
  Proof.
    intros H. revert w0. induction H as [d|d u us x xs b bs w ws H1 _ IH]; intros w0; [reflexivity|].
    cbn [icdf_loop fold_left]. rewrite H1. cbn [bind]. rewrite IH. reflexivity.
  Qed.

  Lemma icdf_loop_inv (p : pdf K) : forall us d w0 xs bs w,
    icdf_loop p d us w0 = Ok (xs, bs, w) ->
    exists ws, icdf_all p d us xs bs ws /\ w = fold_left (mul K) ws w0.
  Proof.
    induction us as [|u us IH]; intros d w0 xs bs w H; cbn [icdf_loop] in H.
    - injection H as <- <- <-. exists []. split; [constructor|reflexivity].
    - destruct (icdf1 p d u) as [[[x b] fw]|c] eqn:E1; cbn [bind] in H; [|discriminate].
      destruct (icdf_loop p (d + 1) us (mul K w0 fw)) as [[[xs' bs'] w']|c] eqn:E2; cbn [bind] in H; [|discriminate].
      injection H as <- <- <-. destruct (IH _ _ _ _ _ E2) as (ws & HA & HW).
      exists (fw :: ws). split; [constructor; assumption|exact HW].
  Qed.

  Lemma icdf_all_length (p : pdf K) d us xs bs ws : icdf_all p d us xs bs ws ->
    length xs = length us /\ length bs = length us /\ length ws = length us.
  Proof. induction 1 as [|d u us x xs b bs w ws _ _ (IH1 & IH2 & IH3)]; cbn; auto. Qed.
End Componentwise.

Fixpoint prodR (l : list R) : R := match l with [] => 1 | x :: l' => x * prodR l' end.

Lemma fold_left_Rmult l w0 : fold_left Rmult l w0 = w0 * prodR l.
Proof. revert w0. induction l as [|x l IH]; intros w0; cbn; [ring|]. rewrite IH. ring. Qed.

Lemma icdf_componentwise (p : pdf NumR) us xs bs ws :
  icdf_all p 0 us xs bs ws -> icdf p us = Ok (xs, bs, prodR ws).
Proof.
  intros H. unfold icdf. rewrite (icdf_loop_componentwise p 0 us xs bs ws _ H).
  change (mul NumR) with Rmult. rewrite fold_left_Rmult. cbn [NumR one]. rewrite Rmult_1_l. reflexivity.
Qed.

(** sum over the d-dimensional lattice with n numbers per axis (first coordinate = outermost loop) *)
Fixpoint lsum (n d : nat) (G : list R -> res R) : res R :=
  match d with
  | O => G []
  | S d' => rsum n (fun j => lsum n d' (fun us => G (lat n j :: us)))
  end.

Lemma lsum_ext n d : forall G G', (forall us, G us = G' us) -> lsum n d G = lsum n d G'.
Proof.
  induction d as [|d IH]; intros G G' H; cbn [lsum]; [apply H|].
  apply rsum_ext. intros j _. apply IH. intros us. apply H.
Qed.

Definition vegas_term_d (f : list R -> R) (r : list R * list N * R) : R :=
  let '(xs, _, w) := r in f xs * w.

(* average of f(x(u)) * w(u) over the (bins*m)^dims lattice *)
Definition lattice_avg (p : pdf NumR) (m : nat) (f : list R -> R) : res R :=
  let n := (nbins p * m)%nat in
  let d := N.to_nat (pdf_dims p) in
  do s <- lsum n d (fun us => do r <- icdf p us; Ok (vegas_term_d f r));
  Ok (s / INR n ^ d).

(* composite midpoint rule on the product grid, dimensions d0, d0+1, ..., d0+d-1 *)
Fixpoint mid_rule (p : pdf NumR) (m : nat) (d0 : N) (d : nat) (f : list R -> R) : R :=
  match d with
  | O => f []
  | S d' => sumN (nbins p) (fun b => cell_w p d0 b * (/ INR m *
              sumN m (fun k => mid_rule p m (d0 + 1) d' (fun xs => f (cell_pt p d0 m b k :: xs)))))
  end.

Lemma mid_rule_ext p m d : forall d0 f g, (forall xs, f xs = g xs) -> mid_rule p m d0 d f = mid_rule p m d0 d g.
Proof.
  induction d as [|d IH]; intros d0 f g H; cbn [mid_rule]; [apply H|].
  apply sumN_ext. intros b _. f_equal. f_equal. apply sumN_ext. intros k _. apply IH. intros xs. apply H.
Qed.

Lemma mid_rule_plus p m d : forall d0 f g,
  mid_rule p m d0 d (fun xs => f xs + g xs) = mid_rule p m d0 d f + mid_rule p m d0 d g.
Proof.
  induction d as [|d IH]; intros d0 f g; cbn [mid_rule]; [reflexivity|].
  rewrite <- sumN_plus. apply sumN_ext. intros b _.
  rewrite (sumN_ext _ _ _ (fun k _ => IH _ _ _)), sumN_plus. ring.
Qed.

Lemma mid_rule_scal p m d : forall d0 c f,
  mid_rule p m d0 d (fun xs => c * f xs) = c * mid_rule p m d0 d f.
Proof.
  induction d as [|d IH]; intros d0 c f; cbn [mid_rule]; [reflexivity|].
  rewrite <- sumN_scal. apply sumN_ext. intros b _.
  rewrite (sumN_ext _ _ _ (fun k _ => IH _ _ _)), sumN_scal. ring.
Qed.

Lemma lsum_icdf_loop (p : pdf NumR) (m : nat) :
  pdf_wf p -> (1 <= pdf_bins p < 2 ^ 64)%N -> (1 <= m)%nat ->
  forall d d0 w0 f, (N.to_nat d0 + d <= N.to_nat (pdf_dims p))%nat ->
  lsum (nbins p * m) d (fun us => do r <- icdf_loop p d0 us w0; Ok (vegas_term_d f r)) =
  Ok (w0 * INR (nbins p * m) ^ d * mid_rule p m d0 d f).
Proof.
  intros W Hbins Hm.
  assert (HB : 0 < INR (nbins p)) by (apply INR_pos; unfold nbins; lia).
  assert (HM : 0 < INR m) by (apply INR_pos; lia).
  induction d as [|d IH]; intros d0 w0 f Hd.
  - cbn. f_equal. ring.
  - cbn [lsum mid_rule].
    rewrite (rsum_ok2 _ _ _ (fun b k => (w0 * (cell_w p d0 b * INR (nbins p))) * INR (nbins p * m) ^ d *
               mid_rule p m (d0 + 1) d (fun xs => f (cell_pt p d0 m b k :: xs)))).
    + f_equal. rewrite <- !sumN_scal. apply sumN_ext. intros b _.
      rewrite <- !sumN_scal. apply sumN_ext. intros k _.
      rewrite <- tech_pow_Rmult, mult_INR. field. lra.
    + intros b k Hb Hk.
      rewrite <- (IH (d0 + 1)%N) by lia. apply lsum_ext. intros us.
      cbn [icdf_loop]. rewrite icdf1_lattice_nat by (try assumption; lia). cbn [bind].
      change (mul NumR w0 (cell_w p d0 b * INR (nbins p))) with (w0 * (cell_w p d0 b * INR (nbins p))).
      destruct (icdf_loop p (d0 + 1) us _) as [[[xs bs] w']|c]; reflexivity.
Qed.

(** the lattice average is the composite midpoint rule, for EVERY integrand and every grid *)
Lemma vegas_lattice_is_midpoint_rule (p : pdf NumR) (m : nat) (f : list R -> R) :
  pdf_wf p -> (1 <= pdf_bins p < 2 ^ 64)%N -> (1 <= m)%nat ->
  lattice_avg p m f = Ok (mid_rule p m 0 (N.to_nat (pdf_dims p)) f).
Proof.
  intros W Hbins Hm. unfold lattice_avg, icdf.
  rewrite (lsum_icdf_loop p m W Hbins Hm) by lia. cbn [bind]. f_equal.
  cbn [NumR one]. field. apply pow_nonzero.
  assert (0 < INR (nbins p * m)); [|lra]. apply INR_pos. unfold nbins. nia.
Qed.

(** products of affine factors: f(x) = prod_i (a_i + c_i * x_i) *)
Fixpoint maff (l : list (R * R)) (xs : list R) : R :=
  match l, xs with
  | (a, c) :: l', x :: xs' => (a + c * x) * maff l' xs'
  | _, _ => 1
  end.
(* ... and their exact integrals over the unit hypercube: prod_i (a_i + c_i / 2) *)
Fixpoint maff_int (l : list (R * R)) : R :=
  match l with [] => 1 | (a, c) :: l' => (a + c / 2) * maff_int l' end.

(* every dimension's grid runs from 0 to 1 *)
Definition grid_unit (p : pdf NumR) : Prop :=
  forall d, (d < pdf_dims p)%N -> gridn p d 0 = 0 /\ gridn p d (nbins p) = 1.

Lemma mid_rule_maff (p : pdf NumR) (m : nat) : (1 <= m)%nat -> grid_unit p ->
  forall l d0 C, (N.to_nat d0 + length l <= N.to_nat (pdf_dims p))%nat ->
  mid_rule p m d0 (length l) (fun xs => C * maff l xs) = C * maff_int l.
Proof.
  intros Hm U. induction l as [|[a c] l IH]; intros d0 C Hd; [reflexivity|].
  cbn [length mid_rule maff maff_int]. cbn [length] in Hd.
  destruct (U d0 ltac:(lia)) as (U0 & U1).
  pose proof (midpoint_exact_affine_1d p d0 m a c Hm U0 U1) as H1. unfold midpoint_rule_1d in H1.
  replace (C * ((a + c / 2) * maff_int l)) with ((C * maff_int l) * (a + c / 2)) by ring.
  rewrite <- H1, <- sumN_scal. apply sumN_ext. intros b _.
  rewrite (sumN_ext m _ (fun k => (C * maff_int l) * (a + c * cell_pt p d0 m b k))).
  - rewrite sumN_scal. ring.
  - intros k _.
    rewrite (mid_rule_ext _ _ _ _ _ (fun xs => (C * (a + c * cell_pt p d0 m b k)) * maff l xs)) by (intros; ring).
    rewrite IH by lia. ring.
Qed.

(** finite sums of such products (this class contains every multi-affine polynomial) *)
Fixpoint msum (t : list (R * list (R * R))) (xs : list R) : R :=
  match t with [] => 0 | (C, l) :: t' => C * maff l xs + msum t' xs end.
Fixpoint msum_int (t : list (R * list (R * R))) : R :=
  match t with [] => 0 | (C, l) :: t' => C * maff_int l + msum_int t' end.

Lemma mid_rule_zero p m d : forall d0, mid_rule p m d0 d (fun _ => 0) = 0.
Proof.
  intros d0. rewrite (mid_rule_ext _ _ _ _ _ (fun xs => 0 * 0)) by (intros; ring).
  rewrite mid_rule_scal. ring.
Qed.

Lemma mid_rule_msum (p : pdf NumR) (m : nat) : (1 <= m)%nat -> grid_unit p ->
  forall t, Forall (fun cl => length (snd cl) = N.to_nat (pdf_dims p)) t ->
  mid_rule p m 0 (N.to_nat (pdf_dims p)) (msum t) = msum_int t.
Proof.
  intros Hm U. induction t as [|[C l] t IH]; intros HF.
  - cbn [msum msum_int]. apply mid_rule_zero.
  - inversion HF as [|? ? Hl HF']; subst. cbn [snd] in Hl. cbn [msum msum_int].
    rewrite (mid_rule_plus p m _ 0 (fun xs => C * maff l xs) (msum t)).
    rewrite IH by exact HF'. rewrite <- Hl. rewrite mid_rule_maff; [reflexivity|exact Hm|exact U|lia].
Qed.

(** observable form: a lattice-driven VEGAS sampling integrates these integrands exactly,
    whatever the grid *)
Lemma vegas_lattice_exact_product (p : pdf NumR) (m : nat) (l : list (R * R)) :
  pdf_wf p -> (1 <= pdf_bins p < 2 ^ 64)%N -> (1 <= m)%nat -> grid_unit p ->
  length l = N.to_nat (pdf_dims p) ->
  lattice_avg p m (maff l) = Ok (maff_int l).
Proof.
  intros W Hbins Hm U Hl. rewrite vegas_lattice_is_midpoint_rule by assumption. f_equal.
  rewrite (mid_rule_ext _ _ _ _ _ (fun xs => 1 * maff l xs)) by (intros; ring).
  rewrite <- Hl, mid_rule_maff; [ring|exact Hm|exact U|lia].
Qed.

Lemma vegas_lattice_exact_multiaffine (p : pdf NumR) (m : nat) (t : list (R * list (R * R))) :
  pdf_wf p -> (1 <= pdf_bins p < 2 ^ 64)%N -> (1 <= m)%nat -> grid_unit p ->
  Forall (fun cl => length (snd cl) = N.to_nat (pdf_dims p)) t ->
  lattice_avg p m (msum t) = Ok (msum_int t).
Proof.
  intros W Hbins Hm U HF. rewrite vegas_lattice_is_midpoint_rule by assumption. f_equal.
  apply mid_rule_msum; assumption.
Qed.

(* ------------------------------------------------------------------------------------------- *)
(** * (e) multi-channel: weight times mixture density = 1 *)

Fixpoint dotR (ws ds : list R) : R :=
  match ws, ds with w :: ws', d :: ds' => w * d + dotR ws' ds' | _, _ => 0 end.

Lemma total_density_R : forall (ws dens : list R) (acc : R), (length ws <= length dens)%nat ->
  @total_density NumR ws dens acc = Ok (acc + dotR ws dens).
Proof.
  induction ws as [|w ws IH]; intros dens acc H; cbn [total_density dotR].
  - apply (f_equal (@Ok R)). ring.
  - destruct dens as [|d dens]; [cbn in H; lia|]. cbn [length] in H.
    rewrite IH by lia. cbn [NumR add mul]. apply (f_equal (@Ok R)). ring.
Qed.

Lemma dotR_scal ws : forall ds c, dotR ws (map (fun d => d * c) ds) = dotR ws ds * c.
Proof.
  induction ws as [|w ws IH]; intros ds c; [cbn; ring|].
  destruct ds as [|d ds]; cbn [map dotR]; [ring|]. rewrite IH. ring.
Qed.

(** the model's weight J / sum_j alpha_j d_j, where d_j = J * g_j are the reported densities
    (true channel density g_j times the common jacobian factor J), times the mixture density
    sum_j alpha_j g_j is one *)
Lemma mc_weight_mixture (jac : R) (ws dens : list R) :
  (length ws <= length dens)%nat -> jac <> 0 -> dotR ws dens <> 0 ->
  exists w, @mc_weight NumR jac ws dens = Ok w /\ w = jac / dotR ws dens /\
            dotR ws (map (fun d => d / jac) dens) * w = 1.
Proof.
  intros HL HJ HD. unfold mc_weight. rewrite total_density_R by exact HL. cbn [bind NumR zero div].
  rewrite Rplus_0_l. eexists. split; [reflexivity|]. split; [reflexivity|].
  unfold Rdiv at 1. rewrite dotR_scal. field. split; assumption.
Qed.

(* ------------------------------------------------------------------------------------------- *)
(** * (f) unbiasedness over points and channel choice on a finite sample space *)
Section Finite.
  Variable A : Type.

  Fixpoint sumY (Y : list A) (F : A -> R) : R :=
    match Y with [] => 0 | y :: Y' => F y + sumY Y' F end.

  (* channels: a-priori weight alpha_i and probability mass function g_i *)
  Fixpoint mixture (chs : list (R * (A -> R))) (y : A) : R :=
    match chs with [] => 0 | ch :: chs' => fst ch * snd ch y + mixture chs' y end.
  (* sum over the channel choice of alpha_i * F(g_i) *)
  Fixpoint sumCh (chs : list (R * (A -> R))) (F : (A -> R) -> R) : R :=
    match chs with [] => 0 | ch :: chs' => fst ch * F (snd ch) + sumCh chs' F end.

  Lemma sumY_ext Y F G : (forall y, In y Y -> F y = G y) -> sumY Y F = sumY Y G.
  Proof.
    induction Y as [|y Y IH]; intros H; cbn; [reflexivity|].
    rewrite IH, (H y) by (intros; try apply H; cbn; auto). reflexivity.
  Qed.
  Lemma sumY_plus Y F G : sumY Y (fun y => F y + G y) = sumY Y F + sumY Y G.
  Proof. induction Y as [|y Y IH]; cbn; [ring|]. rewrite IH. ring. Qed.
  Lemma sumY_scal Y c F : sumY Y (fun y => c * F y) = c * sumY Y F.
  Proof. induction Y as [|y Y IH]; cbn; [ring|]. rewrite IH. ring. Qed.
  Lemma sumY_zero Y : sumY Y (fun _ => 0) = 0.
  Proof. induction Y as [|y Y IH]; cbn; [reflexivity|]. rewrite IH. ring. Qed.

  (* exchange of the two finite sums *)
  Lemma sum_exchange chs Y (h : A -> R) :
    sumCh chs (fun g => sumY Y (fun y => g y * h y)) = sumY Y (fun y => mixture chs y * h y).
  Proof.
    induction chs as [|[al g] chs IH]; cbn [sumCh mixture fst snd].
    - rewrite (sumY_ext _ _ (fun _ => 0)) by (intros; ring). symmetry. apply sumY_zero.
    - rewrite IH.
      rewrite <- sumY_scal, <- sumY_plus. apply sumY_ext. intros y _. ring.
  Qed.

  (* the part of the sample space the mixture can reach *)
  Definition reachable (chs : list (R * (A -> R))) (y : A) : bool := negb (Reqb (mixture chs y) 0).

  Lemma sumY_filter Y (c : A -> bool) F : sumY (filter c Y) F = sumY Y (fun y => if c y then F y else 0).
  Proof.
    induction Y as [|y Y IH]; cbn; [reflexivity|]. destruct (c y); cbn; rewrite IH; ring.
  Qed.

  (** expectation over channel choice (probability alpha_i) and point (probability g_i y) of
      f(y) * w(y) with w = 1 / mixture  =  sum of f over the reachable points *)
  Lemma mc_unbiased_finite_w (chs : list (R * (A -> R))) (Y : list A) (f w : A -> R) :
    (forall y, In y Y -> mixture chs y <> 0 -> w y = / mixture chs y) ->
    sumCh chs (fun g => sumY Y (fun y => g y * (f y * w y))) = sumY (filter (reachable chs) Y) f.
  Proof.
    intros Hw. rewrite sum_exchange, sumY_filter. apply sumY_ext. intros y Hy. unfold reachable.
    destruct (Reqb (mixture chs y) 0) eqn:E; cbn [negb].
    - apply Reqb_true in E. rewrite E. ring.
    - apply Reqb_false in E. rewrite (Hw y Hy E). field. exact E.
  Qed.

  Lemma mc_unbiased_finite (chs : list (R * (A -> R))) (Y : list A) (f : A -> R) :
    sumCh chs (fun g => sumY Y (fun y => g y * (f y * (1 / mixture chs y)))) =
    sumY (filter (reachable chs) Y) f.
  Proof. apply mc_unbiased_finite_w. intros y _ _. unfold Rdiv. ring. Qed.

  (* admissible channels: weights >= 0 summing to one, pmfs >= 0 summing to one over Y *)
  Definition admissible (chs : list (R * (A -> R))) (Y : list A) : Prop :=
    Forall (fun ch => 0 <= fst ch /\ (forall y, 0 <= snd ch y) /\ sumY Y (snd ch) = 1) chs /\
    sumCh chs (fun _ => 1) = 1.

  Lemma mixture_nonneg chs Y y : admissible chs Y -> 0 <= mixture chs y.
  Proof.
    intros (HF & _). induction HF as [|[al g] chs (Ha & Hg & _) _ IH]; cbn [mixture fst snd]; [lra|].
    specialize (Hg y). cbn [fst snd] in *. nra.
  Qed.

  (* with admissible channels a point is unreachable iff no enabled channel can produce it *)
  Lemma unreachable_iff chs Y y : admissible chs Y ->
    (mixture chs y = 0 <-> Forall (fun ch => fst ch = 0 \/ snd ch y = 0) chs).
  Proof.
    intros (HF & _). induction HF as [|[al g] chs (Ha & Hg & Hs) HF IH]; cbn [mixture fst snd].
    - split; [constructor|reflexivity].
    - cbn [fst snd] in *.
      assert (H0 : 0 <= mixture chs y).
      { clear IH. induction HF as [|[al' g'] chs' (Ha' & Hg' & _) _ IH']; cbn [mixture fst snd]; [lra|].
        specialize (Hg' y). cbn [fst snd] in *. nra. }
      specialize (Hg y). split.
      + intros E. assert (al * g y = 0 /\ mixture chs y = 0) as (E1 & E2) by nra.
        constructor; [cbn [fst snd]; apply Rmult_integral; exact E1|apply IH; exact E2].
      + intros HA. inversion HA as [|? ? H1 H2]; subst. cbn [fst snd] in H1.
        apply IH in H2. rewrite H2. destruct H1 as [-> | ->]; ring.
  Qed.

  (* the sampling law is a probability law: total mass one *)
  Lemma mc_total_mass chs Y : admissible chs Y -> sumCh chs (fun g => sumY Y g) = 1.
  Proof.
    intros (HF & H1). rewrite <- H1. clear H1.
    induction HF as [|[al g] chs (_ & _ & Hs) _ IH]; cbn [sumCh fst snd]; [reflexivity|].
    cbn [snd] in Hs. rewrite IH, Hs. reflexivity.
  Qed.

  (** the same with the weight the model computes: reported densities d_j(y) = J(y) * g_j(y) *)
  Lemma mc_unbiased_finite_model (chs : list (R * (A -> R))) (Y : list A) (f J w : A -> R) :
    (forall y, In y Y -> J y <> 0) ->
    (forall y, In y Y -> mixture chs y <> 0 ->
       @mc_weight NumR (J y) (map fst chs) (map (fun ch => J y * snd ch y) chs) = Ok (w y)) ->
    sumCh chs (fun g => sumY Y (fun y => g y * (f y * w y))) = sumY (filter (reachable chs) Y) f.
  Proof.
    intros HJ Hw. apply mc_unbiased_finite_w. intros y Hy Hm.
    specialize (Hw y Hy Hm). unfold mc_weight in Hw.
    rewrite total_density_R in Hw by (rewrite !map_length; lia). cbn [bind NumR zero div] in Hw.
    injection Hw as <-. rewrite Rplus_0_l.
    assert (E : dotR (map fst chs) (map (fun ch => J y * snd ch y) chs) = J y * mixture chs y).
    { clear. induction chs as [|[al g] chs IH]; cbn [map dotR mixture fst snd]; [ring|].
      rewrite IH. ring. }
    rewrite E. field. split; [exact Hm|apply HJ; exact Hy].
  Qed.

  (* ... which never is undefined behaviour and is defined wherever the mixture is non-zero *)
  Lemma mc_weight_defined (chs : list (R * (A -> R))) (J : R) (y : A) :
    exists w, @mc_weight NumR J (map fst chs) (map (fun ch => J * snd ch y) chs) = Ok w.
  Proof.
    unfold mc_weight. rewrite total_density_R by (rewrite !map_length; lia). cbn [bind]. eexists. reflexivity.
  Qed.
End Finite.

(* ------------------------------------------------------------------------------------------- *)
(** * observable 1-d corollary and examples *)

Lemma vegas_lattice_1d_exact_affine (p : pdf NumR) (d : N) (m : nat) (a c : R) :
  pdf_wf p -> (d < pdf_dims p)%N -> (1 <= pdf_bins p < 2 ^ 64)%N -> (1 <= m)%nat ->
  gridn p d 0 = 0 -> gridn p d (nbins p) = 1 ->
  lattice_avg_1d p d m (fun x => a + c * x) = Ok (a + c / 2).
Proof.
  intros W Hd Hbins Hm H0 H1. rewrite vegas_lattice_1d_midpoint_rule by assumption.
  f_equal. apply midpoint_exact_affine_1d; assumption.
Qed.

(* a non-uniform 2-d grid with 2 bins per dimension *)
Definition ex_pdf : pdf NumR := @mk_pdf NumR 2 2 ([0; 1 / 4; 1; 0; 3 / 4; 1] : list R).

Lemma ex_pdf_wf : pdf_wf ex_pdf.
Proof. reflexivity. Qed.
Lemma ex_pdf_bins : (1 <= pdf_bins ex_pdf < 2 ^ 64)%N.
Proof. cbn. lia. Qed.
Lemma ex_pdf_unit : grid_unit ex_pdf.
Proof.
  intros d Hd. cbn in Hd. assert (H : d = 0%N \/ d = 1%N) by lia.
  destruct H as [-> | ->]; split; reflexivity.
Qed.

Lemma c01_example_vegas :
  pdf_wf ex_pdf /\ (1 <= pdf_bins ex_pdf < 2 ^ 64)%N /\ grid_unit ex_pdf /\
  (exists x w, icdf1 ex_pdf 1 ((IZR (Z.of_N (1 * 3 + 2)) + / 2) / IZR (Z.of_N (2 * 3))) = Ok (x, 1%N, w) /\
               x = 3 / 4 + (2 + / 2) / 3 * (1 - 3 / 4) /\ w = (1 - 3 / 4) * 2) /\
  lattice_avg_1d ex_pdf 0 3 (fun x => 7 + 4 * x) = Ok 9 /\
  lattice_avg ex_pdf 3 (maff [(1, 2); (3, -1)]) = Ok 5 /\
  lattice_avg ex_pdf 3 (msum [(2, [(1, 2); (3, -1)]); (-1, [(0, 1); (0, 1)])]) = Ok (39 / 4).
Proof.
  split; [exact ex_pdf_wf|]. split; [exact ex_pdf_bins|]. split; [exact ex_pdf_unit|].
  split; [|split; [|split]].
  - pose proof (icdf1_lattice ex_pdf 1 3 1 2 ex_pdf_wf) as H. cbv zeta in H.
    change (pdf_bins ex_pdf) with 2%N in H. change (pdf_dims ex_pdf) with 2%N in H.
    eexists. eexists. split; [apply H; lia|]. split.
    + unfold grid. cbn. reflexivity.
    + unfold grid. cbn. reflexivity.
  - assert (Hd : (0 < pdf_dims ex_pdf)%N) by (cbn; lia). assert (Hm : (1 <= 3)%nat) by lia.
    rewrite (vegas_lattice_1d_exact_affine ex_pdf 0 3 7 4 ex_pdf_wf Hd ex_pdf_bins Hm eq_refl eq_refl).
    f_equal. lra.
  - assert (Hm : (1 <= 3)%nat) by lia.
    rewrite (vegas_lattice_exact_product ex_pdf 3 [(1, 2); (3, -1)] ex_pdf_wf ex_pdf_bins Hm ex_pdf_unit eq_refl).
    f_equal. cbn. lra.
  - assert (Hm : (1 <= 3)%nat) by lia.
    rewrite (vegas_lattice_exact_multiaffine ex_pdf 3 _ ex_pdf_wf ex_pdf_bins Hm ex_pdf_unit).
    + f_equal. cbn. lra.
    + repeat constructor.
Qed.

Lemma c01_example_plain :
  let strm : N -> NumR := fun n => lat 4 (N.to_nat n) in
  let f : integrand NumR := fun o => @mk_iret NumR (hd 0 (o_point o)) [] false in
  exists s', plain_step strm [] f 1 (mk_itst 2 0 (acc_init []) [] []) = Ok s' /\
             it_tr s' = [EvIntegrand (@mk_obs NumR 0 [lat 4 2] 1 [] 0 []) true].
Proof.
  intros strm f.
  destruct (plain_step_ok strm [] f 1 (mk_itst 2 0 (acc_init []) [] []) eq_refl) as (s' & H).
  exists s'. split; [exact H|].
  destruct (plain_point strm [] f 1 _ s' H) as (_ & _ & _ & _ & Ht & _). rewrite Ht. reflexivity.
Qed.

Lemma c01_example_weight :
  exists w, @mc_weight NumR 2 [1 / 4; 3 / 4; 0] [2; 4; 6] = Ok w /\ w = 4 / 7.
Proof.
  destruct (mc_weight_mixture 2 [1 / 4; 3 / 4; 0] [2; 4; 6]) as (w & H1 & H2 & _).
  - cbn. lia.
  - lra.
  - cbn. lra.
  - exists w. split; [exact H1|]. rewrite H2. cbn. lra.
Qed.

(* three points, three channels one of which is disabled; point 2 is only produced by the
   disabled channel and therefore unreachable *)
Definition ex_Y : list nat := [0; 1; 2]%nat.
Definition ex_chs : list (R * (nat -> R)) :=
  [ (1 / 2, fun y => match y with O => 1 / 2 | S O => 1 / 2 | _ => 0 end);
    (0,     fun y => match y with S (S O) => 1 | _ => 0 end);
    (1 / 2, fun y => match y with O => 1 / 4 | S O => 3 / 4 | _ => 0 end) ].

Lemma c01_example_channels :
  admissible nat ex_chs ex_Y /\
  forall f : nat -> R,
    sumCh nat ex_chs (fun g => sumY nat ex_Y (fun y => g y * (f y * (1 / mixture nat ex_chs y)))) =
    f 0%nat + f 1%nat.
Proof.
  split.
  - split; [|cbn; lra].
    unfold ex_chs.
    apply Forall_cons; [|apply Forall_cons; [|apply Forall_cons; [|apply Forall_nil]]];
      (split; [cbn; lra|split; [intros y; do 3 (destruct y as [|y]; [cbn; lra|]); cbn; lra|cbn; lra]]).
  - intros f. rewrite mc_unbiased_finite. unfold ex_Y. cbn [filter]. unfold reachable.
    assert (E0 : Reqb (mixture nat ex_chs 0%nat) 0 = false) by (apply Reqb_false; cbn; lra).
    assert (E1 : Reqb (mixture nat ex_chs 1%nat) 0 = false) by (apply Reqb_false; cbn; lra).
    assert (E2 : Reqb (mixture nat ex_chs 2%nat) 0 = true) by (apply Reqb_true; cbn; lra).
    rewrite E0, E1, E2. cbn. ring.
Qed.

(* ------------------------------------------------------------------------------------------- *)
(** * the reference value: prod (a_i + c_i/2) is the integral of prod (a_i + c_i x_i) *)
From Coquelicot Require Import Coquelicot.

Lemma affine_integral a c : is_RInt (fun x => a + c * x) 0 1 (a + c / 2).
Proof.
  replace (a + c / 2) with ((a * 1 + c / 2 * (1 * 1)) - (a * 0 + c / 2 * (0 * 0))) by field.
  apply (is_RInt_derive (fun x => a * x + c / 2 * (x * x))).
  - intros x _. auto_derive; [exact I|]. field.
  - intros x _. apply (ex_derive_continuous (fun x => a + c * x)). auto_derive. exact I.
Qed.
