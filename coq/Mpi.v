(** * Mpi: mpi_plain.hpp, mpi_vegas.hpp, mpi_multi_channel.hpp, mpi_helper.hpp (allreduce_result),
    mpi_callback.hpp.  All ranks are modelled side by side ("lock step"): one global step is one
    iteration of every rank followed by the two collectives.  The work split ([discard_before],
    [discard_after], the three [sub_calls] copies) comes from the translator.

    Assumptions about MPI made explicit here: MPI_Allreduce(SUM) hands every rank the same vector,
    namely the element-wise sum of the contributions taken in the order [perm] (a parameter: the
    theorems quantify over it); collectives match by call order; a rank that waits in a collective
    which another rank never enters hangs ([UB 99]).  No proofs in this file. *)
From Coq Require Import ZArith NArith List Bool.
From HepMC Require Import Num Translated Result Accum VegasPdf Discrete MultiChannel Iter Chkpt Callback Run.
Import ListNotations.

Section Reduce.
  Context {K : Num}.

  (* element-wise sum of two equally long vectors; a length mismatch is a mismatched collective *)
  Fixpoint vadd {A} (add_ : A -> A -> A) (a b : list A) : res (list A) :=
    match a, b with
    | [], [] => Ok []
    | x :: a', y :: b' => do r <- vadd add_ a' b'; Ok (add_ x y :: r)
    | _, _ => UB 98
    end.

  (* contributions summed in the order given by [perm]: ((c_p0 + c_p1) + c_p2) + ... *)
  Definition allreduce {A} (add_ : A -> A -> A) (perm : list N) (contribs : list (list A)) : res (list A) :=
    match perm with
    | [] => UB 97
    | p0 :: rest =>
      do first <- getN 97 contribs p0;
      fold_left (fun acc p => do a <- acc; do c <- getN 97 contribs p; vadd add_ a c) rest (Ok first)
    end.

  (** allreduce_result: what one rank packs ... *)
  Definition bins_of (r : plainres K) : list (mcres K) := flat_map (fun d => dr_bins d) (p_dists r).
  Definition pack_T (r : plainres K) (extra : list K) : list K :=
    extra ++ [r_sum (p_main r); r_sumsq (p_main r)] ++ flat_map (fun b => [r_sum b; r_sumsq b]) (bins_of r).
  Definition pack_N (r : plainres K) : list N :=
    [r_nz (p_main r); r_fin (p_main r)] ++ flat_map (fun b => [r_nz b; r_fin b]) (bins_of r).

  (** ... and how it rebuilds the result from the reduced buffers, using its own local result as the
      template for the distribution structure.  Buffer reads are unchecked in the C++. *)
  Fixpoint unpack_bins (total : N) (n : nat) (tb : list K) (nb : list N) : res (list (mcres K) * list K * list N) :=
    match n with
    | O => Ok ([], tb, nb)
    | S n' =>
      match tb, nb with
      | s :: ss :: tb', nz :: fin :: nb' =>
        do r <- unpack_bins total n' tb' nb';
        let '(bins, tb'', nb'') := r in
        Ok (mk_mcres total nz fin s ss :: bins, tb'', nb'')
      | _, _ => UB 96
      end
    end.
  Fixpoint unpack_dists (total : N) (ds : list (dres K)) (tb : list K) (nb : list N) : res (list (dres K)) :=
    match ds with
    | [] => Ok []
    | d :: ds' =>
      do r <- unpack_bins total (length (dr_bins d)) tb nb;
      let '(bins, tb', nb') := r in
      do rest <- unpack_dists total ds' tb' nb';
      Ok (mk_dres (dr_par d) bins :: rest)
    end.
  Definition unpack (template : plainres K) (extra_len : nat) (total : N) (tb : list K) (nb : list N)
    : res (plainres K * list K) :=
    match skipn extra_len tb, nb with
    | s :: ss :: tb', nz :: fin :: nb' =>
      do ds <- unpack_dists total (p_dists template) tb' nb';
      Ok (mk_plainres (mk_mcres total nz fin s ss) ds, firstn extra_len tb)
    | _, _ => UB 96
    end.
End Reduce.

Section Generic.
  Context {K : Num}.
  (** C: checkpoint, S: the adaptive state a rank carries (grid / weights / nothing),
      R: iteration result *)
  Variables (C S R : Type).
  Variable world : N.
  Variable perm : list N.
  Variable sub_calls : Z -> Z -> Z -> Z.            (* the translated copy of this integrator *)
  Variable usage : N.                               (* canonical numbers per call *)
  Variable local_iter : S -> N -> N -> N -> res (R * N * N * list (event K)).
  Variable plain_of : R -> plainres K.
  Variable extra_of : R -> list K.
  Variable rebuild : S -> plainres K -> list K -> R.
  Variable addc : C -> R -> N -> C.
  Variable cb : N -> C -> bool.                     (* rank-aware: mpi_callback *)
  Variable refine : C -> S -> R -> res S.

  Record rank_state := mk_rank_state { rs_chk : C; rs_gen : N; rs_aux : S; rs_idx : N }.
  Record rank_log := mk_rank_log { rl_events : list (event K); rl_chk : C; rl_continue : bool; rl_collectives : list (nat * nat) }.

  Definition zN (f : Z -> Z -> Z -> Z) (a b c : N) : N := Z.to_N (f (Z.of_N a) (Z.of_N b) (Z.of_N c)).
  Definition rk_before (calls rank : N) : N := zN discard_before calls rank world.
  Definition rk_after (calls sb rank : N) : N :=
    Z.to_N (discard_after (Z.of_N calls) (Z.of_N sb) (Z.of_N rank) (Z.of_N world)).
  Definition rk_sub (calls rank : N) : N := zN sub_calls calls rank world.

  (* the part of an iteration before the collectives, for rank [r] *)
  Definition local_part (calls : N) (r : N) (st : rank_state) : res (R * N * N * list (event K)) :=
    let g1 := (rs_gen st + usage * rk_before calls r)%N in
    do x <- local_iter (rs_aux st) (rk_sub calls r) g1 (rs_idx st);
    let '(lr, g2, idx', evs) := x in
    Ok (lr, (g2 + usage * rk_after calls (rk_sub calls r) r)%N, idx', evs).

  Fixpoint mapM_idx {A B} (f : N -> A -> res B) (i : N) (l : list A) : res (list B) :=
    match l with
    | [] => Ok []
    | a :: l' => do b <- f i a; do rest <- mapM_idx f (i + 1)%N l'; Ok (b :: rest)
    end.

  Definition all_same (l : list bool) : option bool :=
    match l with
    | [] => None
    | b :: l' => if forallb (Bool.eqb b) l' then Some b else None
    end.

  (** one iteration of all ranks; returns the new rank states, the per-rank logs and whether the
      ranks go on.  Ranks that disagree about going on: those that continue wait forever in the
      next collective ([UB 99]). *)
  Definition mpi_iteration (calls : N) (sts : list rank_state)
    : res (list rank_state * list rank_log * bool) :=
    do locals <- mapM_idx (local_part calls) 0 sts;
    do tbuf <- allreduce (add K) perm (map (fun '(lr, _, _, _) => pack_T (plain_of lr) (extra_of lr)) locals);
    do nbuf <- allreduce N.add perm (map (fun '(lr, _, _, _) => pack_N (plain_of lr)) locals);
    do outs <- mapM_idx (fun r '(st, (lr, g3, idx', evs)) =>
        do pr <- unpack (plain_of lr) (length (extra_of lr)) calls tbuf nbuf;
        let '(pl, ex) := pr in
        let result := rebuild (rs_aux st) pl ex in
        let c' := addc (rs_chk st) result g3 in
        let go := cb r c' in
        do aux' <- (if go then refine c' (rs_aux st) result else Ok (rs_aux st));
        Ok (mk_rank_state c' g3 aux' idx',
            mk_rank_log evs c' go [(length tbuf, 0%nat); (length nbuf, 1%nat)])) 0 (combine sts locals);
    match all_same (map (fun '(_, l) => rl_continue l) outs) with
    | Some go => Ok (map fst outs, map snd outs, go)
    | None => UB 99
    end.

  Fixpoint mpi_loop (cs : list N) (sts : list rank_state) (log : list (list rank_log))
    : res (list rank_state * list (list rank_log)) :=
    match cs with
    | [] => Ok (sts, rev log)
    | calls :: cs' =>
      do x <- mpi_iteration calls sts;
      let '(sts', ls, go) := x in
      if go then mpi_loop cs' sts' (ls :: log) else Ok (sts', rev (ls :: log))
    end.
End Generic.
Arguments mk_rank_state {C S}. Arguments rs_chk {C S}. Arguments rs_gen {C S}. Arguments rs_aux {C S}. Arguments rs_idx {C S}.
Arguments mk_rank_log {K C}. Arguments rl_events {K C}. Arguments rl_chk {K C}. Arguments rl_continue {K C}.
Arguments rl_collectives {K C}.

Section Drivers.
  Context {K : Num}.
  Context (L : Libm K).
  Variable strm : N -> K.
  Variable ps : list (dparams K).
  Variable f : integrand K.
  Variable world : N.
  Variable perm : list N.

  Definition ranks {A} (a : A) : list A := repeat a (N.to_nat world).

  (** mpi_plain: every rank starts from the same checkpoint *)
  Definition mpi_plain_run (d : nat) (cb : N -> pchk K -> bool) (cs : list N) (c : pchk K) (idx : N) :=
    do g <- base_gen c;
    mpi_loop (pchk K) unit (plainres K) world perm sub_calls_plain (N.of_nat d)
      (fun _ calls g i => plain_iteration strm ps f d calls g i)
      (fun r => r) (fun _ => []) (fun _ pl _ => pl) base_add cb (fun _ s _ => Ok s)
      cs (ranks (mk_rank_state c g tt idx)) [].

  (** mpi_vegas: the grid is carried locally and refined locally *)
  Definition mpi_vegas_run (d : N) (cb : N -> vchk K -> bool) (cs : list N) (c : vchk K) (idx : N) :=
    let c0 := vchk_dimensions c d in
    do g <- base_gen (vc_base c0);
    do p <- vchk_pdf L c0;
    mpi_loop (vchk K) (pdf K) (vegasres K) world perm sub_calls_vegas (pdf_dims p)
      (fun p calls g i => vegas_iteration strm ps f p calls g i)
      (fun r => v_plain r) (fun r => v_adj r) (fun p pl ex => mk_vegasres pl p ex) vchk_add cb
      (fun c p r => refine_pdf L p (vc_alpha c) (v_adj r))
      cs (ranks (mk_rank_state c0 g p idx)) [].

  Variable mp : mcmap K.
  Definition mpi_mc_run (d : nat) (channels : N) (cb : N -> mchk K -> bool) (cs : list N) (c : mchk K) (idx : N) :=
    let c0 := mchk_channels c channels in
    do g <- base_gen (mc_base c0);
    do ws <- mchk_weights L c0;
    mpi_loop (mchk K) (list K) (mcres_mc K) world perm sub_calls_multi_channel (N.of_nat d + 1)
      (fun ws calls g i => mc_iteration strm ps f mp d ws calls g i)
      (fun r => m_plain r) (fun r => m_adj r) (fun ws pl ex => mk_mcres_mc pl ex ws) mchk_add cb
      (fun c ws r => refine_weights L ws (m_adj r) (mc_minw c) (mc_beta c))
      cs (ranks (mk_rank_state c0 g ws idx)) [].
End Drivers.
