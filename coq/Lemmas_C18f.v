(** Proofs for C18 under faults: system calls of the writing callback may fail (and the process goes
    on) and the process may be killed at any point afterwards.  Over the model Fs.v. *)
From Coq Require Import List String Bool Arith Lia.
From HepMC Require Import Fs Lemmas_C18.
Import ListNotations.

Section C18f.
  Variable A : Type.
  Notation fs := (fs A).

  Lemma run_ops_app (s : fs) ops1 ops2 : run_ops A s (ops1 ++ ops2) = run_ops A (run_ops A s ops1) ops2.
  Proof. unfold run_ops. apply fold_left_app. Qed.

  (** an invocation that does not complete never touches the final name *)
  Lemma incomplete_untouched (s : fs) filename written s' :
    In s' (crash_states A s (invocation_ops A filename (Incomplete written))) ->
    lookup A s' filename = lookup A s filename.
  Proof.
    pose proof (tmp_neq filename) as Hne.
    cbn [invocation_ops crash_states]. intros [<-|H]; [reflexivity|].
    cbn [app] in H.
    set (s1 := apply A s (OpOpen (tmp_of filename))) in *.
    assert (E1 : lookup A s1 filename = lookup A s filename) by (apply apply_untouched; simpl; exact Hne).
    apply crash_states_app in H as [H|H].
    - rewrite <- E1. eapply crash_states_writes; [exact Hne|exact H].
    - cbn [crash_states app] in H. destruct H as [<-|[<-|[]]].
      + rewrite run_writes_other by exact Hne. exact E1.
      + cbn [apply]. rewrite run_writes_other by exact Hne. exact E1.
  Qed.

  Lemma incomplete_final (s : fs) filename written :
    lookup A (run_ops A s (invocation_ops A filename (Incomplete written))) filename = lookup A s filename.
  Proof.
    pose proof (tmp_neq filename) as Hne.
    cbn [invocation_ops]. change (OpOpen (tmp_of filename) :: ?l) with ([OpOpen (tmp_of filename)] ++ l).
    rewrite !run_ops_app. unfold run_ops at 1. cbn [fold_left apply].
    rewrite run_writes_other by exact Hne.
    apply (apply_untouched A s (OpOpen (tmp_of filename))). simpl. exact Hne.
  Qed.

  Definition step_outcome (o : outcome A) (acc : option (list A)) : option (list A) :=
    match o with Completes chunks => Some (List.concat chunks) | _ => acc end.

  Lemma last_completed_cons o os acc : last_completed A (o :: os) acc = last_completed A os (step_outcome o acc).
  Proof. destruct o; reflexivity. Qed.

  Lemma invocation_atomic (s : fs) filename o s' :
    In s' (crash_states A s (invocation_ops A filename o)) ->
    lookup A s' filename = lookup A s filename \/ lookup A s' filename = step_outcome o (lookup A s filename).
  Proof.
    destruct o as [chunks| |written]; intros H.
    - cbn [invocation_ops] in H. apply write_atomic in H as [H|H]; [left|right]; exact H.
    - cbn [invocation_ops crash_states] in H. destruct H as [<-|[]]. left. reflexivity.
    - left. eapply incomplete_untouched. exact H.
  Qed.

  Lemma invocation_final (s : fs) filename o :
    lookup A (run_ops A s (invocation_ops A filename o)) filename = step_outcome o (lookup A s filename).
  Proof.
    destruct o as [chunks| |written]; cbn [step_outcome].
    - apply write_complete.
    - reflexivity.
    - apply incomplete_final.
  Qed.

  (** a whole run with faults, killed anywhere: the final name holds what the last invocation that
      completed among the first j left there (or what was there before the run), for some j up to
      the invocation in progress *)
  Lemma outcomes_atomic filename os : forall (s : fs) s',
    In s' (crash_states A s (run_outcomes A filename os)) ->
    exists j, j <= List.length os /\ lookup A s' filename = last_completed A (firstn j os) (lookup A s filename).
  Proof.
    induction os as [|o os IH]; intros s s' H.
    - simpl in H. destruct H as [<-|[]]. exists 0. split; [lia|reflexivity].
    - unfold run_outcomes in H. cbn [flat_map] in H. apply crash_states_app in H as [H|H].
      + apply invocation_atomic in H as [H|H].
        * exists 0. split; [lia|]. exact H.
        * exists 1. split; [cbn [List.length]; lia|]. cbn [firstn]. rewrite last_completed_cons. exact H.
      + apply IH in H as (j & Hj & H). exists (S j). split; [cbn [List.length]; lia|].
        cbn [firstn]. rewrite last_completed_cons. rewrite H. rewrite invocation_final. reflexivity.
  Qed.

  (** what [last_completed] can be: the start value or the complete text of an invocation that completed *)
  Lemma last_completed_cases os : forall acc,
    last_completed A os acc = acc \/ exists chunks, In (Completes chunks) os /\ last_completed A os acc = Some (List.concat chunks).
  Proof.
    induction os as [|o os IH]; intros acc; [left; reflexivity|].
    rewrite last_completed_cons. destruct (IH (step_outcome o acc)) as [E|(c & Hc & E)].
    - rewrite E. destruct o as [chunks| |written]; cbn [step_outcome]; [|left; reflexivity|left; reflexivity].
      right. exists chunks. split; [left; reflexivity|reflexivity].
    - right. exists c. split; [right; exact Hc|exact E].
  Qed.

  Lemma outcomes_never_partial filename os (s : fs) s' :
    In s' (crash_states A s (run_outcomes A filename os)) ->
    lookup A s' filename = lookup A s filename \/
    exists chunks, In (Completes chunks) os /\ lookup A s' filename = Some (List.concat chunks).
  Proof.
    intros H. apply outcomes_atomic in H as (j & _ & H). rewrite H.
    destruct (last_completed_cases (firstn j os) (lookup A s filename)) as [E|(c & Hc & E)]; [left; exact E|].
    right. exists c. split; [|exact E].
    rewrite <- (firstn_skipn j os). apply in_or_app. left. exact Hc.
  Qed.

  Lemma outcomes_final filename os : forall (s : fs),
    lookup A (run_ops A s (run_outcomes A filename os)) filename = last_completed A os (lookup A s filename).
  Proof.
    induction os as [|o os IH]; intros s; [reflexivity|].
    unfold run_outcomes. cbn [flat_map]. rewrite run_ops_app. fold (run_outcomes A filename os).
    rewrite IH, invocation_final, last_completed_cons. reflexivity.
  Qed.

  (** without faults this is the run of Lemmas_C18 *)
  Lemma outcomes_no_faults filename texts :
    run_outcomes A filename (map Completes texts) = run_writes A filename texts.
  Proof.
    unfold run_outcomes, run_writes. induction texts as [|t texts IH]; [reflexivity|].
    cbn [map flat_map]. rewrite IH. reflexivity.
  Qed.

  (** a fallback that rewrites the final name in place when the temporary cannot be opened is refuted *)
  Lemma in_place_fallback_refuted filename (old : list A) chunks :
    old <> [] -> List.concat chunks <> [] ->
    exists s', In s' (crash_states A [(filename, old)] (write_in_place_ops A filename chunks)) /\
               lookup A s' filename <> Some old /\ lookup A s' filename <> Some (List.concat chunks).
  Proof. apply in_place_refuted. Qed.
End C18f.

(* non-vacuity: three invocations - the first completes, the open of the second fails, the third
   dies after one piece, the fourth completes; the final name only ever holds nothing, text 1 or text 4 *)
Definition ex18f_outcomes : list (outcome nat) :=
  [Completes [[1; 2]; [3]]; OpenFails; Incomplete [[7; 7]]; Completes [[4; 5; 6]]].
Definition ex18f_contents : list (option (list nat)) :=
  map (fun s => lookup nat s "chk"%string) (crash_states nat [] (run_outcomes nat "chk"%string ex18f_outcomes)).
Lemma c18f_example :
  In None ex18f_contents /\ In (Some [1; 2; 3]) ex18f_contents /\ In (Some [4; 5; 6]) ex18f_contents /\
  (forall c, In c ex18f_contents -> c = None \/ c = Some [1; 2; 3] \/ c = Some [4; 5; 6]) /\
  In (Some [7]) (map (fun s => lookup nat s "chk.tmp"%string) (crash_states nat [] (run_outcomes nat "chk"%string ex18f_outcomes))).
Proof.
  vm_compute. repeat split; auto 30.
  intros c H. repeat (destruct H as [<-|H]; [auto|]). destruct H.
Qed.
