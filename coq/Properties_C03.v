(** C03 - resuming from a checkpoint is indistinguishable from never stopping.
    Statements only (proofs in Lemmas_C03.v).

    WHAT IS PROVED.  For every [Num] K, libm L, random stream, distribution list, integrand, channel
    map, calls list (unequal calls per iteration included), starting checkpoint (fresh, user grid /
    weights, or itself resumed) and callback (law-generic: no arithmetic fact is used), about the
    model's own drivers [plain_run], [vegas_run], [mc_run] (all instances of the generic [run] of
    Run.v), writers [ser_*] and stream constructors [rd_*] of Codec.v.

    1. The driver loop, for ANY checkpoint type, iteration function and callback ([run] of Run.v):
       - [C03_gen_add]: the generator a checkpoint hands to the next iteration is the one the last
         iteration left ([base_gen (base_add b r g) = Ok g]), the only fact about checkpoints needed.
       - [C03_run_app]: if [run cs1 c idx = Ok (c1, idx1, ls1)] and the callback answered "continue"
         every time, then [run (cs1 ++ cs2) c idx] is [run cs2 c1 idx1] with the logs appended (and the
         same UB code if that fails).  [C03_run_app_plain/_vegas/_multi_channel]: the same for the three
         drivers, which first prepare the checkpoint (dimensions() / channels()): the preparation is a
         no-op on a checkpoint a run returned.
       - [C03_run_split]: conversely a run can be cut at any performed iteration j: the first j calls
         alone end in the j-th checkpoint and the remaining calls, started from it, finish exactly as the
         whole run did (same checkpoint, same integrand-call count, same log entries).
    2. The relation "textually identical" ([vchk_eqv], [mchk_eqv] of Lemmas_C03.v; Leibniz equality for
       PLAIN): same results, same generators, same alpha [beta, minimum weight], and the same first
       grid [first weights] when there are no results.  (The VEGAS bin count of the default constructor
       is never written and not compared.)  [C03_reload_equiv_plain/_vegas/_multi_channel]:
       (a) related checkpoints have the same text; (b) conversely well-formed checkpoints with the same
       text are related; (c) writing a well-formed checkpoint [that has a text] and reading it back
       ([plain_reload], [vchk_reload], [mchk_reload] = [deser rd_X] after [ser_X]) succeeds and gives a
       related checkpoint; PLAIN: the same checkpoint.  [C03_text_equivalence]: it is an equivalence.
       A VEGAS checkpoint has a text iff it has results or a first grid ([vchk_textual]; C05); every
       checkpoint a run shows to its callback has one.
    3. [C03_run_respects_text_vegas/_multi_channel] (generic form: [C03_run_respects]): runs from
       textually identical checkpoints - for VEGAS: that have a text - are related by [out_eqv]: both
       fail with the same UB code or both succeed with the same integrand-call count, pairwise equal
       events and callback answers and textually identical checkpoints at every callback and at the end.
       Reason: [vchk_pdf] / [mchk_weights] / [base_gen] never read the first grid / weights once results
       exist, and dimensions() / channels() only act on what the text shows.  The exact condition found
       for VEGAS: the checkpoint must have a text; two default-constructed checkpoints without results
       and without grid are related by [vchk_eqv] (all shown fields agree, there is no text) but
       dimensions() builds their grids from the unwritten bin count.  Hypothesis on the callback:
       equal answers on textually identical checkpoints; [C03_builtin_callback_respects_text]: the
       built-in callback's decision ([cb_vegas], [cb_mc]; [cb_plain] trivially) satisfies it for every
       target, because it reads only the results.
    4. [C03_resume_any_composition_plain/_vegas/_multi_channel] (generic form:
       [C03_resume_any_composition]): let the uninterrupted run [X_run .. cb cs c idx] perform the
       iterations [ls] (all of [cs], or fewer if the callback stopped it - early stop by target
       precision is inside [cb]) and end in [c'].  For EVERY way of writing the performed calls
       [firstn |ls| cs] as [p0 ++ p1 ++ ... ++ pm] (every list of cut points, empty pieces allowed,
       every m; for n performed iterations these are all 2^(n-1) compositions and more),
       [run_pieces (X_run .. cb) reload p0 [p1; ...; pm] c idx] - run p0 from c; then for each further
       piece: write the checkpoint reached so far to text, read it back, run the piece from the re-read
       checkpoint - succeeds, ends with the same integrand-call count in a checkpoint [d'] with
       [ser d' = ser c'] (and [vchk_eqv c' d'] / [mchk_eqv c' d']; PLAIN: [d' = c'], and the logs
       are equal), and its log is pairwise related to [ls].  Induction over the list of pieces.
       Hypotheses: the (prepared) INITIAL checkpoint is well formed in the sense of C05 ([wf_pchk] /
       [wf_vchk] / [wf_mchk]: array lengths agree with the stored counts); the callback respects the
       text (VEGAS, multi-channel).  [C03_reachable_wf]: every checkpoint a run from a well-formed
       checkpoint shows to its callback is well formed (the accumulator keeps one cell per bin of every
       distribution in [ps], refinement returns bins + 1 boundaries per dimension, the adjustment data
       keep their lengths), hence can be read back; [C03_fresh_wf]: fresh checkpoints (default; user
       grid with the right number of boundaries; user weights) are well formed.  The generic form keeps
       the per-checkpoint hypothesis [ok].

    NOT PROVED / ASSUMED.  (1) Well-formedness of the initial checkpoint is a hypothesis (for a
    checkpoint that was itself read from a text it is C05's condition on that text).  (2) The integrand's call counter (the state of a
    stateful integrand object; [o_idx] in the model) is threaded through the pieces: the checkpoint does
    not store user state, so "the remaining iterations" are run with the integrand object in the state
    the interrupted run left it (immaterial for integrands that ignore [o_idx]).  (3) The decimal
    layer of the text is C05 part A; text = token list of Codec.v.  (4) [C03_callback_file_is_ser]
    (the file written by the built-in callback is [ser]) is not part of this file. *)
From Coq Require Import String ZArith NArith Bool List.
From HepMC Require Import Num NumB Result Accum VegasPdf Discrete MultiChannel Iter Chkpt Callback Run Codec
  Lemmas_Run Lemmas_C05 Lemmas_C12 Lemmas_C19 Lemmas_C03.
Import ListNotations.

(** 1. the driver loop *)
Theorem C03_gen_add : forall (R : Type) (b : base R) (r : R) (g : N), base_gen (base_add b r g) = Ok g.
Proof. exact (@base_gen_add). Qed.
Print Assumptions C03_gen_add.

Theorem C03_run_app : forall (C R Evt : Type) (gen_of : C -> res N)
    (iterate : C -> N -> N -> N -> res (R * N * N * list Evt)) (add : C -> R -> N -> C) (cb : C -> bool),
  (forall c r g, gen_of (add c r g) = Ok g) ->
  forall cs1 cs2 c idx c1 idx1 ls1,
  run C R Evt gen_of iterate add cb cs1 c idx = Ok (c1, idx1, ls1) ->
  Forall (fun l => il_continue l = true) ls1 ->
  run C R Evt gen_of iterate add cb (cs1 ++ cs2) c idx =
    match run C R Evt gen_of iterate add cb cs2 c1 idx1 with
    | Ok (c2, idx2, ls2) => Ok (c2, idx2, ls1 ++ ls2)
    | UB e => UB e
    end.
Proof. exact run_app. Qed.
Print Assumptions C03_run_app.

Theorem C03_run_app_plain : forall (K : Num) strm ps f d cb cs1 cs2 (c : pchk K) idx c1 idx1 ls1,
  plain_run strm ps f d cb cs1 c idx = Ok (c1, idx1, ls1) -> Forall (fun l => il_continue l = true) ls1 ->
  plain_run strm ps f d cb (cs1 ++ cs2) c idx =
    match plain_run strm ps f d cb cs2 c1 idx1 with
    | Ok (c2, idx2, ls2) => Ok (c2, idx2, ls1 ++ ls2)
    | UB e => UB e
    end.
Proof. exact (@plain_run_app). Qed.
Print Assumptions C03_run_app_plain.

Theorem C03_run_app_vegas : forall (K : Num) (L : Libm K) strm ps f d cb cs1 cs2 (c : vchk K) idx c1 idx1 ls1,
  vegas_run L strm ps f d cb cs1 c idx = Ok (c1, idx1, ls1) -> Forall (fun l => il_continue l = true) ls1 ->
  vegas_run L strm ps f d cb (cs1 ++ cs2) c idx =
    match vegas_run L strm ps f d cb cs2 c1 idx1 with
    | Ok (c2, idx2, ls2) => Ok (c2, idx2, ls1 ++ ls2)
    | UB e => UB e
    end.
Proof. exact (@vegas_run_app). Qed.
Print Assumptions C03_run_app_vegas.

Theorem C03_run_app_multi_channel : forall (K : Num) (L : Libm K) strm ps f mp d n cb cs1 cs2 (c : mchk K) idx c1 idx1 ls1,
  mc_run L strm ps f mp d n cb cs1 c idx = Ok (c1, idx1, ls1) -> Forall (fun l => il_continue l = true) ls1 ->
  mc_run L strm ps f mp d n cb (cs1 ++ cs2) c idx =
    match mc_run L strm ps f mp d n cb cs2 c1 idx1 with
    | Ok (c2, idx2, ls2) => Ok (c2, idx2, ls1 ++ ls2)
    | UB e => UB e
    end.
Proof. exact (@mc_run_app). Qed.
Print Assumptions C03_run_app_multi_channel.

Theorem C03_run_split : forall (C R Evt : Type) (gen_of : C -> res N)
    (iterate : C -> N -> N -> N -> res (R * N * N * list Evt)) (add : C -> R -> N -> C) (cb : C -> bool),
  (forall c r g, gen_of (add c r g) = Ok g) ->
  forall cs c idx c' idx' ls,
  run C R Evt gen_of iterate add cb cs c idx = Ok (c', idx', ls) ->
  forall j, j <= length ls -> (j < length ls \/ length ls = length cs) ->
  exists idxj,
    run C R Evt gen_of iterate add cb (firstn j cs) c idx = Ok (nth j (chks C Evt c ls) c, idxj, firstn j ls) /\
    run C R Evt gen_of iterate add cb (skipn j cs) (nth j (chks C Evt c ls) c) idxj = Ok (c', idx', skipn j ls).
Proof. exact run_split. Qed.
Print Assumptions C03_run_split.

(** 2. "textually identical" *)
Theorem C03_reload_equiv_plain : forall (K : Num) (digits10 : string),
  (forall c c' : pchk K, wf_pchk c = true -> wf_pchk c' = true ->
     ser_pchk digits10 c = ser_pchk digits10 c' -> c = c') /\
  (forall c : pchk K, wf_pchk c = true -> plain_reload digits10 c = Ok c).
Proof. exact (@pchk_text). Qed.
Print Assumptions C03_reload_equiv_plain.

Theorem C03_reload_equiv_vegas : forall (K : Num) (digits10 : string),
  (forall c c' : vchk K, vchk_eqv c c' -> ser_vchk digits10 c = ser_vchk digits10 c') /\
  (forall (c c' : vchk K) t, wf_vchk c = true -> wf_vchk c' = true ->
     ser_vchk digits10 c = Ok t -> ser_vchk digits10 c' = Ok t -> vchk_eqv c c') /\
  (forall c : vchk K, wf_vchk c = true -> vchk_textual c ->
     exists c', vchk_reload digits10 c = Ok c' /\ vchk_eqv c' c).
Proof. exact (@vchk_eqv_text). Qed.
Print Assumptions C03_reload_equiv_vegas.

Theorem C03_reload_equiv_multi_channel : forall (K : Num) (digits10 : string),
  (forall c c' : mchk K, mchk_eqv c c' -> ser_mchk digits10 c = ser_mchk digits10 c') /\
  (forall c c' : mchk K, wf_mchk c = true -> wf_mchk c' = true ->
     ser_mchk digits10 c = ser_mchk digits10 c' -> mchk_eqv c c') /\
  (forall c : mchk K, wf_mchk c = true -> exists c', mchk_reload digits10 c = Ok c' /\ mchk_eqv c' c).
Proof. exact (@mchk_eqv_text). Qed.
Print Assumptions C03_reload_equiv_multi_channel.

Theorem C03_text_equivalence : forall K : Num,
  ((forall c : vchk K, vchk_eqv c c) /\ (forall c c' : vchk K, vchk_eqv c c' -> vchk_eqv c' c) /\
   (forall a b c : vchk K, vchk_eqv a b -> vchk_eqv b c -> vchk_eqv a c)) /\
  ((forall c : mchk K, mchk_eqv c c) /\ (forall c c' : mchk K, mchk_eqv c c' -> mchk_eqv c' c) /\
   (forall a b c : mchk K, mchk_eqv a b -> mchk_eqv b c -> mchk_eqv a c)).
Proof. exact (fun K => conj (@vchk_eqv_laws K) (@mchk_eqv_laws K)). Qed.
Print Assumptions C03_text_equivalence.

(** 3. runs respect the text *)
Theorem C03_run_respects : forall (C R Evt : Type) (gen_of : C -> res N)
    (iterate : C -> N -> N -> N -> res (R * N * N * list Evt)) (add : C -> R -> N -> C) (cb : C -> bool)
    (eqv : C -> C -> Prop),
  (forall c c', eqv c c' -> gen_of c = gen_of c') ->
  (forall c c' calls g idx, eqv c c' -> iterate c calls g idx = iterate c' calls g idx) ->
  (forall c c' r g, eqv c c' -> eqv (add c r g) (add c' r g)) ->
  (forall c c', eqv c c' -> cb c = cb c') ->
  forall cs c c' idx, eqv c c' ->
  out_eqv C Evt eqv (run C R Evt gen_of iterate add cb cs c idx) (run C R Evt gen_of iterate add cb cs c' idx).
Proof. exact run_eqv. Qed.
Print Assumptions C03_run_respects.

Theorem C03_run_respects_text_vegas : forall (K : Num) (L : Libm K) strm ps f d cb cs (c c' : vchk K) idx,
  (forall x y, vchk_eqv x y -> cb x = cb y) -> vchk_textual c -> vchk_eqv c c' ->
  out_eqv (vchk K) (event K) vchk_eqv
    (vegas_run L strm ps f d cb cs c idx) (vegas_run L strm ps f d cb cs c' idx).
Proof. exact (@vegas_run_eqv). Qed.
Print Assumptions C03_run_respects_text_vegas.

Theorem C03_run_respects_text_multi_channel : forall (K : Num) (L : Libm K) strm ps f mp d n cb cs (c c' : mchk K) idx,
  (forall x y, mchk_eqv x y -> cb x = cb y) -> mchk_eqv c c' ->
  out_eqv (mchk K) (event K) mchk_eqv
    (mc_run L strm ps f mp d n cb cs c idx) (mc_run L strm ps f mp d n cb cs c' idx).
Proof. exact (@mc_run_eqv). Qed.
Print Assumptions C03_run_respects_text_multi_channel.

Theorem C03_builtin_callback_respects_text : forall (K : Num) (target : K),
  (forall c c' : vchk K, vchk_eqv c c' -> cb_vegas target c = cb_vegas target c') /\
  (forall c c' : mchk K, mchk_eqv c c' -> cb_mc target c = cb_mc target c').
Proof. exact (@builtin_cb_text). Qed.
Print Assumptions C03_builtin_callback_respects_text.

(** 3b. runs keep checkpoints well formed (C05's [wf_*]) *)
Theorem C03_reachable_wf : forall (K : Num) (L : Libm K) strm ps f mp,
  (forall d cb cs (c : pchk K) idx c' idx' ls,
     plain_run strm ps f d cb cs c idx = Ok (c', idx', ls) -> wf_pchk c = true ->
     forall x, In x (chks _ _ c ls) -> wf_pchk x = true) /\
  (forall d cb cs (c : vchk K) idx c' idx' ls,
     vegas_run L strm ps f d cb cs c idx = Ok (c', idx', ls) -> wf_vchk (vchk_dimensions c d) = true ->
     forall x, In x (chks _ _ (vchk_dimensions c d) ls) -> wf_vchk x = true) /\
  (forall d n cb cs (c : mchk K) idx c' idx' ls,
     mc_run L strm ps f mp d n cb cs c idx = Ok (c', idx', ls) -> wf_mchk (mchk_channels c n) = true ->
     forall x, In x (chks _ _ (mchk_channels c n) ls) -> wf_mchk x = true).
Proof. exact (@reachable_wf). Qed.
Print Assumptions C03_reachable_wf.

Theorem C03_fresh_wf : forall K : Num,
  (forall g, wf_pchk (K:=K) (base_init g) = true) /\
  (forall bins (alpha : K) g d, wf_vchk (vchk_dimensions (vchk_default bins alpha g) d) = true) /\
  (forall (p : pdf K) alpha g d, wf_pdf p = true -> wf_vchk (vchk_dimensions (vchk_user p alpha g) d) = true) /\
  (forall minw beta g n, wf_mchk (mchk_channels (mchk_default (K:=K) minw beta g) n) = true) /\
  (forall (c : mchk K) n, wf_mchk c = true -> wf_mchk (mchk_channels c n) = true).
Proof. exact (@fresh_wf). Qed.
Print Assumptions C03_fresh_wf.

(** 4. any composition *)
Theorem C03_resume_any_composition : forall (C R Evt : Type) (gen_of : C -> res N)
    (iterate : C -> N -> N -> N -> res (R * N * N * list Evt)) (add : C -> R -> N -> C) (cb : C -> bool),
  (forall c r g, gen_of (add c r g) = Ok g) ->
  forall eqv : C -> C -> Prop,
  (forall c c', eqv c c' -> gen_of c = gen_of c') ->
  (forall c c' calls g idx, eqv c c' -> iterate c calls g idx = iterate c' calls g idx) ->
  (forall c c' r g, eqv c c' -> eqv (add c r g) (add c' r g)) ->
  (forall c c', eqv c c' -> cb c = cb c') ->
  forall (prep : C -> C) (reload : C -> res C) (ok : C -> Prop),
  (forall c, eqv c c) -> (forall c c', eqv c c' -> eqv c' c) -> (forall a b c, eqv a b -> eqv b c -> eqv a c) ->
  (forall c, prep (prep c) = prep c) ->
  (forall c r g, prep c = c -> prep (add c r g) = add c r g) ->
  (forall c c', ok c -> eqv c c' -> eqv (prep c) (prep c')) ->
  (forall c, ok c -> exists c', reload c = Ok c' /\ eqv c' c) ->
  (forall c c', ok c -> eqv c c' -> ok c') ->
  forall p0 pcs cs c idx c' idx' ls,
  drun C R Evt gen_of iterate add cb prep cs c idx = Ok (c', idx', ls) ->
  p0 ++ concat pcs = firstn (length ls) cs ->
  (forall x, In x (chks C Evt (prep c) ls) -> ok x) ->
  exists d' ls',
    run_pieces (drun C R Evt gen_of iterate add cb prep) reload p0 pcs c idx = Ok (d', idx', ls') /\
    eqv c' d' /\ Forall2 (log_eqv C Evt eqv) ls ls'.
Proof. exact run_pieces_eqv. Qed.
Print Assumptions C03_resume_any_composition.

Theorem C03_resume_any_composition_plain : forall (K : Num) strm ps f (digits10 : string) d cb p0 pcs cs (c : pchk K) idx c' idx' ls,
  plain_run strm ps f d cb cs c idx = Ok (c', idx', ls) ->
  p0 ++ concat pcs = firstn (length ls) cs ->
  wf_pchk c = true ->
  run_pieces (plain_run strm ps f d cb) (plain_reload digits10) p0 pcs c idx = Ok (c', idx', ls).
Proof. exact (@plain_pieces_wf). Qed.
Print Assumptions C03_resume_any_composition_plain.

Theorem C03_resume_any_composition_vegas : forall (K : Num) (L : Libm K) strm ps f (digits10 : string) d cb p0 pcs cs (c : vchk K) idx c' idx' ls,
  (forall x y, vchk_eqv x y -> cb x = cb y) ->
  vegas_run L strm ps f d cb cs c idx = Ok (c', idx', ls) ->
  p0 ++ concat pcs = firstn (length ls) cs ->
  wf_vchk (vchk_dimensions c d) = true ->
  exists d' ls',
    run_pieces (vegas_run L strm ps f d cb) (vchk_reload digits10) p0 pcs c idx = Ok (d', idx', ls') /\
    vchk_eqv c' d' /\ Forall2 (log_eqv _ _ vchk_eqv) ls ls' /\
    ser_vchk digits10 d' = ser_vchk digits10 c' /\ (exists t, ser_vchk digits10 c' = Ok t).
Proof. exact (@vegas_pieces_wf). Qed.
Print Assumptions C03_resume_any_composition_vegas.

Theorem C03_resume_any_composition_multi_channel : forall (K : Num) (L : Libm K) strm ps f mp (digits10 : string) d n cb p0 pcs cs (c : mchk K) idx c' idx' ls,
  (forall x y, mchk_eqv x y -> cb x = cb y) ->
  mc_run L strm ps f mp d n cb cs c idx = Ok (c', idx', ls) ->
  p0 ++ concat pcs = firstn (length ls) cs ->
  wf_mchk c = true ->
  exists d' ls',
    run_pieces (mc_run L strm ps f mp d n cb) (mchk_reload digits10) p0 pcs c idx = Ok (d', idx', ls') /\
    mchk_eqv c' d' /\ Forall2 (log_eqv _ _ mchk_eqv) ls ls' /\
    ser_mchk digits10 d' = ser_mchk digits10 c'.
Proof. exact (@mc_pieces_wf). Qed.
Print Assumptions C03_resume_any_composition_multi_channel.

(** Non-vacuity: real runs in double precision satisfy the hypotheses (the run succeeds, every checkpoint
    it shows to the callback is well formed): 3 VEGAS iterations of 8 calls whose grid moves (the run of
    Lemmas_C19), 2 PLAIN iterations with the built-in callback (Lemmas_C12), 3 multi-channel iterations
    with 2 channels ... *)
Example C03_example_vegas : exists c idx' ls,
  vegas_run ex19_L ex19_strm [] ex19_f 1 (fun _ => true) [8; 8; 8]%N exr_vegas_c0 0 = Ok (c, idx', ls) /\
  length ls = 3 /\ length (b_gens (vc_base exr_vegas_c0)) = S (length (b_results (vc_base exr_vegas_c0))) /\
  (forall x, In x (chks _ _ (vchk_dimensions exr_vegas_c0 1) ls) -> wf_vchk x = true).
Proof. exact exr_vegas. Qed.

Example C03_example_plain : exists c idx' ls,
  plain_run ex_strm [] ex_f 1 (cb_plain (zero B64)) [3; 3]%N exr_plain_c0 0 = Ok (c, idx', ls) /\
  length ls = 2 /\ length (b_gens exr_plain_c0) = S (length (b_results exr_plain_c0)) /\
  (forall x, In x (chks _ _ exr_plain_c0 ls) -> wf_pchk x = true).
Proof. exact exr_plain. Qed.

Example C03_example_multi_channel : exists c idx' ls,
  mc_run ex19_L ex19_strm [] ex19_f exr_mp 1 2 (fun _ => true) [4; 4; 4]%N exr_mc_c0 0 = Ok (c, idx', ls) /\
  length ls = 3 /\ length (b_gens (mc_base exr_mc_c0)) = S (length (b_results (mc_base exr_mc_c0))) /\
  (forall x, In x (chks _ _ (mchk_channels exr_mc_c0 2) ls) -> wf_mchk x = true).
Proof. exact exr_mc. Qed.

(* ... and the composition theorems applied to them: one iteration at a time with a reload after each
   (VEGAS), 1 + 1 (PLAIN, equal logs and checkpoint), 2 + 0 + 1 with an empty piece (multi-channel) *)
Example C03_example_vegas_pieces : exists c idx' ls d' ls',
  vegas_run ex19_L ex19_strm [] ex19_f 1 (fun _ => true) [8; 8; 8]%N exr_vegas_c0 0 = Ok (c, idx', ls) /\
  run_pieces (vegas_run ex19_L ex19_strm [] ex19_f 1 (fun _ => true)) (vchk_reload "17") [8]%N [[8]; [8]]%N exr_vegas_c0 0
    = Ok (d', idx', ls') /\
  ser_vchk "17" d' = ser_vchk "17" c.
Proof. exact ex03_vegas_pieces. Qed.

Example C03_example_plain_pieces : exists c idx' ls,
  plain_run ex_strm [] ex_f 1 (cb_plain (zero B64)) [3; 3]%N exr_plain_c0 0 = Ok (c, idx', ls) /\
  run_pieces (plain_run ex_strm [] ex_f 1 (cb_plain (zero B64))) (plain_reload "17") [3]%N [[3]]%N exr_plain_c0 0
    = Ok (c, idx', ls).
Proof. exact ex03_plain_pieces. Qed.

Example C03_example_multi_channel_pieces : exists c idx' ls d' ls',
  mc_run ex19_L ex19_strm [] ex19_f exr_mp 1 2 (fun _ => true) [4; 4; 4]%N exr_mc_c0 0 = Ok (c, idx', ls) /\
  run_pieces (mc_run ex19_L ex19_strm [] ex19_f exr_mp 1 2 (fun _ => true)) (mchk_reload "17") [4; 4]%N [[]; [4]]%N exr_mc_c0 0
    = Ok (d', idx', ls') /\
  ser_mchk "17" d' = ser_mchk "17" c.
Proof. exact ex03_mc_pieces. Qed.
