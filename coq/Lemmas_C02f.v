(** Lemmas for C02f: the per-bin reading of the VEGAS adjustment data (property C02) without the side
    hypothesis "all reported bin indices are below the bin count", for IEEE formats [NumB].
    Composition of Lemmas_C02.v ([c02_vegas_adjustment]) with Lemmas_C17f.v (which composes the protocol of an
    iteration, Lemmas_C17.v, with the inverse CDF in IEEE arithmetic, Lemmas_C07f.v / Lemmas_C07g.v).
    Statements: Properties_C02f.v. *)
From Coq Require Import ZArith NArith List Reals Lra Lia Bool.
From Flocq Require Import Core BinarySingleNaN.
From HepMC Require Import Num NumR NumB Translated Result Accum VegasPdf Discrete MultiChannel Iter
  Lemmas_Run Lemmas_C02 Lemmas_C07f Lemmas_C07g Lemmas_C17 Lemmas_C17f.
Import ListNotations.

(** if every event is an integrand call whose observation satisfies P, so do all [call_obs] *)
Lemma call_obs_Forall {K : Num} (P : obs K -> Prop) (tr : list (event K)) :
  Forall (fun e => exists o w, e = EvIntegrand o w /\ P o) tr -> Forall P (call_obs tr).
Proof.
  induction 1 as [|e tr (o & w & -> & Ho) _ IH]; [constructor|].
  change (call_obs (EvIntegrand o w :: tr)) with (o :: call_obs tr). constructor; assumption.
Qed.

Section Float.
  Variables prec emax : Z.
  Context (Hprec : FLX.Prec_gt_0 prec) (Hmax : Prec_lt_emax prec emax).
  Hypothesis Hprec2 : (2 <= prec)%Z.
  Notation KB := (NumB prec emax Hprec Hmax).

  Variable strm : N -> KB.
  Variable ps : list (dparams KB).
  Variable f : integrand KB.

  (** one bin index per dimension, each below the bin count: what the adjustment code is handed per call *)
  Definition bins_in_range (p : pdf KB) (c : list N * KB) : Prop :=
    length (fst c) = N.to_nat (pdf_dims p) /\ Forall (fun b => (b < pdf_bins p)%N) (fst c).

  Lemma c02f_bins_in_range (p : pdf KB) calls g idx r g' idx' evs :
    grid_ok prec emax Hprec Hmax p -> (forall n, unit_closed prec emax Hprec Hmax (strm n)) ->
    vegas_iteration strm ps f p calls g idx = Ok (r, g', idx', evs) ->
    Forall (bins_in_range p) (vcalls f evs).
  Proof.
    intros V HP H.
    destruct (c17f_unit_interval_vegas_flat prec emax Hprec Hmax Hprec2 strm ps f p calls g idx r g' idx' evs V HP H)
      as [_ HF].
    unfold vcalls. apply Forall_map. apply call_obs_Forall.
    eapply Forall_impl; [|exact HF]. cbv beta. intros e (o & -> & _ & L & _ & B).
    exists o, true. split; [reflexivity|]. split; assumption.
  Qed.

  (* the hypothesis of C02_vegas_adjustment, literally *)
  Lemma c02f_hypothesis_of_C02 (p : pdf KB) calls g idx r g' idx' evs :
    grid_ok prec emax Hprec Hmax p -> (forall n, unit_closed prec emax Hprec Hmax (strm n)) ->
    vegas_iteration strm ps f p calls g idx = Ok (r, g', idx', evs) ->
    Forall (fun c => Forall (fun b => (b < pdf_bins p)%N) (fst c)) (vcalls f evs).
  Proof.
    intros V HP H. eapply Forall_impl; [|exact (c02f_bins_in_range p calls g idx r g' idx' evs V HP H)].
    intros c [_ B]. exact B.
  Qed.

  (** every call falls into exactly one bin of every dimension (so [vegas_adj_bin] never takes its
      [None] branch) *)
  Lemma bins_in_range_nth (p : pdf KB) (c : list N * KB) j :
    bins_in_range p c -> (j < pdf_dims p)%N -> exists b, nthN (fst c) j = Some b /\ (b < pdf_bins p)%N.
  Proof.
    intros [L B] Hj. unfold nthN. destruct (nth_error (fst c) (N.to_nat j)) as [b|] eqn:E.
    - exists b. split; [reflexivity|]. rewrite Forall_forall in B. apply B. eapply nth_error_In; eauto.
    - apply nth_error_None in E. lia.
  Qed.

  (** the per-bin specification of the adjustment data, unconditional *)
  Lemma c02f_vegas_adjustment_per_bin (p : pdf KB) calls g idx r g' idx' evs :
    grid_ok prec emax Hprec Hmax p -> (forall n, unit_closed prec emax Hprec Hmax (strm n)) ->
    vegas_iteration strm ps f p calls g idx = Ok (r, g', idx', evs) ->
    length (v_adj r) = N.to_nat (pdf_dims p * pdf_bins p) /\
    Forall (bins_in_range p) (vcalls f evs) /\
    (forall j b, (j < pdf_dims p)%N -> (b < pdf_bins p)%N ->
       nthN (v_adj r) (j * pdf_bins p + b) = Some (vegas_adj_bin j b (vcalls f evs) (zero KB))) /\
    (forall i, (i < pdf_dims p * pdf_bins p)%N ->
       nthN (v_adj r) i = Some (vegas_adj_bin (i / pdf_bins p) (i mod pdf_bins p) (vcalls f evs) (zero KB))).
  Proof.
    intros V HP H.
    destruct (c02_vegas_adjustment strm ps f p calls g idx r g' idx' evs H) as (L & _ & PB).
    specialize (PB (c02f_hypothesis_of_C02 p calls g idx r g' idx' evs V HP H)).
    split; [exact L|]. split; [exact (c02f_bins_in_range p calls g idx r g' idx' evs V HP H)|].
    split; [exact PB|].
    intros i Hi. destruct V as (B1 & _).
    assert (Hb : pdf_bins p <> 0%N) by lia.
    pose proof (N.div_mod i (pdf_bins p) Hb) as E.
    pose proof (N.mod_upper_bound i (pdf_bins p) Hb) as Hm.
    assert (Hd : (i / pdf_bins p < pdf_dims p)%N).
    { apply N.div_lt_upper_bound; [exact Hb|]. rewrite N.mul_comm. exact Hi. }
    rewrite <- (PB _ _ Hd Hm). f_equal. rewrite E at 1. apply (f_equal (fun x => (x + i mod pdf_bins p)%N)). apply N.mul_comm.
  Qed.
End Float.

(* ------------------------------------------------------------------------------------------- *)
(** * non-vacuity: the single-precision VEGAS iteration of Lemmas_C17f.v (grid 2 x 3, 5 calls, stream
      0, 1/4, 1/2, 3/4, 1, ..., integrand x0 + x1) *)
Definition ex02f_check : bool :=
  match vegas_iteration ex17f_strm [] ex17f_f ex07f_p 5 0 0 with
  | Ok (r, g', idx', evs) =>
      let cs := vcalls ex17f_f evs in
      outs_eqb (map (Bout 24 128) (v_adj r))
               [OFin false 10485760 (-24); OFin false 13107198 (-23); OFin false 8519677 (-21);
                OFin false 8912893 (-23); OFin false 9437184 (-24); OFin false 9699325 (-21)] &&
      outs_eqb (map (fun jb => Bout 24 128 (vegas_adj_bin (fst jb) (snd jb) cs (zero B32)))
                    [(0, 0); (0, 1); (0, 2); (1, 0); (1, 1); (1, 2)]%N)
               [OFin false 10485760 (-24); OFin false 13107198 (-23); OFin false 8519677 (-21);
                OFin false 8912893 (-23); OFin false 9437184 (-24); OFin false 9699325 (-21)] &&
      forallb (fun c => Ns_eqb [N.of_nat (length (fst c))] [2%N] && forallb (fun b => N.ltb b 3) (fst c)) cs
  | UB _ => false
  end.
Lemma ex02f_check_true : ex02f_check = true.
Proof. vm_compute. reflexivity. Qed.

Lemma c02f_example :
  grid_ok 24 128 P24 M24 ex07f_p /\ (forall n, unit_closed 24 128 P24 M24 (ex17f_strm n)) /\
  exists r g' idx' evs,
    vegas_iteration ex17f_strm [] ex17f_f ex07f_p 5 0 0 = Ok (r, g', idx', evs) /\
    map (Bout 24 128) (v_adj r) =
      [OFin false 10485760 (-24); OFin false 13107198 (-23); OFin false 8519677 (-21);
       OFin false 8912893 (-23); OFin false 9437184 (-24); OFin false 9699325 (-21)] /\
    map (fun jb => Bout 24 128 (vegas_adj_bin (fst jb) (snd jb) (vcalls ex17f_f evs) (zero B32)))
        [(0, 0); (0, 1); (0, 2); (1, 0); (1, 1); (1, 2)]%N =
      [OFin false 10485760 (-24); OFin false 13107198 (-23); OFin false 8519677 (-21);
       OFin false 8912893 (-23); OFin false 9437184 (-24); OFin false 9699325 (-21)].
Proof.
  split; [exact ex17f_grid_ok|]. split; [exact ex17f_strm_closed|].
  pose proof ex02f_check_true as H. unfold ex02f_check in H.
  destruct (vegas_iteration ex17f_strm [] ex17f_f ex07f_p 5 0 0) as [[[[r g'] idx'] evs]|]; [|discriminate H].
  cbv zeta in H. apply andb_prop in H as [H _]. apply andb_prop in H as [H1 H2].
  apply outs_eqb_eq in H1, H2. exists r, g', idx', evs. split; [reflexivity|]. split; assumption.
Qed.
