(** * Cases: interpreter of correspondence cases over the model (pure-function commands).
    The same [run_case] is extracted to OCaml and evaluated by vm_compute.  Harness code. *)
From Coq Require Import ZArith NArith List String Ascii Bool.
From HepMC Require Import Num NumB Translated Result Accum VegasPdf Discrete MultiChannel Helper Fs Sx.
Import ListNotations.
Local Open Scope string_scope.

Section Cases.
  Context (F : Fmt).
  Notation K := (fnum F).

  Definition bad : sx := SL [SY "bad_case"].

  Definition d_mcres (x : sx) : option (mcres K) :=
    match x with
    | SL [SN c; SN n; SN f; SF s; SF ss] => Some (mk_mcres c n f (fin_ F s) (fin_ F ss))
    | _ => None
    end.
  Definition e_mcres (r : mcres K) : sx :=
    SL [SN (r_calls r); SN (r_nz r); SN (r_fin r); eF F (r_sum r); eF F (r_sumsq r)].

  Definition kahan_fold (vs : list K) : K * K * K :=
    fold_left (fun '(s, ss, c) v => accumulate K s ss c v) vs (zero K, zero K, zero K).

  Definition pure_case (cmd : string) (args : list sx) (libm : list sx) : sx :=
    let L := libm_of F libm in
    if String.eqb cmd "split" then
      match args with
      | [SN total; SN calls; SN rank; SN world] =>
        SL [SN (Z.to_N (discard_before (Z.of_N total) (Z.of_N rank) (Z.of_N world)));
            SN (Z.to_N (discard_after (Z.of_N total) (Z.of_N calls) (Z.of_N rank) (Z.of_N world)))]
      | _ => bad end
    else if String.eqb cmd "subcalls" then
      match args with
      | [SN calls; SN rank; SN world] =>
        SL [SN (Z.to_N (sub_calls_plain (Z.of_N calls) (Z.of_N rank) (Z.of_N world)));
            SN (Z.to_N (sub_calls_vegas (Z.of_N calls) (Z.of_N rank) (Z.of_N world)));
            SN (Z.to_N (sub_calls_multi_channel (Z.of_N calls) (Z.of_N rank) (Z.of_N world)))]
      | _ => bad end
    else if String.eqb cmd "icdf" then
      match args with
      | [SN bins; SN dims; xs; us] =>
        match dLof (dF F) xs, dLof (dF F) us with
        | Some x, Some u =>
          eRes (fun '(pt, bs, w) => [eFs F pt; eNs bs; eF F w]) (icdf (mk_pdf bins dims x) u)
        | _, _ => bad end
      | _ => bad end
    else if String.eqb cmd "refine_pdf" then
      match args with
      | [SN bins; SN dims; xs; SF alpha; data] =>
        match dLof (dF F) xs, dLof (dF F) data with
        | Some x, Some d =>
          eRes (fun p => [eFs F (pdf_x p)]) (refine_pdf L (mk_pdf bins dims x) (fin_ F alpha) d)
        | _, _ => bad end
      | _ => bad end
    else if String.eqb cmd "refine_w" then
      match args with
      | [ws; data; SF minw; SF beta] =>
        match dLof (dF F) ws, dLof (dF F) data with
        | Some w, Some d => eRes (fun r => [eFs F r]) (refine_weights L w d (fin_ F minw) (fin_ F beta))
        | _, _ => bad end
      | _ => bad end
    else if String.eqb cmd "select" then
      match args with
      | [ws; SF u] =>
        match dLof (dF F) ws with
        | Some w => SL [SN (select w (fin_ F u))]
        | _ => bad end
      | _ => bad end
    else if String.eqb cmd "selects" then
      (* one distribution, many canonical numbers *)
      match args with
      | [ws; us] =>
        match dLof (dF F) ws, dLof (dF F) us with
        | Some w, Some u => let cum := cumulative w in SL (map (fun x => SN (upper_bound cum x)) u)
        | _, _ => bad end
      | _ => bad end
    else if String.eqb cmd "kahan" then
      match args with
      | [vs] =>
        match dLof (dF F) vs with
        | Some v => let '(s, ss, c) := kahan_fold v in SL [eF F s; eF F ss; eF F c]
        | _ => bad end
      | _ => bad end
    else if String.eqb cmd "moments" then
      match args with
      | [r] => match d_mcres r with
               | Some r => SL [eF F (value r); eF F (variance r); eF F (error r)]
               | None => bad end
      | _ => bad end
    else if String.eqb cmd "create" then
      match args with
      | [SN c; SN n; SN f; SF v; SF e] => e_mcres (mk_result c n f (fin_ F v) (fin_ F e))
      | _ => bad end
    else if String.eqb cmd "wwv" then
      match args with
      | [rs] => match dLof d_mcres rs with Some l => e_mcres (weighted_with_variance l) | None => bad end
      | _ => bad end
    else if String.eqb cmd "weq" then
      match args with
      | [rs] => match dLof d_mcres rs with Some l => e_mcres (weighted_equally l) | None => bad end
      | _ => bad end
    else if String.eqb cmd "chi2" then
      match args with
      | [SY which; rs] =>
        match dLof d_mcres rs with
        | Some l => SL [eF F (chi_square_dof (if String.eqb which "wwv" then weighted_with_variance
                                               else weighted_equally) l)]
        | None => bad end
      | _ => bad end
    else if String.eqb cmd "mcweight" then
      match args with
      | [SF j; ws; dens] =>
        match dLof (dF F) ws, dLof (dF F) dens with
        | Some w, Some d => eRes (fun x => [eF F x]) (mc_weight (fin_ F j) w d)
        | _, _ => bad end
      | _ => bad end
    else if String.eqb cmd "midpoints" then
      match args with
      | [SN bx; SN by_; SF xmin; SF xmax; SF ymin; SF ymax] =>
        let d := mk_dres (make_dparams2 bx by_ (fin_ F xmin) (fin_ F xmax) (fin_ F ymin) (fin_ F ymax) "") [] in
        SL [eFs F (mid_points_x d); eFs F (mid_points_y d)]
      | _ => bad end
    else if String.eqb cmd "fsops" then
      (* the operation list of the writing callback for a text cut into pieces of the given lengths
         (bytes are abstract: each piece is represented by its length) *)
      let enc := map (fun o => match o with
                            | OpOpen p => SL [SY "open"; SS p]
                            | OpWrite p d => SL [SY "write"; SS p; SN (N.of_nat (List.length d))]
                            | OpClose p => SL [SY "close"; SS p]
                            | OpRename a b => SL [SY "rename"; SS a; SS b]
                            end) in
      let pieces := map (fun n => repeat tt (N.to_nat n)) in
      match args with
      | [SS name; lens] =>
        match dLof dN lens with
        | Some ls => SL (enc (write_chkpt_ops unit name (pieces ls)))
        | None => bad end
      | [SS name; lens; SY how] =>
        (* the same when a system call of the invocation fails: "openfails" (nothing happens), "incomplete" (a write, the
           close or the rename failed after the given pieces reached the temporary), "completes" *)
        match dLof dN lens with
        | Some ls =>
          SL (enc (invocation_ops unit name
                     (if String.eqb how "openfails" then OpenFails
                      else if String.eqb how "incomplete" then Incomplete (pieces ls) else Completes (pieces ls))))
        | None => bad end
      | _ => bad end
    else SL [SY "unknown_command"].
End Cases.

Definition fmt_of (t : string) : option Fmt :=
  if String.eqb t "f" then Some Fmt32 else if String.eqb t "d" then Some Fmt64
  else if String.eqb t "l" then Some Fmt80 else None.
