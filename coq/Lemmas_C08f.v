(** Lemmas for C08f: floating-point counterpart of "the channel weights used for any iteration are
    finite, non-negative and sum to one", for the final normalisation step of [refine_weights] over
    [NumB prec emax] (IEEE-754 binary format, round to nearest even).
    (a) a left fold of rounded additions of non-negative floats that skips some zero-valued
        entries ([clamp_sum], and the plain total of the raw weights): monotone, at least every
        addend, telescoping error relative to the result;
    (b) the final [map (fun w => div w new_sum) clamped]: every weight finite and in [0,1], exact
        real sum within (n + 1) u of one;
    (c) the lift to [refine_weights]. *)
From Coq Require Import ZArith NArith List Reals Lra Lia Bool Psatz.
From Flocq Require Import Core BinarySingleNaN Relative Plus_error.
From HepMC Require Import Num NumR NumB Discrete MultiChannel Lemmas_C09 Lemmas_C08 Lemmas_C09f.
From HepMC Require Lemmas_C14 Lemmas_C07f.
Import ListNotations.
Local Open Scope R_scope.

Section FloatNorm.
  Variables prec emax : Z.
  Context (Hprec : FLX.Prec_gt_0 prec) (Hmax : Prec_lt_emax prec emax).
  Notation KB := (NumB prec emax Hprec Hmax).
  Notation F := (binary_float prec emax).
  Notation fexpB := (SpecFloat.fexp prec emax).
  Notation rnd := (round radix2 fexpB (round_mode mode_NE)).
  Notation u := (Lemmas_C14.uB prec).
  Notation eta := (eta_f prec emax).
  Notation fnn := (fin_nonneg prec emax Hprec Hmax).
  Notation BRs := (Lemmas_C09f.BRs prec emax Hprec Hmax).

  (** a weight in the model's own comparisons: finite, 0 <= w, w <= 1 *)
  Definition unit_weight (w : KB) : Prop :=
    isfinite KB w = true /\ leb KB (zero KB) w = true /\ leb KB w (one KB) = true.

  Lemma unit_weight_R (w : KB) : unit_weight w <-> is_finite w = true /\ 0 <= B2R w <= 1.
  Proof.
    destruct (Bone_R prec emax Hprec Hmax) as (F1 & E1). unfold unit_weight.
    change (isfinite KB w) with (is_finite w).
    change (leb KB (zero KB) w) with (Bleb (B754_zero false) w).
    change (leb KB w (one KB)) with (Bleb w (Bone' prec emax Hprec Hmax)).
    split.
    - intros (Fw & H0 & H1). split; [exact Fw|].
      rewrite Bleb_correct in H0 by (try exact Fw; reflexivity).
      rewrite Bleb_correct in H1 by assumption. rewrite E1 in H1. cbn [B2R] in H0.
      destruct (Rle_bool_spec 0 (B2R w)); [|discriminate]. destruct (Rle_bool_spec (B2R w) 1); [|discriminate].
      split; assumption.
    - intros (Fw & H0 & H1). split; [exact Fw|].
      rewrite !Bleb_correct by (try assumption; reflexivity). rewrite E1. cbn [B2R].
      split; apply Rle_bool_true; assumption.
  Qed.

  Lemma fnn_of_R (w : KB) : is_finite w = true -> 0 <= B2R w -> fnn w.
  Proof.
    intros Fw Hw. split; [exact Fw|]. change (Bltb w (B754_zero false) = false).
    rewrite (Bltb_R prec emax) by (try exact Fw; reflexivity). apply Rltb_false. exact Hw.
  Qed.

  Lemma Beqb_zero_false_R (w : F) : is_finite w = true -> Beqb w (B754_zero false) = false -> B2R w <> 0.
  Proof.
    intros Fw H. rewrite Beqb_correct in H by (try assumption; reflexivity). cbn [B2R] in H.
    destruct (Req_bool_spec (B2R w) 0); [discriminate|assumption].
  Qed.

  (* ----------------------------------------------------------------------------------------- *)
  (** * (a) folds of rounded additions that skip entries selected by [p] *)
  Definition sfold (p : KB -> bool) (l : list KB) (acc : KB) : KB :=
    fold_left (fun a w => if p w then a else add KB a w) l acc.

  Lemma clamp_sum_sfold (l : list KB) :
    @clamp_sum KB l = sfold (fun w => eqb KB w (zero KB)) l (zero KB).
  Proof. reflexivity. Qed.

  Lemma total_sfold (l : list KB) :
    fold_left (add KB) l (zero KB) = sfold (fun _ => false) l (zero KB).
  Proof. reflexivity. Qed.

  Lemma sfold_fin_inv p : forall (l : list KB) (acc : KB),
    is_finite (sfold p l acc) = true -> is_finite acc = true.
  Proof.
    induction l as [|x l IH]; intros acc H; [exact H|]. unfold sfold in *. cbn [fold_left] in H.
    destruct (p x); [apply IH; exact H|]. apply IH in H.
    apply (Bplus_fin_inv prec emax Hprec Hmax acc x H).
  Qed.

  Section Skip.
    Variable p : KB -> bool.
    Hypothesis Hp : forall w : KB, is_finite w = true -> p w = true -> B2R w = 0.

    Lemma sfold_spec : forall (l : list KB) (acc : KB),
      Forall fnn l -> is_finite acc = true -> 0 <= B2R acc -> is_finite (sfold p l acc) = true ->
      B2R acc <= B2R (sfold p l acc) /\
      (forall w, In w l -> B2R w <= B2R (sfold p l acc)) /\
      Rabs (B2R (sfold p l acc) - (B2R acc + Rsum (BRs l))) <= INR (length l) * u * B2R (sfold p l acc).
    Proof.
      pose proof (u_pos prec) as UP.
      induction l as [|x l IH]; intros acc Hl Fa Ha Fr.
      - cbn. split; [lra|]. split; [intros w []|].
        replace (B2R acc - (B2R acc + 0)) with 0 by ring. rewrite Rabs_R0. lra.
      - inversion Hl as [|x' l' Hx Hl']; subst.
        apply (fin_nonneg_R prec emax Hprec Hmax) in Hx. destruct Hx as (Fx & Hx).
        change (sfold p (x :: l) acc) with (sfold p l (if p x then acc else add KB acc x)) in *.
        change (Rsum (BRs (x :: l))) with (B2R x + Rsum (BRs l)).
        cbn [length]. rewrite S_INR.
        destruct (p x) eqn:Px.
        + destruct (IH acc Hl' Fa Ha Fr) as (A & B & C). set (r := sfold p l acc) in *.
          rewrite (Hp x Fx Px). split; [exact A|]. split.
          * intros w [<-|Hw]; [rewrite (Hp x Fx Px); lra|apply B; exact Hw].
          * replace (B2R acc + (0 + Rsum (BRs l))) with (B2R acc + Rsum (BRs l)) by ring.
            eapply Rle_trans; [exact C|]. assert (0 <= u * B2R r) by (apply Rmult_le_pos; lra).
            assert (0 <= INR (length l)) by apply pos_INR. nra.
        + pose proof (sfold_fin_inv p l _ Fr) as Fa'.
          pose proof (Bplus_fin_R prec emax Hprec Hmax acc x Fa') as Ra'.
          change (Bplus mode_NE acc x) with (add KB acc x) in Ra'.
          set (a' := add KB acc x) in *.
          assert (M1 : B2R acc <= B2R a').
          { rewrite Ra'. rewrite <- (rnd_B2R prec emax acc) at 1. apply (rnd_le prec emax Hprec). lra. }
          assert (M2 : B2R x <= B2R a').
          { rewrite Ra'. rewrite <- (rnd_B2R prec emax x) at 1. apply (rnd_le prec emax Hprec). lra. }
          assert (E1 : Rabs (B2R a' - (B2R acc + B2R x)) <= u * B2R a').
          { rewrite Ra'. apply (rnd_plus_abs prec emax Hprec); [apply generic_format_B2R|apply generic_format_B2R|lra]. }
          destruct (IH a' Hl' Fa' ltac:(lra) Fr) as (A & B & C). set (r := sfold p l a') in *.
          split; [lra|]. split.
          * intros w [<-|Hw]; [lra|apply B; exact Hw].
          * replace (B2R r - (B2R acc + (B2R x + Rsum (BRs l))))
              with ((B2R r - (B2R a' + Rsum (BRs l))) + (B2R a' - (B2R acc + B2R x))) by ring.
            replace ((INR (length l) + 1) * u * B2R r) with (INR (length l) * u * B2R r + u * B2R r) by ring.
            apply Rabs_le_add; [exact C|]. eapply Rle_trans; [exact E1|].
            apply Rmult_le_compat_l; lra.
    Qed.

    (** started from zero the first effective addition is exact: n - 1 roundings *)
    Lemma sfold_zero_spec : forall (l : list KB),
      Forall fnn l -> is_finite (sfold p l (zero KB)) = true ->
      0 <= B2R (sfold p l (zero KB)) /\
      (forall w, In w l -> B2R w <= B2R (sfold p l (zero KB))) /\
      Rabs (B2R (sfold p l (zero KB)) - Rsum (BRs l))
        <= INR (length l - 1) * u * B2R (sfold p l (zero KB)).
    Proof.
      pose proof (u_pos prec) as UP.
      induction l as [|x l IH]; intros Hl Fr.
      - cbn. split; [lra|]. split; [intros w []|]. replace (0 - 0) with 0 by ring. rewrite Rabs_R0. lra.
      - inversion Hl as [|x' l' Hx Hl']; subst.
        apply (fin_nonneg_R prec emax Hprec Hmax) in Hx. destruct Hx as (Fx & Hx).
        change (sfold p (x :: l) (zero KB)) with (sfold p l (if p x then zero KB else add KB (zero KB) x)) in *.
        change (Rsum (BRs (x :: l))) with (B2R x + Rsum (BRs l)).
        replace (length (x :: l) - 1)%nat with (length l) by (cbn [length]; lia).
        destruct (p x) eqn:Px.
        + destruct (IH Hl' Fr) as (A & B & C). set (r := sfold p l (zero KB)) in *.
          rewrite (Hp x Fx Px). split; [exact A|]. split.
          * intros w [<-|Hw]; [rewrite (Hp x Fx Px); lra|apply B; exact Hw].
          * rewrite Rplus_0_l. eapply Rle_trans; [exact C|].
            assert (0 <= u * B2R r) by (apply Rmult_le_pos; lra).
            assert (INR (length l - 1) <= INR (length l)) by (apply le_INR; lia). nra.
        + pose proof (sfold_fin_inv p l _ Fr) as Fa'.
          pose proof (Bplus_fin_R prec emax Hprec Hmax (zero KB) x Fa') as Ra'.
          change (Bplus mode_NE (zero KB) x) with (add KB (zero KB) x) in Ra'.
          set (a' := add KB (zero KB) x) in *.
          change (B2R (zero KB)) with 0 in Ra'. rewrite Rplus_0_l, (rnd_B2R prec emax x) in Ra'.
          destruct (sfold_spec l a' Hl' Fa' ltac:(lra) Fr) as (A & B & C). set (r := sfold p l a') in *.
          rewrite Ra' in *. split; [lra|]. split.
          * intros w [<-|Hw]; [lra|apply B; exact Hw].
          * exact C.
    Qed.
  End Skip.

  Lemma skip_zero_ok (w : KB) : is_finite w = true -> eqb KB w (zero KB) = true -> B2R w = 0.
  Proof. intros Fw H. apply (Beqb_zero_R prec emax); assumption. Qed.

  Lemma skip_none_ok (w : KB) : is_finite w = true -> false = true -> B2R w = 0.
  Proof. intros _ H. discriminate H. Qed.

  (* ----------------------------------------------------------------------------------------- *)
  (** * (b) the final normalisation *)
  Section Norm.
    Variable cl : list KB.
    Hypothesis Hcl : Forall fnn cl.
    Let ns : KB := @clamp_sum KB cl.
    Hypothesis Fns : is_finite ns = true.
    Hypothesis Pns : 0 < B2R ns.
    Let n := length cl.

    Lemma ns_spec :
      (forall w, In w cl -> B2R w <= B2R ns) /\
      Rabs (B2R ns - Rsum (BRs cl)) <= INR (n - 1) * u * B2R ns.
    Proof.
      destruct (sfold_zero_spec _ skip_zero_ok cl Hcl Fns) as (_ & B & C). split; assumption.
    Qed.

    Lemma cl_R w : In w cl -> is_finite w = true /\ 0 <= B2R w <= B2R ns.
    Proof.
      intros Hw. pose proof Hcl as Hcl'. rewrite Forall_forall in Hcl'.
      destruct (fin_nonneg_R prec emax Hprec Hmax w (Hcl' w Hw)) as (Fw & H0).
      split; [exact Fw|]. split; [exact H0|]. apply ns_spec. exact Hw.
    Qed.

    Lemma div_unit w : In w cl ->
      is_finite (div KB w ns) = true /\ B2R (div KB w ns) = rnd (B2R w / B2R ns) /\
      0 <= B2R w / B2R ns <= 1.
    Proof.
      intros Hw. destruct (cl_R w Hw) as (Fw & H0 & H1).
      destruct (Bdiv_unit_R prec emax Hprec Hmax w ns Fw (conj H0 H1) Pns) as (Fd & Rd).
      split; [exact Fd|]. split; [exact Rd|]. split.
      - apply Rmult_le_pos; [exact H0|left; apply Rinv_0_lt_compat; exact Pns].
      - apply Rmult_le_reg_r with (B2R ns); [exact Pns|]. unfold Rdiv.
        rewrite Rmult_assoc, Rinv_l by lra. lra.
    Qed.

    Lemma norm_unit : Forall unit_weight (map (fun w => div KB w ns) cl).
    Proof.
      apply Forall_forall. intros d Hd. apply in_map_iff in Hd. destruct Hd as (w & <- & Hw).
      destruct (div_unit w Hw) as (Fd & Rd & Q0 & Q1). apply unit_weight_R. split; [exact Fd|].
      rewrite Rd. split.
      - rewrite <- (rnd_0 prec emax). apply (rnd_le prec emax Hprec). exact Q0.
      - rewrite <- (rnd_1 prec emax Hprec Hmax). apply (rnd_le prec emax Hprec). exact Q1.
    Qed.

    (** sum of the rounded quotients against the exact quotient of the exact sum *)
    Lemma norm_sum_err : forall l : list KB, (forall w, In w l -> In w cl) ->
      0 <= Rsum (BRs l) / B2R ns /\
      Rabs (Rsum (BRs (map (fun w => div KB w ns) l)) - Rsum (BRs l) / B2R ns)
        <= u * (Rsum (BRs l) / B2R ns) + INR (length l) * eta.
    Proof.
      induction l as [|x l IH]; intros Hin.
      - cbn. unfold Rdiv. rewrite Rmult_0_l, Rmult_0_r. split; [lra|].
        replace (0 - 0) with 0 by ring. rewrite Rabs_R0. lra.
      - destruct (IH (fun w Hw => Hin w (or_intror Hw))) as (P0 & E).
        destruct (div_unit x (Hin x (or_introl eq_refl))) as (_ & Rd & Q0 & _).
        pose proof (rnd_rel_abs prec emax Hprec (B2R x / B2R ns)) as RE.
        rewrite (Rabs_pos_eq (B2R x / B2R ns)) in RE by exact Q0.
        cbn [map]. change (Rsum (BRs (div KB x ns :: map (fun w => div KB w ns) l)))
          with (B2R (div KB x ns) + Rsum (BRs (map (fun w => div KB w ns) l))).
        change (Rsum (BRs (x :: l))) with (B2R x + Rsum (BRs l)).
        cbn [length]. rewrite S_INR. rewrite Rd.
        replace ((B2R x + Rsum (BRs l)) / B2R ns) with (B2R x / B2R ns + Rsum (BRs l) / B2R ns)
          by (unfold Rdiv; ring).
        split; [lra|].
        replace (rnd (B2R x / B2R ns) + Rsum (BRs (map (fun w => div KB w ns) l))
                 - (B2R x / B2R ns + Rsum (BRs l) / B2R ns))
          with ((rnd (B2R x / B2R ns) - B2R x / B2R ns)
                + (Rsum (BRs (map (fun w => div KB w ns) l)) - Rsum (BRs l) / B2R ns)) by ring.
        eapply Rle_trans; [apply Rabs_le_add; [exact RE|exact E]|]. lra.
    Qed.

    (** the exact real sum of the new weights, without any bound on n *)
    Lemma norm_sum_general :
      Rabs (Rsum (BRs (map (fun w => div KB w ns) cl)) - 1)
        <= INR n * u + INR (n - 1) * (u * u) + INR n * eta.
    Proof.
      pose proof (u_pos prec) as UP.
      destruct (norm_sum_err cl (fun w Hw => Hw)) as (P0 & E). fold n in E.
      destruct ns_spec as (_ & C).
      set (q := Rsum (BRs cl) / B2R ns) in *.
      assert (Q : Rabs (q - 1) <= INR (n - 1) * u).
      { replace (q - 1) with ((Rsum (BRs cl) - B2R ns) / B2R ns) by (unfold q; field; lra).
        unfold Rdiv. rewrite Rabs_mult, (Rabs_pos_eq (/ B2R ns)) by (left; apply Rinv_0_lt_compat; exact Pns).
        apply Rmult_le_reg_r with (B2R ns); [exact Pns|]. rewrite Rmult_assoc, Rinv_l by lra.
        rewrite Rmult_1_r, Rabs_minus_sym. exact C. }
      assert (Q1 : q <= 1 + INR (n - 1) * u).
      { apply Rabs_le_inv in Q. lra. }
      replace (Rsum (BRs (map (fun w => div KB w ns) cl)) - 1)
        with ((Rsum (BRs (map (fun w => div KB w ns) cl)) - q) + (q - 1)) by ring.
      eapply Rle_trans; [apply Rabs_le_add; [exact E|exact Q]|].
      assert (N1 : INR (n - 1) <= INR n) by (apply le_INR; lia).
      assert (N0 : 0 <= INR (n - 1)) by apply pos_INR.
      assert (NN : n <> 0%nat -> INR (n - 1) = INR n - 1).
      { intros H. rewrite minus_INR by lia. reflexivity. }
      destruct (Nat.eq_dec n 0) as [Z|Z].
      - exfalso. unfold n in Z. apply length_zero_iff_nil in Z. unfold ns in Pns. rewrite Z in Pns.
        cbn in Pns. lra.
      - rewrite (NN Z) in *. nra.
    Qed.

    (** ... and with n u <= 1/8: within (n + 1) u of one *)
    Lemma norm_sum : INR n * u <= /8 ->
      Rabs (Rsum (BRs (map (fun w => div KB w ns) cl)) - 1) <= (INR n + 1) * u.
    Proof.
      intros Hn. pose proof (u_pos prec) as UP. pose proof (eta_le_u2 prec emax Hmax) as EU.
      pose proof (eta_pos prec emax) as EP.
      eapply Rle_trans; [exact norm_sum_general|].
      assert (N1 : INR (n - 1) <= INR n) by (apply le_INR; lia).
      assert (N0 : 0 <= INR (n - 1)) by apply pos_INR.
      assert (A : INR (n - 1) * (u * u) <= /8 * u).
      { replace (INR (n - 1) * (u * u)) with ((INR (n - 1) * u) * u) by ring.
        apply Rmult_le_compat_r; [lra|]. nra. }
      assert (B : INR n * eta <= /4 * u).
      { apply Rle_trans with (INR n * (2 * (u * u))).
        - apply Rmult_le_compat_l; [apply pos_INR|exact EU].
        - replace (INR n * (2 * (u * u))) with (2 * (INR n * u) * u) by ring.
          apply Rmult_le_compat_r; lra. }
      lra.
    Qed.
  End Norm.

  (** positivity of [clamp_sum] from "not all entries are zeros" *)
  Lemma clamp_sum_pos (cl : list KB) : Forall fnn cl ->
    Exists (fun w : KB => eqb KB w (zero KB) = false) cl ->
    is_finite (@clamp_sum KB cl) = true -> 0 < B2R (@clamp_sum KB cl).
  Proof.
    intros Hcl Hex Fns. apply Exists_exists in Hex. destruct Hex as (w & Hw & Nz).
    destruct (sfold_zero_spec _ skip_zero_ok cl Hcl Fns) as (_ & B & _).
    specialize (B w Hw). rewrite <- clamp_sum_sfold in B.
    rewrite Forall_forall in Hcl. destruct (fin_nonneg_R prec emax Hprec Hmax w (Hcl w Hw)) as (Fw & H0).
    pose proof (Beqb_zero_false_R w Fw Nz). lra.
  Qed.

  (** ** C08f_normalised_sum *)
  Lemma c08f_normalised_sum (cl : list KB) :
    Forall fnn cl -> Exists (fun w : KB => eqb KB w (zero KB) = false) cl ->
    isfinite KB (@clamp_sum KB cl) = true -> INR (length cl) * u <= /8 ->
    Forall unit_weight (map (fun w => div KB w (@clamp_sum KB cl)) cl) /\
    Rabs (Rsum (BRs (map (fun w => div KB w (@clamp_sum KB cl)) cl)) - 1) <= (INR (length cl) + 1) * u.
  Proof.
    intros Hcl Hex Fns Hn. pose proof (clamp_sum_pos cl Hcl Hex Fns) as Pns.
    split; [apply norm_unit; assumption|apply norm_sum; assumption].
  Qed.

  Lemma c08f_normalised_sum_general (cl : list KB) :
    Forall fnn cl -> Exists (fun w : KB => eqb KB w (zero KB) = false) cl ->
    isfinite KB (@clamp_sum KB cl) = true ->
    Rabs (Rsum (BRs (map (fun w => div KB w (@clamp_sum KB cl)) cl)) - 1)
      <= INR (length cl) * u + INR (length cl - 1) * (u * u) + INR (length cl) * eta.
  Proof.
    intros Hcl Hex Fns. pose proof (clamp_sum_pos cl Hcl Hex Fns) as Pns.
    apply norm_sum_general; assumption.
  Qed.
End FloatNorm.

(* ------------------------------------------------------------------------------------------- *)
(** * (c) the lift to [refine_weights] *)
Section FloatRefine.
  Variables prec emax : Z.
  Context (Hprec : FLX.Prec_gt_0 prec) (Hmax : Prec_lt_emax prec emax).
  Notation KB := (NumB prec emax Hprec Hmax).
  Notation F := (binary_float prec emax).
  Notation rnd := (round radix2 (SpecFloat.fexp prec emax) (round_mode mode_NE)).
  Notation u := (Lemmas_C14.uB prec).
  Notation fnn := (fin_nonneg prec emax Hprec Hmax).
  Notation BRs := (Lemmas_C09f.BRs prec emax Hprec Hmax).
  Notation uw := (unit_weight prec emax Hprec Hmax).
  Variable L : Libm KB.

  Lemma fmax_cases (a b : KB) : @fmax KB a b = a \/ @fmax KB a b = b.
  Proof.
    unfold fmax. destruct (isnan a); [right; reflexivity|]. destruct (isnan b); [left; reflexivity|].
    destruct (ltb KB a b); [right|left]; reflexivity.
  Qed.

  Section Raw.
    Variables (raw : list KB) (minw : KB).
    Hypothesis Hraw : Forall fnn raw.
    Hypothesis Hminw : fnn minw.
    Let total : KB := fold_left (add KB) raw (zero KB).
    Hypothesis Ftot : isfinite KB total = true.
    Hypothesis Ntot : eqb KB total (zero KB) = false.

    Lemma total_spec : 0 < B2R total /\ forall w, In w raw -> B2R w <= B2R total.
    Proof.
      destruct (sfold_zero_spec prec emax Hprec Hmax (fun _ => false) (skip_none_ok prec emax Hprec Hmax)
                  raw Hraw Ftot) as (A & B & _).
      change (sfold prec emax Hprec Hmax (fun _ => false) raw (zero KB)) with total in *.
      split; [|exact B]. pose proof (Beqb_zero_false_R prec emax total Ftot Ntot). lra.
    Qed.

    Lemma clamped_fnn : Forall fnn (map (clamp total minw) raw).
    Proof.
      destruct total_spec as (TP & TB).
      apply Forall_forall. intros c Hc. apply in_map_iff in Hc. destruct Hc as (w & <- & Hw).
      pose proof Hraw as Hraw'. rewrite Forall_forall in Hraw'. specialize (Hraw' w Hw).
      unfold clamp. destruct (eqb KB w (zero KB)); [exact Hraw'|].
      destruct (fmax_cases (div KB w total) minw) as [-> | ->]; [|exact Hminw].
      destruct (fin_nonneg_R prec emax Hprec Hmax w Hraw') as (Fw & H0).
      destruct (Bdiv_unit_R prec emax Hprec Hmax w total Fw (conj H0 (TB w Hw)) TP) as (Fd & Rd).
      apply fnn_of_R; [exact Fd|]. change (div KB w total) with (Bdiv mode_NE w total). rewrite Rd.
      rewrite <- (rnd_0 prec emax). apply (rnd_le prec emax Hprec).
      apply Rmult_le_pos; [exact H0|left; apply Rinv_0_lt_compat; exact TP].
    Qed.
  End Raw.

  (** ** C08f_refine_weights_sum_partial: finiteness of the two sums and new_sum <> 0 are kept as
      explicit hypotheses about the intermediate quantities *)
  Lemma c08f_refine_weights_sum_partial (ws data : list KB) (minw beta : KB) (raw : list KB) :
    raw_weights L ws data beta = Ok raw ->
    Forall fnn raw -> fnn minw ->
    isfinite KB (fold_left (add KB) raw (zero KB)) = true ->
    eqb KB (fold_left (add KB) raw (zero KB)) (zero KB) = false ->
    isfinite KB (new_sum_of raw minw) = true ->
    eqb KB (new_sum_of raw minw) (zero KB) = false ->
    INR (length ws) * u <= /8 ->
    exists ws', refine_weights L ws data minw beta = Ok ws' /\ length ws' = length ws /\
      Forall uw ws' /\ Rabs (Rsum (BRs ws') - 1) <= (INR (length ws) + 1) * u.
  Proof.
    intros E Hraw Hminw Ftot Ntot Fns Nns Hn.
    pose proof (clamped_fnn raw minw Hraw Hminw Ftot Ntot) as Hcl.
    set (cl := map (clamp (fold_left (add KB) raw (zero KB)) minw) raw) in *.
    change (new_sum_of raw minw) with (@clamp_sum KB cl) in *.
    assert (Pns : 0 < B2R (@clamp_sum KB cl)).
    { destruct (sfold_zero_spec prec emax Hprec Hmax _ (skip_zero_ok prec emax Hprec Hmax) cl Hcl Fns) as (A & _).
      rewrite <- clamp_sum_sfold in A. pose proof (Beqb_zero_false_R prec emax _ Fns Nns). lra. }
    assert (Len : length cl = length ws).
    { unfold cl. rewrite map_length. destruct (raw_weights_inv L ws data beta raw E) as (Hl & ->).
      apply raw_list_length. exact Hl. }
    eexists. split; [apply (refine_nonzero L ws data minw beta raw E Ntot)|].
    change (new_sum_of raw minw) with (@clamp_sum KB cl). fold cl.
    split; [rewrite map_length; exact Len|]. split.
    - apply norm_unit; assumption.
    - rewrite <- Len. apply norm_sum; [assumption|assumption|assumption|rewrite Len; exact Hn].
  Qed.
End FloatRefine.

(* ------------------------------------------------------------------------------------------- *)
(** * (c') the lift without hypotheses on new_sum: minw <= 1 keeps the second fold finite, and
      n u <= 1/8 keeps at least one quotient away from zero *)
Lemma Rsum_le_const (l : list R) (c : R) : (forall x, In x l -> x <= c) -> Rsum l <= INR (length l) * c.
Proof.
  induction l as [|x l IH]; intros H; [cbn; lra|].
  change (Rsum (x :: l)) with (x + Rsum l). cbn [length]. rewrite S_INR.
  pose proof (H x (or_introl eq_refl)). pose proof (IH (fun y Hy => H y (or_intror Hy))). lra.
Qed.

Section FloatRefineFull.
  Variables prec emax : Z.
  Context (Hprec : FLX.Prec_gt_0 prec) (Hmax : Prec_lt_emax prec emax).
  Hypothesis Hp2 : (2 <= prec)%Z.
  Notation KB := (NumB prec emax Hprec Hmax).
  Notation F := (binary_float prec emax).
  Notation fexpB := (SpecFloat.fexp prec emax).
  Notation rnd := (round radix2 fexpB (round_mode mode_NE)).
  Notation u := (Lemmas_C14.uB prec).
  Notation fnn := (fin_nonneg prec emax Hprec Hmax).
  Notation BRs := (Lemmas_C09f.BRs prec emax Hprec Hmax).
  Notation uw := (unit_weight prec emax Hprec Hmax).
  Notation sfoldB := (sfold prec emax Hprec Hmax).
  Variable L : Libm KB.

  Definition unitR (w : KB) : Prop := is_finite w = true /\ 0 <= B2R w <= 1.

  (** forward: entries in [0,1] added to an accumulator below the integer k cannot overflow while
      k + length < 2^prec (all integers below 2^prec are floats) *)
  Lemma sfold_fin_fwd (p : KB -> bool) : forall (l : list KB) (acc : KB) (k : Z),
    Forall unitR l -> is_finite acc = true -> 0 <= B2R acc <= IZR k -> (0 <= k)%Z ->
    (k + Z.of_nat (length l) < 2 ^ prec)%Z ->
    is_finite (sfoldB p l acc) = true.
  Proof.
    induction l as [|x l IH]; intros acc k Hl Fa Ha Hk Hb; [exact Fa|].
    inversion Hl as [|x' l' (Fx & Hx) Hl']; subst.
    change (sfoldB p (x :: l) acc) with (sfoldB p l (if p x then acc else add KB acc x)).
    cbn [length] in Hb.
    destruct (p x).
    - apply (IH acc k); try assumption. lia.
    - assert (Fk : generic_format radix2 fexpB (IZR (k + 1))).
      { apply Lemmas_C07f.format_IZR; [exact Hmax|exact Hp2|lia]. }
      assert (R1 : rnd (B2R acc + B2R x) <= IZR (k + 1)).
      { apply Rle_trans with (rnd (IZR (k + 1))).
        - apply (rnd_le prec emax Hprec). rewrite plus_IZR. lra.
        - right. apply round_generic; [auto with typeclass_instances|exact Fk]. }
      assert (R0 : 0 <= rnd (B2R acc + B2R x)) by (apply (rnd_nonneg prec emax Hprec); lra).
      destruct (Bplus_small_R prec emax Hprec Hmax acc x Fa Fx) as (Fa' & Ra').
      { rewrite Rabs_pos_eq by exact R0. eapply Rle_lt_trans; [exact R1|].
        apply Rlt_trans with (bpow radix2 prec).
        - pose proof (Lemmas_C07f.IZR_lt_bpow_prec prec Hp2 (k + 1) ltac:(lia)) as X.
          rewrite Rabs_pos_eq in X by (apply IZR_le; lia). exact X.
        - apply bpow_lt. exact Hmax. }
      apply (IH (add KB acc x) (k + 1)%Z); try assumption; [|lia|lia].
      change (add KB acc x) with (Bplus mode_NE acc x). rewrite Ra'. split; assumption.
  Qed.

  Lemma isnan_fin (a : KB) : is_finite a = true -> @isnan KB a = false.
  Proof.
    intros Fa. unfold isnan. change (eqb KB a a) with (Beqb a a).
    rewrite Beqb_correct by assumption. rewrite Req_bool_true by reflexivity. reflexivity.
  Qed.

  Lemma fmax_ge (a b : KB) : is_finite a = true -> is_finite b = true -> B2R a <= B2R (@fmax KB a b).
  Proof.
    intros Fa Fb. unfold fmax. rewrite (isnan_fin a Fa), (isnan_fin b Fb).
    change (ltb KB a b) with (Bltb a b). rewrite (Bltb_R prec emax a b Fa Fb).
    destruct (Rltb (B2R a) (B2R b)) eqn:E; [apply Rltb_true in E; lra|lra].
  Qed.

  Lemma u_format : generic_format radix2 fexpB u.
  Proof.
    unfold Lemmas_C14.uB. apply generic_format_bpow.
    unfold SpecFloat.fexp, SpecFloat.emin. unfold Prec_lt_emax in Hmax. lia.
  Qed.

  Lemma rnd_ge_u x : u <= x -> u <= rnd x.
  Proof.
    intros H. apply Rle_trans with (rnd u); [|apply (rnd_le prec emax Hprec); exact H].
    right. symmetry. apply round_generic; [auto with typeclass_instances|exact u_format].
  Qed.

  Section Raw.
    Variables (raw : list KB) (minw : KB).
    Hypothesis Hraw : Forall fnn raw.
    Hypothesis Hminw : fnn minw.
    Hypothesis Hminw1 : leb KB minw (one KB) = true.
    Let total : KB := fold_left (add KB) raw (zero KB).
    Hypothesis Ftot : isfinite KB total = true.
    Hypothesis Ntot : eqb KB total (zero KB) = false.
    Let cl := map (clamp total minw) raw.

    Lemma minw_R : is_finite minw = true /\ 0 <= B2R minw <= 1.
    Proof.
      destruct (fin_nonneg_R prec emax Hprec Hmax minw Hminw) as (Fm & M0).
      split; [exact Fm|]. split; [exact M0|].
      destruct (Bone_R prec emax Hprec Hmax) as (F1 & E1).
      change (Bleb minw (Bone' prec emax Hprec Hmax) = true) in Hminw1.
      rewrite Bleb_correct in Hminw1 by assumption. rewrite E1 in Hminw1.
      destruct (Rle_bool_spec (B2R minw) 1); [assumption|discriminate].
    Qed.

    Lemma div_raw w : In w raw ->
      is_finite w = true /\ 0 <= B2R w /\ is_finite (div KB w total) = true /\
      B2R (div KB w total) = rnd (B2R w / B2R total) /\ 0 <= B2R w / B2R total <= 1.
    Proof.
      intros Hw. destruct (total_spec prec emax Hprec Hmax raw Hraw Ftot Ntot) as (TP & TB). fold total in TP, TB.
      pose proof Hraw as Hraw'. rewrite Forall_forall in Hraw'.
      destruct (fin_nonneg_R prec emax Hprec Hmax w (Hraw' w Hw)) as (Fw & H0).
      destruct (Bdiv_unit_R prec emax Hprec Hmax w total Fw (conj H0 (TB w Hw)) TP) as (Fd & Rd).
      split; [exact Fw|]. split; [exact H0|]. split; [exact Fd|]. split; [exact Rd|]. split.
      - apply Rmult_le_pos; [exact H0|left; apply Rinv_0_lt_compat; exact TP].
      - apply Rmult_le_reg_r with (B2R total); [exact TP|]. unfold Rdiv.
        rewrite Rmult_assoc, Rinv_l by lra. pose proof (TB w Hw). lra.
    Qed.

    Lemma clamped_unit : Forall unitR cl.
    Proof.
      destruct minw_R as (Fm & M0 & M1).
      apply Forall_forall. intros c Hc. apply in_map_iff in Hc. destruct Hc as (w & <- & Hw).
      destruct (div_raw w Hw) as (Fw & H0 & Fd & Rd & Q0 & Q1).
      unfold clamp. destruct (eqb KB w (zero KB)) eqn:Z.
      - split; [exact Fw|]. rewrite (skip_zero_ok prec emax Hprec Hmax w Fw Z). lra.
      - destruct (fmax_cases prec emax Hprec Hmax (div KB w total) minw) as [-> | ->].
        + split; [exact Fd|]. rewrite Rd. split.
          * rewrite <- (rnd_0 prec emax). apply (rnd_le prec emax Hprec). exact Q0.
          * rewrite <- (rnd_1 prec emax Hprec Hmax). apply (rnd_le prec emax Hprec). exact Q1.
        + split; [exact Fm|]. split; assumption.
    Qed.

    Hypothesis Hn : INR (length raw) * u <= /8.

    Lemma length_lt_2p : (Z.of_nat (length raw) < 2 ^ prec)%Z.
    Proof.
      apply lt_IZR. rewrite <- INR_IZR_INZ. rewrite (IZR_Zpower radix2) by lia.
      pose proof (bpow_gt_0 radix2 prec) as BP.
      assert (E : u * bpow radix2 prec = 1).
      { unfold Lemmas_C14.uB. rewrite <- bpow_plus. replace (- prec + prec)%Z with 0%Z by lia. reflexivity. }
      assert (X : INR (length raw) * u * bpow radix2 prec <= /8 * bpow radix2 prec).
      { apply Rmult_le_compat_r; [lra|exact Hn]. }
      rewrite Rmult_assoc, E in X. lra.
    Qed.

    Lemma new_sum_finite : is_finite (@clamp_sum KB cl) = true.
    Proof.
      rewrite clamp_sum_sfold. apply (sfold_fin_fwd _ cl (zero KB) 0%Z).
      - exact clamped_unit.
      - reflexivity.
      - cbn. lra.
      - lia.
      - unfold cl. rewrite map_length. pose proof length_lt_2p. lia.
    Qed.

    Lemma clamped_nonzero : Exists (fun c : KB => eqb KB c (zero KB) = false) cl.
    Proof.
      destruct (Forall_Exists_dec (fun c : KB => eqb KB c (zero KB) = true)
                  (fun c => bool_dec (eqb KB c (zero KB)) true) cl) as [A|E].
      2:{ apply Exists_exists in E. destruct E as (c & Hc & Nc). apply Exists_exists.
          exists c. split; [exact Hc|]. apply not_true_is_false. exact Nc. }
      exfalso. pose proof (u_pos prec) as UP.
      destruct (total_spec prec emax Hprec Hmax raw Hraw Ftot Ntot) as (TP & TB). fold total in TP, TB.
      destruct minw_R as (Fm & M0 & M1).
      assert (B : forall x, In x (BRs raw) -> x <= u * B2R total).
      { intros x Hx. apply in_map_iff in Hx. destruct Hx as (w & <- & Hw).
        destruct (div_raw w Hw) as (Fw & H0 & Fd & Rd & Q0 & Q1).
        rewrite Forall_forall in A. pose proof (A (clamp total minw w) (in_map _ _ _ Hw)) as Zc.
        unfold clamp in Zc. destruct (eqb KB w (zero KB)) eqn:Z.
        - rewrite (skip_zero_ok prec emax Hprec Hmax w Fw Z). apply Rmult_le_pos; lra.
        - pose proof (fmax_ge (div KB w total) minw Fd Fm) as G.
          assert (Fc : is_finite (@fmax KB (div KB w total) minw) = true).
          { destruct (fmax_cases prec emax Hprec Hmax (div KB w total) minw) as [-> | ->]; assumption. }
          rewrite (skip_zero_ok prec emax Hprec Hmax _ Fc Zc), Rd in G.
          destruct (Rle_or_lt u (B2R w / B2R total)) as [Hu|Hu].
          + pose proof (rnd_ge_u _ Hu). lra.
          + apply Rlt_le. apply Rmult_lt_reg_r with (/ B2R total); [apply Rinv_0_lt_compat; exact TP|].
            rewrite Rmult_assoc, Rinv_r by lra. unfold Rdiv in Hu. lra. }
      pose proof (Rsum_le_const (BRs raw) _ B) as S1. rewrite BRs_length in S1.
      destruct (sfold_zero_spec prec emax Hprec Hmax (fun _ => false) (skip_none_ok prec emax Hprec Hmax)
                  raw Hraw Ftot) as (_ & _ & S2).
      change (sfoldB (fun _ => false) raw (zero KB)) with total in S2.
      apply Rabs_le_inv in S2.
      assert (N1 : INR (length raw - 1) <= INR (length raw)) by (apply le_INR; lia).
      assert (N0 : 0 <= INR (length raw - 1)) by apply pos_INR.
      assert (X1 : INR (length raw) * (u * B2R total) <= /8 * B2R total).
      { rewrite <- Rmult_assoc. apply Rmult_le_compat_r; lra. }
      assert (X2 : INR (length raw - 1) * u * B2R total <= /8 * B2R total).
      { apply Rmult_le_compat_r; [lra|]. apply Rle_trans with (INR (length raw) * u); [|exact Hn].
        apply Rmult_le_compat_r; lra. }
      lra.
    Qed.
  End Raw.

  (** ** C08f_refine_weights_sum: only the finiteness of the raw total is left as a hypothesis
      about an intermediate quantity *)
  Lemma c08f_refine_weights_sum (ws data : list KB) (minw beta : KB) (raw : list KB) :
    raw_weights L ws data beta = Ok raw ->
    Forall fnn raw -> fnn minw -> leb KB minw (one KB) = true ->
    isfinite KB (fold_left (add KB) raw (zero KB)) = true ->
    eqb KB (fold_left (add KB) raw (zero KB)) (zero KB) = false ->
    INR (length ws) * u <= /8 ->
    exists ws', refine_weights L ws data minw beta = Ok ws' /\ length ws' = length ws /\
      Forall uw ws' /\ Rabs (Rsum (BRs ws') - 1) <= (INR (length ws) + 1) * u.
  Proof.
    intros E Hraw Hminw Hminw1 Ftot Ntot Hn.
    assert (Len : length raw = length ws).
    { destruct (raw_weights_inv L ws data beta raw E) as (Hl & ->). apply raw_list_length. exact Hl. }
    rewrite <- Len in Hn.
    pose proof (new_sum_finite raw minw Hraw Hminw Hminw1 Ftot Ntot Hn) as Fns.
    pose proof (clamped_nonzero raw minw Hraw Hminw Hminw1 Ftot Ntot Hn) as Hex.
    pose proof (clamped_fnn prec emax Hprec Hmax raw minw Hraw Hminw Ftot Ntot) as Hcl.
    set (cl := map (clamp (fold_left (add KB) raw (zero KB)) minw) raw) in *.
    assert (Lc : length cl = length raw) by (unfold cl; apply map_length).
    destruct (c08f_normalised_sum prec emax Hprec Hmax cl Hcl Hex Fns ltac:(rewrite Lc; exact Hn)) as (U & S).
    eexists. split; [apply (refine_nonzero L ws data minw beta raw E Ntot)|].
    change (new_sum_of raw minw) with (@clamp_sum KB cl). fold cl.
    split; [rewrite map_length, Lc; exact Len|]. split; [exact U|].
    rewrite <- Len, <- Lc. exact S.
  Qed.
End FloatRefineFull.

(* ------------------------------------------------------------------------------------------- *)
(** * the side condition n u <= 1/8 for at most 2^20 channels, the concrete formats *)
Lemma n_bound_ok (prec : Z) (n : nat) : (23 <= prec)%Z -> (Z.of_nat n <= 1048576)%Z ->
  INR n * Lemmas_C14.uB prec <= /8.
Proof.
  intros Hp Hn. rewrite INR_IZR_INZ. apply IZR_le in Hn.
  assert (U : Lemmas_C14.uB prec <= / 8388608).
  { unfold Lemmas_C14.uB. apply Rle_trans with (bpow radix2 (-23)); [apply bpow_le; lia|].
    right. cbn. unfold Z.pow_pos. cbn. reflexivity. }
  pose proof (u_pos prec) as UP.
  assert (N0 : 0 <= IZR (Z.of_nat n)) by (apply IZR_le; lia).
  apply Rle_trans with (1048576 * Lemmas_C14.uB prec); [apply Rmult_le_compat_r; lra|]. lra.
Qed.

Lemma c08f_normalised_sum_2p20 prec emax (Hprec : FLX.Prec_gt_0 prec) (Hmax : Prec_lt_emax prec emax)
    (cl : list (NumB prec emax Hprec Hmax)) :
  (23 <= prec)%Z -> (Z.of_nat (length cl) <= 1048576)%Z ->
  Forall (fin_nonneg prec emax Hprec Hmax) cl ->
  Exists (fun w => eqb (NumB prec emax Hprec Hmax) w (zero (NumB prec emax Hprec Hmax)) = false) cl ->
  isfinite (NumB prec emax Hprec Hmax) (@clamp_sum (NumB prec emax Hprec Hmax) cl) = true ->
  Forall (unit_weight prec emax Hprec Hmax)
    (map (fun w => div (NumB prec emax Hprec Hmax) w (@clamp_sum (NumB prec emax Hprec Hmax) cl)) cl) /\
  Rabs (Rsum (Lemmas_C09f.BRs prec emax Hprec Hmax
          (map (fun w => div (NumB prec emax Hprec Hmax) w (@clamp_sum (NumB prec emax Hprec Hmax) cl)) cl)) - 1)
    <= (INR (length cl) + 1) * Lemmas_C14.uB prec.
Proof.
  intros Hp Hn Hcl Hex Fns. apply c08f_normalised_sum; try assumption. apply n_bound_ok; assumption.
Qed.

Lemma c08f_normalised_sum_float64 (cl : list B64) :
  (Z.of_nat (length cl) <= 1048576)%Z ->
  Forall (fin_nonneg 53 1024 P53 M53) cl ->
  Exists (fun w => eqb B64 w (zero B64) = false) cl ->
  isfinite B64 (@clamp_sum B64 cl) = true ->
  Forall (unit_weight 53 1024 P53 M53) (map (fun w => div B64 w (@clamp_sum B64 cl)) cl) /\
  Rabs (Rsum (Lemmas_C09f.BRs 53 1024 P53 M53 (map (fun w => div B64 w (@clamp_sum B64 cl)) cl)) - 1)
    <= (INR (length cl) + 1) * / 9007199254740992.
Proof.
  intros Hn Hcl Hex Fns. rewrite <- Lemmas_C14.u53.
  apply (c08f_normalised_sum_2p20 53 1024 P53 M53 cl); try assumption. lia.
Qed.

Lemma c08f_normalised_sum_float32 (cl : list B32) :
  (Z.of_nat (length cl) <= 1048576)%Z ->
  Forall (fin_nonneg 24 128 P24 M24) cl ->
  Exists (fun w => eqb B32 w (zero B32) = false) cl ->
  isfinite B32 (@clamp_sum B32 cl) = true ->
  Forall (unit_weight 24 128 P24 M24) (map (fun w => div B32 w (@clamp_sum B32 cl)) cl) /\
  Rabs (Rsum (Lemmas_C09f.BRs 24 128 P24 M24 (map (fun w => div B32 w (@clamp_sum B32 cl)) cl)) - 1)
    <= (INR (length cl) + 1) * / 16777216.
Proof.
  intros Hn Hcl Hex Fns. rewrite <- Lemmas_C14.u24.
  apply (c08f_normalised_sum_2p20 24 128 P24 M24 cl); try assumption. lia.
Qed.

Lemma c08f_normalised_sum_float80 (cl : list B80) :
  (Z.of_nat (length cl) <= 1048576)%Z ->
  Forall (fin_nonneg 64 16384 P64 M64) cl ->
  Exists (fun w => eqb B80 w (zero B80) = false) cl ->
  isfinite B80 (@clamp_sum B80 cl) = true ->
  Forall (unit_weight 64 16384 P64 M64) (map (fun w => div B80 w (@clamp_sum B80 cl)) cl) /\
  Rabs (Rsum (Lemmas_C09f.BRs 64 16384 P64 M64 (map (fun w => div B80 w (@clamp_sum B80 cl)) cl)) - 1)
    <= (INR (length cl) + 1) * / 18446744073709551616.
Proof.
  intros Hn Hcl Hex Fns. rewrite <- Lemmas_C14.u64.
  apply (c08f_normalised_sum_2p20 64 16384 P64 M64 cl); try assumption. lia.
Qed.

(* ------------------------------------------------------------------------------------------- *)
(** * non-vacuity, double precision, checked through booleans *)
Definition fnn_b (w : B64) : bool := isfinite B64 w && negb (ltb B64 w (zero B64)).

Lemma fnn_b_ok (w : B64) : fnn_b w = true -> fin_nonneg 53 1024 P53 M53 w.
Proof.
  unfold fnn_b. intros H. apply andb_prop in H. destruct H as (A & B). split; [exact A|].
  apply negb_true_iff in B. exact B.
Qed.

Lemma forallb_fnn (l : list B64) : forallb fnn_b l = true -> Forall (fin_nonneg 53 1024 P53 M53) l.
Proof.
  intros H. apply Forall_forall. intros w Hw. rewrite forallb_forall in H. apply fnn_b_ok. apply H. exact Hw.
Qed.

(* a clamped vector: a zero (disabled channel), 1, 3, fl(1/3) *)
Definition ex08f_cl : list B64 := [zero B64; one B64; ofN B64 3; div B64 (one B64) (ofN B64 3)].

Definition ex08f_check : bool :=
  forallb fnn_b ex08f_cl && existsb (fun w => negb (eqb B64 w (zero B64))) ex08f_cl &&
  isfinite B64 (@clamp_sum B64 ex08f_cl).

Lemma ex08f_check_true : ex08f_check = true.
Proof. vm_compute. reflexivity. Qed.

Lemma c08f_example :
  Forall (fin_nonneg 53 1024 P53 M53) ex08f_cl /\
  Exists (fun w => eqb B64 w (zero B64) = false) ex08f_cl /\
  isfinite B64 (@clamp_sum B64 ex08f_cl) = true /\
  INR (length ex08f_cl) * Lemmas_C14.uB 53 <= /8.
Proof.
  pose proof ex08f_check_true as H. unfold ex08f_check in H.
  apply andb_prop in H. destruct H as (H & H3). apply andb_prop in H. destruct H as (H1 & H2).
  split; [apply forallb_fnn; exact H1|]. split.
  - apply existsb_exists in H2. destruct H2 as (w & Hw & Nz). apply Exists_exists. exists w.
    split; [exact Hw|]. apply negb_true_iff in Nz. exact Nz.
  - split; [exact H3|]. apply n_bound_ok; [lia|]. cbn [length ex08f_cl]. lia.
Qed.

(* the whole refinement: the weights, adjustment data and minimum weight of C08_example_float *)
Definition ex08f_raw : list B64 := raw_list ex08_L ex08_ws ex08_data (one B64).

Definition ex08f_refine_check : bool :=
  forallb fnn_b ex08f_raw && fnn_b ex08_minw &&
  isfinite B64 (fold_left (add B64) ex08f_raw (zero B64)) &&
  negb (eqb B64 (fold_left (add B64) ex08f_raw (zero B64)) (zero B64)) &&
  isfinite B64 (new_sum_of ex08f_raw ex08_minw) &&
  negb (eqb B64 (new_sum_of ex08f_raw ex08_minw) (zero B64)).

Lemma ex08f_refine_check_true : ex08f_refine_check = true.
Proof. vm_compute. reflexivity. Qed.

Lemma c08f_example_refine :
  raw_weights ex08_L ex08_ws ex08_data (one B64) = Ok ex08f_raw /\
  Forall (fin_nonneg 53 1024 P53 M53) ex08f_raw /\ fin_nonneg 53 1024 P53 M53 ex08_minw /\
  isfinite B64 (fold_left (add B64) ex08f_raw (zero B64)) = true /\
  eqb B64 (fold_left (add B64) ex08f_raw (zero B64)) (zero B64) = false /\
  isfinite B64 (new_sum_of ex08f_raw ex08_minw) = true /\
  eqb B64 (new_sum_of ex08f_raw ex08_minw) (zero B64) = false /\
  INR (length ex08_ws) * Lemmas_C14.uB 53 <= /8.
Proof.
  pose proof ex08f_refine_check_true as H. unfold ex08f_refine_check in H.
  apply andb_prop in H. destruct H as (H & H6). apply andb_prop in H. destruct H as (H & H5).
  apply andb_prop in H. destruct H as (H & H4). apply andb_prop in H. destruct H as (H & H3).
  apply andb_prop in H. destruct H as (H1 & H2).
  split; [apply raw_weights_ok; cbn [length ex08_ws ex08_data]; lia|].
  split; [apply forallb_fnn; exact H1|]. split; [apply fnn_b_ok; exact H2|].
  split; [exact H3|]. split; [exact (proj1 (negb_true_iff _) H4)|].
  split; [exact H5|]. split; [exact (proj1 (negb_true_iff _) H6)|].
  apply n_bound_ok; [lia|]. cbn [length ex08_ws]. lia.
Qed.

Lemma ex08f_minw_le_one : leb B64 ex08_minw (one B64) = true.
Proof. vm_compute. reflexivity. Qed.

Lemma p2_53' : (2 <= 53)%Z. Proof. lia. Qed.
