(** * Accum: accumulator.hpp and projector.hpp (both accumulator specialisations: the one without
    distributions is the instance with an empty parameter list).  No proofs in this file. *)
From Coq Require Import ZArith NArith List.
From HepMC Require Import Num Translated Result.
Import ListNotations.

Section Accum.
  Context {K : Num}.

  Record cell := mk_cell { c_sum : K; c_sumsq : K; c_comp : K; c_nz : N; c_fin : N }.
  Definition cell0 : cell := mk_cell (zero K) (zero K) (zero K) 0 0.

  (* accumulate(...); ++non_zero_calls; ++finite_calls *)
  Definition cell_add (c : cell) (v : K) : cell :=
    let '(s, ss, cp) := accumulate K (c_sum c) (c_sumsq c) (c_comp c) v in
    mk_cell s ss cp (c_nz c + 1) (c_fin c + 1).
  Definition cell_nonfinite (c : cell) : cell :=
    mk_cell (c_sum c) (c_sumsq c) (c_comp c) (c_nz c + 1) (c_fin c).

  Record accst := mk_accst { a_main : cell; a_dists : list (list cell) }.

  Definition acc_init (ps : list (dparams K)) : accst :=
    mk_accst cell0 (map (fun p => repeat cell0 (N.to_nat (d_bx p * d_by p))) ps).

  (** what the integrand hands to the projector: (distribution index, x, [y], value) *)
  Inductive fill := Fill1 (idx : N) (x v : K) | Fill2 (idx : N) (x y v : K).

  Definition upd_bin (ds : list (list cell)) (idx bin : N) (v : K) : res (list (list cell)) :=
    do d <- getN 11 ds idx;
    do c <- getN 12 d bin;
    Ok (setN ds idx (setN d bin (cell_add c v))).

  (* the float -> size_t conversion of a bin position; [None] of [trunc] is undefined behaviour *)
  Definition to_index (code : nat) (x : K) : res N :=
    match trunc K x with Some n => Ok n | None => UB code end.

  (** add_to_1d_distribution(index, x, value) where [v] is already value * weight *)
  Definition fill1d (ps : list (dparams K)) (ds : list (list cell)) (idx : N) (x v : K)
    : res (list (list cell)) :=
    if negb (isfinite K v) then Ok ds else
    do p <- getN 10 ps idx;                                    (* parameters_.at(index) throws *)
    let sx := sub K x (d_xmin p) in
    if ltb K sx (zero K) then Ok ds else
    let px := div K sx (d_bsx p) in
    if negb (ltb K px (ofN K (d_bx p))) then Ok ds else
    do bx <- to_index 13 px;
    upd_bin ds idx bx v.

  Definition fill2d (ps : list (dparams K)) (ds : list (list cell)) (idx : N) (x y v : K)
    : res (list (list cell)) :=
    if negb (isfinite K v) then Ok ds else
    do p <- getN 10 ps idx;
    let sx := sub K x (d_xmin p) in
    if ltb K sx (zero K) then Ok ds else
    let sy := sub K y (d_ymin p) in
    if ltb K sy (zero K) then Ok ds else
    let px := div K sx (d_bsx p) in
    if negb (ltb K px (ofN K (d_bx p))) then Ok ds else
    do bx <- to_index 13 px;
    let py := div K sy (d_bsy p) in
    if negb (ltb K py (ofN K (d_by p))) then Ok ds else
    do by_ <- to_index 14 py;
    upd_bin ds idx (by_ * d_bx p + bx) v.

  (* projector<T>::add multiplies by the point weight first *)
  Definition do_fill (ps : list (dparams K)) (w : K) (ds : list (list cell)) (f : fill)
    : res (list (list cell)) :=
    match f with
    | Fill1 idx x v => fill1d ps ds idx x (mul K v w)
    | Fill2 idx x y v => fill2d ps ds idx x y (mul K v w)
    end.

  Fixpoint do_fills (ps : list (dparams K)) (w : K) (ds : list (list cell)) (fs : list fill)
    : res (list (list cell)) :=
    match fs with
    | [] => Ok ds
    | f :: fs' => do ds' <- do_fill ps w ds f; do_fills ps w ds' fs'
    end.

  (** accumulator::invoke after the integrand returned [fval]; [w] = point.weight().
      Returns the new main cell and the sanitised value handed back to the integrator. *)
  Definition invoke_main (a : cell) (fval w : K) : cell * K :=
    if neqb fval (zero K) then
      let v := mul K fval w in
      if isfinite K v then (cell_add a v, v)
      else (cell_nonfinite a, zero K)
    else (a, fval).

  Definition cell_result (calls : N) (c : cell) : mcres K :=
    mk_mcres calls (c_nz c) (c_fin c) (c_sum c) (c_sumsq c).

  Definition dist_result (calls : N) (p : dparams K) (cells : list cell) : dres K :=
    let inv := div K (div K (one K) (d_bsx p)) (d_bsy p) in
    mk_dres p (map (fun c => mk_mcres calls (c_nz c) (c_fin c)
                               (mul K inv (c_sum c)) (mul K (mul K inv inv) (c_sumsq c))) cells).

  Fixpoint dist_results (calls : N) (ps : list (dparams K)) (ds : list (list cell)) : list (dres K) :=
    match ps, ds with
    | p :: ps', d :: ds' => dist_result calls p d :: dist_results calls ps' ds'
    | _, _ => []
    end.

  Definition acc_result (ps : list (dparams K)) (a : accst) (calls : N) : plainres K :=
    mk_plainres (cell_result calls (a_main a)) (dist_results calls ps (a_dists a)).
End Accum.
Arguments cell K : clear implicits.
Arguments accst K : clear implicits.
Arguments fill K : clear implicits.
