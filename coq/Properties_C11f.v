(** C11f - the floating-point placement clause of property C11: "a value is added to exactly the bin whose
    half-open interval contains the coordinate ...; a coordinate within one rounding error of an edge may go
    to either adjacent bin".   Statements only (all definitions and proofs in Lemmas_C11f.v).

    Everything is about the model's own [fill1d] (Accum.v, from projector.hpp / accumulator.hpp)
    instantiated with K := NumB prec emax, Flocq's IEEE-754 binary format, for EVERY format with prec >= 2
    (in particular float, double, x87 long double), round to nearest even.  [fill1d] computes
        sx = x - xmin;  if (sx < 0) return;   px = sx / bin_size;  if (!(px < T(bins))) return;
        bin = size_t(px)
    with two roundings.  Notation below: u = 2^-prec (the unit roundoff), and the exact real position
        P = (x - xmin) / bin_size          ([axis_pos xmin bs x], computed from the real values [B2R]),
    so that over the reals the coordinate lies in bin k iff k <= P < k + 1.

    Definitions (Lemmas_C11f.v)
    - [axis_bin xmin bs bx x : res (option N)] - the computation above for one axis, for every [Num]:
      [Ok None] = rejected, [Ok (Some k)] = bin k, [UB 13] = float -> size_t undefined.
    - [axis_ok xmin bs bx], in the model's own operations: isfinite xmin, isfinite bs, ltb zero bs = true
      (finite positive bin size), and bx < 2^prec (the bin count is converted exactly).
    - [axis_pos xmin bs x] = (B2R x - B2R xmin) / B2R bs.

    What is proved
    - [C11f_fill1d_axis] (every Num): for an existing distribution and a finite value,
      fill1d = do t <- axis_bin ...; (None => unchanged | Some k => upd_bin ds idx k v).
    - [C11f_axis_bin_bounds] (forward): if bin k is selected for a finite coordinate then k < bins, neither
      x - xmin nor the quotient overflowed, and
            0 <= P     and     k (1 - u)^2  <=  P  <  (k + 1)(1 + u):
      the coordinate is in bin k or within the relative rounding error of its edges (at most 2u relative
      below the left edge - one rounding of the subtraction, one of the division - and u relative above the
      right edge: since k + 1 is representable, px < k + 1 implies sx / bin_size < k + 1 exactly, so only the
      subtraction contributes there).  No underflow term is needed: a rounded difference of two floats has
      a relative error even in the subnormal range, and the division is compared with integers >= 1 only.
    - [C11f_axis_bin_interior] (converse): if x - xmin does not overflow, k < bins <= 2^64 and
            k (1 + u)  <=  P  <=  (k + 1)(1 - 2u)
      then bin k is selected (in particular no UB).  So only positions in the zones
      ( j (1 - 2u) , j (1 + u) ) around an edge j >= 1 are not decided by this theorem.
    - [C11f_axis_bin_adjacent]: for at most 2^(prec-1) bins, if bin k is selected then k - 1 < P < k + 2,
      i.e. the exact position lies in bin k or in one of its two neighbours ("either adjacent bin").
    - [C11f_axis_bin_rejected]: if the coordinate is rejected and x - xmin did not overflow then
      P < 0  or  P >= bins (1 - u)^2  (this covers an overflowing quotient).
    - [C11f_fill1d_placement]: the three facts for [fill1d] itself: a fill that returns [Ok ds'] either left
      the store unchanged (rejected, with the characterisation above) or is [upd_bin ds idx k v] for a k
      with the bounds above.
    - [C11f_fill1d_interior]: for P in the interior range of bin k, [fill1d ps ds idx x v] is exactly
      [upd_bin ds idx k v].

    What is NOT proved / restrictions
    - The bounds are relative (k (1 - u)^2 etc.), as asked; they are not claimed to be optimal.  A coordinate
      exactly on an edge j >= 1 (P = j) is inside the ambiguous zone and may go to bin j - 1 or j.
    - If x - xmin overflows (to +infinity) the coordinate is rejected although P may lie inside the range when
      the bin size is huge as well; this case is excluded by the hypothesis
      [isfinite (sub x xmin) = true] in the converse and rejection theorems (in the forward theorem it is a
      conclusion).  A negative overflow gives P < 0 in fact, but that is not proved.
    - bins >= 2^prec (T(bins) rounded), prec = 1, non-finite x / xmin / bin size, non-positive bin size: nothing
      is claimed.  Only the 1-d fill is treated; [fill2d] performs the same per-axis computation twice but is
      not restated here.  Absence of UB in general is Properties_C11.v (C11_fill1d_no_ub_float). *)
From Coq Require Import ZArith NArith List Reals.
From Flocq Require Import Core BinarySingleNaN.
From HepMC Require Import Num NumB NumR Translated Result Accum Lemmas_C11f.
Import ListNotations.
Local Open Scope R_scope.

(* fill1d is the one-axis computation followed by the update of the selected cell (every Num) *)
Theorem C11f_fill1d_axis :
  forall (K : Num) (ps : list (dparams K)) (ds : list (list (cell K))) (idx : N) (x v : K) (p : dparams K),
    nthN ps idx = Some p -> isfinite K v = true ->
    fill1d ps ds idx x v =
    bind (axis_bin (d_xmin p) (d_bsx p) (d_bx p) x)
         (fun t => match t with None => Ok ds | Some k => upd_bin ds idx k v end).
Proof. exact (@c11f_fill1d_axis). Qed.
Print Assumptions C11f_fill1d_axis.

(* (1) forward: the selected bin contains the coordinate up to two relative rounding errors *)
Theorem C11f_axis_bin_bounds :
  forall (prec emax : Z) (Hprec : FLX.Prec_gt_0 prec) (Hmax : Prec_lt_emax prec emax),
    (2 <= prec)%Z ->
    forall (xmin bs x : NumB prec emax Hprec Hmax) (bx k : N),
      let K := NumB prec emax Hprec Hmax in
      let u := bpow radix2 (- prec) in
      axis_ok prec emax Hprec Hmax xmin bs bx -> isfinite K x = true ->
      axis_bin xmin bs bx x = Ok (Some k) ->
      (k < bx)%N /\ isfinite K (sub K x xmin) = true /\ isfinite K (div K (sub K x xmin) bs) = true /\
      0 <= axis_pos prec emax xmin bs x /\
      IZR (Z.of_N k) * (1 - u) * (1 - u) <= axis_pos prec emax xmin bs x < (IZR (Z.of_N k) + 1) * (1 + u).
Proof. exact c11f_axis_bin_bounds. Qed.
Print Assumptions C11f_axis_bin_bounds.

(* in plain words: the exact position lies in the selected bin or in one of its two neighbours *)
Theorem C11f_axis_bin_adjacent :
  forall (prec emax : Z) (Hprec : FLX.Prec_gt_0 prec) (Hmax : Prec_lt_emax prec emax),
    (2 <= prec)%Z ->
    forall (xmin bs x : NumB prec emax Hprec Hmax) (bx k : N),
      let K := NumB prec emax Hprec Hmax in
      axis_ok prec emax Hprec Hmax xmin bs bx -> (Z.of_N bx <= 2 ^ (prec - 1))%Z -> isfinite K x = true ->
      axis_bin xmin bs bx x = Ok (Some k) ->
      IZR (Z.of_N k) - 1 < axis_pos prec emax xmin bs x < IZR (Z.of_N k) + 2.
Proof. exact c11f_axis_bin_adjacent. Qed.
Print Assumptions C11f_axis_bin_adjacent.

(* (2) converse: away from the edges by the rounding error the bin is determined *)
Theorem C11f_axis_bin_interior :
  forall (prec emax : Z) (Hprec : FLX.Prec_gt_0 prec) (Hmax : Prec_lt_emax prec emax),
    (2 <= prec)%Z ->
    forall (xmin bs x : NumB prec emax Hprec Hmax) (bx k : N),
      let K := NumB prec emax Hprec Hmax in
      let u := bpow radix2 (- prec) in
      axis_ok prec emax Hprec Hmax xmin bs bx -> (bx <= two64)%N -> isfinite K x = true ->
      isfinite K (sub K x xmin) = true -> (k < bx)%N ->
      IZR (Z.of_N k) * (1 + u) <= axis_pos prec emax xmin bs x <= (IZR (Z.of_N k) + 1) * (1 - 2 * u) ->
      axis_bin xmin bs bx x = Ok (Some k).
Proof. exact c11f_axis_bin_interior. Qed.
Print Assumptions C11f_axis_bin_interior.

(* (3) a rejected coordinate is outside the range up to the rounding error *)
Theorem C11f_axis_bin_rejected :
  forall (prec emax : Z) (Hprec : FLX.Prec_gt_0 prec) (Hmax : Prec_lt_emax prec emax),
    (2 <= prec)%Z ->
    forall (xmin bs x : NumB prec emax Hprec Hmax) (bx : N),
      let K := NumB prec emax Hprec Hmax in
      let u := bpow radix2 (- prec) in
      axis_ok prec emax Hprec Hmax xmin bs bx -> isfinite K x = true -> isfinite K (sub K x xmin) = true ->
      axis_bin xmin bs bx x = Ok None ->
      axis_pos prec emax xmin bs x < 0 \/
      IZR (Z.of_N bx) * (1 - u) * (1 - u) <= axis_pos prec emax xmin bs x.
Proof. exact c11f_axis_bin_rejected. Qed.
Print Assumptions C11f_axis_bin_rejected.

(* the same for fill1d itself *)
Theorem C11f_fill1d_placement :
  forall (prec emax : Z) (Hprec : FLX.Prec_gt_0 prec) (Hmax : Prec_lt_emax prec emax),
    (2 <= prec)%Z ->
    forall (ps : list (dparams (NumB prec emax Hprec Hmax))) (ds : list (list (cell (NumB prec emax Hprec Hmax))))
           (idx : N) (x v : NumB prec emax Hprec Hmax) (p : dparams (NumB prec emax Hprec Hmax)),
      let K := NumB prec emax Hprec Hmax in
      let u := bpow radix2 (- prec) in
      let P := axis_pos prec emax (d_xmin p) (d_bsx p) x in
      nthN ps idx = Some p -> isfinite K v = true ->
      axis_ok prec emax Hprec Hmax (d_xmin p) (d_bsx p) (d_bx p) -> isfinite K x = true ->
      forall ds', fill1d ps ds idx x v = Ok ds' ->
        (ds' = ds /\ axis_bin (d_xmin p) (d_bsx p) (d_bx p) x = Ok None /\
         (isfinite K (sub K x (d_xmin p)) = true ->
          P < 0 \/ IZR (Z.of_N (d_bx p)) * (1 - u) * (1 - u) <= P)) \/
        (exists k, (k < d_bx p)%N /\ axis_bin (d_xmin p) (d_bsx p) (d_bx p) x = Ok (Some k) /\
           upd_bin ds idx k v = Ok ds' /\
           0 <= P /\ IZR (Z.of_N k) * (1 - u) * (1 - u) <= P < (IZR (Z.of_N k) + 1) * (1 + u)).
Proof. exact c11f_fill1d_placement. Qed.
Print Assumptions C11f_fill1d_placement.

Theorem C11f_fill1d_interior :
  forall (prec emax : Z) (Hprec : FLX.Prec_gt_0 prec) (Hmax : Prec_lt_emax prec emax),
    (2 <= prec)%Z ->
    forall (ps : list (dparams (NumB prec emax Hprec Hmax))) (ds : list (list (cell (NumB prec emax Hprec Hmax))))
           (idx : N) (x v : NumB prec emax Hprec Hmax) (p : dparams (NumB prec emax Hprec Hmax)) (k : N),
      let K := NumB prec emax Hprec Hmax in
      let u := bpow radix2 (- prec) in
      let P := axis_pos prec emax (d_xmin p) (d_bsx p) x in
      nthN ps idx = Some p -> isfinite K v = true ->
      axis_ok prec emax Hprec Hmax (d_xmin p) (d_bsx p) (d_bx p) -> (d_bx p <= two64)%N -> isfinite K x = true ->
      isfinite K (sub K x (d_xmin p)) = true -> (k < d_bx p)%N ->
      IZR (Z.of_N k) * (1 + u) <= P <= (IZR (Z.of_N k) + 1) * (1 - 2 * u) ->
      fill1d ps ds idx x v = upd_bin ds idx k v.
Proof. exact c11f_fill1d_interior. Qed.
Print Assumptions C11f_fill1d_interior.

(** Non-vacuity (double).  [ex11f_p]: range [0,16) in 4 bins of size 4.0.  All float values are computed
    inside boolean checks; the real positions come from the exactness of [ofN] on small integers. *)

(* x = 9.0 satisfies every hypothesis of the converse theorems with k = 2 (P = 2.25), hence each finite
   value is added to bin 2; x = 8.0, exactly on the edge 2 (P = 2), is computed to go to bin 2 (consistent
   with the forward bounds 2 (1 - u)^2 <= 2 < 3 (1 + u)); x = 16.0, the right end (P = 4 = bins), is
   rejected without overflow (consistent with the rejection theorem) *)
Example C11f_ex_fill :
  axis_ok 53 1024 P53 M53 (d_xmin ex11f_p) (d_bsx ex11f_p) (d_bx ex11f_p) /\ (d_bx ex11f_p <= two64)%N /\
  isfinite B64 (ofN B64 9) = true /\ isfinite B64 (sub B64 (ofN B64 9) (d_xmin ex11f_p)) = true /\
  (2 < d_bx ex11f_p)%N /\
  axis_pos 53 1024 (d_xmin ex11f_p) (d_bsx ex11f_p) (ofN B64 9) = 9 / 4 /\
  IZR (Z.of_N 2) * (1 + bpow radix2 (- 53)) <= 9 / 4 <= (IZR (Z.of_N 2) + 1) * (1 - 2 * bpow radix2 (- 53)) /\
  (forall ds (v : B64), isfinite B64 v = true ->
     @fill1d B64 [ex11f_p] ds 0 (ofN B64 9) v = upd_bin ds 0 2 v) /\
  axis_bin (d_xmin ex11f_p) (d_bsx ex11f_p) (d_bx ex11f_p) (ofN B64 9) = Ok (Some 2%N) /\
  axis_bin (d_xmin ex11f_p) (d_bsx ex11f_p) (d_bx ex11f_p) (ofN B64 8) = Ok (Some 2%N) /\
  axis_bin (d_xmin ex11f_p) (d_bsx ex11f_p) (d_bx ex11f_p) (ofN B64 16) = Ok None /\
  isfinite B64 (sub B64 (ofN B64 16) (d_xmin ex11f_p)) = true /\
  axis_pos 53 1024 (d_xmin ex11f_p) (d_bsx ex11f_p) (ofN B64 16) = 16 / 4.
Proof. exact ex11f_fill. Qed.
