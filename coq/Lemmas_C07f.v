(** Lemmas for C07f: the floating-point counterpart of "the reported bin index is below the bin count"
    (property C07) for the model's [icdf1] instantiated with Flocq's IEEE-754 binary formats [NumB].
    All proofs; the statements are repeated in Properties_C07f.v. *)
From Coq Require Import ZArith NArith List Reals Lra Lia Bool.
From Flocq Require Import Core BinarySingleNaN.
From HepMC Require Import Num NumR NumB Result VegasPdf Lemmas_C09.
Import ListNotations.
Local Open Scope R_scope.

Section Float.
  Variables prec emax : Z.
  Context (Hprec : FLX.Prec_gt_0 prec) (Hmax : Prec_lt_emax prec emax).
  Hypothesis Hprec2 : (2 <= prec)%Z.
  Notation KB := (NumB prec emax Hprec Hmax).
  Notation F := (binary_float prec emax).
  Notation fexp := (SpecFloat.fexp prec emax).
  Notation rnd := (round radix2 fexp (round_mode mode_NE)).
  Notation format := (generic_format radix2 fexp).

  Local Instance vexp07 : Valid_exp fexp := fexp_correct prec emax Hprec.

  Lemma emax_ge_3 : (3 <= emax)%Z.
  Proof. unfold Prec_lt_emax in Hmax. lia. Qed.

  Lemma fexp_eq e : (3 - emax <= e)%Z -> fexp e = (e - prec)%Z.
  Proof. intros H. unfold SpecFloat.fexp, SpecFloat.emin. lia. Qed.

  (** ** integers below 2^prec are representable; [ofN] is exact on them *)
  Lemma IZR_lt_bpow_prec z : (Z.abs z < 2 ^ prec)%Z -> Rabs (IZR z) < bpow radix2 prec.
  Proof.
    intros H. rewrite <- abs_IZR. rewrite <- (IZR_Zpower radix2 prec) by lia. apply IZR_lt. exact H.
  Qed.

  Lemma format_IZR z : (Z.abs z < 2 ^ prec)%Z -> format (IZR z).
  Proof.
    intros H. apply (generic_format_FLT radix2 (SpecFloat.emin prec emax) prec).
    apply (FLT_spec radix2 (SpecFloat.emin prec emax) prec (IZR z) (Float radix2 z 0)).
    - unfold F2R. cbn. ring.
    - exact H.
    - cbn. unfold SpecFloat.emin. pose proof emax_ge_3. lia.
  Qed.

  Lemma bpow_prec_lt_emax : bpow radix2 prec < bpow radix2 emax.
  Proof. apply bpow_lt. exact Hmax. Qed.

  Lemma ofN_B (n : N) : (Z.of_N n < 2 ^ prec)%Z ->
    is_finite (ofN KB n) = true /\ B2R (ofN KB n) = IZR (Z.of_N n).
  Proof.
    intros Hn. change (ofN KB n) with (BofZ prec emax Hprec Hmax (Z.of_N n)). unfold BofZ.
    assert (Ha : (Z.abs (Z.of_N n) < 2 ^ prec)%Z) by lia.
    pose proof (binary_normalize_correct prec emax Hprec Hmax mode_NE (Z.of_N n) 0 false) as C.
    cbv zeta in C.
    assert (E : F2R (Float radix2 (Z.of_N n) 0) = IZR (Z.of_N n)) by (unfold F2R; cbn; ring).
    rewrite E in C. rewrite (round_generic radix2 fexp _ _ (format_IZR _ Ha)) in C.
    rewrite Rlt_bool_true in C.
    - destruct C as (C1 & C2 & _). split; assumption.
    - pose proof (IZR_lt_bpow_prec _ Ha). pose proof bpow_prec_lt_emax. lra.
  Qed.

  (** ** the neighbours below 1 and below a number >= 1 *)
  Lemma pred_1 : pred radix2 fexp 1 = 1 - bpow radix2 (- prec).
  Proof.
    change 1 with (bpow radix2 0) at 1. rewrite pred_bpow. rewrite fexp_eq by (pose proof emax_ge_3; lia).
    cbn [bpow]. replace (0 - prec)%Z with (- prec)%Z by lia. reflexivity.
  Qed.

  (* the gap below x is smaller than 2 x 2^-prec *)
  Lemma pred_gap x : 1 <= x -> x - pred radix2 fexp x < 2 * x * bpow radix2 (- prec).
  Proof.
    intros Hx. rewrite pred_eq_pos by lra. unfold pred_pos.
    destruct (mag radix2 x) as (e & He). cbn [mag_val].
    assert (Hx0 : x <> 0) by lra. specialize (He Hx0). rewrite Rabs_pos_eq in He by lra.
    assert (He0 : (0 < e)%Z).
    { apply (lt_bpow radix2). cbn [bpow]. lra. }
    pose proof emax_ge_3 as E3.
    assert (B2 : bpow radix2 (e - prec) = 2 * bpow radix2 (e - 1) * bpow radix2 (- prec)).
    { replace (e - prec)%Z with (1 + (e - 1) + - prec)%Z by lia. rewrite !bpow_plus. cbn. lra. }
    pose proof (bpow_gt_0 radix2 (- prec)) as Pp.
    destruct (Req_bool_spec x (bpow radix2 (e - 1))) as [Hp|Hp].
    - rewrite fexp_eq by lia.
      replace (x - (x - bpow radix2 (e - 1 - prec))) with (bpow radix2 (e - 1 - prec)) by ring.
      replace (e - 1 - prec)%Z with ((e - 1) + - prec)%Z by lia. rewrite bpow_plus, <- Hp. nra.
    - rewrite ulp_neq_0 by exact Hx0. unfold cexp.
      rewrite (mag_unique radix2 x e) by (rewrite Rabs_pos_eq by lra; exact He).
      rewrite fexp_eq by lia. replace (x - (x - bpow radix2 (e - prec))) with (bpow radix2 (e - prec)) by ring.
      rewrite B2. assert (bpow radix2 (e - 1) < x) by lra. nra.
  Qed.

  (** ** the central fact: the rounded product of a format number below 1 with a format number n >= 1
      stays strictly below n *)
  Lemma rnd_mul_below (U n : R) : format U -> 0 <= U < 1 -> format n -> 1 <= n ->
    0 <= rnd (U * n) <= pred radix2 fexp n /\ pred radix2 fexp n < n.
  Proof.
    intros FU HU Fn Hn.
    assert (P1 : U <= 1 - bpow radix2 (- prec)).
    { rewrite <- pred_1. apply pred_ge_gt; [exact vexp07|exact FU|exact (generic_1 prec emax Hprec Hmax)|lra]. }
    pose proof (pred_gap n Hn) as G.
    split; [split|apply pred_lt_id; lra].
    - rewrite <- (rnd_0 prec emax). apply (rnd_le prec emax Hprec). nra.
    - cbn [round_mode]. apply round_N_le_midp.
      + exact vexp07.
      + apply generic_format_pred; [exact vexp07|exact Fn].
      + rewrite succ_pred by (try exact vexp07; exact Fn).
        pose proof (bpow_gt_0 radix2 (- prec)) as Pp. nra.
  Qed.

  (** ** the model's comparisons on finite values *)
  Lemma Bleb_R (x y : F) : is_finite x = true -> is_finite y = true -> Bleb x y = true -> B2R x <= B2R y.
  Proof.
    intros Fx Fy H. rewrite Bleb_correct in H by assumption.
    destruct (Rle_bool_spec (B2R x) (B2R y)); [assumption|discriminate].
  Qed.
  Lemma Bleb_R' (x y : F) : is_finite x = true -> is_finite y = true -> B2R x <= B2R y -> Bleb x y = true.
  Proof. intros Fx Fy H. rewrite Bleb_correct by assumption. apply Rle_bool_true. exact H. Qed.
  Lemma Bltb_R1 (x y : F) : is_finite x = true -> is_finite y = true -> Bltb x y = true -> B2R x < B2R y.
  Proof. intros Fx Fy H. rewrite (Bltb_R prec emax) in H by assumption. apply Rltb_true. exact H. Qed.
  Lemma Bltb_R1' (x y : F) : is_finite x = true -> is_finite y = true -> B2R x < B2R y -> Bltb x y = true.
  Proof. intros Fx Fy H. rewrite (Bltb_R prec emax) by assumption. apply Rltb_true. exact H. Qed.

  (** hypotheses on a canonical random number, in the model's own operations *)
  Definition unit_open (u : KB) : Prop :=          (* finite, 0 <= u < 1  (both zeros allowed) *)
    isfinite KB u = true /\ leb KB (zero KB) u = true /\ ltb KB u (one KB) = true.
  Definition unit_closed (u : KB) : Prop :=        (* finite, 0 <= u <= 1 *)
    isfinite KB u = true /\ leb KB (zero KB) u = true /\ leb KB u (one KB) = true.

  Lemma unit_open_R (u : KB) : unit_open u -> is_finite u = true /\ 0 <= B2R u < 1.
  Proof.
    intros (Fu & H0 & H1). destruct (Bone_R prec emax Hprec Hmax) as (F1 & E1).
    split; [exact Fu|]. split.
    - apply (Bleb_R (B754_zero false) u eq_refl Fu H0).
    - rewrite <- E1. apply (Bltb_R1 u _ Fu F1 H1).
  Qed.

  (** float -> size_t of a finite value in [0, 2^64) is defined and is the floor *)
  Lemma Btrunc_N_floor (x : F) (n : Z) : is_finite x = true -> 0 <= B2R x < IZR n -> (n <= 2 ^ 64)%Z ->
    Btrunc_N prec emax x = Some (Z.to_N (Zfloor (B2R x))) /\ (0 <= Zfloor (B2R x) < n)%Z.
  Proof.
    intros Fx Hx Hn.
    assert (E : Btrunc x = Zfloor (B2R x)).
    { apply eq_IZR. rewrite Btrunc_correct by exact Hmax. rewrite round_FIX_IZR. f_equal. apply Ztrunc_floor. lra. }
    assert (R : (0 <= Zfloor (B2R x) < n)%Z).
    { split.
      - apply Zfloor_lub. cbn. lra.
      - apply lt_IZR. apply Rle_lt_trans with (B2R x); [apply Zfloor_lb|lra]. }
    split; [|exact R].
    assert (U : Btrunc_N prec emax x =
                let z := Btrunc x in
                if (z <? 0)%Z then None else if (z <? 2 ^ 64)%Z then Some (Z.to_N z) else None).
    { destruct x; try discriminate Fx; reflexivity. }
    rewrite U. cbv zeta. rewrite E.
    destruct (Z.ltb_spec (Zfloor (B2R x)) 0) as [A|A]; [lia|].
    destruct (Z.ltb_spec (Zfloor (B2R x)) (2 ^ 64)) as [B|B]; [reflexivity|lia].
  Qed.

  (** ** (1) the index computed from a number in [0,1) is below the bin count *)
  Lemma c07f_index_lt_bins (bins : N) (u : KB) :
    (1 <= bins)%N -> (Z.of_N bins < 2 ^ prec)%Z -> (bins < 2 ^ 64)%N -> unit_open u ->
    exists i, trunc KB (mul KB u (ofN KB bins)) = Some i /\ (i < bins)%N /\
      isfinite KB (mul KB u (ofN KB bins)) = true /\
      Z.of_N i = Zfloor (rnd (B2R u * IZR (Z.of_N bins))).
  Proof.
    intros B1 Bp B64 Hu. apply unit_open_R in Hu. destruct Hu as (Fu & Hu).
    destruct (ofN_B bins Bp) as (Fn & Rn).
    set (n := Z.of_N bins) in *.
    assert (Hn1 : 1 <= IZR n) by (apply IZR_le; lia).
    assert (Fmt_n : format (IZR n)) by (apply format_IZR; lia).
    destruct (rnd_mul_below (B2R u) (IZR n) (generic_format_B2R prec emax u) Hu Fmt_n Hn1) as ((L0 & L1) & L2).
    change (mul KB u (ofN KB bins)) with (Bmult mode_NE u (ofN KB bins)).
    pose proof (Bmult_correct prec emax Hprec Hmax mode_NE u (ofN KB bins)) as C.
    rewrite Rn in C. rewrite Rlt_bool_true in C.
    2:{ rewrite Rabs_pos_eq by exact L0.
        pose proof (IZR_lt_bpow_prec n ltac:(lia)) as X. rewrite Rabs_pos_eq in X by lra.
        pose proof bpow_prec_lt_emax. lra. }
    destruct C as (C1 & C2 & _). rewrite Fu, Fn in C2. cbn [andb] in C2.
    destruct (Btrunc_N_floor (Bmult mode_NE u (ofN KB bins)) n C2) as (T & R).
    { rewrite C1. lra. }
    { assert (X : (Z.of_N bins < Z.of_N (2 ^ 64))%Z) by lia. rewrite N2Z.inj_pow in X. cbn in X |- *. lia. }
    exists (Z.to_N (Zfloor (B2R (Bmult mode_NE u (ofN KB bins))))).
    split; [exact T|]. split; [lia|]. split; [exact C2|]. rewrite <- C1. lia.
  Qed.

  (** ** (2) the guard for u == 1 *)
  Lemma pred_one_open : unit_open (pred_one KB).
  Proof.
    destruct (canonical_ok_pred_one prec emax Hprec Hmax) as (Fp & H0 & H1).
    split; [exact Fp|]. split; [|exact H1].
    change (Bleb (B754_zero false) (pred_one KB) = true).
    apply Bleb_R'; [reflexivity|exact Fp|].
    change (Bltb (pred_one KB) (B754_zero false) = false) in H0.
    rewrite (Bltb_R prec emax) in H0 by (try exact Fp; reflexivity). apply Rltb_false in H0. exact H0.
  Qed.

  Lemma c07f_guard_one (u : KB) : unit_closed u ->
    (eqb KB u (one KB) = true -> (if eqb KB u (one KB) then pred_one KB else u) = pred_one KB) /\
    unit_open (pred_one KB) /\
    unit_open (if eqb KB u (one KB) then pred_one KB else u).
  Proof.
    intros (Fu & H0 & H1). split; [intros ->; reflexivity|]. split; [exact pred_one_open|].
    destruct (eqb KB u (one KB)) eqn:E; [exact pred_one_open|].
    split; [exact Fu|]. split; [exact H0|].
    destruct (Bone_R prec emax Hprec Hmax) as (F1 & E1).
    change (Bltb u (Bone' prec emax Hprec Hmax) = true). apply Bltb_R1'; [exact Fu|exact F1|].
    change (Beqb u (Bone' prec emax Hprec Hmax) = false) in E.
    rewrite Beqb_correct in E by assumption.
    pose proof (Bleb_R u _ Fu F1 H1) as X.
    destruct (Req_bool_spec (B2R u) (B2R (Bone' prec emax Hprec Hmax))) as [Y|Y]; [discriminate E|]. lra.
  Qed.

  (** ** (3) one dimension of the inverse CDF: defined, index in range *)
  Lemma getN_Some {A} code (l : list A) (i : N) : (N.to_nat i < length l)%nat -> exists a, getN code l i = Ok a.
  Proof.
    intros H. unfold getN, nthN. destruct (nth_error l (N.to_nat i)) as [a|] eqn:E.
    - exists a. reflexivity.
    - apply nth_error_None in E. lia.
  Qed.

  Lemma c07f_icdf1_index_in_range (p : pdf KB) (d : N) (u : KB) :
    (1 <= pdf_bins p)%N -> (Z.of_N (pdf_bins p) < 2 ^ prec)%Z -> (pdf_bins p < 2 ^ 64)%N ->
    (d < pdf_dims p)%N -> (N.to_nat (pdf_dims p * (pdf_bins p + 1)) <= length (pdf_x p))%nat ->
    unit_closed u ->
    exists x b w lft rgt,
      icdf1 p d u = Ok (x, b, w) /\ (b < pdf_bins p)%N /\
      let u' := if eqb KB u (one KB) then pred_one KB else u in
      let position := mul KB u' (ofN KB (pdf_bins p)) in
      trunc KB position = Some b /\
      bin_left p d b = Ok lft /\ bin_left p d (b + 1) = Ok rgt /\
      x = add KB lft (mul KB (sub KB position (ofN KB b)) (sub KB rgt lft)) /\
      w = mul KB (sub KB rgt lft) (ofN KB (pdf_bins p)).
  Proof.
    intros B1 Bp B64 Hd Hl Hu.
    destruct (c07f_guard_one u Hu) as (_ & _ & Hu').
    destruct (c07f_index_lt_bins (pdf_bins p) _ B1 Bp B64 Hu') as (i & T & Hi & _).
    assert (Hidx : (N.to_nat (d * (pdf_bins p + 1) + (i + 1)) < length (pdf_x p))%nat) by nia.
    destruct (getN_Some 20%nat (pdf_x p) (d * (pdf_bins p + 1) + i) ltac:(lia)) as (lft & El).
    destruct (getN_Some 20%nat (pdf_x p) (d * (pdf_bins p + 1) + (i + 1)) Hidx) as (rgt & Er).
    eexists _, i, _, lft, rgt. cbv zeta.
    split; [|split; [exact Hi|split; [exact T|split; [exact El|split; [exact Er|split; reflexivity]]]]].
    unfold icdf1. cbv zeta. rewrite T. unfold bin_left. rewrite El, Er. cbn [bind]. reflexivity.
  Qed.
End Float.

(* ------------------------------------------------------------------------------------------- *)
(** * all dimensions *)
Section Loop.
  Variables prec emax : Z.
  Context (Hprec : FLX.Prec_gt_0 prec) (Hmax : Prec_lt_emax prec emax).
  Hypothesis Hprec2 : (2 <= prec)%Z.
  Notation KB := (NumB prec emax Hprec Hmax).

  Lemma icdf_loop_in_range (p : pdf KB) :
    (1 <= pdf_bins p)%N -> (Z.of_N (pdf_bins p) < 2 ^ prec)%Z -> (pdf_bins p < 2 ^ 64)%N ->
    (N.to_nat (pdf_dims p * (pdf_bins p + 1)) <= length (pdf_x p))%nat ->
    forall (us : list KB) (d : N) (w : KB),
      (N.to_nat d + length us <= N.to_nat (pdf_dims p))%nat ->
      Forall (unit_closed prec emax Hprec Hmax) us ->
      exists xs bs w', icdf_loop p d us w = Ok (xs, bs, w') /\
        length xs = length us /\ length bs = length us /\
        Forall (fun b => (b < pdf_bins p)%N) bs.
  Proof.
    intros B1 Bp B64 Hl. induction us as [|u us IH]; intros d w Hd Hus.
    - exists [], [], w. cbn. repeat split; constructor.
    - inversion Hus as [|u0 us0 Hu Hus']; subst. cbn [length] in Hd.
      destruct (c07f_icdf1_index_in_range prec emax Hprec Hmax Hprec2 p d u B1 Bp B64 ltac:(lia) Hl Hu)
        as (x & b & f & lft & rgt & E & Hb & _).
      destruct (IH (d + 1)%N (mul KB w f) ltac:(lia) Hus') as (xs & bs & w' & E' & L1 & L2 & Fb).
      exists (x :: xs), (b :: bs), w'. cbn [icdf_loop]. rewrite E. cbn [bind]. rewrite E'. cbn [bind length].
      repeat split; try (f_equal; assumption). constructor; assumption.
  Qed.

  Lemma c07f_icdf_indices_in_range (p : pdf KB) (us : list KB) :
    (1 <= pdf_bins p)%N -> (Z.of_N (pdf_bins p) < 2 ^ prec)%Z -> (pdf_bins p < 2 ^ 64)%N ->
    (N.to_nat (pdf_dims p * (pdf_bins p + 1)) <= length (pdf_x p))%nat ->
    (length us <= N.to_nat (pdf_dims p))%nat ->
    Forall (unit_closed prec emax Hprec Hmax) us ->
    exists xs bs w, icdf p us = Ok (xs, bs, w) /\
      length xs = length us /\ length bs = length us /\
      Forall (fun b => (b < pdf_bins p)%N) bs.
  Proof.
    intros B1 Bp B64 Hl Hn Hus. unfold icdf.
    apply (icdf_loop_in_range p B1 Bp B64 Hl us 0%N (one KB)); [lia|exact Hus].
  Qed.
End Loop.

(* ------------------------------------------------------------------------------------------- *)
(** * the three formats of the library *)
Lemma c07f_index_lt_bins_formats :
  (forall (bins : N) (u : B32), (1 <= bins < 2 ^ 24)%N -> unit_open 24 128 P24 M24 u ->
     exists i, trunc B32 (mul B32 u (ofN B32 bins)) = Some i /\ (i < bins)%N) /\
  (forall (bins : N) (u : B64), (1 <= bins < 2 ^ 53)%N -> unit_open 53 1024 P53 M53 u ->
     exists i, trunc B64 (mul B64 u (ofN B64 bins)) = Some i /\ (i < bins)%N) /\
  (forall (bins : N) (u : B80), (1 <= bins < 2 ^ 64)%N -> unit_open 64 16384 P64 M64 u ->
     exists i, trunc B80 (mul B80 u (ofN B80 bins)) = Some i /\ (i < bins)%N).
Proof.
  split; [|split]; intros bins u Hb Hu.
  - destruct (c07f_index_lt_bins 24 128 P24 M24 ltac:(lia) bins u) as (i & T & Hi & _);
      [lia| |apply N.lt_trans with (2 ^ 24)%N; [lia|reflexivity]|exact Hu|exists i; split; assumption].
    change (2 ^ 24)%Z with (Z.of_N (2 ^ 24)). lia.
  - destruct (c07f_index_lt_bins 53 1024 P53 M53 ltac:(lia) bins u) as (i & T & Hi & _);
      [lia| |apply N.lt_trans with (2 ^ 53)%N; [lia|reflexivity]|exact Hu|exists i; split; assumption].
    change (2 ^ 53)%Z with (Z.of_N (2 ^ 53)). lia.
  - destruct (c07f_index_lt_bins 64 16384 P64 M64 ltac:(lia) bins u) as (i & T & Hi & _);
      [lia| |lia|exact Hu|exists i; split; assumption].
    change (2 ^ 64)%Z with (Z.of_N (2 ^ 64)). lia.
Qed.

(* ------------------------------------------------------------------------------------------- *)
(** * examples, computed through the wire representation inside boolean checks *)
Definition outrep_eqb (a b : outrep) : bool :=
  match a, b with
  | ONan, ONan => true
  | OInf s1, OInf s2 => Bool.eqb s1 s2
  | OZero s1, OZero s2 => Bool.eqb s1 s2
  | OFin s1 m1 e1, OFin s2 m2 e2 => Bool.eqb s1 s2 && Pos.eqb m1 m2 && Z.eqb e1 e2
  | _, _ => false
  end.
Lemma outrep_eqb_eq a b : outrep_eqb a b = true -> a = b.
Proof.
  destruct a, b; cbn; try discriminate; try reflexivity.
  - intros H. apply Bool.eqb_prop in H. congruence.
  - intros H. apply Bool.eqb_prop in H. congruence.
  - intros H. apply andb_prop in H. destruct H as (H & H3). apply andb_prop in H. destruct H as (H1 & H2).
    apply Bool.eqb_prop in H1. apply Pos.eqb_eq in H2. apply Z.eqb_eq in H3. congruence.
Qed.

Definition idx_is (K : Num) (bins i : N) : bool :=
  match trunc K (mul K (pred_one K) (ofN K bins)) with Some j => N.eqb j i | None => false end.
Lemma idx_is_eq K bins i : idx_is K bins i = true -> trunc K (mul K (pred_one K) (ofN K bins)) = Some i.
Proof.
  unfold idx_is. destruct (trunc K (mul K (pred_one K) (ofN K bins))) as [j|]; [|discriminate].
  intros H. apply N.eqb_eq in H. congruence.
Qed.

(** both extreme values a generator may deliver, 0 and (for float) exactly 1, are admissible *)
Lemma unit_closed_zero_one prec emax Hprec Hmax :
  unit_closed prec emax Hprec Hmax (zero (NumB prec emax Hprec Hmax)) /\
  unit_closed prec emax Hprec Hmax (one (NumB prec emax Hprec Hmax)).
Proof.
  destruct (Bone_R prec emax Hprec Hmax) as (F1 & E1).
  assert (L01 : Bleb (B754_zero false) (Bone' prec emax Hprec Hmax) = true).
  { apply (Bleb_R' prec emax); [reflexivity|exact F1|]. rewrite E1. cbn. lra. }
  split; (split; [|split]).
  - reflexivity.
  - reflexivity.
  - exact L01.
  - exact F1.
  - exact L01.
  - change (Bleb (Bone' prec emax Hprec Hmax) (Bone' prec emax Hprec Hmax) = true).
    apply (Bleb_R' prec emax); [exact F1|exact F1|lra].
Qed.

Definition ex07f_check : bool :=
  idx_is B32 3 2 && idx_is B32 50 49 && idx_is B32 128 127 && idx_is B32 16777215 16777214 &&
  outrep_eqb (Bout 24 128 (mul B32 (pred_one B32) (ofN B32 3))) (OFin false 12582911 (-22)) &&
  outrep_eqb (Bout 24 128 (mul B32 (pred_one B32) (ofN B32 50))) (OFin false 13107199 (-18)) &&
  outrep_eqb (Bout 24 128 (mul B32 (pred_one B32) (ofN B32 128))) (OFin false 16777215 (-17)) &&
  idx_is B64 3 2 && idx_is B64 50 49 && idx_is B64 128 127 && idx_is B64 9007199254740991 9007199254740990 &&
  idx_is B80 3 2 && idx_is B80 50 49 && idx_is B80 128 127 &&
  idx_is B80 18446744073709551615 18446744073709551614.
Lemma ex07f_check_true : ex07f_check = true.
Proof. vm_compute. reflexivity. Qed.

Ltac split_andb H :=
  repeat match type of H with
         | (_ && _)%bool = true => let H' := fresh "Hc" in apply andb_prop in H; destruct H as (H & H')
         end.

Lemma ex07f_index_B32 :
  unit_open 24 128 P24 M24 (pred_one B32) /\
  trunc B32 (mul B32 (pred_one B32) (ofN B32 3)) = Some 2%N /\
  trunc B32 (mul B32 (pred_one B32) (ofN B32 50)) = Some 49%N /\
  trunc B32 (mul B32 (pred_one B32) (ofN B32 128)) = Some 127%N /\
  trunc B32 (mul B32 (pred_one B32) (ofN B32 16777215)) = Some 16777214%N /\
  Bout 24 128 (mul B32 (pred_one B32) (ofN B32 3)) = OFin false 12582911 (-22) /\
  Bout 24 128 (mul B32 (pred_one B32) (ofN B32 50)) = OFin false 13107199 (-18) /\
  Bout 24 128 (mul B32 (pred_one B32) (ofN B32 128)) = OFin false 16777215 (-17).
Proof.
  pose proof ex07f_check_true as H. unfold ex07f_check in H. split_andb H.
  split; [exact (pred_one_open 24 128 P24 M24)|].
  repeat split; (apply idx_is_eq; assumption) || (apply outrep_eqb_eq; assumption).
Qed.

Lemma ex07f_index_B64_B80 :
  trunc B64 (mul B64 (pred_one B64) (ofN B64 3)) = Some 2%N /\
  trunc B64 (mul B64 (pred_one B64) (ofN B64 50)) = Some 49%N /\
  trunc B64 (mul B64 (pred_one B64) (ofN B64 128)) = Some 127%N /\
  trunc B64 (mul B64 (pred_one B64) (ofN B64 9007199254740991)) = Some 9007199254740990%N /\
  trunc B80 (mul B80 (pred_one B80) (ofN B80 3)) = Some 2%N /\
  trunc B80 (mul B80 (pred_one B80) (ofN B80 50)) = Some 49%N /\
  trunc B80 (mul B80 (pred_one B80) (ofN B80 128)) = Some 127%N /\
  trunc B80 (mul B80 (pred_one B80) (ofN B80 18446744073709551615)) = Some 18446744073709551614%N.
Proof.
  pose proof ex07f_check_true as H. unfold ex07f_check in H. split_andb H.
  repeat split; apply idx_is_eq; assumption.
Qed.

(** the grid the library starts from, two dimensions with three bins, float; u = 1 and u = 0 *)
Definition ex07f_p : pdf B32 := @uniform_pdf B32 2 3.
Definition ex07f_icdf_check : bool :=
  N.eqb (pdf_bins ex07f_p) 3 && N.eqb (pdf_dims ex07f_p) 2 && Nat.eqb (length (pdf_x ex07f_p)) 8 &&
  match icdf1 ex07f_p 1 (one B32) with
  | Ok (x, b, w) => N.eqb b 2 && outrep_eqb (Bout 24 128 x) (OFin false 16777214 (-24)) &&
                    outrep_eqb (Bout 24 128 w) (OFin false 16777215 (-24))
  | UB _ => false
  end &&
  match icdf ex07f_p [one B32; zero B32] with
  | Ok (xs, bs, w) => match bs with [b0; b1] => N.eqb b0 2 && N.eqb b1 0 | _ => false end
  | UB _ => false
  end.
Lemma ex07f_icdf_check_true : ex07f_icdf_check = true.
Proof. vm_compute. reflexivity. Qed.

Lemma ex07f_icdf :
  (1 <= pdf_bins ex07f_p)%N /\ (Z.of_N (pdf_bins ex07f_p) < 2 ^ 24)%Z /\ (pdf_bins ex07f_p < 2 ^ 64)%N /\
  (1 < pdf_dims ex07f_p)%N /\
  (N.to_nat (pdf_dims ex07f_p * (pdf_bins ex07f_p + 1)) <= length (pdf_x ex07f_p))%nat /\
  unit_closed 24 128 P24 M24 (one B32) /\ unit_closed 24 128 P24 M24 (zero B32) /\
  (exists x w, icdf1 ex07f_p 1 (one B32) = Ok (x, 2%N, w) /\
     Bout 24 128 x = OFin false 16777214 (-24) /\ Bout 24 128 w = OFin false 16777215 (-24)) /\
  (exists xs w, icdf ex07f_p [one B32; zero B32] = Ok (xs, [2%N; 0%N], w)).
Proof.
  pose proof ex07f_icdf_check_true as H. unfold ex07f_icdf_check in H. split_andb H.
  apply N.eqb_eq in H. apply N.eqb_eq in Hc2. apply Nat.eqb_eq in Hc1.
  rewrite H, Hc2, Hc1.
  split; [lia|]. split; [reflexivity|]. split; [reflexivity|]. split; [lia|]. split; [cbn; lia|].
  split; [apply unit_closed_zero_one|]. split; [apply unit_closed_zero_one|]. split.
  - destruct (icdf1 ex07f_p 1 (one B32)) as [[[x b] w]|]; [|discriminate Hc0].
    split_andb Hc0. apply N.eqb_eq in Hc0. subst b. exists x, w.
    split; [reflexivity|]. split; apply outrep_eqb_eq; assumption.
  - destruct (icdf ex07f_p [one B32; zero B32]) as [[[xs bs] w]|]; [|discriminate Hc].
    destruct bs as [|b0 [|b1 [|b2 bs]]]; try discriminate Hc.
    split_andb Hc. apply N.eqb_eq in Hc. apply N.eqb_eq in Hc3. subst. exists xs, w. reflexivity.
Qed.
