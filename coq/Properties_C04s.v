(** C04s - supplement to C04: over the reals (K := NumR) the MPI drivers of Mpi.v compute EXACTLY what the serial
    integrators compute, for every world size 1 <= world < 2^31 and every permutation [perm] of the ranks as
    summation order of MPI_Allreduce.  Statements only (proofs in Lemmas_C04s.v).

    What is proved
    - C04s_step_additive: every call step of the three integrators is additive over the reals: from a state whose
      accumulators (main cell, every distribution bin, adjustment data) are [A + t] it behaves exactly as from [t]
      (same definedness, same UB code) and ends in [A + t'] ([sim], [step_sim] are defined in Lemmas_C04s.v).
    - C04s_iteration_plain / C04s_iteration_equals_serial_vegas / C04s_iteration_equals_serial_mc: one [mpi_iteration]
      from agreeing rank states against the serial iteration from the same generator (and the same grid /
      weights): if the serial iteration returns [rser] then EVERY rank adds exactly [rser] - the whole result
      record: main result, every bin of every distribution, the grid / weights it was sampled with AND the
      adjustment data - with the serial generator, all ranks take the decision [cb 0 c'] and (if they go on)
      hold the refinement of the shared grid / weights by [rser]'s adjustment data; the iteration of all ranks is
      undefined only if that (common) refinement is.  If the serial iteration is undefined, so is the MPI one.
      C04s_iteration_equals_serial_plain is the form "both defined => agree".
    - C04s_run_equals_serial_plain / _vegas / _mc: by induction over the calls list, for a callback whose decision
      does not depend on the rank and equals the serial callback's: if the serial run is undefined so is the MPI
      run; if the serial run returns checkpoint c' then every rank of the MPI run returns exactly c' - with ONE
      exception that is stated, not hidden: the MPI drivers refine the grid / weights once more than the serial
      drivers (after the last performed iteration when its callback said "continue", or before the first
      iteration when the calls list is empty; the serial drivers compute [vchk_pdf] / [mchk_weights] only at the
      start of an iteration).  If exactly that spare refinement is undefined ([vchk_pdf L c' = UB code],
      [mchk_weights L c' = UB code]) the MPI run is [UB code] although the serial run returned c'.  For PLAIN there
      is no refinement and the statement is a plain equivalence.

    Hypotheses
    - [ignores_counter f]: the integrand's answer does not depend on the number of calls its (per-rank) copy has
      received; [map_ignores_counter mp]: the same for the multi-channel map (both coordinates and densities).
      Without them the statement is false in the model (each rank owns a copy with its own counter).
    - [world_ok world], [Permutation perm (iotaN 0 world)], calls < 2^64, [cb_rank_independent] /
      [forall r c, cbm r c = cbs c], all ranks start from the same checkpoint, generator, grid / weights ([agree]).
    - [L : Libm NumR] is arbitrary (the theorems hold for every libm, in particular [LibmR]).

    What is NOT proved
    - nothing about floating point (NumB): there the sums differ by reassociation;
    - the integrand call counters [rs_idx] and the event logs of the ranks are not compared with the serial ones
      (C04_points_* does that for the events);
    - equality of the UB codes when the serial run is undefined (only "both undefined"). *)
From Coq Require Import ZArith NArith List Bool Permutation Reals.
From HepMC Require Import Num NumR Translated Result Accum VegasPdf Discrete MultiChannel Iter Chkpt Callback Run Mpi
  Lemmas_Run Lemmas_C16 Lemmas_C10 Lemmas_C04 Lemmas_C19 Lemmas_C04s.
Import ListNotations.

(* additivity of the call steps over the reals *)
Theorem C04s_step_additive : forall (strm : N -> NumR) ps (f : integrand NumR), ignores_counter f ->
  (forall d sh, step_sim (plain_step strm ps f d) (N.of_nat d) sh 0) /\
  (forall p sh al, step_sim (vegas_step strm ps f p) (pdf_dims p) sh al) /\
  (forall mp, map_ignores_counter mp -> forall d ws cum en sh al, step_sim (mc_step strm ps f mp d ws cum en) (N.of_nat d + 1) sh al).
Proof. exact (fun strm ps f Hf => conj (plain_step_sim strm ps f Hf) (conj (vegas_step_sim strm ps f Hf) (fun mp Hmp => mc_step_sim strm ps f Hf mp Hmp))). Qed.
Print Assumptions C04s_step_additive.

(* PLAIN with arbitrary distributions: serial defined => all ranks defined and add the serial result; serial
   undefined => MPI undefined *)
Theorem C04s_iteration_plain : forall (strm : N -> NumR) ps (f : integrand NumR), ignores_counter f ->
  forall world perm, world_ok world -> Permutation perm (iotaN 0 (N.to_nat world)) ->
  forall d cb calls sts (c : pchk NumR) g i0,
  cb_rank_independent cb -> (calls < 2 ^ 64)%N -> length sts = N.to_nat world -> agree c g tt sts ->
  match plain_iteration strm ps f d calls g i0 with
  | Ok (rser, gser, _, _) =>
      gser = (g + N.of_nat d * calls)%N /\
      exists sts' logs,
        mpi_iteration (pchk NumR) unit (plainres NumR) world perm sub_calls_plain (N.of_nat d)
          (plain_li strm ps f d) (fun r => r) (fun _ => []) (fun _ pl _ => pl) base_add cb noref calls sts
          = Ok (sts', logs, cb 0%N (base_add c rser gser)) /\
        agree (base_add c rser gser) gser tt sts' /\ length sts' = N.to_nat world /\ length logs = N.to_nat world
  | UB _ => exists code,
      mpi_iteration (pchk NumR) unit (plainres NumR) world perm sub_calls_plain (N.of_nat d)
        (plain_li strm ps f d) (fun r => r) (fun _ => []) (fun _ pl _ => pl) base_add cb noref calls sts = UB code
  end.
Proof. exact c04s_plain_iteration. Qed.
Print Assumptions C04s_iteration_plain.

Theorem C04s_iteration_equals_serial_plain : forall (strm : N -> NumR) ps (f : integrand NumR), ignores_counter f ->
  forall world perm, world_ok world -> Permutation perm (iotaN 0 (N.to_nat world)) ->
  forall d cb calls sts (c : pchk NumR) g sts' logs go i0 rser gser idxser evser,
  cb_rank_independent cb -> (calls < 2 ^ 64)%N -> length sts = N.to_nat world -> agree c g tt sts ->
  mpi_iteration (pchk NumR) unit (plainres NumR) world perm sub_calls_plain (N.of_nat d)
    (plain_li strm ps f d) (fun r => r) (fun _ => []) (fun _ pl _ => pl) base_add cb noref calls sts = Ok (sts', logs, go) ->
  plain_iteration strm ps f d calls g i0 = Ok (rser, gser, idxser, evser) ->
  agree (base_add c rser gser) gser tt sts' /\ go = cb 0%N (base_add c rser gser).
Proof. exact c04s_plain_equals. Qed.
Print Assumptions C04s_iteration_equals_serial_plain.

(* VEGAS with a shared grid p: [rser] is the whole vegas result (main, distributions, grid, per-bin sums of squares) *)
Theorem C04s_iteration_equals_serial_vegas : forall (L : Libm NumR) (strm : N -> NumR) ps (f : integrand NumR), ignores_counter f ->
  forall world perm, world_ok world -> Permutation perm (iotaN 0 (N.to_nat world)) ->
  forall cb calls sts (c : vchk NumR) g p i0,
  cb_rank_independent cb -> (calls < 2 ^ 64)%N -> length sts = N.to_nat world -> agree c g p sts ->
  match vegas_iteration strm ps f p calls g i0 with
  | Ok (rser, gser, _, _) =>
      gser = (g + pdf_dims p * calls)%N /\
      let c' := vchk_add c rser gser in
      let go := cb 0%N c' in
      match (if go then refine_pdf L p (vc_alpha c') (v_adj rser) else Ok p) with
      | Ok p' => exists sts' logs,
          mpi_iteration (vchk NumR) (pdf NumR) (vegasres NumR) world perm sub_calls_vegas (pdf_dims p)
            (vegas_li strm ps f) (@v_plain NumR) (@v_adj NumR) (fun p pl ex => mk_vegasres pl p ex) vchk_add cb (vegas_ref L) calls sts
            = Ok (sts', logs, go) /\
          agree c' gser p' sts' /\ length sts' = N.to_nat world /\ length logs = N.to_nat world
      | UB code =>
          mpi_iteration (vchk NumR) (pdf NumR) (vegasres NumR) world perm sub_calls_vegas (pdf_dims p)
            (vegas_li strm ps f) (@v_plain NumR) (@v_adj NumR) (fun p pl ex => mk_vegasres pl p ex) vchk_add cb (vegas_ref L) calls sts
            = UB code
      end
  | UB _ => exists code,
      mpi_iteration (vchk NumR) (pdf NumR) (vegasres NumR) world perm sub_calls_vegas (pdf_dims p)
        (vegas_li strm ps f) (@v_plain NumR) (@v_adj NumR) (fun p pl ex => mk_vegasres pl p ex) vchk_add cb (vegas_ref L) calls sts
        = UB code
  end.
Proof. exact c04s_vegas_iteration. Qed.
Print Assumptions C04s_iteration_equals_serial_vegas.

(* multi-channel with shared weights ws: [rser] is the whole result (main, distributions, per-channel sums, weights) *)
Theorem C04s_iteration_equals_serial_mc : forall (L : Libm NumR) (strm : N -> NumR) ps (f : integrand NumR), ignores_counter f ->
  forall world perm, world_ok world -> Permutation perm (iotaN 0 (N.to_nat world)) ->
  forall mp, map_ignores_counter mp ->
  forall d cb calls sts (c : mchk NumR) g (ws : list NumR) i0,
  cb_rank_independent cb -> (calls < 2 ^ 64)%N -> length sts = N.to_nat world -> agree c g ws sts ->
  match mc_iteration strm ps f mp d ws calls g i0 with
  | Ok (rser, gser, _, _) =>
      gser = (g + (N.of_nat d + 1) * calls)%N /\
      let c' := mchk_add c rser gser in
      let go := cb 0%N c' in
      match (if go then refine_weights L ws (m_adj rser) (mc_minw c') (mc_beta c') else Ok ws) with
      | Ok ws' => exists sts' logs,
          mpi_iteration (mchk NumR) (list NumR) (mcres_mc NumR) world perm sub_calls_multi_channel (N.of_nat d + 1)
            (mc_li strm ps f mp d) (@m_plain NumR) (@m_adj NumR) (fun ws pl ex => mk_mcres_mc pl ex ws) mchk_add cb (mc_ref L) calls sts
            = Ok (sts', logs, go) /\
          agree c' gser ws' sts' /\ length sts' = N.to_nat world /\ length logs = N.to_nat world
      | UB code =>
          mpi_iteration (mchk NumR) (list NumR) (mcres_mc NumR) world perm sub_calls_multi_channel (N.of_nat d + 1)
            (mc_li strm ps f mp d) (@m_plain NumR) (@m_adj NumR) (fun ws pl ex => mk_mcres_mc pl ex ws) mchk_add cb (mc_ref L) calls sts
            = UB code
      end
  | UB _ => exists code,
      mpi_iteration (mchk NumR) (list NumR) (mcres_mc NumR) world perm sub_calls_multi_channel (N.of_nat d + 1)
        (mc_li strm ps f mp d) (@m_plain NumR) (@m_adj NumR) (fun ws pl ex => mk_mcres_mc pl ex ws) mchk_add cb (mc_ref L) calls sts
        = UB code
  end.
Proof. exact c04s_mc_iteration. Qed.
Print Assumptions C04s_iteration_equals_serial_mc.

(* whole runs *)
Theorem C04s_run_equals_serial_plain : forall (strm : N -> NumR) ps (f : integrand NumR), ignores_counter f ->
  forall world perm, world_ok world -> Permutation perm (iotaN 0 (N.to_nat world)) ->
  forall d cbm cbs cs (c : pchk NumR) idx idxs,
  (forall r c, cbm r c = cbs c) -> Forall (fun calls => (calls < 2 ^ 64)%N) cs ->
  match plain_run strm ps f d cbs cs c idxs with
  | Ok (c', _, _) =>
      exists sts' logs, mpi_plain_run strm ps f world perm d cbm cs c idx = Ok (sts', logs) /\
        length sts' = N.to_nat world /\ Forall (fun st => rs_chk st = c') sts'
  | UB _ => exists code, mpi_plain_run strm ps f world perm d cbm cs c idx = UB code
  end.
Proof. exact c04s_plain_run. Qed.
Print Assumptions C04s_run_equals_serial_plain.

Theorem C04s_run_equals_serial_vegas : forall (L : Libm NumR) (strm : N -> NumR) ps (f : integrand NumR), ignores_counter f ->
  forall world perm, world_ok world -> Permutation perm (iotaN 0 (N.to_nat world)) ->
  forall d cbm cbs cs (c : vchk NumR) idx idxs,
  (forall r c, cbm r c = cbs c) -> Forall (fun calls => (calls < 2 ^ 64)%N) cs ->
  match vegas_run L strm ps f d cbs cs c idxs with
  | Ok (c', _, _) =>
      match mpi_vegas_run L strm ps f world perm d cbm cs c idx with
      | Ok (sts', _) => length sts' = N.to_nat world /\ Forall (fun st => rs_chk st = c') sts'
      | UB code => vchk_pdf L c' = UB code      (* the spare refinement the serial driver never computes *)
      end
  | UB _ => exists code, mpi_vegas_run L strm ps f world perm d cbm cs c idx = UB code
  end.
Proof. exact c04s_vegas_run. Qed.
Print Assumptions C04s_run_equals_serial_vegas.

Theorem C04s_run_equals_serial_mc : forall (L : Libm NumR) (strm : N -> NumR) ps (f : integrand NumR), ignores_counter f ->
  forall world perm, world_ok world -> Permutation perm (iotaN 0 (N.to_nat world)) ->
  forall mp, map_ignores_counter mp ->
  forall d channels cbm cbs cs (c : mchk NumR) idx idxs,
  (forall r c, cbm r c = cbs c) -> Forall (fun calls => (calls < 2 ^ 64)%N) cs ->
  match mc_run L strm ps f mp d channels cbs cs c idxs with
  | Ok (c', _, _) =>
      match mpi_mc_run L strm ps f world perm mp d channels cbm cs c idx with
      | Ok (sts', _) => length sts' = N.to_nat world /\ Forall (fun st => rs_chk st = c') sts'
      | UB code => mchk_weights L c' = UB code  (* the spare refinement the serial driver never computes *)
      end
  | UB _ => exists code, mpi_mc_run L strm ps f world perm mp d channels cbm cs c idx = UB code
  end.
Proof. exact c04s_mc_run. Qed.
Print Assumptions C04s_run_equals_serial_mc.

(* non-vacuity: two ranks, reduction order 1,0, three calls, one distribution: the hypotheses hold, both sides
   are defined, every rank ends with the serial checkpoint *)
Example C04s_example :
  world_ok 2 /\ Permutation [1; 0]%N (iotaN 0 (N.to_nat 2)) /\ ignores_counter ex04_fR /\
  exists rser gser idxser evser sts' logs,
    plain_iteration ex04s_strm ex04s_ps ex04_fR 1 3 0 7 = Ok (rser, gser, idxser, evser) /\
    mpi_iteration (pchk NumR) unit (plainres NumR) 2 [1; 0]%N sub_calls_plain (N.of_nat 1)
      (plain_li ex04s_strm ex04s_ps ex04_fR 1) (fun r => r) (fun _ => []) (fun _ pl _ => pl) base_add (fun _ _ => true) noref
      3 (ranks 2 (mk_rank_state (base_init 0) 0%N tt 5%N)) = Ok (sts', logs, true) /\
    agree (base_add (base_init 0) rser gser) gser tt sts' /\ length sts' = 2%nat.
Proof. exact c04s_example. Qed.

(* a channel map that ignores its call counter *)
Example C04s_example_map : map_ignores_counter ex04s_mp.
Proof. exact ex04s_mp_ok. Qed.
