(** * VegasPdf: vegas_pdf.hpp after the repairs (grid, inverse CDF, refinement).  No proofs in this file. *)
From Coq Require Import ZArith NArith List.
From HepMC Require Import Num Result.
Import ListNotations.

Section VegasPdf.
  Context {K : Num}.

  Fixpoint iotaN (start : N) (n : nat) : list N :=
    match n with O => [] | S n' => start :: iotaN (start + 1) n' end.

  (* vegas_pdf(dimensions, bins): x[i] = T(i) / T(bins), copied to every dimension *)
  Definition uniform_pdf (dims bins : N) : pdf K :=
    let row := map (fun i => div K (ofN K i) (ofN K bins)) (iotaN 0 (S (N.to_nat bins))) in
    mk_pdf bins dims (concat (repeat row (N.to_nat dims))).

  Definition bin_left (p : pdf K) (d b : N) : res K := getN 20 (pdf_x p) (d * (pdf_bins p + 1) + b).

  (** one dimension of vegas_icdf: returns (coordinate, bin index, weight factor) *)
  Definition icdf1 (p : pdf K) (d : N) (u : K) : res (K * N * K) :=
    let bins := pdf_bins p in
    let u' := if eqb K u (one K) then pred_one K else u in
    let position := mul K u' (ofN K bins) in
    match trunc K position with
    | None => UB 21                                          (* float -> size_t undefined *)
    | Some index =>
      let inside := sub K position (ofN K index) in
      do lft <- bin_left p d index;
      do rgt <- bin_left p d (index + 1);
      let size := sub K rgt lft in
      Ok (add K lft (mul K inside size), index, mul K size (ofN K bins))
    end.

  (** vegas_icdf: maps all random numbers; returns (point, bins, weight) *)
  Fixpoint icdf_loop (p : pdf K) (d : N) (us : list K) (w : K) : res (list K * list N * K) :=
    match us with
    | [] => Ok ([], [], w)
    | u :: us' =>
      do r <- icdf1 p d u;
      let '(x, b, f) := r in
      do rest <- icdf_loop p (d + 1) us' (mul K w f);
      let '(xs, bs, w') := rest in
      Ok (x :: xs, b :: bs, w')
    end.
  Definition icdf (p : pdf K) (us : list K) : res (list K * list N * K) :=
    icdf_loop p 0 us (one K).

  (** smoothing of one dimension's data (needs at least two bins, as the C++ reads tmp[1]) *)
  Fixpoint smooth_mid (prev cur : K) (rest : list K) : list K :=
    match rest with
    | [] => [mul K half (add K prev cur)]
    | nxt :: rest' => div K (add K (add K prev cur) nxt) (ofN K 3) :: smooth_mid cur nxt rest'
    end.
  Definition smooth (l : list K) : res (list K) :=
    match l with
    | d0 :: d1 :: rest => Ok (mul K half (add K d0 d1) :: smooth_mid d0 d1 rest)
    | _ => UB 22
    end.
  Definition sum_from_first (l : list K) : K :=
    match l with [] => zero K | x :: l' => fold_left (add K) l' x end.

  Context (L : Libm K).

  (* importance of one smoothed entry; zero entries stay as they are *)
  Definition importance (alpha norm t : K) : K :=
    if neqb t (zero K) then
      let r := div K t norm in
      fpow L (div K (sub K r (one K)) (flog L r)) alpha
    else t.
  (* average_per_bin accumulates only over the non-zero smoothed entries, in bin order *)
  Fixpoint imp_sum (sm imp : list K) (acc : K) : K :=
    match sm, imp with
    | t :: sm', i :: imp' => imp_sum sm' imp' (if neqb t (zero K) then add K acc i else acc)
    | _, _ => acc
    end.

  (** inner scan: for (; this_bin < average; ++bin) this_bin += tmp[bin]; *)
  Fixpoint scan (fuel : nat) (tmp : list K) (avg : K) (bin : N) (tb : K) : res (N * K) :=
    if ltb K tb avg then
      match fuel with
      | O => UB 23
      | S f => do t <- getN 24 tmp bin; scan f tmp avg (bin + 1) (add K tb t)
      end
    else Ok (bin, tb).

  (** boundaries 1 .. bins-1 of one dimension; [k] = number still to produce *)
  Fixpoint redistribute (k : nat) (p : pdf K) (d : N) (tmp : list K) (avg : K) (bin : N) (tb : K)
    : res (list K) :=
    match k with
    | O => Ok []
    | S k' =>
      do r <- scan (S (length tmp)) tmp avg bin tb;
      let '(bin', tb') := r in
      if N.eqb bin' 0 then UB 25 else                        (* bin - 1 wraps around *)
      do previous <- bin_left p d (bin' - 1);
      do current <- bin_left p d bin';
      let tb2 := sub K tb' avg in
      let delta := mul K (sub K current previous) tb2 in
      do t <- getN 26 tmp (bin' - 1);
      let new_left := sub K current (div K delta t) in
      (* if (new_left < previous) new_left = previous;  -- the boundary stays inside the old bin *)
      let new_left := if ltb K new_left previous then previous else new_left in
      do rest <- redistribute k' p d tmp avg bin' tb2;
      Ok (new_left :: rest)
    end.

  (* boundaries of dimension d of the old grid: bins + 1 entries *)
  Definition dim_slice {A} (l : list A) (d : N) (n : N) : list A :=
    firstn (N.to_nat n) (skipn (N.to_nat (d * n)) l).

  (** one dimension of vegas_refine_pdf: the bins + 1 new boundaries *)
  Definition refine_dim (p : pdf K) (alpha : K) (data : list K) (d : N) : res (list K) :=
    let bins := pdf_bins p in
    let old := dim_slice (pdf_x p) d (bins + 1) in
    let raw := dim_slice data d bins in
    if negb (N.eqb (N.of_nat (length raw)) bins) then UB 27 else
    if negb (N.eqb (N.of_nat (length old)) (bins + 1)) then UB 28 else
    do sm <- smooth raw;
    let norm := sum_from_first sm in
    if eqb K norm (zero K) then Ok old else
    let imp := map (importance alpha norm) sm in
    let avg := div K (imp_sum sm imp (zero K)) (ofN K bins) in
    do inner <- redistribute (N.to_nat bins - 1) p d imp avg 0 (zero K);
    match old with
    | first :: _ => Ok (first :: inner ++ [last old (zero K)])
    | [] => UB 28
    end.

  Fixpoint refine_dims (p : pdf K) (alpha : K) (data : list K) (ds : list N) : res (list K) :=
    match ds with
    | [] => Ok []
    | d :: ds' =>
      do row <- refine_dim p alpha data d;
      do rest <- refine_dims p alpha data ds';
      Ok (row ++ rest)
    end.

  Definition refine_pdf (p : pdf K) (alpha : K) (data : list K) : res (pdf K) :=
    do x <- refine_dims p alpha data (iotaN 0 (N.to_nat (pdf_dims p)));
    Ok (mk_pdf (pdf_bins p) (pdf_dims p) x).
End VegasPdf.
